(* C02 — FEEL numbers compute as IEEE 754-2008 decimal128.
   The arithmetic kernel of the code is the C library decNumber; it is NOT transliterated.  The model is the
   IEEE specification itself (Base/DecRound.v: exact integer arithmetic, then one rounding to 34 digits
   half-even with emax 6144 / emin -6143, gradual underflow, clamp, overflow -> None), composed the way
   feel-number/src/number.rs composes the library calls (results of + - * / floor ceiling sqrt pow are reduced;
   neg abs trunc decimal() are not).  The tie to the C code is the correspondence check alone.
   ImplModel with its own Spec: modulo (f_mod_steps is what the code computes, f_mod what the property asks).
   exp, ln and non-integer / negative powers are not modelled (validated within 2 ulp against libmpdec).
   No proofs in this file. *)
From Coq Require Import ZArith NArith Bool List.
From DV Require Import Base.Dec Base.DecRound.
Import ListNotations.
Open Scope Z_scope.

(* FeelNumber operators and methods; None = the FEEL value null *)
Definition f_add (a b : dec) : option dec := reduced (dadd a b).
Definition f_sub (a b : dec) : option dec := reduced (dsub a b).
Definition f_mul (a b : dec) : option dec := reduced (dmul a b).
Definition f_div (a b : dec) : option dec := reduced (ddiv a b).
Definition f_neg (a : dec) : option dec := Some (dminus a).
Definition f_abs (a : dec) : option dec := Some (dabsolute a).
Definition f_floor (a : dec) : option dec := Some (dreduce (dfloor a)).
Definition f_ceiling (a : dec) : option dec := Some (dreduce (dceil a)).
Definition f_trunc (a : dec) : option dec := Some (dtrunc a).
Definition f_decimal (a : dec) (scale : Z) : option dec :=
  if (-6111 <=? scale) && (scale <? 6176) then Some (drescale a scale) else None.
Definition f_sqrt (a : dec) : option dec := reduced (dsqrt a).
Definition f_mod (a b : dec) : option dec := reduced (dmod a b).
Definition f_mod_steps (a b : dec) : option dec := reduced (dmod_steps a b).
Definition f_pow_nat (a : dec) (n : N) : option dec :=
  if dis_zero a && (n =? 0)%N then None else reduced (dpow_nat a n).
Definition f_even (a : dec) : bool := deven a.
Definition f_odd (a : dec) : bool := dodd a.
Definition f_cmp (a b : dec) : comparison := dcmp a b.

(* the class of the known finding `modulo-stepwise-rounding`: the stepwise computation differs from the exact one *)
Definition mod_known (a b : dec) : bool :=
  match f_mod a b, f_mod_steps a b with
  | Some x, Some y => negb (veqb x y)
  | None, None => false
  | _, _ => true
  end.
