(* C04 — property theorems only.  Proofs are in C04/Proofs.v, C04/DenoteProofs.v, C04/LinkC01.v; models in C04/Model.v, C04/Denote.v.
   run       = ImplModel: the recursive closure wiring of decision.rs / business_knowledge_model.rs / decision_service.rs
   denote    = Spec (C04/Denote.v): what an element denotes, written without the closure body (second half of this file)
   spec_step = the closure body tabulated once per node along a topological order of the requirement graph; it SHARES [body]
               with run, so C04_refines .. C04_spec_fixpoint (for both values of `fixed`) say that the recursion scheme,
               the fuel and the requesting path do not matter - not that the wiring is right
   eval      = ANY expression evaluator that uses its service call-back extensionally (teval, the evaluator of the
               correspondence check, is one: C04_teval_ext); fixed = true is the code after the fix: commits.
   topo_ok G order: `order` lists node ids, each after all its requirements (acyclicity); fuel >= |order| suffices.
   agree l a b: the input contexts a and b bind the names in l alike. *)
From Coq Require Import List NArith ZArith Bool Arith.
From DV Require Import C04.Model C04.Proofs C04.Denote C04.DenoteProofs.
From DV Require C01.Syntax C01.Spec C01.Impl.
From DV Require Import C04.LinkC01.
Import ListNotations.

(* extensional eval, reads_by_lookup eval: the two assumptions on an abstract evaluator, defined in C04/Denote.v:
   it uses its service call-back extensionally; it reads its scope by look-up only (env_eq a b: every name is bound alike in a and b) *)

(* recursive evaluation = topological evaluation on acyclic graphs, for every node kind, input context and sufficient fuel *)
Theorem C04_refines : forall eval, extensional eval -> forall fixed G order id f k inp out,
  topo_ok G order = true -> In id order -> length order <= f ->
  run eval fixed G f k id inp out = spec_step eval fixed G order k id inp out.
Proof. exact refines. Qed.
Theorem C04_invoke_refines : forall eval, extensional eval -> forall fixed G order id f inp,
  topo_ok G order = true -> In id order -> length order <= f ->
  impl_invoke eval fixed G f id inp = spec_invoke eval fixed G order id inp.
Proof. exact invoke_refines. Qed.
Theorem C04_fuel_sufficient : forall eval, extensional eval -> forall fixed G order id f1 f2 k inp out,
  topo_ok G order = true -> In id order -> length order <= f1 -> length order <= f2 ->
  run eval fixed G f1 k id inp out = run eval fixed G f2 k id inp out.
Proof. exact fuel_sufficient. Qed.
(* diamonds: a shared required decision has one value, whoever requires it *)
Theorem C04_diamond_agree : forall eval, extensional eval -> forall fixed G order shared f1 f2 inp out1 out2 name logic rk rd ri callable,
  topo_ok G order = true -> In shared order -> length order <= f1 -> length order <= f2 ->
  find shared G = Some (NDec name logic rk rd ri callable) ->
  lookup name (run eval fixed G f1 KDec shared inp out1) = lookup name (run eval fixed G f2 KDec shared inp out2).
Proof. exact diamond_agree. Qed.
(* input entries whose names do not occur in the requirement closure of the invoked element have no influence *)
Theorem C04_irrelevant_inputs : forall eval, extensional eval -> forall fixed G order id f inp1 inp2,
  topo_ok G order = true -> In id order -> length order <= f ->
  agree (closure_names G order id) inp1 inp2 ->
  impl_invoke eval fixed G f id inp1 = impl_invoke eval fixed G f id inp2.
Proof. exact irrelevant_inputs. Qed.
(* the Spec is a fixed point of the closure body: every node's entry is its closure run over the entries of its requirements *)
Theorem C04_spec_fixpoint : forall eval, extensional eval -> forall fixed G order id k inp out,
  topo_ok G order = true -> In id order ->
  spec_step eval fixed G order k id inp out = body eval fixed G (spec_step eval fixed G order) k id inp out.
Proof. exact table_fixpoint. Qed.
(* the first sentence of the property: the value of a decision is its logic evaluated in the scope that overlays its required
   inputs with the knowledge context (function values) and with each required decision's variable bound to that decision's own
   value (dec_binds); an input entry named like a knowledge / decision binding replaces it (interpretive choice, see props/c04.py) *)
Theorem C04_decision_scope : forall eval, extensional eval -> forall fixed G order id name logic rk rd ri callable inp out,
  topo_ok G order = true -> In id order -> find id G = Some (NDec name logic rk rd ri callable) ->
  let step := spec_step eval fixed G order in
  step KDec id inp out =
  set name (eval (svc_call G step callable)
                 (zip (inputs_into G ri inp []) (overwrite (zip (knowledge_ctx G step rk inp) (dec_binds G step rd inp)) inp)) logic) out.
Proof. exact decision_scope. Qed.
Theorem C04_decision_sees : forall eval, extensional eval -> forall fixed G order rk rd ri inp n, topo_ok G order = true ->
  let step := spec_step eval fixed G order in
  let kd := zip (knowledge_ctx G step rk inp) (dec_binds G step rd inp) in
  lookup n (zip (inputs_into G ri inp []) (overwrite kd inp)) =
  match (match lookup n (rev (dec_binds G step rd inp)) with Some v => Some v | None => lookup n (knowledge_ctx G step rk inp) end) with
  | Some v => Some (match lookup n inp with Some v' => v' | None => v end)
  | None => if mem n (input_names G ri) then Some (input_value n inp) else None
  end.
Proof. intros eval _. exact (decision_sees eval). Qed.
(* a decision service returns its output decisions' values (one output: the value; several: a context of them), the
   encapsulated and output decisions being evaluated on the input context the service builds *)
Theorem C04_service_outputs : forall eval, extensional eval -> forall fixed G order id name ins indecs encs outs inp out,
  topo_ok G order = true -> In id order -> find id G = Some (NSvc name ins indecs encs outs) ->
  let step := spec_step eval fixed G order in
  let e3 := service_input G step ins indecs inp in
  let results := zip (zip [] (dec_binds G step encs e3)) (dec_binds G step outs e3) in
  step KSvc id inp out =
  match dec_names G outs with
  | [n] => match lookup n results with Some v => set name v out | None => out end
  | ons => set name (VCtx (fold_left (fun acc n => match lookup n results with Some v => set n v acc | None => acc end) ons [])) out
  end.
Proof. exact service_outputs. Qed.
(* the evaluator used by the correspondence check meets the assumption, so the theorems apply to what is compared with the code *)
Theorem C04_teval_ext : extensional teval.
Proof. exact teval_ext_svc. Qed.
Theorem C04_refines_teval : forall G order id f inp, topo_ok G order = true -> In id order -> length order <= f ->
  impl_invoke teval true G f id inp = spec_invoke teval true G order id inp.
Proof. exact (invoke_refines teval teval_ext_svc true). Qed.
Theorem C04_irrelevant_inputs_teval : forall G order id f inp1 inp2, topo_ok G order = true -> In id order -> length order <= f ->
  agree (closure_names G order id) inp1 inp2 -> impl_invoke teval true G f id inp1 = impl_invoke teval true G f id inp2.
Proof. exact (irrelevant_inputs teval teval_ext_svc true). Qed.

(* the pinned commit: boxed context entries leaked into the enclosing context *)
Theorem C04_context_leak_orig_refuted :
  teval_orig (fun _ _ => VNull) [] leak_logic = VCtx [(2001%N, VCtx [(2002%N, vnum 42)]); (2003%N, vnum 42)] /\
  teval (fun _ _ => VNull) [] leak_logic = VCtx [(2001%N, VCtx [(2002%N, vnum 42)]); (2003%N, VNull)].
Proof. exact context_leak_orig_refuted. Qed.
(* the pinned commit: a knowledge model requiring a decision service received the service's value, not a function *)
Theorem C04_knowledge_service_orig_refuted :
  topo_ok G_ks O_ks = true /\ callable_ok G_ks = true /\
  impl_invoke teval true G_ks 6 5%N [(1%N, vnum 1)] = vnum 20 /\
  impl_invoke teval false G_ks 6 5%N [(1%N, vnum 1)] = VNull.
Proof. exact knowledge_service_orig_refuted. Qed.

Example C04_nonvacuous :
  topo_ok G_ex O_ex = true /\ callable_ok G_ex = true /\
  impl_invoke teval true G_ex 11 6%N [(1%N, vnum 2); (2%N, vnum 3)] = vnum 18 /\
  impl_invoke teval true G_ex 11 10%N [(1%N, vnum 2); (2%N, vnum 3); (3001%N, vnum 9)] =
    VCtx [(2001%N, vnum 54); (2002%N, VCtx [(6%N, VNull); (4%N, vnum 36)])] /\
  closure_names G_ex O_ex 6%N = [6; 4; 1; 3; 1; 2; 5; 2; 3; 1; 2]%N.
Proof. exact nonvacuous. Qed.

(* teval IS the FEEL evaluator model of C01 (C01/Spec.v eval_spec = the scope-stack machine C01/Impl.v run_impl that
   transliterates feel-evaluator/src/builders.rs) on the fragment both express: null, numbers (decimal128 data with the
   rounded + * of Base/DecRound.v on both sides), strings (+ concatenates), names, literal invocation f(a, b) of a
   knowledge-model function value (formal parameters set one after the other: of two equal names the last argument wins),
   boxed context with or without result entry (tr_e, tr_v, tr_env in C04/LinkC01.v; boxed invocation, relation and
   decision-service function values have no C01 counterpart).
   shared f sc e = true: the evaluation of e in sc stays inside that fragment within f levels — no other hypothesis:
   numbers of any size, string operands and repeated formal parameter names are covered.  The values are EQUAL
   (the sign of a zero included). *)
Theorem C04_teval_is_feel_eval : forall svc sc e fuel, shared TFUEL sc e = true -> 2 * TFUEL <= fuel ->
  C01.Spec.eval_spec fuel (tr_env sc) (tr_e e) = tr_v (teval svc sc e) /\
  fst (C01.Impl.run_impl fuel (tr_env sc) (tr_e e)) = tr_v (teval svc sc e) /\
  snd (C01.Impl.run_impl fuel (tr_env sc) (tr_e e)) = tr_env sc.
Proof. exact teval_is_feel_eval. Qed.

(* the same for every fuel f of the tiny evaluator, every enumeration function of C01's eval and every C01 stack that binds
   the names as the C04 scope does *)
Theorem C04_tev_is_feel_eval : forall cartf svc f sc S e g, shared f sc e = true -> 2 * f <= g -> srel sc S ->
  C01.Spec.eval cartf g S (tr_e e) = tr_v (fst (tev false f svc sc e)).
Proof. exact tev_is_feel_eval. Qed.

Example C04_teval_is_feel_eval_nonvacuous :
  shared TFUEL link_env link_e = true /\
  teval no_svc link_env link_e = vnum (-24) /\
  C01.Spec.eval_spec 120 (tr_env link_env) (tr_e link_e) = C01.Syntax.VNum (Base.Dec.of_Z (-24) 0) /\
  fst (C01.Impl.run_impl 120 (tr_env link_env) (tr_e link_e)) = C01.Syntax.VNum (Base.Dec.of_Z (-24) 0) /\
  shared TFUEL link_env (ECall 1%N [enum 5]) = true /\ teval no_svc link_env (ECall 1%N [enum 5]) = VNull /\
  shared TFUEL link_env (EAdd (EVar 2%N) ENull) = true /\ teval no_svc link_env (EAdd (EVar 2%N) ENull) = VNull.
Proof. exact link_nonvacuous. Qed.

(* the former corners, now agreement examples: the three places where an earlier tiny evaluator (integers in Z, no string
   case in +, the first of two equal formal parameter names bound) differed from C01 and from the real code are inside the
   hypotheses, and teval, C01 and the real code (dv model: "ab", 2, 1E+34, -0) answer alike:
   "a" + "b" (and string + number, string * string = null); f(1, 2) for formal parameters (x, x) and body x;
   a * a + 1 at a = 10^17 (35 digits, rounded to 1E+34) and a 35-digit literal (rounded half-even when read); -3 * 0 = -0 *)
Theorem C04_teval_feel_corners :
  (let e := EAdd (EStr [97%N]) (EStr [98%N]) in
   shared TFUEL [] e = true /\ teval no_svc [] e = VStr [97%N; 98%N] /\
   C01.Spec.eval_spec 5 (tr_env []) (tr_e e) = C01.Syntax.VStr [97%N; 98%N] /\
   teval no_svc [] (EAdd (EStr [97%N]) (enum 1)) = VNull /\ teval no_svc [] (EMul (EStr [97%N]) (EStr [98%N])) = VNull) /\
  (let sc := [(1%N, VBkm [10%N; 10%N] (EVar 10%N))] in let e := ECall 1%N [enum 1; enum 2] in
   shared TFUEL sc e = true /\ teval no_svc sc e = vnum 2 /\
   C01.Spec.eval_spec 5 (tr_env sc) (tr_e e) = C01.Syntax.VNum (Base.Dec.of_Z 2 0)) /\
  (let e := EAdd (EMul (enum (10 ^ 17)) (enum (10 ^ 17))) (enum 1) in
   shared TFUEL [] e = true /\ teval no_svc [] e = VNum (Base.Dec.mkdec false (10 ^ 33) 1) /\
   C01.Spec.eval_spec 5 (tr_env []) (tr_e e) = C01.Syntax.VNum (Base.Dec.mkdec false (10 ^ 33) 1) /\
   num_lit 99999999999999999999999999999999995 = Base.Dec.mkdec false (10 ^ 33) 2) /\
  (let e := EMul (enum (-3)) (enum 0) in
   shared TFUEL [] e = true /\ teval no_svc [] e = VNum (Base.Dec.mkdec true 0 0) /\
   C01.Spec.eval_spec 5 (tr_env []) (tr_e e) = C01.Syntax.VNum (Base.Dec.mkdec true 0 0)).
Proof. exact (conj str_concat_agrees (conj dup_params_agree (conj rounding_agrees negative_zero_agrees))). Qed.


(* ====================================================================================================================
   The independent Spec (C04/Denote.v; after the audit: "run and spec_step both call the same body").
   denote eval G id inp: a VALUE, by recursion over the acyclic graph (fuel = number of nodes + 1), defined without body / run /
   zip / overwrite / inputs_into.  The environment of a logic is a priority list read by lookup (first binding wins):
   supplied entries named like a required decision or knowledge function; required decisions bound to what they denote;
   required services and knowledge models (transitively) as function values; required inputs bound to the supplied value.
   ==================================================================================================================== *)

(* THE theorem: for every acyclic graph, every element, every input context and every sufficient fuel, the recursive closures
   (fixed = true: the code after the fix: commits) compute the denotation.  Over ANY evaluator that uses its service call-back
   extensionally and its scope by look-up. *)
Theorem C04_impl_is_denotation : forall eval, extensional eval -> reads_by_lookup eval -> forall G order id f inp,
  topo_ok G order = true -> In id order -> length order <= f ->
  impl_invoke eval true G f id inp = denote eval G id inp.
Proof. exact impl_is_denotation. Qed.

(* the semantic equation of a decision: the value of its logic in the environment of what its requirements denote, the call-back
   invoking what the callable services denote (dec_scope, callback, denote_svc = svc_sem over denote_dec: C04/Denote.v) *)
Theorem C04_denote_decision : forall eval, extensional eval -> reads_by_lookup eval ->
  forall G order id name logic rk rd ri callable inp, topo_ok G order = true -> In id order ->
  find id G = Some (NDec name logic rk rd ri callable) ->
  denote eval G id inp =
  eval (callback (denote_svc eval G) callable)
       (dec_scope G (know_dec (dfuel G) G rk) (denote_dec eval G) rd ri inp) logic.
Proof. exact denote_decision. Qed.
(* ... read name by name: who wins (lookup in the priority list), stated without any evaluator *)
Theorem C04_denote_scope : forall G kb dv rd ri inp n,
  let bound := rev (req_decisions G dv rd inp) ++ rev kb in
  lookup n (dec_scope G kb dv rd ri inp) =
  match lookup n bound with
  | Some v => Some (match lookup n inp with Some v' => v' | None => v end)
  | None => if mem n (input_names G ri) then Some (input_value n inp) else None
  end.
Proof. exact dec_scope_lookup. Qed.
(* the fuel of the denotation is irrelevant beyond the number of nodes *)
Theorem C04_denote_fuel_irrelevant : forall eval, extensional eval -> reads_by_lookup eval -> forall G order id inp g,
  topo_ok G order = true -> In id order -> length G <= g ->
  dval eval G (dfuel G) g id inp = denote_dec eval G id inp.
Proof. exact denote_fuel_irrelevant. Qed.
(* second sentence of the property, for the Spec: input entries outside the requirement closure do not influence what an element denotes *)
Theorem C04_denote_irrelevant_inputs : forall eval, extensional eval -> reads_by_lookup eval -> forall G order id inp1 inp2,
  topo_ok G order = true -> In id order ->
  agree (closure_names G order id) inp1 inp2 -> denote eval G id inp1 = denote eval G id inp2.
Proof. exact denote_irrelevant_inputs. Qed.

(* the evaluator of the correspondence check meets both assumptions *)
Theorem C04_teval_reads_by_lookup : reads_by_lookup teval.
Proof. exact teval_ext_env. Qed.
Theorem C04_impl_is_denotation_teval : forall G order id f inp, topo_ok G order = true -> In id order -> length order <= f ->
  impl_invoke teval true G f id inp = denote teval G id inp.
Proof. exact impl_is_denotation_teval. Qed.

(* the pinned variant fixed = false (for which C04_refines holds verbatim) does NOT compute the denotation:
   the witness of C04_knowledge_service_orig_refuted, under the hypotheses of C04_impl_is_denotation *)
Theorem C04_orig_is_not_denotation :
  topo_ok G_ks O_ks = true /\ In 5%N O_ks /\ (length O_ks <= 6)%nat /\
  denote teval G_ks 5%N [(1%N, vnum 1)] = vnum 20 /\
  impl_invoke teval true G_ks 6 5%N [(1%N, vnum 1)] = vnum 20 /\
  impl_invoke teval false G_ks 6 5%N [(1%N, vnum 1)] = VNull.
Proof. exact orig_is_not_denotation. Qed.

Example C04_denote_nonvacuous :
  denote teval G_ex 6%N [(1%N, vnum 2); (2%N, vnum 3)] = vnum 18 /\
  denote teval G_ex 10%N [(1%N, vnum 2); (2%N, vnum 3); (3001%N, vnum 9)] =
    VCtx [(2001%N, vnum 54); (2002%N, VCtx [(6%N, VNull); (4%N, vnum 36)])] /\
  denote teval G_ex 9%N [(1%N, vnum 2); (3%N, vnum 7)] = VCtx [(6%N, VNull); (4%N, vnum 14)] /\
  denote teval G_ex 8%N [(1001%N, vnum 4); (1002%N, vnum 5)] = vnum 25 /\
  denote teval G_ex 4%N [(1%N, vnum 2); (2%N, vnum 3); (3%N, vnum 10)] = vnum 20.
Proof. exact denote_nonvacuous. Qed.

(* ====================================================================================================================
   Fuel.  run answers `out` and tev answers null when their fuel is used up (values that look like results).  run_d / tev_d
   (C04/Denote.v) take WHAT is answered at fuel 0 as a parameter; a result that does not depend on it is no artefact.
   ==================================================================================================================== *)
(* closures: with more fuel than nodes listed in the order the answer at exhaustion is never used (for both values of `fixed`) *)
Theorem C04_run_fuel_sufficient : forall eval, extensional eval -> forall fixed G order id f k inp out dflt,
  topo_ok G order = true -> In id order -> length order < f ->
  run_d eval dflt fixed G f k id inp out = run eval fixed G f k id inp out.
Proof. exact run_fuel_unreached. Qed.
(* tiny evaluator: in a ranked scope (function values only under the names FN, the body under n calling only functions of level
   below lv n, nesting depth of bodies <= dmax, parameters and context keys outside FN, no function name read as a variable)
   fuel need e = edepth e + clevel e * dmax suffices: the answer at exhaustion is never used, more fuel changes nothing, the
   value is first-order.  ranked, first_order, need are decided by evaluation. *)
Theorem C04_tev_fuel_sufficient : forall FN lv dmax svc leaky f sc e, (forall i x, is_fun (svc i x) = false) ->
  ranked FN lv dmax sc = true -> first_order FN e = true -> need FN lv dmax e <= f ->
  (forall d, tev_d d leaky f svc sc e = tev leaky f svc sc e) /\
  (forall f', f <= f' -> tev leaky f' svc sc e = tev leaky f svc sc e) /\
  is_fun (fst (tev leaky f svc sc e)) = false.
Proof. exact tev_fuel_sufficient. Qed.
(* whole graphs: graph_fuel_ok lv dmax G (every logic and body first-order with need <= TFUEL = 60, bodies of depth <= dmax calling
   lower levels only, parameters outside the function names of G) and first-order input values: what an element denotes does not
   depend on the answer of the evaluator at exhaustion ... *)
Theorem C04_graph_fuel_sufficient : forall lv dmax G, graph_fuel_ok lv dmax G = true -> forall d id inp,
  first_order_env inp = true -> denote (teval_d d) G id inp = denote teval G id inp.
Proof. exact graph_fuel_sufficient. Qed.
(* ... and neither exhaustion answer (of the closures, of the evaluator) reaches the result of the ImplModel: this is the explicit
   form of "fuel >= number of nodes, logic within 60 levels" under which C04_refines_teval / C04_impl_is_denotation_teval speak
   of values and not of fuel artefacts *)
Theorem C04_fuel_sufficient_all : forall G order id f inp lv dmax dflt_run dflt_tev,
  topo_ok G order = true -> In id order -> length order < f ->
  graph_fuel_ok lv dmax G = true -> first_order_env inp = true ->
  invoke teval G (run_d teval dflt_run true G f) id inp = denote (teval_d dflt_tev) G id inp.
Proof. exact fuel_sufficient_all. Qed.
Example C04_graph_fuel_nonvacuous :
  graph_fuel_ok (level_of [(8%N, 1)]) 4 G_ex = true /\ graph_fuel_ok (level_of [(4%N, 1)]) 4 G_ks = true /\
  need (fn_name G_ex) (level_of [(8%N, 1)]) 4 (EInvoke 8%N [(1002%N, EVar 6%N); (1001%N, EVar 1%N)]) = 10 /\
  graph_fuel_ok (level_of [(1%N, 5)]) 4 [(1%N, NBkm 1%N [10%N] (ECall 1%N [EVar 10%N]) [] [])] = false /\
  auto_levels G_ex O_ex = [(8%N, 1); (7%N, 0)] /\ auto_dmax G_ex = 3 /\ graph_fuel_auto G_ex O_ex = true /\ graph_fuel_auto G_ks O_ks = true /\
  graph_fuel_auto [(1%N, NBkm 1%N [10%N] (ECall 1%N [EVar 10%N]) [] [])] [1%N] = false.
Proof. exact graph_fuel_nonvacuous. Qed.


Print Assumptions C04_refines.
Print Assumptions C04_invoke_refines.
Print Assumptions C04_fuel_sufficient.
Print Assumptions C04_diamond_agree.
Print Assumptions C04_irrelevant_inputs.
Print Assumptions C04_spec_fixpoint.
Print Assumptions C04_decision_scope.
Print Assumptions C04_decision_sees.
Print Assumptions C04_service_outputs.
Print Assumptions C04_teval_ext.
Print Assumptions C04_refines_teval.
Print Assumptions C04_irrelevant_inputs_teval.
Print Assumptions C04_context_leak_orig_refuted.
Print Assumptions C04_knowledge_service_orig_refuted.
Print Assumptions C04_nonvacuous.
Print Assumptions C04_teval_is_feel_eval.
Print Assumptions C04_tev_is_feel_eval.
Print Assumptions C04_teval_is_feel_eval_nonvacuous.
Print Assumptions C04_teval_feel_corners.
Print Assumptions C04_impl_is_denotation.
Print Assumptions C04_denote_decision.
Print Assumptions C04_denote_scope.
Print Assumptions C04_denote_fuel_irrelevant.
Print Assumptions C04_denote_irrelevant_inputs.
Print Assumptions C04_teval_reads_by_lookup.
Print Assumptions C04_impl_is_denotation_teval.
Print Assumptions C04_orig_is_not_denotation.
Print Assumptions C04_denote_nonvacuous.
Print Assumptions C04_run_fuel_sufficient.
Print Assumptions C04_tev_fuel_sufficient.
Print Assumptions C04_graph_fuel_sufficient.
Print Assumptions C04_fuel_sufficient_all.
Print Assumptions C04_graph_fuel_nonvacuous.
