(* C03 — proofs for the audit repairs (definitions in C03/Spec2.v):
   A. what the current code (dt_impl = dt_impl_gen false false) answers for EVERY input entry and EVERY value; the known finding
      null-literal-entry as theorems about it; on which (value, entry) pairs the answer is the Spec's;
   B. the refinement under the weakest table-level condition we can state (every evaluated entry agrees);
   C. PRIORITY / OUTPUT ORDER against the relational order `precedes`; D. contexts and defaults in the words of the property. *)
From Coq Require Import List ZArith NArith Bool Lia Permutation Sorted Relations RelationClasses.
From DV Require Import C03.Model C03.Proofs C03.Spec2.
Import ListNotations.

(* ================================================================== A. entries *)
Lemma item_tv_false_nonnull x i : item_nonnull i = true -> item_tv_gen false x i = item_tv x i.
Proof. destruct i as [a|o a|lo lc hi hc]; [destruct a; cbn; try discriminate|..]; reflexivity. Qed.

Lemma item_null_lit i : item_nonnull i = false -> i = ILit ANull.
Proof. destruct i as [a|o a|lo lc hi hc]; [destruct a|..]; cbn; try discriminate; reflexivity. Qed.

Theorem in_list_code_exact x l : in_list_gen false x l = code_in_list x l.
Proof. unfold code_in_list. induction l as [|i l IH]; cbn [in_list_gen before_null forallb existsb]; [reflexivity|].
  destruct (item_nonnull i) eqn:Hi.
  - rewrite (item_tv_false_nonnull x i Hi). destruct (item_tv_sat x i) as [t [-> Ht]]. cbn [existsb andb]. rewrite <- Ht.
    destruct t; cbn [is_tt orb]; try reflexivity; exact IH.
  - rewrite (item_null_lit i Hi). reflexivity. Qed.

Theorem in_test_code_exact x u : in_test false false (in_neg_list_gen false) x u = code_in_test x u.
Proof. destruct u as [|l|l]; cbn [in_test code_in_test].
  - destruct x; reflexivity.
  - apply in_list_code_exact.
  - unfold in_neg_list_gen. rewrite in_list_code_exact. destruct (code_in_list x l); reflexivity. Qed.

Lemma before_null_nonnull l : forallb item_nonnull l = true -> before_null l = l.
Proof. induction l as [|i l IH]; cbn [forallb before_null]; intros H; [reflexivity|].
  apply andb_true_iff in H. destruct H as [-> Hl]. rewrite (IH Hl). reflexivity. Qed.

(* an entry without the literal null: the code decides satisfaction, for every value (null, values of another kind) *)
Theorem entry_satisfied x u : utest_nonnull u = true ->
  in_test false false (in_neg_list_gen false) x u = of_bool (sat x u).
Proof. intros H. rewrite in_test_code_exact. destruct u as [|l|l]; cbn [utest_nonnull code_in_test sat] in *; [reflexivity| |];
  unfold code_in_list; rewrite (before_null_nonnull l H), H; destruct (existsb (sat_item x) l); reflexivity. Qed.

(* what satisfaction means, case by case (Spec) *)
Theorem sat_cases x :
  sat x UAny = true /\
  (forall a, sat x (UPos [ILit a]) = true <-> x = a) /\
  (forall o a, sat x (UPos [ICmp o a]) = true <->
     (exists v w, x = ANum v /\ a = ANum w /\ match o with CLt => v < w | CLe => v <= w | CGt => v > w | CGe => v >= w end)%Z \/
     (exists v w, x = AStr v /\ a = AStr w /\ match o with CLt => v < w | CLe => v <= w | CGt => v > w | CGe => v >= w end)%N) /\
  (forall lo lc hi hc, sat x (UPos [IRange lo lc hi hc]) = true <->
     (exists v l h, x = ANum v /\ lo = ANum l /\ hi = ANum h /\ (if lc then l <= v else l < v) /\ (if hc then v <= h else v < h))%Z \/
     (exists v l h, x = AStr v /\ lo = AStr l /\ hi = AStr h /\ (if lc then l <= v else l < v) /\ (if hc then v <= h else v < h))%N) /\
  (forall l, sat x (UPos l) = true <-> exists i, In i l /\ sat x (UPos [i]) = true) /\
  (forall l, sat x (UNeg l) = negb (sat x (UPos l))).
Proof. split; [reflexivity|]. split; [|split; [|split; [|split]]].
  - intros a. cbn [sat existsb sat_item]. rewrite orb_false_r. apply atom_eqb_eq.
  - intros o a. cbn [sat existsb]. rewrite orb_false_r. split.
    + intros H. destruct x, a; try (destruct o; discriminate H); [left|right]; eexists _, _; (split; [reflexivity|split; [reflexivity|]]);
        destruct o; cbn [sat_item lt_atom le_atom] in H;
        first [apply Z.ltb_lt in H | apply Z.leb_le in H | apply N.ltb_lt in H | apply N.leb_le in H]; lia.
    + intros [(v & w & -> & -> & H)|(v & w & -> & -> & H)]; destruct o; cbn [sat_item lt_atom le_atom];
        first [apply Z.ltb_lt | apply Z.leb_le | apply N.ltb_lt | apply N.leb_le]; lia.
  - intros lo lc hi hc. cbn [sat existsb]. rewrite orb_false_r. split.
    + intros H. cbn [sat_item] in H. apply andb_true_iff in H. destruct H as [H1 H2].
      destruct x, lo; try (destruct lc; discriminate H1); destruct hi; try (destruct hc; discriminate H2); [left|right];
        eexists _, _, _; (split; [reflexivity|split; [reflexivity|split; [reflexivity|]]]);
        destruct lc, hc; cbn [lt_atom le_atom] in H1, H2;
        (split; [first [apply Z.ltb_lt in H1 | apply Z.leb_le in H1 | apply N.ltb_lt in H1 | apply N.leb_le in H1]
                | first [apply Z.ltb_lt in H2 | apply Z.leb_le in H2 | apply N.ltb_lt in H2 | apply N.leb_le in H2]]); assumption.
    + intros [(v & l & h & -> & -> & -> & H1 & H2)|(v & l & h & -> & -> & -> & H1 & H2)]; cbn [sat_item]; apply andb_true_iff;
        (split; [destruct lc | destruct hc]); cbn [lt_atom le_atom];
        first [apply Z.ltb_lt | apply Z.leb_le | apply N.ltb_lt | apply N.leb_le]; assumption.
  - intros l. cbn [sat]. rewrite existsb_exists. split; intros [i [Hi Hs]]; exists i; (split; [exact Hi|]);
      cbn [sat existsb] in *; rewrite ?orb_false_r in *; exact Hs.
  - reflexivity. Qed.

(* a null input value: satisfies `-` and the literal null, no other literal, no comparison, no interval; hence every not(...)
   whose tests do not contain the literal null *)
Theorem sat_null_input :
  sat ANull UAny = true /\
  (forall i, sat_item ANull i = negb (item_nonnull i)) /\
  (forall l, sat ANull (UPos l) = negb (forallb item_nonnull l)) /\
  (forall l, sat ANull (UNeg l) = forallb item_nonnull l).
Proof. assert (H : forall i, sat_item ANull i = negb (item_nonnull i)).
  { intros [a|o a|lo lc hi hc]; [destruct a; reflexivity | destruct o, a; reflexivity | destruct lc, lo; reflexivity]. }
  assert (H2 : forall l, existsb (sat_item ANull) l = negb (forallb item_nonnull l)).
  { induction l as [|i l IH]; cbn [existsb forallb]; [reflexivity|]. rewrite H, IH, negb_andb. reflexivity. }
  split; [reflexivity|]. split; [exact H|]. split; [exact H2|]. intros l. cbn [sat]. rewrite H2, negb_involutive. reflexivity. Qed.

(* KNOWN FINDING null-literal-entry, about the model of the code as it is:
   the entry `null` and the entry not(null) match no value at all; a list of tests (negated or not) none of whose tests before
   its first null literal is satisfied is answered with null — the rule does not match, whatever follows the null literal *)
Theorem null_literal_entry_never_matches :
  (forall x, in_test false false (in_neg_list_gen false) x (UPos [ILit ANull]) = TN) /\
  (forall x, in_test false false (in_neg_list_gen false) x (UNeg [ILit ANull]) = TN) /\
  (forall x l1 l2, existsb (sat_item x) l1 = false ->
     in_test false false (in_neg_list_gen false) x (UPos (l1 ++ ILit ANull :: l2)) = TN /\
     in_test false false (in_neg_list_gen false) x (UNeg (l1 ++ ILit ANull :: l2)) = TN) /\
  (forall x ic l1 l2 xs ics es, existsb (sat_item x) l1 = false ->
     rule_matches false false (x :: xs) (ic :: ics) (UPos (l1 ++ ILit ANull :: l2) :: es) = false /\
     rule_matches false false (x :: xs) (ic :: ics) (UNeg (l1 ++ ILit ANull :: l2) :: es) = false).
Proof.
  assert (P : forall x l1 l2, existsb (sat_item x) l1 = false -> code_in_list x (l1 ++ ILit ANull :: l2) = TN).
  { intros x l1 l2 H. unfold code_in_list.
    assert (B : existsb (sat_item x) (before_null (l1 ++ ILit ANull :: l2)) = false).
    { induction l1 as [|i l1 IH]; cbn [app before_null existsb] in *; [reflexivity|].
      apply orb_false_iff in H. destruct H as [Hi Hl]. destruct (item_nonnull i); [|reflexivity].
      cbn [existsb]. rewrite Hi, (IH Hl). reflexivity. }
    rewrite B. rewrite forallb_app. cbn [forallb item_nonnull]. rewrite andb_false_r. reflexivity. }
  assert (Q : forall x l1 l2, existsb (sat_item x) l1 = false ->
     in_test false false (in_neg_list_gen false) x (UPos (l1 ++ ILit ANull :: l2)) = TN /\
     in_test false false (in_neg_list_gen false) x (UNeg (l1 ++ ILit ANull :: l2)) = TN).
  { intros x l1 l2 H. rewrite !in_test_code_exact. cbn [code_in_test]. rewrite (P x l1 l2 H). split; reflexivity. }
  split; [intros x; apply (Q x [] []); reflexivity|]. split; [intros x; apply (Q x [] []); reflexivity|]. split; [exact Q|].
  intros x ic l1 l2 xs ics es H. destruct (Q x l1 l2 H) as [Q1 Q2]. cbn [rule_matches]. unfold entry_true, neg. cbv iota.
  rewrite Q1, Q2. destruct (i_values ic); cbn [is_tt]; rewrite ?andb_false_r; split; reflexivity. Qed.

(* ... and the Spec it violates: the literal null is satisfied by the null value (and only by it), not(null) by every other value;
   what follows a null literal in a list counts *)
Theorem null_literal_spec :
  (forall x, sat x (UPos [ILit ANull]) = true <-> x = ANull) /\
  (forall x, sat x (UNeg [ILit ANull]) = true <-> x <> ANull) /\
  (forall x l1 l2, sat x (UPos (l1 ++ ILit ANull :: l2)) = existsb (sat_item x) l1 || atom_eqb x ANull || existsb (sat_item x) l2).
Proof. split; [|split].
  - intros x. cbn [sat existsb sat_item]. rewrite orb_false_r. apply atom_eqb_eq.
  - intros x. cbn [sat existsb sat_item]. rewrite orb_false_r. destruct x; cbn; split; congruence.
  - intros x l1 l2. cbn [sat]. rewrite existsb_app. cbn [existsb sat_item]. rewrite orb_assoc. reflexivity. Qed.

(* on which (value, entry) pairs the code's answer (matched / not matched) is the Spec's *)
Theorem entry_agrees_iff x u : is_tt (in_test false false (in_neg_list_gen false) x u) = sat x u <-> utest_agrees x u = true.
Proof. rewrite in_test_code_exact. destruct u as [|l|l]; cbn [code_in_test sat utest_agrees].
  - split; reflexivity.
  - unfold code_in_list, list_agrees. destruct (existsb (sat_item x) (before_null l)) eqn:B.
    + cbn [is_tt]. destruct (existsb (sat_item x) l); cbn; split; congruence.
    + destruct (forallb item_nonnull l); cbn [is_tt]; destruct (existsb (sat_item x) l); cbn; split; congruence.
  - unfold code_in_list. destruct (forallb item_nonnull l) eqn:N.
    + rewrite (before_null_nonnull l N). cbn [orb]. destruct (existsb (sat_item x) l); cbn; split; reflexivity.
    + cbn [orb]. destruct (existsb (sat_item x) (before_null l)); cbn [tv_not is_tt];
        destruct (existsb (sat_item x) l); cbn; split; congruence. Qed.

(* ================================================================== B. the refinement where every evaluated entry agrees *)
Lemma list_agrees_tt x l : list_agrees x l = true -> is_tt (in_list_gen false x l) = is_tt (in_list_gen true x l).
Proof. intros H. pose proof (entry_agrees_iff x (UPos l)) as [_ A]. cbn [utest_agrees in_test sat] in A. rewrite (A H).
  fold (in_list x l). rewrite in_list_sat, is_tt_of_bool. reflexivity. Qed.

Lemma utest_agrees_tt x u : utest_agrees x u = true ->
  is_tt (in_test false false (neg false false) x u) = is_tt (in_test false true (neg false true) x u).
Proof. intros H. pose proof (entry_agrees_iff x u) as [_ A]. unfold neg. cbv iota. rewrite (A H).
  fold in_neg_list. rewrite in_test_sat, is_tt_of_bool. reflexivity. Qed.

Lemma entry_agrees_true x ic e : entry_agrees x ic e = true -> entry_true false false x ic e = entry_true false true x ic e.
Proof. unfold entry_agrees, entry_true. intros H. apply andb_true_iff in H. destruct H as [H1 H2].
  rewrite (utest_agrees_tt x e H2). destruct (i_values ic) as [vs|]; [|reflexivity]. rewrite (list_agrees_tt x vs H1). reflexivity. Qed.

Lemma rule_matches_agreeing ics : forall xs es, all3 entry_agrees xs ics es = true ->
  rule_matches false false xs ics es = rule_matches false true xs ics es.
Proof. induction ics as [|ic ics IH]; intros [|x xs] [|e es]; cbn [all3 rule_matches]; try discriminate; try reflexivity.
  intros H. apply andb_true_iff in H. destruct H as [H1 H2]. rewrite (entry_agrees_true _ _ _ H1), (IH _ _ H2). reflexivity. Qed.

Lemma agreeing_parts t xs : agreeing t xs = true ->
  length xs = length (t_inputs t) /\ out_values_nonnull t = true /\
  forall r, In r (t_rules t) -> all3 entry_agrees xs (t_inputs t) (r_in r) = true.
Proof. unfold agreeing, arity_ok. intros H. apply andb_true_iff in H. destruct H as [H H3]. apply andb_true_iff in H. destruct H as [H1 H2].
  apply Nat.eqb_eq in H1. rewrite forallb_forall in H3. auto. Qed.

Lemma matching_agreeing t xs : agreeing t xs = true -> matching false false t xs = matching false true t xs.
Proof. intros H. destruct (agreeing_parts t xs H) as [_ [H2 H3]]. unfold matching. f_equal. apply map_ext_in. intros r Hr. unfold eval_rule.
  rewrite (rule_matches_agreeing (t_inputs t) xs (r_in r) (H3 r Hr)), (rule_outs_nonnull (t_outputs t) (r_out r) H2). reflexivity. Qed.

Theorem policy_refines_agreeing t xs : wf t = true -> agreeing t xs = true -> dt_impl t xs = dt_spec t xs.
Proof. intros Hwf H. destruct (agreeing_parts t xs H) as [H1 _].
  transitivity (dt_impl_nl t xs); [|apply policy_refines_nl; assumption].
  unfold dt_impl, dt_impl_nl, dt_impl_gen, hit_policy, prioritized, aggregate. rewrite (matching_agreeing t xs H). reflexivity. Qed.

(* a table without null literal is agreeing with every tuple of the right length *)
Lemma nonnull_list_agrees x l : forallb item_nonnull l = true -> list_agrees x l = true.
Proof. intros H. unfold list_agrees. rewrite (before_null_nonnull l H). apply eqb_reflx. Qed.

Lemma all3_agrees_nonnull ics : forall xs es, length xs = length ics -> length es = length ics ->
  forallb (fun ic => match i_values ic with None => true | Some vs => forallb item_nonnull vs end) ics = true ->
  forallb utest_nonnull es = true -> all3 entry_agrees xs ics es = true.
Proof. induction ics as [|ic ics IH]; intros [|x xs] [|e es]; cbn [length all3 forallb]; try discriminate; try reflexivity.
  intros L1 L2 Hi He. apply andb_true_iff in Hi. destruct Hi as [Hi1 Hi2]. apply andb_true_iff in He. destruct He as [He1 He2].
  rewrite IH by (assumption || lia). rewrite andb_true_r. unfold entry_agrees. apply andb_true_iff. split.
  - destruct (i_values ic) as [vs|]; [apply nonnull_list_agrees; exact Hi1 | reflexivity].
  - destruct e as [|l|l]; cbn [utest_agrees utest_nonnull] in *; [reflexivity | apply nonnull_list_agrees; exact He1 | rewrite He1; reflexivity]. Qed.

Theorem in_scope_agreeing t xs : wf t = true -> in_scope t xs = true -> agreeing t xs = true.
Proof. intros Hwf Hs. destruct (scope_parts t xs Hs) as [HL HN]. unfold agreeing, arity_ok. rewrite HL, Nat.eqb_refl. cbn [andb].
  unfold no_null_lits in HN. apply andb_true_iff in HN. destruct HN as [HN H3]. apply andb_true_iff in HN. destruct HN as [H1 H2].
  unfold out_values_nonnull. rewrite H2. cbn [andb]. apply forallb_forall. intros r Hr. rewrite forallb_forall in H3.
  apply all3_agrees_nonnull; [exact HL | apply (wf_fit t Hwf r Hr) | exact H1 | apply H3; exact Hr]. Qed.

(* the hypotheses are needed: outside `agreeing` (a null literal that is reached) and outside the arity condition the two differ *)
Definition t_nullcut : table :=
  {| t_policy := PFirst; t_inputs := [{| i_values := None |}];
     t_outputs := [{| o_name := None; o_values := None; o_default := None |}];
     t_rules := [{| r_in := [UPos [ILit (ANum 1); ILit ANull; ILit (ANum 2)]]; r_out := [ANum 7] |}] |}.

Theorem scope_hypotheses_needed :
  (* a null literal that is not reached does no harm: 1 is found before it *)
  (wf t_nullcut = true /\ in_scope t_nullcut [ANum 1%Z] = false /\ agreeing t_nullcut [ANum 1%Z] = true /\
   dt_impl t_nullcut [ANum 1%Z] = OOne (RAtom (ANum 7))) /\
  (* reached: the value 2 stands behind the null literal, the null value is the literal itself *)
  (agreeing t_nullcut [ANum 2%Z] = false /\ dt_spec t_nullcut [ANum 2%Z] = OOne (RAtom (ANum 7)) /\ dt_impl t_nullcut [ANum 2%Z] = onull /\
   agreeing t_nullcut [ANull] = false /\ dt_spec t_nullcut [ANull] = OOne (RAtom (ANum 7)) /\ dt_impl t_nullcut [ANull] = onull) /\
  (* reached without consequence: 3 satisfies no test, both say `no hit` *)
  (agreeing t_nullcut [ANum 3%Z] = true /\ dt_impl t_nullcut [ANum 3%Z] = onull /\ dt_spec t_nullcut [ANum 3%Z] = onull) /\
  (* more input values than input clauses (cannot happen in the evaluator: one value per input expression) *)
  (wf t_dash = true /\ arity_ok t_dash [ANum 1%Z; ANum 2%Z] = false /\
   dt_impl t_dash [ANum 1%Z; ANum 2%Z] = OOne (RAtom (ANum 7)) /\ dt_spec t_dash [ANum 1%Z; ANum 2%Z] = onull).
Proof. vm_compute. repeat split. Qed.

(* ================================================================== C. PRIORITY / OUTPUT ORDER against `precedes` *)
Lemma rank_lt_iff a b : cmp_key1 a b = Lt <-> rank_lt a b.
Proof. destruct a as [i|], b as [j|]; cbn [cmp_key1 rank_lt]; try (split; (discriminate || tauto || reflexivity)).
  rewrite Nat.compare_lt_iff. reflexivity. Qed.

Lemma cmp_key1_eq a b : cmp_key1 a b = Eq <-> a = b.
Proof. destruct a as [i|], b as [j|]; cbn [cmp_key1]; try (split; (discriminate || reflexivity)).
  rewrite Nat.compare_eq_iff. split; congruence. Qed.

Theorem precedes_iff_lt a b : cmp_keys a b = Lt <-> lex_lt a b.
Proof. split.
  - revert b. induction a as [|x a IH]; intros [|y b]; cbn [cmp_keys]; try discriminate.
    destruct (cmp_key1 x y) eqn:E; try discriminate.
    + apply cmp_key1_eq in E. subst y. intros H. apply lex_next. apply IH. exact H.
    + intros _. apply lex_here. apply rank_lt_iff. exact E.
  - induction 1 as [x y a b H | x a b H IH]; cbn [cmp_keys].
    + apply rank_lt_iff in H. rewrite H. reflexivity.
    + rewrite cmp_key1_refl. exact IH. Qed.

Lemma rank_lt_irrefl a : ~ rank_lt a a.
Proof. destruct a; cbn; lia. Qed.

Lemma lex_lt_irrefl a : ~ lex_lt a a.
Proof. intros H. apply precedes_iff_lt in H. rewrite cmp_keys_refl in H. discriminate. Qed.

Lemma cmp_key1_le_trans a b c : cmp_key1 a b <> Gt -> cmp_key1 b c <> Gt -> cmp_key1 a c <> Gt /\ (cmp_key1 a c = Eq -> cmp_key1 a b = Eq /\ cmp_key1 b c = Eq).
Proof. destruct a as [i|], b as [j|], c as [k|]; cbn [cmp_key1]; try (intros; split; [discriminate || congruence | intros; split; congruence]); try congruence.
  intros H1 H2. destruct (Nat.compare_spec i j), (Nat.compare_spec j k), (Nat.compare_spec i k); try congruence; try lia;
    (split; [discriminate | intros; split; (reflexivity || discriminate)]). Qed.

Lemma cmp_keys_le_trans : forall a b c, length a = length b -> length b = length c ->
  cmp_keys a b <> Gt -> cmp_keys b c <> Gt -> cmp_keys a c <> Gt.
Proof. induction a as [|x a IH]; intros [|y b] [|z c]; cbn [length cmp_keys]; try discriminate; try congruence.
  intros L1 L2 H1 H2.
  assert (A : cmp_key1 x y <> Gt) by (destruct (cmp_key1 x y); congruence).
  assert (B : cmp_key1 y z <> Gt) by (destruct (cmp_key1 y z); congruence).
  destruct (cmp_key1_le_trans x y z A B) as [C D].
  destruct (cmp_key1 x z) eqn:E; try congruence; try discriminate.
  destruct (D eq_refl) as [E1 E2]. rewrite E1 in H1. rewrite E2 in H2. apply (IH b c); (lia || assumption). Qed.

Section Winner.
Variable t : table.
Variable n : nat.
Let cmp (x y : rule) : comparison := cmp_keys (key t x) (key t y).
Let fits (l : list rule) : Prop := forall r, In r l -> length (key t r) = n.

Lemma cmp_flip x y : cmp x y = CompOpp (cmp y x).
Proof. apply cmp_keys_flip. Qed.

Lemma head_winner : forall l, fits l -> l <> [] ->
  exists w before after rest, l = before ++ w :: after /\ ssort cmp l = w :: rest /\
    (forall r, In r before -> cmp w r = Lt) /\ (forall r, In r l -> cmp r w <> Lt).
Proof. induction l as [|x l IH]; intros F Hne; [congruence|]. destruct l as [|x2 l'].
  - exists x, [], [], []. split; [reflexivity|]. split; [reflexivity|]. split; [intros r []|].
    intros r [<-|[]]. unfold cmp. rewrite cmp_keys_refl. discriminate.
  - destruct IH as (w & b & a & rest & El & Es & Hb & Hall); [intros r Hr; apply F; right; exact Hr | discriminate |].
    change (ssort cmp (x :: x2 :: l')) with (insert cmp x (ssort cmp (x2 :: l'))). rewrite Es. cbn [insert]. destruct (cmp x w) eqn:E.
    + exists x, [], (x2 :: l'), (w :: rest). split; [reflexivity|]. split; [reflexivity|]. split; [intros r []|].
      intros r [<-|Hr]; [unfold cmp; rewrite cmp_keys_refl; discriminate|].
      intros HL. assert (G : cmp x r = Gt) by (rewrite cmp_flip, HL; reflexivity).
      apply (cmp_keys_le_trans (key t x) (key t w) (key t r)); try exact G.
      * rewrite (F x (or_introl eq_refl)). symmetry. apply F. right. rewrite El. apply in_or_app. right. left. reflexivity.
      * rewrite (F r (or_intror Hr)). apply F. right. rewrite El. apply in_or_app. right. left. reflexivity.
      * fold (cmp x w). rewrite E. discriminate.
      * fold (cmp w r). rewrite cmp_flip. specialize (Hall r Hr). destruct (cmp r w); cbn; congruence.
    + exists x, [], (x2 :: l'), (w :: rest). split; [reflexivity|]. split; [reflexivity|]. split; [intros r []|].
      intros r [<-|Hr]; [unfold cmp; rewrite cmp_keys_refl; discriminate|].
      intros HL. assert (G : cmp x r = Gt) by (rewrite cmp_flip, HL; reflexivity).
      apply (cmp_keys_le_trans (key t x) (key t w) (key t r)); try exact G.
      * rewrite (F x (or_introl eq_refl)). symmetry. apply F. right. rewrite El. apply in_or_app. right. left. reflexivity.
      * rewrite (F r (or_intror Hr)). apply F. right. rewrite El. apply in_or_app. right. left. reflexivity.
      * fold (cmp x w). rewrite E. discriminate.
      * fold (cmp w r). rewrite cmp_flip. specialize (Hall r Hr). destruct (cmp r w); cbn; congruence.
    + exists w, (x :: b), a, (insert cmp x rest). split; [rewrite El; reflexivity|]. split; [reflexivity|]. split.
      * intros r [<-|Hr]; [rewrite cmp_flip, E; reflexivity | apply Hb; exact Hr].
      * intros r [<-|Hr]; [rewrite E; discriminate | apply Hall; exact Hr]. Qed.

(* the relation form of sortedness *)
Let R (x y : rule) : Prop := length (key t x) = n /\ length (key t y) = n /\ cmp x y <> Gt.

Lemma R_trans : forall x y z, R x y -> R y z -> R x z.
Proof. intros x y z (A1 & A2 & A3) (B1 & B2 & B3). split; [exact A1|]. split; [exact B2|].
  apply (cmp_keys_le_trans (key t x) (key t y) (key t z)); (congruence || assumption). Qed.

Lemma sorted_R l : fits l -> Sorted (fun x y => cmp x y <> Gt) l -> Sorted R l.
Proof. induction l as [|x l IH]; intros F S; [constructor|]. inversion S as [|x' l' S' H]; subst. constructor.
  - apply IH; [intros r Hr; apply F; right; exact Hr | exact S'].
  - destruct l as [|y l]; constructor. inversion H; subst. split; [apply F; left; reflexivity|]. split; [apply F; right; left; reflexivity | assumption]. Qed.

Lemma strongly_sorted l : fits l -> StronglySorted (fun x y => ~ precedes t y x) (ssort cmp l).
Proof. intros F.
  assert (F' : fits (ssort cmp l)) by (intros r Hr; apply F; apply (ssort_in cmp l r); exact Hr).
  assert (S : Sorted R (ssort cmp l)).
  { apply sorted_R; [exact F'|]. apply (ssort_sorted cmp). intros x y. apply cmp_keys_gt_flip. }
  assert (T : Transitive R) by (exact R_trans).
  apply Sorted_StronglySorted in S; [|exact T].
  clear F F'. induction S as [|x l' S IH H]; constructor; [exact IH|].
  rewrite Forall_forall in *. intros y Hy P. destruct (H y Hy) as (_ & _ & C). apply precedes_iff_lt in P. fold (cmp y x) in P.
  rewrite cmp_flip, P in C. apply C. reflexivity. Qed.
End Winner.

Lemma hits_key_length t xs r : wf t = true -> In r (hits t xs) -> length (key t r) = length (t_outputs t).
Proof. intros Hwf Hr. destruct (wf_parts t Hwf) as [_ [Hlen _]]. apply hits_in in Hr. destruct Hr as [Hr _]. destruct (Hlen r Hr) as [_ Ho].
  unfold key. rewrite map_length, combine_length, (spec_outs_length t r Ho). lia. Qed.

(* PRIORITY: the output of the matching rule that no matching rule precedes; of several such the first in rule order *)
Theorem priority_spec t xs : wf t = true -> in_scope t xs = true -> t_policy t = PPriority -> hits t xs <> [] ->
  exists w, priority_winner t (hits t xs) w /\ dt_impl t xs = OOne (spec_out t w).
Proof. intros Hwf Hs Hp Hne. destruct (hits t xs) as [|h hs] eqn:Eh; [congruence|].
  destruct (priority_result t xs Hwf Hs Hp h hs Eh) as (top & rest & Eb & Ed).
  destruct (head_winner t (length (t_outputs t)) (h :: hs)) as (w & b & a & rest' & El & Es & Hb & Hall).
  { intros r Hr. apply (hits_key_length t xs r Hwf). rewrite Eh. exact Hr. }
  { discriminate. }
  unfold by_priority in Eb. rewrite Es in Eb. injection Eb as <- <-. exists w. split; [|exact Ed].
  exists b, a. split; [exact El|]. split.
  - intros r Hr. apply precedes_iff_lt. apply Hb. exact Hr.
  - intros r Hr P. apply precedes_iff_lt in P. apply (Hall r); [rewrite El; apply in_or_app; right; right; exact Hr | exact P]. Qed.

Lemma app_cons_split {A} : forall (b1 : list A) w1 a1 b2 w2 a2, b1 ++ w1 :: a1 = b2 ++ w2 :: a2 -> length b1 < length b2 -> In w1 b2 /\ In w2 a1.
Proof. induction b1 as [|x b1 IH]; intros w1 a1 [|y b2] w2 a2 E L; cbn [length app] in *; try lia.
  - injection E as <- ->. split; [left; reflexivity | apply in_or_app; right; left; reflexivity].
  - injection E as <- E. destruct (IH w1 a1 b2 w2 a2 E ltac:(lia)) as [H1 H2]. split; [right; exact H1 | exact H2]. Qed.

(* the winner is determined by the relation: the Spec sentence has exactly one solution *)
Theorem priority_winner_unique t hs w1 w2 : priority_winner t hs w1 -> priority_winner t hs w2 -> w1 = w2.
Proof. intros (b1 & a1 & E1 & B1 & A1) (b2 & a2 & E2 & B2 & A2). rewrite E1 in E2.
  destruct (Nat.lt_trichotomy (length b1) (length b2)) as [L|[L|L]].
  - destruct (app_cons_split b1 w1 a1 b2 w2 a2 E2 L) as [H1 H2]. exfalso. apply (A1 w2 H2). apply B2. exact H1.
  - apply (f_equal (skipn (length b1))) in E2. rewrite L in E2 at 2.
    rewrite !skipn_app, !skipn_all, !Nat.sub_diag in E2. cbn in E2. congruence.
  - symmetry in E2. destruct (app_cons_split b2 w2 a2 b1 w1 a1 E2 L) as [H1 H2]. exfalso. apply (A2 w1 H2). apply B1. exact H1. Qed.

(* OUTPUT ORDER: the matching outputs rearranged so that no output stands behind one it precedes; outputs of equal priority
   (equal rank in every clause) keep their rule order *)
Theorem output_order_spec t xs : wf t = true -> in_scope t xs = true -> t_policy t = POutputOrder -> hits t xs <> [] ->
  exists l, dt_impl t xs = OMany (map (spec_out t) l) /\ Permutation (hits t xs) l /\
    StronglySorted (fun x y => ~ precedes t y x) l /\
    forall k, filter (fun r => key_eqb (key t r) k) l = filter (fun r => key_eqb (key t r) k) (hits t xs).
Proof. intros Hwf Hs Hp Hne. exists (by_priority t (hits t xs)). split; [apply output_order_result; assumption|].
  destruct (output_order_perm_sorted_stable t (hits t xs)) as (P & _ & St). split; [exact P|]. split; [|exact St].
  apply (strongly_sorted t (length (t_outputs t))). intros r Hr. apply (hits_key_length t xs r Hwf Hr). Qed.

(* equal priority = equal rank in every clause *)
Lemma key_eqb_eq a b : key_eqb a b = true <-> a = b.
Proof. unfold key_eqb. split.
  - revert b. induction a as [|x a IH]; intros [|y b]; cbn [cmp_keys length]; try discriminate; try reflexivity.
    destruct (cmp_key1 x y) eqn:E; try discriminate. apply cmp_key1_eq in E. subst y. intros H. f_equal. apply IH. exact H.
  - intros ->. rewrite cmp_keys_refl. apply Nat.eqb_refl. Qed.

(* ================================================================== D. contexts and defaults in the words of the property *)
Lemma nodupb_NoDup l : nodupb l = true -> NoDup l.
Proof. induction l as [|x l IH]; cbn [nodupb]; intros H; [constructor|]. apply andb_true_iff in H. destruct H as [H1 H2]. constructor; [|apply IH; exact H2].
  intros Hin. apply negb_true_iff in H1. assert (existsb (N.eqb x) l = true); [|congruence]. apply existsb_exists. exists x. split; [exact Hin | apply N.eqb_refl]. Qed.

Lemma in_combine_names ocs : forall (vals : list atom) j oc v k,
  forallb (fun oc => is_some (o_name oc)) ocs = true ->
  nth_error ocs j = Some oc -> nth_error vals j = Some v -> o_name oc = Some k ->
  In (k, v) (combine (flat_some (map o_name ocs)) vals).
Proof. induction ocs as [|oc0 ocs IH]; intros vals j oc v k Hn Ho Hv Hk; [destruct j; discriminate|].
  cbn [forallb] in Hn. apply andb_true_iff in Hn. destruct Hn as [Hn0 Hn]. cbn [map flat_some].
  destruct (o_name oc0) as [k0|] eqn:E0; [|discriminate]. destruct vals as [|v0 vals]; [destruct j; discriminate|].
  destruct j as [|j]; cbn [nth_error] in *.
  - injection Ho as <-. injection Hv as <-. rewrite E0 in Hk. injection Hk as <-. left. reflexivity.
  - right. apply (IH vals j oc v k); assumption. Qed.

(* a table with several output clauses: the component named k of the context built from one value per clause is the value of
   the clause named k *)
Theorem context_components t vals : wf t = true -> 1 < length (t_outputs t) -> length vals = length (t_outputs t) ->
  compose t vals = RCtx (mk_ctx (names t) vals) /\
  forall j oc v k, nth_error (t_outputs t) j = Some oc -> nth_error vals j = Some v -> o_name oc = Some k ->
    ctx_get k (mk_ctx (names t) vals) = Some v.
Proof. intros Hwf H1 HL. split.
  - unfold compose. destruct vals as [|a [|b l]]; cbn [length] in HL; try reflexivity; lia.
  - intros j oc v k Ho Hv Hk. destruct (wf_parts t Hwf) as [_ [_ Hn]]. destruct (Hn H1) as [Hnl Hnd].
    apply compound_keyed_by_names; [apply nodupb_NoDup; exact Hnd | lia |].
    unfold names. apply (in_combine_names (t_outputs t) vals j oc v k); try assumption.
    unfold wf in Hwf. apply andb_true_iff in Hwf. destruct Hwf as [_ H3]. apply Nat.ltb_lt in H1. rewrite H1 in H3.
    apply andb_true_iff in H3. tauto. Qed.

(* the output of one rule: the single value, or the context of the (filtered) output entries keyed by the component names *)
Theorem rule_output_spec t r : wf t = true -> In r (t_rules t) ->
  (forall oc, t_outputs t = [oc] -> spec_out t r = RAtom (out_filter (o_values oc) (hd ANull (r_out r)))) /\
  (1 < length (t_outputs t) -> exists es, spec_out t r = RCtx es /\
     forall j oc a k, nth_error (t_outputs t) j = Some oc -> nth_error (r_out r) j = Some a -> o_name oc = Some k ->
       ctx_get k es = Some (out_filter (o_values oc) a)).
Proof. intros Hwf Hr. destruct (wf_parts t Hwf) as [_ [Hlen _]]. destruct (Hlen r Hr) as [_ Ho]. split.
  - intros oc E. unfold spec_out, spec_outs. rewrite E in *. destruct (r_out r) as [|a [|b l]]; cbn [length] in Ho; try discriminate. reflexivity.
  - intros H1. unfold spec_out. pose proof (spec_outs_length t r Ho) as HL.
    destruct (context_components t (spec_outs t r) Hwf H1 HL) as [-> C]. eexists. split; [reflexivity|].
    intros j oc a k Hoc Ha Hk. apply (C j oc _ k Hoc); [|exact Hk]. unfold spec_outs.
    rewrite nth_error_map. clear - Hoc Ha. revert j Hoc Ha. generalize (t_outputs t) (r_out r).
    induction l as [|o l IH]; intros [|b l0] [|j] H1 H2; cbn [nth_error combine option_map] in *; try discriminate.
    + injection H1 as <-. injection H2 as <-. reflexivity.
    + apply IH; assumption. Qed.

(* no rule matches: the default output entry, null when none is defined; several output clauses: the context of the default
   entries keyed by the component names (null for a clause without default), null when no clause defines one *)
Theorem default_spec_words t : wf t = true ->
  (forall oc, t_outputs t = [oc] -> spec_default t = RAtom (match o_default oc with Some d => d | None => ANull end)) /\
  (1 < length (t_outputs t) -> (forall oc, In oc (t_outputs t) -> o_default oc = None) -> spec_default t = RAtom ANull) /\
  (1 < length (t_outputs t) -> (exists oc, In oc (t_outputs t) /\ o_default oc <> None) -> exists es, spec_default t = RCtx es /\
     forall j oc k, nth_error (t_outputs t) j = Some oc -> o_name oc = Some k ->
       ctx_get k es = Some (match o_default oc with Some d => d | None => ANull end)).
Proof. intros Hwf. split; [|split].
  - intros oc E. unfold spec_default. rewrite E. reflexivity.
  - intros H1 Hnone. unfold spec_default. destruct (t_outputs t) as [|oc [|oc2 ocs]] eqn:E; cbn [length] in H1; try lia.
    replace (existsb (fun oc => is_some (o_default oc)) (oc :: oc2 :: ocs)) with false; [reflexivity|].
    symmetry. apply not_true_is_false. intros H. apply existsb_exists in H. destruct H as [o [Hin Hs]]. rewrite (Hnone o Hin) in Hs. discriminate.
  - intros H1 [o [Hin Hd]]. unfold spec_default.
    assert (Hex : existsb (fun oc => is_some (o_default oc)) (t_outputs t) = true).
    { apply existsb_exists. exists o. split; [exact Hin|]. destruct (o_default o); [reflexivity|congruence]. }
    assert (HL : length (map (fun oc => or_null (o_default oc)) (t_outputs t)) = length (t_outputs t)) by apply map_length.
    destruct (context_components t _ Hwf H1 HL) as [_ C].
    destruct (t_outputs t) as [|oc [|oc2 ocs]] eqn:E; cbn [length] in H1; try lia. rewrite Hex. eexists. split; [reflexivity|].
    intros j oc' k Hoc Hk. apply (C j oc' _ k Hoc); [|exact Hk]. rewrite nth_error_map, Hoc. reflexivity. Qed.

(* ================================================================== non-vacuity of the widened scope *)
Theorem nonvacuous_untyped :
  in_scope t_ex [ANull; AStr 2] = true /\ typed t_ex [ANull; AStr 2] = false /\ length (hits t_ex [ANull; AStr 2]) = 1 /\
  dt_impl t_ex [ANull; AStr 2] = dt_spec t_ex [ANull; AStr 2] /\ dt_impl t_ex [ANull; AStr 2] = OOne (RCtx [(0%N, AStr 4); (1%N, ANum 2)]) /\
  in_scope t_ex [AStr 7; AStr 2] = true /\ typed t_ex [AStr 7; AStr 2] = false /\
  dt_impl t_ex [AStr 7; AStr 2] = OOne (RCtx [(0%N, AStr 4); (1%N, ANum 2)]) /\
  priority_winner t_ex (hits t_ex [ANum 5%Z; AStr 2]) (nth 2 (t_rules t_ex) (Build_rule [] [])).
Proof. repeat (split; [vm_compute; reflexivity|]).
  exists (firstn 2 (t_rules t_ex)), []. split; [vm_compute; reflexivity|]. split.
  - intros r [<-|[<-|[]]]; unfold precedes; vm_compute; apply lex_here; cbn; lia.
  - intros r [].
Qed.
