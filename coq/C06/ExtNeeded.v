(* C06 — extended expression language: every pair of parentheses of the minimal rendering is needed, for ALL trees.

   Soundness direction of the extended Spec parser as a counting invariant (the argument of C06.Needed, carried over to the
   binders, collections and argument lists): whatever token list the parser turns into a tree t (any fuel, any parentheses)
   contains at least as many opening parentheses as the minimal rendering of t.  New with respect to the operator fragment:
   the open constructs (if, for, some, every, function) need parentheses exactly when a continuing token follows, so the
   count of an operand depends on what follows it (`fol`): an operand that was closed by a parenthesis has one to spare
   whatever follows; an open one is followed by what its right edge left over, and after an open construct that is a token
   that continues nothing.  Owner: prover-C06. *)
From Coq Require Import List NArith Bool Arith Lia.
From DV Require Import C06.Model C06.ModelExt C06.ExtBase C06.ExtRound.
Import ListNotations.

(* ------------------------------------------------------------------ counting opening parentheses *)

Definition eis_lp (x : etok) : nat := match x with XLp => 1 | _ => 0 end.

Lemma ecount_cons : forall x r, ecount_lp (x :: r) = eis_lp x + ecount_lp r.
Proof. intros x r. unfold ecount_lp. cbn [filter]. destruct x; reflexivity. Qed.

Lemma ecount_app : forall a b, ecount_lp (a ++ b) = ecount_lp a + ecount_lp b.
Proof. intros a b. unfold ecount_lp. rewrite filter_app, app_length. reflexivity. Qed.

Lemma ecount_nil : ecount_lp [] = 0.
Proof. reflexivity. Qed.

Fixpoint lsum (l : list nat) : nat := match l with [] => 0 | x :: r => x + lsum r end.

Lemma ecount_flat : forall l : list (list etok), ecount_lp (flat_map (fun y => XComma :: y) l) = lsum (map ecount_lp l).
Proof.
  induction l as [|x r IH]; [reflexivity|]. cbn [flat_map map lsum]. cbn [app]. rewrite ecount_cons, ecount_app, IH. reflexivity.
Qed.

Lemma ecount_sepc : forall l : list (list etok), ecount_lp (sepc l) = lsum (map ecount_lp l).
Proof. intros [|x r]; [reflexivity|]. cbn [sepc map lsum]. rewrite ecount_app, ecount_flat. reflexivity. Qed.

(* the number of opening parentheses of the rendering of t in a position (m, f) / of its tokens without parentheses around it *)
Definition need (m : nat) (f : bool) (t : etree) : nat := ecount_lp (rat m f t).
Definition needb (f : bool) (t : etree) : nat := ecount_lp (ebody f t).

Definition cnt_kv (q : N * etree) : nat := need 0 false (snd q).
Definition cnt_fd (q : N * etree * option etree) : nat :=
  need 0 false (snd (fst q)) + match snd q with Some e => need 0 false e | None => 0 end.

Lemma need_eq : forall m f t, need m f t = if paren m f t then S (needb false t) else needb f t.
Proof.
  intros m f t. unfold need, needb. rewrite rat_eq. destruct (paren m f t); [|reflexivity].
  rewrite ecount_cons, ecount_app, ecount_cons, ecount_nil. cbn [eis_lp]. lia.
Qed.

Lemma count_kvr : forall q, ecount_lp (kvr q) = cnt_kv q.
Proof. intros [k e]. reflexivity. Qed.

Lemma count_qdr : forall q, ecount_lp (qdr q) = cnt_kv q.
Proof. intros [k e]. reflexivity. Qed.

Lemma count_fdr : forall q, ecount_lp (fdr q) = cnt_fd q.
Proof.
  intros [[v e] [e2|]]; unfold cnt_fd, need; cbn [fdr fst snd].
  - rewrite ecount_cons, ecount_app, ecount_cons. cbn [eis_lp]. lia.
  - rewrite ecount_cons. cbn [eis_lp]. lia.
Qed.

Lemma count_pars : forall ps : list (N * option N), lsum (map ecount_lp (map par_tok ps)) = 0.
Proof. induction ps as [|p ps IH]; [reflexivity|]. cbn [map lsum]. rewrite IH. reflexivity. Qed.

Lemma sum_map_ext : forall (A : Type) (f g : A -> nat) l, (forall x, f x = g x) -> lsum (map f l) = lsum (map g l).
Proof. intros A f g l H. induction l as [|x r IH]; [reflexivity|]. cbn [map lsum]. rewrite H, IH. reflexivity. Qed.

Lemma needb_eq : forall f t, needb f t =
  match t with
  | EAtom _ => 0
  | EBin o l r => need (lc o) true l + need (rc o) f r
  | ENeg x => need r_neg f x
  | EBtw x lo hi => need lv_between true x + (need 0 false lo + need rc_between f hi)
  | EInst x _ => need c_post true x
  | EPath x _ => need c_post true x
  | EFilt x i => need c_post true x + need 0 false i
  | ECall g args => need c_post true g + S (lsum (map (need 0 false) args))
  | ECallN g a args => need c_post true g + S (lsum (map cnt_kv (a :: args)))
  | EIf c a b => need 0 false c + (need 0 false a + need 0 false b)
  | EFor d ds b => lsum (map cnt_fd (d :: ds)) + need 0 false b
  | EQuant q d ds b => lsum (map cnt_kv (d :: ds)) + need 0 false b
  | EFun ps b => S (need 0 false b)
  | EList l => lsum (map (need 0 false) l)
  | ECtx l => lsum (map cnt_kv l)
  | ERange o _ _ _ => match o with RoP => 1 | _ => 0 end
  end.
Proof.
  intros f t. unfold needb. destruct t; cbn [ebody];
    repeat (rewrite ?ecount_app, ?ecount_cons, ?ecount_nil, ?ecount_sepc, ?map_map; cbn [eis_lp]);
    try (unfold need; lia).
  - rewrite (sum_map_ext _ _ _ _ count_kvr). unfold need. lia.
  - rewrite (sum_map_ext _ _ _ _ count_fdr). unfold need. lia.
  - rewrite (sum_map_ext _ _ _ _ count_qdr). destruct q; cbn [quant_tok eis_lp]; unfold need; lia.
  - rewrite <- map_map, count_pars. unfold need. lia.
  - rewrite (sum_map_ext _ _ _ _ count_kvr). lia.
  - destruct o, c; reflexivity.
Qed.

(* ------------------------------------------------------------------ the flag costs at most one pair *)

Lemma need_flag_of : forall t, needb true t <= S (needb false t) -> forall m, need m true t <= S (need m false t).
Proof.
  intros t H m. rewrite !need_eq. unfold paren. destruct (low t); [lia|]. destruct (elvl t <? m); lia.
Qed.

Lemma needb_flag : forall t, needb true t <= S (needb false t).
Proof.
  induction t using etree_ind'; rewrite !needb_eq; try lia.
  - pose proof (need_flag_of _ IHt2 (rc o)). lia.
  - pose proof (need_flag_of _ IHt r_neg). lia.
  - pose proof (need_flag_of _ IHt3 rc_between). lia.
Qed.

Lemma need_le : forall m f t, need m f t <= S (needb false t).
Proof.
  intros m f t. rewrite need_eq. destruct (paren m f t); [lia|]. destruct f; [apply needb_flag|lia].
Qed.

(* a continuing token follows *)
Definition fol (ts : list etok) : bool :=
  match ts with
  | t :: _ => match elbp t with Some _ => true | None => false end
  | [] => false
  end.

Lemma fol_stops0 : forall rest, estops 0 rest -> fol rest = false.
Proof. intros [|t r] H; [reflexivity|]. cbn in *. destruct (elbp t); [lia|reflexivity]. Qed.

Lemma low_edge_fol : forall l ts, low l = true -> edge_stops l ts -> fol ts = false.
Proof.
  intros l ts Hl He. apply fol_stops0. unfold edge_stops in He. destruct l; try discriminate Hl; exact He.
Qed.

(* ------------------------------------------------------------------ the invariant *)

Definition m12 (m : nat) : nat := Nat.min m 12.

(* what a successful call of the expression parser guarantees *)
Definition Sound (pe : nat -> list etok -> epres) : Prop := forall m ts t rest, pe m ts = Some (t, rest) ->
  estops m rest /\ ecount_lp rest + need (m12 m) (fol rest) t <= ecount_lp ts.

(* the state of the operator loop: l is the operand read so far, c the number of opening parentheses consumed for it;
   either l was closed by a parenthesis (one to spare), or it is open and the next token was left over by its right edge *)
Definition LInv (m na : nat) (l : etree) (c : nat) (ts : list etok) : Prop :=
  (S (needb false l) <= c /\ na = 0) \/
  (needb (fol ts) l <= c /\ na = ena0 l /\ edge_stops l ts /\ (low l = true \/ m12 m <= elvl l)).

Lemma LInv_final : forall m na l c ts, LInv m na l c ts -> need (m12 m) (fol ts) l <= c.
Proof.
  intros m na l c ts [[H _]|[H [_ [He Hm]]]].
  - pose proof (need_le (m12 m) (fol ts) l). lia.
  - rewrite need_eq. unfold paren. destruct (low l) eqn:El.
    + rewrite (low_edge_fol _ _ El He) in *. exact H.
    + destruct Hm as [Hm|Hm]; [discriminate Hm|]. destruct (Nat.ltb_spec (elvl l) (m12 m)); [lia|exact H].
Qed.

(* an open operand in front of a continuing token is not one of the open constructs, and its count is the one with the flag set *)
Lemma open_inv : forall l c tk p r, elbp tk = Some p ->
  needb (fol (tk :: r)) l <= c -> edge_stops l (tk :: r) -> needb true l <= c /\ low l = false.
Proof.
  intros l c tk p r Hp H He. cbn [fol] in H. rewrite Hp in H. split; [exact H|].
  destruct (low l) eqn:El; [|reflexivity]. pose proof (low_edge_fol _ _ El He) as Hf. cbn [fol] in Hf. rewrite Hp in Hf. discriminate Hf.
Qed.

(* the left operand of the next operator needs no more parentheses than were consumed *)
Lemma left_op : forall m na l c o r, LInv m na l c (XOp o :: r) -> (is_non o && (lv o =? na)) = false -> need (lc o) true l <= c.
Proof.
  intros m na l c o r [[H _]|[H [Hna [He _]]]] Hb.
  - pose proof (need_le (lc o) true l). lia.
  - destruct (open_inv l c (XOp o) (lv o) r eq_refl H He) as [H1 Hlow].
    rewrite need_eq. unfold paren. rewrite Hlow.
    destruct (Nat.ltb_spec (elvl l) (lc o)) as [Hlt|Hge]; [exfalso|exact H1].
    unfold edge_stops in He. subst na.
    destruct l; try discriminate Hlow; cbn [eedge ena0 elvl estops elbp] in *;
      try (destruct o; lvls; lia).
    destruct o, o0; lvls; cbn in Hb; try discriminate Hb; lia.
Qed.

Lemma left_between : forall m na l c r, LInv m na l c (XBetween :: r) -> need lv_between true l <= c.
Proof.
  intros m na l c r [[H _]|[H [Hna [He _]]]].
  - pose proof (need_le lv_between true l). lia.
  - destruct (open_inv l c XBetween lv_between r eq_refl H He) as [H1 Hlow].
    rewrite need_eq. unfold paren. rewrite Hlow.
    destruct (Nat.ltb_spec (elvl l) lv_between) as [Hlt|Hge]; [exfalso|exact H1].
    unfold edge_stops in He.
    destruct l; try discriminate Hlow; cbn [eedge elvl estops elbp] in *; lvls; try lia.
    destruct o; lvls; lia.
Qed.

Lemma left_post : forall m na l c tk p r, LInv m na l c (tk :: r) -> elbp tk = Some p -> 13 <= p -> need c_post true l <= c.
Proof.
  intros m na l c tk p r [[H _]|[H [Hna [He _]]]] Hp Hp13.
  - pose proof (need_le c_post true l). lia.
  - destruct (open_inv l c tk p r Hp H He) as [H1 Hlow].
    rewrite need_eq. unfold paren. rewrite Hlow.
    destruct (Nat.ltb_spec (elvl l) c_post) as [Hlt|Hge]; [exfalso|exact H1].
    unfold edge_stops in He.
    destruct l; try discriminate Hlow; cbn [eedge elvl estops] in *; rewrite ?Hp in He; lvls; try lia.
    destruct o; lvls; lia.
Qed.

Lemma rc_m12 : forall o, m12 (rc o) = rc o.
Proof. destruct o; reflexivity. Qed.

Lemma estops_false : forall m tk p r, elbp tk = Some p -> (m <=? p) = false -> estops m (tk :: r).
Proof. intros m tk p r Hp Hm. cbn [estops]. rewrite Hp. apply Nat.leb_gt in Hm. exact Hm. Qed.

(* ------------------------------------------------------------------ sequences *)

Definition ItSound {A : Type} (it : list etok -> option (A * list etok)) (cnt : A -> nat) : Prop :=
  forall ts x rest, it ts = Some (x, rest) -> ecount_lp rest + cnt x <= ecount_lp ts.

Lemma sepseq_sound : forall (A : Type) (it : list etok -> option (A * list etok)) cnt, ItSound it cnt ->
  forall g ts x xs rest, sepseq it g ts = Some (x, xs, rest) -> ecount_lp rest + lsum (map cnt (x :: xs)) <= ecount_lp ts.
Proof.
  intros A it cnt Hs. induction g as [|g IH]; intros ts x xs rest H; [discriminate H|].
  cbn [sepseq] in H. destruct (it ts) as [[y r0]|] eqn:E; [|discriminate H]. pose proof (Hs _ _ _ E) as Hy.
  assert (Hdef : Some (y, @nil A, r0) = Some (x, xs, rest) -> ecount_lp rest + lsum (map cnt (x :: xs)) <= ecount_lp ts).
  { intro H0. inversion H0; subst. cbn [map lsum]. lia. }
  destruct r0 as [|t0 r1]; [exact (Hdef H)|]. destruct t0; try exact (Hdef H).
  destruct (sepseq it g r1) as [[[z zs] r']|] eqn:E2; [|discriminate H]. inversion H; subst.
  apply IH in E2. rewrite ecount_cons in Hy. cbn [map lsum eis_lp] in *. lia.
Qed.

Lemma it_expr_sound : forall pe, Sound pe -> ItSound (it_expr pe) (need 0 false).
Proof.
  intros pe Hs ts x rest H. unfold it_expr in H. destruct (Hs _ _ _ _ H) as [H1 H2].
  rewrite (fol_stops0 _ H1) in H2. exact H2.
Qed.

Lemma pe0_sound : forall pe, Sound pe -> forall ts x rest, pe 0 ts = Some (x, rest) ->
  estops 0 rest /\ ecount_lp rest + need 0 false x <= ecount_lp ts.
Proof.
  intros pe Hs ts x rest H. destruct (Hs _ _ _ _ H) as [H1 H2]. rewrite (fol_stops0 _ H1) in H2. split; assumption.
Qed.

Lemma it_kv_sound : forall pe, Sound pe -> ItSound (it_kv pe) cnt_kv.
Proof.
  intros pe Hs ts x rest H. unfold it_kv in H. destruct ts as [|t ts']; [discriminate H|]. destruct t; try discriminate H.
  destruct (pe 0 ts') as [[e r']|] eqn:E; [|discriminate H]. inversion H; subst.
  destruct (pe0_sound _ Hs _ _ _ E) as [_ H2]. rewrite ecount_cons. unfold cnt_kv. cbn [eis_lp snd]. lia.
Qed.

Lemma it_qdom_sound : forall pe, Sound pe -> ItSound (it_qdom pe) cnt_kv.
Proof.
  intros pe Hs ts x rest H. unfold it_qdom in H. destruct ts as [|t ts']; [discriminate H|]. destruct t; try discriminate H.
  destruct (pe 0 ts') as [[e r']|] eqn:E; [|discriminate H]. inversion H; subst.
  destruct (pe0_sound _ Hs _ _ _ E) as [_ H2]. rewrite ecount_cons. unfold cnt_kv. cbn [eis_lp snd]. lia.
Qed.

Lemma it_fdom_sound : forall pe, Sound pe -> ItSound (it_fdom pe) cnt_fd.
Proof.
  intros pe Hs ts x rest H. unfold it_fdom in H. destruct ts as [|t ts']; [discriminate H|]. destruct t; try discriminate H.
  destruct (pe 0 ts') as [[e r1]|] eqn:E; [|discriminate H].
  destruct (pe0_sound _ Hs _ _ _ E) as [_ H2]. rewrite ecount_cons. cbn [eis_lp].
  assert (Hdef : Some (n, e, @None etree, r1) = Some (x, rest) -> ecount_lp rest + cnt_fd x <= 0 + ecount_lp ts').
  { intro H0. inversion H0; subst. unfold cnt_fd. cbn [fst snd]. lia. }
  destruct r1 as [|t1 r2]; [exact (Hdef H)|]. destruct t1; try exact (Hdef H).
  destruct (pe 0 r2) as [[e2 r3]|] eqn:E2; [|discriminate H]. inversion H; subst.
  destruct (pe0_sound _ Hs _ _ _ E2) as [_ H3]. rewrite ecount_cons in H2. unfold cnt_fd. cbn [fst snd eis_lp] in *. lia.
Qed.

Lemma it_par_sound : ItSound it_par (fun _ => 0).
Proof.
  intros ts x rest H. unfold it_par in H. destruct ts as [|t ts']; [discriminate H|]. destruct t; try discriminate H.
  inversion H; subst. rewrite ecount_cons. cbn [eis_lp]. lia.
Qed.

Lemma lsum_zero : forall (A : Type) (l : list A), lsum (map (fun _ => 0) l) = 0.
Proof. induction l as [|x r IH]; [reflexivity|]. cbn [map lsum]. exact IH. Qed.

(* ------------------------------------------------------------------ the operator loop keeps the invariant *)

Lemma loop_sound : forall pe, Sound pe -> forall g m na l ts c t rest, LInv m na l c ts ->
  eloop pe g m na l ts = Some (t, rest) ->
  estops m rest /\ ecount_lp rest + need (m12 m) (fol rest) t <= c + ecount_lp ts.
Proof.
  intros pe Hs. induction g as [|g IH]; intros m na l ts c t rest HI H; [discriminate H|].
  cbn [eloop] in H.
  assert (Hstop : forall ts0, estops m ts0 -> LInv m na l c ts0 -> Some (l, ts0) = Some (t, rest) ->
                  estops m rest /\ ecount_lp rest + need (m12 m) (fol rest) t <= c + ecount_lp ts0).
  { intros ts0 Hst HI0 E. inversion E; subst. split; [exact Hst|]. pose proof (LInv_final _ _ _ _ _ HI0). lia. }
  destruct ts as [|tk ts']; [apply Hstop; [exact I|exact HI|exact H]|].
  destruct tk; try (apply Hstop; [exact I|exact HI|exact H]).
  - (* binary operator *)
    destruct (m <=? lv o) eqn:Em; [|apply Hstop; [eapply estops_false; [reflexivity|exact Em]|exact HI|exact H]].
    destruct (is_non o && (lv o =? na)) eqn:En; [discriminate H|].
    destruct (pe (rc o) ts') as [[x r']|] eqn:E; [|discriminate H].
    destruct (Hs _ _ _ _ E) as [Hst Hc]. rewrite rc_m12 in Hc.
    pose proof (left_op _ _ _ _ _ _ HI En) as Hl.
    apply (IH _ _ _ _ (c + ecount_lp ts' - ecount_lp r')) in H.
    + destruct H as [H1 H2]. split; [exact H1|]. rewrite ecount_cons. cbn [eis_lp]. lia.
    + right. rewrite needb_eq. split; [lia|]. split; [reflexivity|]. split; [exact Hst|]. right.
      cbn [elvl]. apply Nat.leb_le in Em. unfold m12. lia.
  - (* invocation *)
    destruct (m <=? lv_post) eqn:Em; [|apply Hstop; [eapply estops_false; [reflexivity|exact Em]|exact HI|exact H]].
    pose proof (left_post _ _ _ _ _ lv_post _ HI eq_refl ltac:(lvls; lia)) as Hl.
    assert (Hm : m12 m <= lv_post) by (apply Nat.leb_le in Em; unfold m12; lia).
    assert (HC : match sepseq (it_expr pe) g ts' with
                 | Some (a, args, XRp :: r') => eloop pe g m 0 (ECall l (a :: args)) r'
                 | _ => None
                 end = Some (t, rest) ->
                 estops m rest /\ ecount_lp rest + need (m12 m) (fol rest) t <= c + ecount_lp (XLp :: ts')).
    { intro H0. destruct (sepseq (it_expr pe) g ts') as [[[a args] r0]|] eqn:E; [|discriminate H0].
      destruct r0 as [|t0 r']; [discriminate H0|]. destruct t0; try discriminate H0.
      pose proof (sepseq_sound _ _ _ (it_expr_sound _ Hs) _ _ _ _ _ E) as Hc. rewrite ecount_cons in Hc. cbn [eis_lp] in Hc.
      apply (IH _ _ _ _ (c + S (ecount_lp ts') - ecount_lp r')) in H0.
      - destruct H0 as [H1 H2]. split; [exact H1|]. rewrite ecount_cons. cbn [eis_lp]. lia.
      - right. rewrite needb_eq. split; [lia|]. split; [reflexivity|]. split; [exact I|]. right. exact Hm. }
    destruct ts' as [|t1 ts1]; [apply HC; exact H|]. destruct t1; try (apply HC; exact H).
    + (* no argument *)
      apply (IH _ _ _ _ (S c)) in H.
      * destruct H as [H1 H2]. split; [exact H1|]. rewrite !ecount_cons. cbn [eis_lp]. lia.
      * right. rewrite needb_eq. cbn [map lsum]. split; [lia|]. split; [reflexivity|]. split; [exact I|]. right. exact Hm.
    + (* named arguments *)
      destruct (sepseq (it_kv pe) g (XKey n :: ts1)) as [[[a args] r0]|] eqn:E; [|discriminate H].
      destruct r0 as [|t0 r']; [discriminate H|]. destruct t0; try discriminate H.
      pose proof (sepseq_sound _ _ _ (it_kv_sound _ Hs) _ _ _ _ _ E) as Hc. rewrite ecount_cons in Hc. cbn [eis_lp] in Hc.
      apply (IH _ _ _ _ (c + S (ecount_lp (XKey n :: ts1)) - ecount_lp r')) in H.
      * destruct H as [H1 H2]. split; [exact H1|]. rewrite (ecount_cons XLp). cbn [eis_lp]. lia.
      * right. rewrite needb_eq. split; [lia|]. split; [reflexivity|]. split; [exact I|]. right. exact Hm.
  - (* filter *)
    destruct (m <=? lv_post) eqn:Em; [|apply Hstop; [eapply estops_false; [reflexivity|exact Em]|exact HI|exact H]].
    destruct (pe 0 ts') as [[x r0]|] eqn:E; [|discriminate H].
    destruct r0 as [|t0 r']; [discriminate H|]. destruct t0; try discriminate H.
    destruct (pe0_sound _ Hs _ _ _ E) as [_ Hc]. rewrite ecount_cons in Hc. cbn [eis_lp] in Hc.
    pose proof (left_post _ _ _ _ _ lv_post _ HI eq_refl ltac:(lvls; lia)) as Hl.
    apply (IH _ _ _ _ (c + ecount_lp ts' - ecount_lp r')) in H.
    + destruct H as [H1 H2]. split; [exact H1|]. rewrite ecount_cons. cbn [eis_lp]. lia.
    + right. rewrite needb_eq. split; [lia|]. split; [reflexivity|]. split; [exact I|]. right.
      cbn [elvl]. apply Nat.leb_le in Em. unfold m12. lia.
  - (* between *)
    destruct (m <=? lv_between) eqn:Em; [|apply Hstop; [eapply estops_false; [reflexivity|exact Em]|exact HI|exact H]].
    destruct (pe 0 ts') as [[lo r0]|] eqn:E; [|discriminate H].
    destruct r0 as [|t0 r1]; [discriminate H|]. destruct t0; try discriminate H.
    destruct (pe rc_between r1) as [[hi r']|] eqn:E2; [|discriminate H].
    destruct (pe0_sound _ Hs _ _ _ E) as [_ Hc]. rewrite ecount_cons in Hc. cbn [eis_lp] in Hc.
    destruct (Hs _ _ _ _ E2) as [Hst2 Hc2]. change (m12 rc_between) with rc_between in Hc2.
    pose proof (left_between _ _ _ _ _ HI) as Hl.
    apply (IH _ _ _ _ (c + ecount_lp ts' - ecount_lp r')) in H.
    + destruct H as [H1 H2]. split; [exact H1|]. rewrite ecount_cons. cbn [eis_lp]. lia.
    + right. rewrite needb_eq. split; [lia|]. split; [reflexivity|]. split; [exact Hst2|]. right.
      cbn [elvl]. apply Nat.leb_le in Em. unfold m12. lia.
  - (* instance of *)
    destruct (m <=? lv_inst) eqn:Em; [|apply Hstop; [eapply estops_false; [reflexivity|exact Em]|exact HI|exact H]].
    pose proof (left_post _ _ _ _ _ lv_inst _ HI eq_refl ltac:(lvls; lia)) as Hl.
    apply (IH _ _ _ _ c) in H.
    + destruct H as [H1 H2]. split; [exact H1|]. rewrite ecount_cons. cbn [eis_lp]. lia.
    + right. rewrite needb_eq. split; [lia|]. split; [reflexivity|]. split; [exact I|]. right.
      cbn [elvl]. apply Nat.leb_le in Em. unfold m12. lvls. lia.
  - (* path *)
    destruct (m <=? lv_post) eqn:Em; [|apply Hstop; [eapply estops_false; [reflexivity|exact Em]|exact HI|exact H]].
    pose proof (left_post _ _ _ _ _ lv_post _ HI eq_refl ltac:(lvls; lia)) as Hl.
    apply (IH _ _ _ _ c) in H.
    + destruct H as [H1 H2]. split; [exact H1|]. rewrite ecount_cons. cbn [eis_lp]. lia.
    + right. rewrite needb_eq. split; [lia|]. split; [reflexivity|]. split; [exact I|]. right.
      cbn [elvl]. apply Nat.leb_le in Em. unfold m12. lia.
Qed.

(* ------------------------------------------------------------------ the operand forms: the loop starts in a state that satisfies the invariant *)

Lemma range_head_inv : forall ts a b c r, range_head ts = Some (a, b, c, r) -> ts = XAtom a :: XEll :: XAtom b :: rclose_tok c :: r.
Proof.
  intros ts a b c r H. unfold range_head in H.
  destruct ts as [|t1 ts]; [discriminate H|]. destruct t1; try discriminate H.
  destruct ts as [|t2 ts]; [discriminate H|]. destruct t2; try discriminate H.
  destruct ts as [|t3 ts]; [discriminate H|]. destruct t3; try discriminate H.
  destruct ts as [|t4 ts]; [discriminate H|]. destruct t4; cbn [rclose_of] in H; try discriminate H; inversion H; subst; reflexivity.
Qed.

Lemma range_count : forall a b c r, ecount_lp (XAtom a :: XEll :: XAtom b :: rclose_tok c :: r) = ecount_lp r.
Proof. intros. rewrite !ecount_cons. destruct c; reflexivity. Qed.

(* an operand form that is not one of the open constructs, with the number of parentheses it took *)
Lemma LInv_closed_form : forall m l c r, needb true l = needb false l -> needb false l <= c -> eedge l = None -> elvl l = 16 -> LInv m 0 l c r.
Proof.
  intros m l c r Hf Hc He Hl. right. split; [destruct (fol r); lia|]. split; [destruct l; try reflexivity; discriminate He|].
  split; [unfold edge_stops; rewrite He; exact I|]. right. rewrite Hl. unfold m12. lia.
Qed.

Lemma binder_tail_sound : forall (A : Type) pe (it : list etok -> option (A * list etok)) cnt is_sep mk g r l r2,
  Sound pe -> ItSound it cnt -> binder_tail pe g it is_sep mk r = Some (l, r2) ->
  exists d ds b, l = mk d ds b /\ estops 0 r2 /\ ecount_lp r2 + (lsum (map cnt (d :: ds)) + need 0 false b) <= ecount_lp r.
Proof.
  intros A pe it cnt is_sep mk g r l r2 Hs Hi H. unfold binder_tail in H.
  destruct (sepseq it g r) as [[[d ds] r0]|] eqn:E; [|discriminate H].
  destruct r0 as [|s r1]; [discriminate H|]. destruct (is_sep s); [|discriminate H].
  destruct (pe 0 r1) as [[b r3]|] eqn:E2; [|discriminate H]. inversion H; subst.
  pose proof (sepseq_sound _ _ _ Hi _ _ _ _ _ E) as Hc. rewrite ecount_cons in Hc.
  destruct (pe0_sound _ Hs _ _ _ E2) as [H1 H2].
  exists d, ds, b. split; [reflexivity|]. split; [exact H1|]. lia.
Qed.

Lemma LInv_low : forall m l c r, low l = true -> (forall f, needb f l <= c) -> estops 0 r -> LInv m 0 l c r.
Proof.
  intros m l c r Hl Hc Hs. right. split; [apply Hc|]. split; [destruct l; try discriminate Hl; reflexivity|].
  split; [|left; exact Hl]. unfold edge_stops. destruct l; try discriminate Hl; exact Hs.
Qed.

Lemma prefix_sound : forall pe, Sound pe -> forall g m ts l r, eprefix pe g ts = Some (l, r) ->
  exists c, c + ecount_lp r = ecount_lp ts /\ LInv m 0 l c r.
Proof.
  intros pe Hs g m ts l r H. unfold eprefix in H. destruct ts as [|tk ts']; [discriminate H|].
  destruct tk; try discriminate H.
  - (* atom *)
    inversion H; subst. exists 0. split; [rewrite ecount_cons; reflexivity|].
    apply LInv_closed_form; [reflexivity|rewrite needb_eq; lia|reflexivity|reflexivity].
  - (* unary minus *)
    destruct o; try discriminate H.
    destruct (pe c_neg ts') as [[x r']|] eqn:E; [|discriminate H]. inversion H; subst.
    destruct (Hs _ _ _ _ E) as [Hst Hc]. change (m12 c_neg) with r_neg in Hc.
    exists (ecount_lp ts' - ecount_lp r). split; [rewrite ecount_cons; cbn [eis_lp]; lia|].
    right. rewrite needb_eq. split; [lia|]. split; [reflexivity|]. split; [exact Hst|]. right.
    cbn [elvl]. unfold m12. lvls. lia.
  - (* parenthesis: a range or a group *)
    destruct (range_head ts') as [[[[a b] c0] r']|] eqn:Er.
    + inversion H; subst. rewrite (range_head_inv _ _ _ _ _ Er). exists 1.
      split; [rewrite ecount_cons, range_count; reflexivity|].
      apply LInv_closed_form; [reflexivity|rewrite needb_eq; lia|reflexivity|reflexivity].
    + destruct (pe 0 ts') as [[x r0]|] eqn:E; [|discriminate H].
      destruct r0 as [|t0 r']; [discriminate H|]. destruct t0; try discriminate H. inversion H; subst.
      destruct (pe0_sound _ Hs _ _ _ E) as [_ Hc]. rewrite ecount_cons in Hc. cbn [eis_lp] in Hc.
      exists (S (ecount_lp ts') - ecount_lp r). split; [rewrite ecount_cons; cbn [eis_lp]; lia|].
      left. rewrite need_eq in Hc. unfold paren in Hc.
      replace (if low l then false else elvl l <? 0) with false in Hc by (destruct (low l); reflexivity).
      split; [lia|reflexivity].
  - (* bracket: a range or a list *)
    destruct (range_head ts') as [[[[a b] c0] r']|] eqn:Er.
    + inversion H; subst. rewrite (range_head_inv _ _ _ _ _ Er). exists 0.
      split; [rewrite ecount_cons, range_count; reflexivity|].
      apply LInv_closed_form; [reflexivity|rewrite needb_eq; lia|reflexivity|reflexivity].
    + assert (HI : match sepseq (it_expr pe) g ts' with
                   | Some (x, xs, XRb :: r') => Some (EList (x :: xs), r')
                   | _ => None
                   end = Some (l, r) -> exists c, c + ecount_lp r = ecount_lp (XLb :: ts') /\ LInv m 0 l c r).
      { intro H0. destruct (sepseq (it_expr pe) g ts') as [[[x xs] r0]|] eqn:E; [|discriminate H0].
        destruct r0 as [|t0 r']; [discriminate H0|]. destruct t0; try discriminate H0. inversion H0; subst.
        pose proof (sepseq_sound _ _ _ (it_expr_sound _ Hs) _ _ _ _ _ E) as Hc. rewrite ecount_cons in Hc. cbn [eis_lp] in Hc.
        exists (ecount_lp ts' - ecount_lp r). split; [rewrite ecount_cons; cbn [eis_lp]; lia|].
        apply LInv_closed_form; [reflexivity|rewrite needb_eq; lia|reflexivity|reflexivity]. }
      destruct ts' as [|t1 ts1]; [apply HI; exact H|]. destruct t1; try (apply HI; exact H).
      destruct (range_start ts1); [apply HI; exact H|]. inversion H; subst. exists 0.
      split; [rewrite !ecount_cons; reflexivity|]. apply LInv_closed_form; [reflexivity|rewrite needb_eq; cbn [map lsum]; lia|reflexivity|reflexivity].
  - (* reversed bracket: a range *)
    destruct (range_head ts') as [[[[a b] c0] r']|] eqn:Er; [|discriminate H].
    inversion H; subst. rewrite (range_head_inv _ _ _ _ _ Er). exists 0.
    split; [rewrite ecount_cons, range_count; reflexivity|].
    apply LInv_closed_form; [reflexivity|rewrite needb_eq; lia|reflexivity|reflexivity].
  - (* context *)
    assert (HI : match sepseq (it_kv pe) g ts' with
                 | Some (x, xs, XRc :: r') => Some (ECtx (x :: xs), r')
                 | _ => None
                 end = Some (l, r) -> exists c, c + ecount_lp r = ecount_lp (XLc :: ts') /\ LInv m 0 l c r).
    { intro H0. destruct (sepseq (it_kv pe) g ts') as [[[x xs] r0]|] eqn:E; [|discriminate H0].
      destruct r0 as [|t0 r']; [discriminate H0|]. destruct t0; try discriminate H0. inversion H0; subst.
      pose proof (sepseq_sound _ _ _ (it_kv_sound _ Hs) _ _ _ _ _ E) as Hc. rewrite ecount_cons in Hc. cbn [eis_lp] in Hc.
      exists (ecount_lp ts' - ecount_lp r). split; [rewrite ecount_cons; cbn [eis_lp]; lia|].
      apply LInv_closed_form; [reflexivity|rewrite needb_eq; lia|reflexivity|reflexivity]. }
    destruct ts' as [|t1 ts1]; [apply HI; exact H|]. destruct t1; try (apply HI; exact H).
    inversion H; subst. exists 0.
    split; [rewrite !ecount_cons; reflexivity|]. apply LInv_closed_form; [reflexivity|rewrite needb_eq; cbn [map lsum]; lia|reflexivity|reflexivity].
  - (* if *)
    destruct (pe 0 ts') as [[c0 r0]|] eqn:E1; [|discriminate H].
    destruct r0 as [|t0 r1]; [discriminate H|]. destruct t0; try discriminate H.
    destruct (pe 0 r1) as [[a r0]|] eqn:E2; [|discriminate H].
    destruct r0 as [|t0 r2]; [discriminate H|]. destruct t0; try discriminate H.
    destruct (pe 0 r2) as [[b r3]|] eqn:E3; [|discriminate H]. inversion H; subst.
    destruct (pe0_sound _ Hs _ _ _ E1) as [_ H1]. destruct (pe0_sound _ Hs _ _ _ E2) as [_ H2]. destruct (pe0_sound _ Hs _ _ _ E3) as [Hst H3].
    rewrite ecount_cons in H1, H2. cbn [eis_lp] in H1, H2.
    exists (ecount_lp ts' - ecount_lp r). split; [rewrite ecount_cons; cbn [eis_lp]; lia|].
    apply LInv_low; [reflexivity| |exact Hst]. intro f. rewrite needb_eq. lia.
  - (* for *)
    destruct (binder_tail_sound _ _ _ _ _ _ _ _ _ _ Hs (it_fdom_sound _ Hs) H) as [d [ds [b [El [Hst Hc]]]]]. subst l.
    exists (ecount_lp ts' - ecount_lp r). split; [rewrite ecount_cons; cbn [eis_lp]; lia|].
    apply LInv_low; [reflexivity| |exact Hst]. intro f. rewrite needb_eq. lia.
  - (* some *)
    destruct (binder_tail_sound _ _ _ _ _ _ _ _ _ _ Hs (it_qdom_sound _ Hs) H) as [d [ds [b [El [Hst Hc]]]]]. subst l.
    exists (ecount_lp ts' - ecount_lp r). split; [rewrite ecount_cons; cbn [eis_lp]; lia|].
    apply LInv_low; [reflexivity| |exact Hst]. intro f. rewrite needb_eq. lia.
  - (* every *)
    destruct (binder_tail_sound _ _ _ _ _ _ _ _ _ _ Hs (it_qdom_sound _ Hs) H) as [d [ds [b [El [Hst Hc]]]]]. subst l.
    exists (ecount_lp ts' - ecount_lp r). split; [rewrite ecount_cons; cbn [eis_lp]; lia|].
    apply LInv_low; [reflexivity| |exact Hst]. intro f. rewrite needb_eq. lia.
  - (* function definition *)
    destruct ts' as [|t1 ts1]; [discriminate H|]. destruct t1; try discriminate H.
    assert (HI : match sepseq it_par g ts1 with
                 | Some (p, ps, XRp :: r1) => match pe 0 r1 with Some (b, r2) => Some (EFun (p :: ps) b, r2) | None => None end
                 | _ => None
                 end = Some (l, r) -> exists c, c + ecount_lp r = ecount_lp (XFun :: XLp :: ts1) /\ LInv m 0 l c r).
    { intro H0. destruct (sepseq it_par g ts1) as [[[p ps] r0]|] eqn:E; [|discriminate H0].
      destruct r0 as [|t0 r1]; [discriminate H0|]. destruct t0; try discriminate H0.
      destruct (pe 0 r1) as [[b r2]|] eqn:E2; [|discriminate H0]. inversion H0; subst.
      pose proof (sepseq_sound _ _ _ it_par_sound _ _ _ _ _ E) as Hc. rewrite ecount_cons in Hc. cbn [eis_lp] in Hc.
      destruct (pe0_sound _ Hs _ _ _ E2) as [Hst H2].
      exists (S (ecount_lp ts1) - ecount_lp r). split; [rewrite !ecount_cons; cbn [eis_lp]; lia|].
      apply LInv_low; [reflexivity| |exact Hst]. intro f. rewrite needb_eq. lia. }
    destruct ts1 as [|t2 ts2]; [apply HI; exact H|]. destruct t2; try (apply HI; exact H).
    destruct (pe 0 ts2) as [[b r2]|] eqn:E2; [|discriminate H]. inversion H; subst.
    destruct (pe0_sound _ Hs _ _ _ E2) as [Hst H2].
    exists (S (ecount_lp ts2) - ecount_lp r). split; [rewrite !ecount_cons; cbn [eis_lp]; lia|].
    apply LInv_low; [reflexivity| |exact Hst]. intro f. rewrite needb_eq. lia.
Qed.

Lemma parse_expr_sound : forall f, Sound (eparse_expr f).
Proof.
  induction f as [|f IH]; intros m ts t rest H; [discriminate H|].
  cbn [eparse_expr] in H.
  destruct (eprefix (eparse_expr f) f ts) as [[l r]|] eqn:E; [|discriminate H].
  destruct (prefix_sound _ IH f m _ _ _ E) as [c [Hc HI]].
  destruct (loop_sound _ IH _ _ _ _ _ _ _ _ HI H) as [H1 H2].
  split; [exact H1|lia].
Qed.

(* ------------------------------------------------------------------ the minimal rendering has the fewest parentheses *)

(* whatever the parser turns into t contains at least the parentheses of the minimal rendering of t *)
Theorem eparse_count : forall f ts t, eparse_fuel f ts = Some t -> ecount_lp (erender_min t) <= ecount_lp ts.
Proof.
  intros f ts t H. unfold eparse_fuel in H.
  destruct (eparse_expr f 0 ts) as [[x rest]|] eqn:E; [|discriminate H].
  destruct rest; [|discriminate H]. inversion H; subst.
  destruct (parse_expr_sound f _ _ _ _ E) as [_ Hc]. cbn [fol m12 Nat.min] in Hc. unfold need in Hc. unfold erender_min.
  rewrite ecount_nil in Hc. lia.
Qed.

Corollary eparse_tokens_count : forall ts t, eparse_tokens ts = Some t -> ecount_lp (erender_min t) <= ecount_lp ts.
Proof. intros ts t H. exact (eparse_count _ _ _ H). Qed.

(* ------------------------------------------------------------------ removal of one pair *)

Lemma ecount_drop_close : forall ts d, ecount_lp (edrop_close d ts) = ecount_lp ts.
Proof.
  induction ts as [|x r IH]; intro d; [reflexivity|].
  destruct x; cbn [edrop_close]; rewrite ?ecount_cons; cbn [eis_lp]; rewrite ?IH; try reflexivity.
  destruct d; [reflexivity|]. rewrite ecount_cons. cbn [eis_lp]. rewrite IH. reflexivity.
Qed.

Lemma ecount_drop_paren : forall ts k, k < ecount_lp ts -> S (ecount_lp (edrop_paren k ts)) = ecount_lp ts.
Proof.
  induction ts as [|x r IH]; intros k Hk; [cbn in Hk; lia|].
  rewrite ecount_cons in Hk. rewrite ecount_cons.
  destruct x; cbn [edrop_paren eis_lp Nat.add] in *;
    try (rewrite ecount_cons; cbn [eis_lp Nat.add]; apply IH; exact Hk).
  destruct k as [|k].
  - rewrite ecount_drop_close. reflexivity.
  - rewrite ecount_cons. cbn [eis_lp Nat.add]. f_equal. apply IH. lia.
Qed.

(* every pair of the minimal rendering is needed: with the k-th pair removed the parser (any fuel) does not give t back —
   it gives another tree or fails *)
Theorem eneeded_paren_fuel : forall t k f, k < ecount_lp (erender_min t) -> eparse_fuel f (edrop_paren k (erender_min t)) <> Some t.
Proof.
  intros t k f Hk H. apply eparse_count in H. pose proof (ecount_drop_paren _ _ Hk). lia.
Qed.

Theorem eneeded_paren : forall t k, k < ecount_lp (erender_min t) -> eparse_tokens (edrop_paren k (erender_min t)) <> Some t.
Proof. intros t k Hk. apply eneeded_paren_fuel. exact Hk. Qed.

(* the same without reference to edrop_paren: wherever an opening and a closing parenthesis of the minimal rendering stand,
   the token list without them does not parse back to t *)
Theorem eneeded_paren_split : forall t pre body post, erender_min t = pre ++ XLp :: body ++ XRp :: post ->
  eparse_tokens (pre ++ body ++ post) <> Some t.
Proof.
  intros t pre body post E H. apply eparse_tokens_count in H. rewrite E in H.
  rewrite !ecount_app, !ecount_cons, !ecount_app, !ecount_cons in H. cbn [eis_lp] in H. lia.
Qed.
