(* C10 — "longest" for EVERY input, stated on the text.
   A name is WRITTEN at a position when the text from there on is its parts -- words (runs of name characters) and additional
   symbols -- with white space in the gaps, a non-empty gap between two words, and no name character directly after a word
   (`reading`).  Since the repair of is_name_start_char no white space character is a name character (Shape.name_part_not_ws), so
   this is the plain rule "gaps are white space, words contain no white space".  The parts the collector returns are such a
   reading (invariant of the five-state machine, all inputs), a reading is unique (reading_prefix), hence every name written at the
   position is a prefix of the collected parts and no bound name written there is longer than the token.
   The invariant is proved for the rule with two more conditions on the edges of a gap (`reading_ctx`: a gap does not begin with a
   name character, a word behind a non-empty gap does not begin with white space), which is how the machine had to be described
   while U+1680, U+180E and U+FEFF were white space AND name characters; with disjoint classes the two rules are the same
   (reading_ctx_iff).  The witnesses at the end show what the ORIGINAL character classes did outside the extra conditions.
   Owner: builder-parse. *)
From Coq Require Import List NArith Bool Arith Lia.
From DV Require Import C10.Model C10.Proofs C10.Layout C10.NoLoss C10.Shape C10.Complete C10.Trim.
Import ListNotations.

(* ------------------------------------------------------------------ the reading_ctx rule *)

Fixpoint reading_ctx (R : str) (prev_word : bool) (gs qs : list str) : Prop :=
  match gs, qs with
  | [], [] => prev_word = true -> starts is_name_part R = false
  | g :: gs', q :: qs' =>
      all_ws g /\ starts is_name_part g = false /\
      ((word q /\ (g <> [] -> starts is_ws q = false) /\ (prev_word = true -> g <> []) /\ reading_ctx R true gs' qs') \/
       (symp q /\ reading_ctx R false gs' qs'))
  | _, _ => False
  end.

Lemma Forall_starts : forall (P : N -> bool) g, Forall (fun c => P c = false) g -> starts P g = false.
Proof. intros P [|c g] H; [reflexivity|]. inversion H; subst. assumption. Qed.

(* a name without the overlapping code points (Complete.canon) is read this way *)
Lemma canon_reading_ctx : forall R qs gs b, canon R b gs qs -> reading_ctx R b gs qs.
Proof.
  intros R. induction qs as [|q qs IH]; intros gs b H; destruct gs as [|g gs]; cbn [canon] in H; try contradiction; cbn [reading_ctx]; [exact H|].
  destruct H as (Hws & Hnp & Hsh). split; [exact Hws|]. split; [apply Forall_starts; exact Hnp|].
  destruct Hsh as [(Hne & Hw & Hg & Hc)|(c & -> & Hc & Hr)].
  - left. split.
    + split; [exact Hne|]. eapply Forall_impl; [|exact Hw]. intros x [Hx _]. exact Hx.
    + split; [|split; [exact Hg|apply IH; exact Hc]]. intros _. destruct q as [|c q]; [contradiction|].
      inversion Hw; subst. match goal with Hx : wordc c |- _ => destruct Hx as [_ Hx]; exact Hx end.
  - right. split; [exists c; split; [reflexivity|exact Hc]|apply IH; exact Hr].
Qed.

Lemma reading_length_ctx : forall R qs gs b, reading_ctx R b gs qs -> length gs = length qs.
Proof.
  intros R. induction qs as [|q qs IH]; intros gs b H; destruct gs as [|g gs]; cbn [reading_ctx] in H; try contradiction; [reflexivity|].
  destruct H as (_ & _ & [(_ & _ & _ & H)|(_ & H)]); cbn [length]; f_equal; eapply IH; exact H.
Qed.

Lemma reading_follow_ctx : forall R gs qs, reading_ctx R true gs qs -> starts is_name_part (weave gs qs ++ R) = false.
Proof.
  intros R gs qs H. destruct gs as [|g gs]; destruct qs as [|q qs]; cbn [reading_ctx] in H; try contradiction.
  - cbn. apply H. reflexivity.
  - destruct H as (_ & Hnp & [(_ & _ & Hg & _)|((c & -> & Hc) & _)]).
    + destruct g as [|c0 g]; [exfalso; apply Hg; reflexivity|]. cbn in Hnp. cbn. exact Hnp.
    + destruct g as [|c0 g]; [cbn; apply add_sym_not_name_part; exact Hc|]. cbn in Hnp. cbn. exact Hnp.
Qed.

(* where the collector stops: white space that does not begin with a name character, then a character that cannot belong to a name *)
Definition stop_ctx (R : str) : Prop :=
  exists tail rest, R = tail ++ rest /\ all_ws tail /\ starts is_name_part tail = false /\
    starts is_ws rest = false /\ starts is_name_part rest = false /\ starts is_add_sym rest = false.

(* the first character of a part *)
Lemma part_first : forall q, word q \/ symp q -> exists c q', q = c :: q' /\ (is_name_part c = true \/ is_add_sym c = true).
Proof.
  intros q [[Hne Hw]|(c & -> & Hc)].
  - destruct q as [|c q']; [contradiction|]. inversion Hw; subst. exists c, q'. auto.
  - exists c, []. auto.
Qed.

(* the gap in front of a part is determined by the text *)
Lemma gap_unique : forall g g0 c q c0 p T T',
  all_ws g -> all_ws g0 -> starts is_name_part g = false -> starts is_name_part g0 = false ->
  (is_name_part c = true \/ is_add_sym c = true) -> (is_name_part c0 = true \/ is_add_sym c0 = true) ->
  (g <> [] -> is_ws c = false) -> (g0 <> [] -> is_ws c0 = false) ->
  g ++ (c :: q) ++ T = g0 ++ (c0 :: p) ++ T' -> g = g0 /\ (c :: q) ++ T = (c0 :: p) ++ T'.
Proof.
  intros g g0 c q c0 p T T' Hg Hg0 Hn Hn0 Hc Hc0 Hw Hw0 E.
  assert (Hclash : forall x, is_ws x = true -> is_name_part x = false -> (is_name_part x = true \/ is_add_sym x = true) -> False).
  { intros x H1 H2 [H3|H3]; [congruence|]. rewrite (add_sym_not_ws x H3) in H1. discriminate H1. }
  destruct g as [|x g]; destruct g0 as [|x0 g0].
  - split; [reflexivity|exact E].
  - exfalso. cbn in E. inversion E; subst. inversion Hg0; subst. cbn in Hn0. refine (Hclash _ _ Hn0 Hc). assumption.
  - exfalso. cbn in E. inversion E; subst. inversion Hg; subst. cbn in Hn. refine (Hclash _ _ Hn Hc0). assumption.
  - apply (run_unique is_ws (x :: g) (x0 :: g0)); try assumption.
    + cbn. apply Hw. discriminate.
    + cbn. apply Hw0. discriminate.
Qed.

Lemma reading_prefix_ctx : forall qs gs parts gaps b R R',
  reading_ctx R b gs qs -> reading_ctx R' b gaps parts -> stop_ctx R' ->
  weave gs qs ++ R = weave gaps parts ++ R' ->
  exists parts2 gaps2, parts = qs ++ parts2 /\ gaps = gs ++ gaps2.
Proof.
  induction qs as [|q qs IH]; intros gs parts gaps b R R' Hq Hp Hstop E.
  - destruct gs as [|g gs]; [|cbn [reading_ctx] in Hq; contradiction]. exists parts, gaps. split; reflexivity.
  - destruct gs as [|g gs]; [cbn [reading_ctx] in Hq; contradiction|].
    cbn [reading_ctx] in Hq. destruct Hq as (Hgws & Hgnp & Hqshape).
    assert (Hqsh : word q \/ symp q) by (destruct Hqshape as [(H & _)|(H & _)]; [left|right]; exact H).
    assert (Hqg : g <> [] -> starts is_ws q = false).
    { destruct Hqshape as [(_ & H & _)|((c & -> & Hc) & _)]; [exact H|]. intros _. cbn. apply add_sym_not_ws. exact Hc. }
    destruct (part_first q Hqsh) as (c & q' & -> & Hc).
    destruct parts as [|p parts]; destruct gaps as [|g0 gaps]; cbn [reading_ctx] in Hp; try contradiction.
    + (* the collector has stopped, the name goes on *)
      exfalso. destruct Hstop as (tail & rest & -> & Htws & Htnp & Hr1 & Hr2 & Hr3).
      cbn [weave] in E. rewrite <- !app_assoc in E. rewrite app_nil_l in E.
      assert (Hrest : forall T, (c :: q') ++ T = rest -> False).
      { intros T <-. cbn in Hr2, Hr3. destruct Hc; congruence. }
      destruct g as [|x g]; destruct tail as [|x0 tail].
      * cbn [app] in E. exact (Hrest _ E).
      * cbn [app] in E. inversion E; subst. inversion Htws; subst. cbn in Htnp.
        destruct Hc as [Hc|Hc]; [congruence|]. pose proof (add_sym_not_ws _ Hc). congruence.
      * cbn [app] in E. subst rest. inversion Hgws; subst. cbn in Hr1. congruence.
      * destruct (run_unique is_ws (x :: g) (x0 :: tail) ((c :: q') ++ weave gs qs ++ R) rest Hgws Htws) as [_ E2];
          [cbn; apply (Hqg ltac:(discriminate))|exact Hr1|exact E|]. exact (Hrest _ E2).
    + destruct Hp as (Hg0ws & Hg0np & Hpshape).
      assert (Hpsh : word p \/ symp p) by (destruct Hpshape as [(H & _)|(H & _)]; [left|right]; exact H).
      assert (Hpg : g0 <> [] -> starts is_ws p = false).
      { destruct Hpshape as [(_ & H & _)|((c1 & -> & Hc1) & _)]; [exact H|]. intros _. cbn. apply add_sym_not_ws. exact Hc1. }
      destruct (part_first p Hpsh) as (c0 & p' & -> & Hc0).
      cbn [weave] in E. rewrite <- !app_assoc in E.
      destruct (gap_unique g g0 c q' c0 p' (weave gs qs ++ R) (weave gaps parts ++ R') Hgws Hg0ws Hgnp Hg0np Hc Hc0 Hqg Hpg) as [Eg E2].
      { exact E. }
      subst g0. clear E.
      destruct Hqshape as [(Hqw & _ & _ & Hqc)|((x & Ex & Hx) & Hqc)]; destruct Hpshape as [(Hpw & _ & _ & Hpc)|((x' & Ex' & Hx') & Hpc)].
      * (* word, word *)
        destruct (run_unique is_name_part (c :: q') (c0 :: p') (weave gs qs ++ R) (weave gaps parts ++ R')) as [Eq E3].
        { exact (proj2 Hqw). }
        { exact (proj2 Hpw). }
        { apply reading_follow_ctx. exact Hqc. }
        { apply reading_follow_ctx. exact Hpc. }
        { exact E2. }
        inversion Eq; subst. destruct (IH gs parts gaps true R R' Hqc Hpc Hstop E3) as (parts2 & gaps2 & -> & ->).
        exists parts2, gaps2. split; reflexivity.
      * (* word, symbol *)
        exfalso. inversion Ex'; subst. cbn in E2. inversion E2; subst. destruct Hqw as [_ Hqw]. inversion Hqw; subst.
        pose proof (add_sym_not_name_part _ Hx'). congruence.
      * (* symbol, word *)
        exfalso. inversion Ex; subst. cbn in E2. inversion E2; subst. destruct Hpw as [_ Hpw]. inversion Hpw; subst.
        pose proof (add_sym_not_name_part _ Hx). congruence.
      * (* symbol, symbol *)
        inversion Ex; inversion Ex'; subst. cbn in E2. injection E2 as Ec Et. subst.
        destruct (IH gs parts gaps false R R' Hqc Hpc Hstop Et) as (parts2 & gaps2 & -> & ->).
        exists parts2, gaps2. split; reflexivity.
Qed.

(* ------------------------------------------------------------------ the collector reads this way: invariant of the machine *)

(* the gap recorded in front of a part *)
Definition gap_ok (p g : str) : Prop := starts is_name_part g = false /\ (g <> [] -> starts is_ws p = false).

Definition rstate (inp : str) (s : mstate) (pos : nat) (cur g : str) : Prop :=
  match s with
  | S1 => True
  | S2 => g = [] \/ next_is is_ws inp pos = false
  | S3 => g <> [] -> match rev cur with [] => next_is is_ws inp pos = false | c :: _ => is_ws c = false end
  | S4 => g = [] \/ next_is is_add_sym inp pos = true
  | S5 => g = [] -> next_is is_name_part inp pos = false
  end.

(* Layout.linv with the gaps it speaks of, and what the machine knows about them *)
Definition rinv (inp : str) (pos0 : nat) (s : mstate) (pos : nat) (a : acc) : Prop :=
  exists gs g,
    lay pos0 (a_parts a) gs (a_cps a) /\ all_ws g /\ S pos <= length inp /\
    firstn (S pos) inp = firstn pos0 inp ++ wr (a_parts a) gs ++ g ++ rev (a_cur a) /\
    match s with
    | S1 => a_parts a = [] /\ g = [] /\ a_cur a <> []
    | S3 => a_parts a <> [] /\ (a_cur a <> [] \/ next_is is_name_part inp pos = true)
    | S2 | S4 | S5 => a_parts a <> [] /\ a_cur a = []
    end /\
    Forall2 gap_ok (a_parts a) gs /\ starts is_name_part g = false /\ rstate inp s pos (a_cur a) g.

Lemma next_is_false : forall p inp pos, next_is p inp pos = false -> S pos < length inp -> p (ch inp (S pos)) = false.
Proof.
  intros p inp pos H Hl. unfold next_is in H. destruct (nth_error inp (S pos)) as [c|] eqn:E.
  - unfold ch. rewrite (nth_error_nth _ _ 0%N E). exact H.
  - apply nth_error_None in E. lia.
Qed.

Lemma starts_snoc : forall (P : N -> bool) g c, (g = [] -> P c = false) -> starts P g = false -> starts P (g ++ [c]) = false.
Proof. intros P [|x g] c H1 H2; [cbn; apply H1; reflexivity|exact H2]. Qed.

Section Step.
Variable inp : str.
Variable pos0 : nat.
Hypothesis Hpos0 : pos0 < length inp.

Lemma step_rinv : forall s pos a s' pos' a', rinv inp pos0 s pos a -> step inp s pos a = Some (s', pos', a') -> rinv inp pos0 s' pos' a'.
Proof.
  intros s pos a s' pos' a' (gs & g & Hl & Hg & Hp & Hf & Hs & HG & Hg1 & HR) H. unfold step in H. destruct a as [ps es cur]. cbn [a_parts a_cps a_cur] in *.
  destruct s; cbn [rstate] in HR.
  - (* S1 *) destruct Hs as (Hps & Hg0 & Hcur). subst ps g. destruct (next_is is_name_part inp pos) eqn:En; inversion H; subst; clear H.
    + destruct (advance inp pos0 Hpos0 _ _ _ En Hf) as (Hp' & _ & Hf').
      exists gs, []. cbn [a_parts a_cps a_cur]. refine (conj Hl (conj Hg (conj Hp' (conj _ (conj _ (conj HG (conj eq_refl I))))))).
      * rewrite Hf'. cbn [rev app]. rewrite <- !app_assoc. reflexivity.
      * refine (conj eq_refl (conj eq_refl _)). discriminate.
    + exists ([] :: gs), []. cbn [a_parts a_cps a_cur]. refine (conj _ (conj Hg (conj Hp (conj _ (conj _ (conj _ (conj eq_refl _))))))).
      * apply (record_part inp pos0 Hpos0); try assumption. intros _. reflexivity.
      * rewrite Hf. cbn [wr rev]. rewrite <- !app_assoc. cbn [app]. rewrite app_nil_r. reflexivity.
      * split; [discriminate|reflexivity].
      * constructor; [|exact HG]. split; [reflexivity|]. intro Hc. exfalso. apply Hc. reflexivity.
      * cbn [rstate]. left. reflexivity.
  - (* S2 *) destruct Hs as (Hps & Hcur). subst cur.
    destruct (next_is is_name_part inp pos) eqn:En.
    { inversion H; subst; clear H. exists gs, g. cbn [a_parts a_cps a_cur]. refine (conj Hl (conj Hg (conj Hp (conj Hf (conj (conj Hps _) (conj HG (conj Hg1 _))))))).
      - right. exact En.
      - cbn [rstate rev]. intro Hne. destruct HR as [HR|HR]; [contradiction|exact HR]. }
    destruct (next_is is_add_sym inp pos) eqn:Ea.
    { inversion H; subst; clear H. exists gs, g. cbn [a_parts a_cps a_cur]. refine (conj Hl (conj Hg (conj Hp (conj Hf (conj (conj Hps eq_refl) (conj HG (conj Hg1 _))))))).
      cbn [rstate]. right. exact Ea. }
    destruct (next_is is_ws inp pos) eqn:Ew; [|discriminate H].
    inversion H; subst; clear H. exists gs, g. cbn [a_parts a_cps a_cur]. refine (conj Hl (conj Hg (conj Hp (conj Hf (conj (conj Hps eq_refl) (conj HG (conj Hg1 _))))))).
    cbn [rstate]. intros _. exact En.
  - (* S3 *) destruct Hs as (Hps & Hcur). destruct (next_is is_name_part inp pos) eqn:En; inversion H; subst; clear H.
    + destruct (advance inp pos0 Hpos0 _ _ _ En Hf) as (Hp' & _ & Hf').
      exists gs, g. cbn [a_parts a_cps a_cur]. refine (conj Hl (conj Hg (conj Hp' (conj _ (conj (conj Hps _) (conj HG (conj Hg1 _))))))).
      * rewrite Hf'. cbn [rev]. rewrite <- !app_assoc. reflexivity.
      * left. discriminate.
      * cbn [rstate]. intro Hne. specialize (HR Hne). destruct cur as [|c1 cur].
        -- cbn [rev app]. cbn [rev] in HR. apply next_is_false; [exact HR|]. exact (proj1 (next_is_true _ _ _ En)).
        -- cbn [rev] in *. destruct (rev cur ++ [c1]) as [|y r] eqn:Er; [destruct (rev cur); discriminate Er|]. cbn [app]. exact HR.
    + destruct Hcur as [Hcur|Hcur]; [|discriminate Hcur].
      exists (g :: gs), []. cbn [a_parts a_cps a_cur]. refine (conj _ (conj (Forall_nil _) (conj Hp (conj _ (conj _ (conj _ (conj eq_refl _))))))).
      * apply (record_part inp pos0 Hpos0); try assumption. intro E. contradiction.
      * rewrite Hf. cbn [wr rev]. rewrite <- !app_assoc. cbn [app]. rewrite app_nil_r. reflexivity.
      * split; [discriminate|reflexivity].
      * constructor; [|exact HG]. split; [exact Hg1|]. intro Hne. specialize (HR Hne).
        destruct (rev cur) as [|y r] eqn:Er; [exfalso; apply Hcur; rewrite <- (rev_involutive cur), Er; reflexivity|]. cbn. exact HR.
      * cbn [rstate]. left. reflexivity.
  - (* S4 *) destruct Hs as (Hps & Hcur). subst cur. destruct (next_is is_add_sym inp pos) eqn:En; inversion H; subst; clear H.
    + destruct (advance inp pos0 Hpos0 _ _ _ En Hf) as (Hp' & Hsym & Hf').
      exists (g :: gs), []. cbn [a_parts a_cps a_cur]. refine (conj _ (conj (Forall_nil _) (conj Hp' (conj _ (conj _ (conj _ (conj eq_refl _))))))).
      * change [ch inp (S pos)] with (rev [ch inp (S pos)]).
        apply (record_part inp pos0 Hpos0); try assumption; [discriminate|intro E; contradiction|].
        rewrite Hf'. cbn [rev app]. rewrite app_nil_r. rewrite <- !app_assoc. reflexivity.
      * rewrite Hf'. cbn [wr rev app]. rewrite !app_nil_r. rewrite <- !app_assoc. reflexivity.
      * split; [discriminate|reflexivity].
      * constructor; [|exact HG]. split; [exact Hg1|]. intros _. cbn. apply add_sym_not_ws. exact Hsym.
      * cbn [rstate]. left. reflexivity.
    + exists gs, g. cbn [a_parts a_cps a_cur]. refine (conj Hl (conj Hg (conj Hp (conj Hf (conj (conj Hps eq_refl) (conj HG (conj Hg1 _))))))).
      cbn [rstate]. left. destruct HR as [HR|HR]; [exact HR|discriminate HR].
  - (* S5 *) destruct Hs as (Hps & Hcur). subst cur. destruct (next_is is_ws inp pos) eqn:En; inversion H; subst; clear H.
    + destruct (advance inp pos0 Hpos0 _ _ _ En Hf) as (Hp' & Hw & Hf').
      exists gs, (g ++ [ch inp (S pos)]). cbn [a_parts a_cps a_cur]. refine (conj Hl (conj _ (conj Hp' (conj _ (conj (conj Hps eq_refl) (conj HG (conj _ _))))))).
      * apply all_ws_app; [exact Hg|]. constructor; [exact Hw|constructor].
      * rewrite Hf'. cbn [rev app]. rewrite !app_nil_r. rewrite <- !app_assoc. reflexivity.
      * apply starts_snoc; [|exact Hg1]. intro Eg. apply next_is_false; [exact (HR Eg)|]. exact (proj1 (next_is_true _ _ _ En)).
      * cbn [rstate]. intro Eg. destruct g; discriminate Eg.
    + exists gs, g. cbn [a_parts a_cps a_cur]. refine (conj Hl (conj Hg (conj Hp (conj Hf (conj (conj Hps eq_refl) (conj HG (conj Hg1 _))))))).
      cbn [rstate]. right. exact En.
Qed.

Lemma machine_rinv : forall fuel s pos a s' pos' a', rinv inp pos0 s pos a -> machine fuel inp s pos a = (s', pos', a') -> rinv inp pos0 s' pos' a'.
Proof.
  induction fuel as [|f IH]; intros s pos a s' pos' a' Hi H; cbn [machine] in H.
  - inversion H; subst. exact Hi.
  - destruct (step inp s pos a) as [[[s1 p1] a1]|] eqn:E.
    + eapply IH; [eapply step_rinv; eauto|exact H].
    + inversion H; subst. exact Hi.
Qed.

Lemma rinv_init : rinv inp pos0 S1 pos0 {| a_parts := []; a_cps := []; a_cur := [ch inp pos0] |}.
Proof.
  exists [], []. cbn [a_parts a_cps a_cur lay wr rev app rstate]. repeat split; try (constructor; fail); [lia| |discriminate].
  rewrite firstn_snoc by exact Hpos0. reflexivity.
Qed.

End Step.

(* ------------------------------------------------------------------ from the invariant to a reading_ctx of the input *)

Lemma Forall2_length' : forall A B (R : A -> B -> Prop) l1 l2, Forall2 R l1 l2 -> length l1 = length l2.
Proof. intros A B R l1 l2 H. induction H; [reflexivity|cbn; f_equal; assumption]. Qed.

Lemma Forall2_nth' : forall A B (R : A -> B -> Prop) l1 l2 d1 d2, Forall2 R l1 l2 -> forall k, k < length l1 -> R (nth k l1 d1) (nth k l2 d2).
Proof.
  intros A B R l1 l2 d1 d2 H. induction H; intros k Hk; [cbn in Hk; lia|].
  destruct k as [|k]; [assumption|]. cbn [nth]. apply IHForall2. cbn in Hk. lia.
Qed.

(* the conditions from which a reading_ctx is built *)
Lemma reading_build_ctx : forall R gs ps b,
  Forall all_ws gs -> Forall2 gap_ok ps gs -> Forall (fun p => word p \/ symp p) ps ->
  (forall k, k < length ps -> word (nth k ps []) ->
     starts is_name_part (weave (skipn (S k) gs) (skipn (S k) ps) ++ R) = false) ->
  (b = true -> starts is_name_part (weave gs ps ++ R) = false) ->
  reading_ctx R b gs ps.
Proof.
  intros R. induction gs as [|g gs IH]; intros ps b Hws HG Hsh Hfol Hb; destruct ps as [|p ps]; try (inversion HG; fail).
  - cbn [reading_ctx]. exact Hb.
  - inversion Hws; subst. inversion HG; subst. inversion Hsh; subst. cbn [reading_ctx]. split; [assumption|].
    match goal with Hx : gap_ok p g |- _ => destruct Hx as [Hg1 Hg2] end. split; [exact Hg1|].
    assert (Hfol' : forall k, k < length ps -> word (nth k ps []) ->
      starts is_name_part (weave (skipn (S k) gs) (skipn (S k) ps) ++ R) = false).
    { intros k Hk H1'. apply (Hfol (S k)); [cbn [length]; lia|exact H1']. }
    match goal with Hx : word p \/ symp p |- _ => destruct Hx as [Hw|Hs] end.
    + left. split; [exact Hw|]. split; [exact Hg2|]. split.
      * intros Hbt Eg. subst g. specialize (Hb Hbt). cbn [weave app] in Hb. destruct Hw as [Hne Hw]. destruct p as [|c p]; [contradiction|].
        inversion Hw; subst. cbn in Hb. congruence.
      * apply IH; try assumption. intros _. apply (Hfol 0); [cbn; lia|exact Hw].
    + right. split; [exact Hs|]. apply IH; try assumption. intro Hf. discriminate Hf.
Qed.

Theorem collect_reading_ctx : forall inp pos parts cps endpos,
  pos < length inp -> is_name_start (ch inp pos) = true -> collect inp pos = (parts, cps, endpos) ->
  exists gaps tail, layout inp pos parts gaps cps /\
    skipn pos inp = weave gaps parts ++ tail ++ skipn endpos inp /\
    reading_ctx (tail ++ skipn endpos inp) false gaps parts /\ stop_ctx (tail ++ skipn endpos inp).
Proof.
  intros inp pos parts cps endpos Hpos Hstart Hc.
  destruct (collect_shape _ _ _ _ _ Hpos Hstart Hc) as (Hsh & Hs1 & Hs2 & Hs3).
  unfold collect in Hc.
  destruct (machine (4 * S (length inp)) inp S1 pos {| a_parts := []; a_cps := []; a_cur := [ch inp pos] |}) as [[s p] a] eqn:E.
  inversion Hc; subst; clear Hc.
  pose proof (machine_rinv inp pos Hpos _ _ _ _ _ _ _ (rinv_init inp pos Hpos) E) as (gs & g & Hl & Hg & Hp & Hf & Hs & HG & Hg1 & _).
  assert (Hstop : step inp s p a = None).
  { eapply machine_stops; [|exact E]. unfold measure. cbn [cost]. lia. }
  apply step_none_S2 in Hstop. subst s. destruct Hs as (Hne & Hcur).
  pose proof (lay_length _ _ _ _ Hl) as [Hlg Hle].
  pose proof (lay_layout inp pos _ _ _ Hl) as HL.
  set (parts := rev (a_parts a)) in *. set (gaps := rev gs) in *. set (cps := rev (a_cps a)) in *.
  assert (Hcov : firstn (S p) inp = firstn pos inp ++ weave gaps parts ++ g).
  { rewrite Hf, Hcur. cbn [rev]. rewrite app_nil_r. rewrite wr_weave by exact Hlg. reflexivity. }
  assert (Hinp : inp = firstn pos inp ++ weave gaps parts ++ g ++ skipn (S p) inp).
  { rewrite <- (firstn_skipn (S p) inp) at 1. rewrite Hcov. rewrite <- !app_assoc. reflexivity. }
  assert (Hskip : skipn pos inp = weave gaps parts ++ g ++ skipn (S p) inp).
  { rewrite Hinp at 1. rewrite skipn_app. rewrite firstn_length, Nat.min_l by lia. rewrite Nat.sub_diag. cbn [skipn].
    rewrite skipn_all2 by (rewrite firstn_length; lia). reflexivity. }
  assert (Lg : length gaps = length parts) by (unfold gaps, parts; rewrite !rev_length; exact Hlg).
  exists gaps, g. split; [exact HL|]. split; [exact Hskip|]. split.
  - apply reading_build_ctx.
    + exact (lo_ws _ _ _ _ _ HL).
    + unfold parts, gaps. apply Forall2_rev'. exact HG.
    + exact (shape_of_parts inp parts cps Hsh).
    + intros k Hk Hw.
      pose proof (Forall2_nth' _ _ _ _ _ [] 0 Hsh k Hk) as Hpk.
      destruct Hpk as [[_ Hnext]|Hsy]; [|exfalso; exact (word_not_symp _ Hw Hsy)].
      rewrite next_is_starts in Hnext.
      assert (Hk' : 1 <= S k <= length parts) by (unfold str in *; lia).
      pose proof (lo_pos _ _ _ _ _ HL (S k) Hk') as Hek. replace (S k - 1) with k in Hek by lia.
      assert (Hsk : skipn (S (nth k cps 0)) inp = weave (skipn (S k) gaps) (skipn (S k) parts) ++ g ++ skipn (S p) inp).
      { rewrite Hinp at 1. rewrite (weave_split (S k) gaps parts). rewrite <- !app_assoc.
        rewrite app_assoc. apply skipn_app_len.
        rewrite app_length, firstn_length, Nat.min_l by lia. lia. }
      rewrite Hsk in Hnext. exact Hnext.
    + intro Hf0. discriminate Hf0.
  - exists g, (skipn (S p) inp). split; [reflexivity|]. split; [exact Hg|]. split; [exact Hg1|].
    replace (S p - 1) with p in * by lia. rewrite <- !next_is_starts. repeat split; assumption.
Qed.

(* ------------------------------------------------------------------ longest, for every input *)

(* a name qs is written at pos with the gaps gs under the reading_ctx rule and is followed by R.  Then qs is the prefix of the collected
   parts of the same length; if its normal form is a scope key, the token of the lexer is a bound prefix of at least that many parts
   and the lexer resumes at or after the end of the written name.  No hypothesis on the characters of the input *)
Theorem longest_written_any_ctx : forall keys inp pos parts cps endpos,
  pos < length inp -> is_name_start (ch inp pos) = true -> collect inp pos = (parts, cps, endpos) ->
  (match parts with p :: _ => str_eqb p str_item | [] => false end) = false ->
  forall gs qs R, qs <> [] -> skipn pos inp = weave gs qs ++ R -> reading_ctx R false gs qs ->
    firstn (length qs) parts = qs /\
    (mem (flatten_parts qs) keys = true ->
     exists k, length qs <= k <= length parts /\ bound keys parts k /\
       (forall j, k < j <= length parts -> ~ bound keys parts j) /\
       lex_name keys false inp pos = LName (name_new (firstn k parts)) (S (nth (k - 1) cps 0)) /\
       pos + length (weave gs qs) <= S (nth (k - 1) cps 0)).
Proof.
  intros keys inp pos parts cps endpos Hpos Hstart Hc Hitem gs qs R Hne Hwr Hcan.
  destruct (collect_reading_ctx _ _ _ _ _ Hpos Hstart Hc) as (gaps & tail & HL & Hskip & Hcanp & Hstop).
  rewrite Hskip in Hwr. symmetry in Hwr.
  destruct (reading_prefix_ctx qs gs parts gaps false R _ Hcan Hcanp Hstop Hwr) as (parts2 & gaps2 & -> & ->).
  assert (Hfq : firstn (length qs) (qs ++ parts2) = qs).
  { rewrite firstn_app, Nat.sub_diag, firstn_all. cbn [firstn]. apply app_nil_r. }
  split; [exact Hfq|]. intro Hmem.
  assert (Hlq : 1 <= length qs) by (destruct qs; [contradiction|cbn; lia]).
  pose proof (reading_length_ctx _ _ _ _ Hcan) as Hlgs.
  assert (Hb : bound keys (qs ++ parts2) (length qs)).
  { unfold bound. rewrite Hfq. exact Hmem. }
  assert (Hr : 1 <= length qs <= length (qs ++ parts2)) by (rewrite app_length; lia).
  destruct (search_complete keys (qs ++ parts2) (length (qs ++ parts2)) (length qs) Hr Hb) as (k & Hs & Hle).
  destruct (search_some _ _ _ _ Hs) as (Hrk & Hbk & Hmax).
  exists k. split; [lia|]. split; [exact Hbk|]. split; [exact Hmax|]. split.
  - destruct (lex_name_longest keys inp pos (qs ++ parts2) cps endpos Hc Hitem) as [H _]. exact (H k Hrk Hbk Hmax).
  - rewrite (lo_pos _ _ _ _ _ HL k Hrk).
    pose proof (weave_len_mono (gs ++ gaps2) (qs ++ parts2) (length qs) k Hle) as Hm.
    rewrite Hfq in Hm. replace (firstn (length qs) (gs ++ gaps2)) with gs in Hm.
    2:{ rewrite <- Hlgs. rewrite firstn_app, Nat.sub_diag, firstn_all. cbn [firstn]. rewrite app_nil_r. reflexivity. }
    lia.
Qed.

(* ------------------------------------------------------------------ the plain rule: gaps are white space, words contain no white space *)

Fixpoint reading (R : str) (prev_word : bool) (gs qs : list str) : Prop :=
  match gs, qs with
  | [], [] => prev_word = true -> starts is_name_part R = false
  | g :: gs', q :: qs' =>
      all_ws g /\
      ((word q /\ (prev_word = true -> g <> []) /\ reading R true gs' qs') \/
       (symp q /\ reading R false gs' qs'))
  | _, _ => False
  end.

(* where the collector stops: white space, then a character that cannot belong to a name *)
Definition stop_ok' (R : str) : Prop :=
  exists tail rest, R = tail ++ rest /\ all_ws tail /\
    starts is_ws rest = false /\ starts is_name_part rest = false /\ starts is_add_sym rest = false.

Lemma word_no_ws : forall q, word q -> Forall (fun c => is_ws c = false) q.
Proof. intros q [_ H]. eapply Forall_impl; [|exact H]. intros c Hc. apply name_part_not_ws. exact Hc. Qed.

Lemma all_ws_starts : forall g, all_ws g -> starts is_name_part g = false.
Proof. intros [|c g] H; [reflexivity|]. inversion H; subst. cbn. apply ws_not_name_part. assumption. Qed.

Lemma word_starts : forall q, word q -> starts is_ws q = false.
Proof. intros q H. apply Forall_starts. apply word_no_ws. exact H. Qed.

Lemma reading_ctx_iff : forall R qs gs b, reading R b gs qs <-> reading_ctx R b gs qs.
Proof.
  intros R. induction qs as [|q qs IH]; intros gs b; destruct gs as [|g gs]; cbn [reading reading_ctx]; try tauto.
  split.
  - intros (Hg & [(Hw & Hp & Hr)|(Hs & Hr)]); (split; [exact Hg|]); (split; [apply all_ws_starts; exact Hg|]).
    + left. split; [exact Hw|]. split; [intros _; apply word_starts; exact Hw|]. split; [exact Hp|apply IH; exact Hr].
    + right. split; [exact Hs|apply IH; exact Hr].
  - intros (Hg & _ & [(Hw & _ & Hp & Hr)|(Hs & Hr)]); (split; [exact Hg|]).
    + left. split; [exact Hw|]. split; [exact Hp|apply IH; exact Hr].
    + right. split; [exact Hs|apply IH; exact Hr].
Qed.

Lemma stop_ctx_iff : forall R, stop_ok' R <-> stop_ctx R.
Proof.
  intros R. split.
  - intros (tail & rest & E & Ht & H1 & H2 & H3). exists tail, rest. repeat split; try assumption. apply all_ws_starts. exact Ht.
  - intros (tail & rest & E & Ht & _ & H1 & H2 & H3). exists tail, rest. repeat split; assumption.
Qed.

(* a word has no white space, a gap no name character: the rule of Complete.v says the same *)
Lemma canon_reading : forall R qs gs b, canon R b gs qs <-> reading R b gs qs.
Proof.
  intros R qs gs b. split; [intro H; apply reading_ctx_iff; apply canon_reading_ctx; exact H|].
  revert gs b. induction qs as [|q qs IH]; intros gs b; destruct gs as [|g gs]; cbn [reading canon]; try tauto.
  intros (Hg & Hsh). split; [exact Hg|]. split.
  { unfold all_ws in Hg. eapply Forall_impl; [|exact Hg]. intros c Hc. apply ws_not_name_part. exact Hc. }
  destruct Hsh as [(Hw & Hp & Hr)|((c & -> & Hc) & Hr)].
  - left. split; [exact (proj1 Hw)|]. split.
    + destruct Hw as [_ Hw]. rewrite Forall_forall in *. intros c Hin. split; [apply Hw; exact Hin|apply name_part_not_ws; apply Hw; exact Hin].
    + split; [exact Hp|apply IH; exact Hr].
  - right. exists c. split; [reflexivity|]. split; [exact Hc|apply IH; exact Hr].
Qed.

Lemma reading_length : forall R qs gs b, reading R b gs qs -> length gs = length qs.
Proof. intros R qs gs b H. apply reading_ctx_iff in H. exact (reading_length_ctx _ _ _ _ H). Qed.

(* uniqueness of the reading *)
Lemma reading_prefix : forall qs gs parts gaps b R R',
  reading R b gs qs -> reading R' b gaps parts -> stop_ok' R' ->
  weave gs qs ++ R = weave gaps parts ++ R' ->
  exists parts2 gaps2, parts = qs ++ parts2 /\ gaps = gs ++ gaps2.
Proof.
  intros qs gs parts gaps b R R' H1 H2 H3 E.
  apply reading_ctx_iff in H1. apply reading_ctx_iff in H2. apply stop_ctx_iff in H3.
  exact (reading_prefix_ctx qs gs parts gaps b R R' H1 H2 H3 E).
Qed.

(* for EVERY input the collected parts with the white space between them are a reading of the input from pos on *)
Theorem collect_reading : forall inp pos parts cps endpos,
  pos < length inp -> is_name_start (ch inp pos) = true -> collect inp pos = (parts, cps, endpos) ->
  exists gaps tail, layout inp pos parts gaps cps /\
    skipn pos inp = weave gaps parts ++ tail ++ skipn endpos inp /\
    reading (tail ++ skipn endpos inp) false gaps parts /\ stop_ok' (tail ++ skipn endpos inp).
Proof.
  intros inp pos parts cps endpos Hpos Hstart Hc.
  destruct (collect_reading_ctx _ _ _ _ _ Hpos Hstart Hc) as (gaps & tail & HL & Hskip & Hr & Hs).
  exists gaps, tail. split; [exact HL|]. split; [exact Hskip|]. split; [apply reading_ctx_iff; exact Hr|apply stop_ctx_iff; exact Hs].
Qed.

(* longest match on the text: a name qs is written at pos with white space gs in its gaps and is followed by R.  Then qs is the prefix of
   the collected parts of the same length; if its normal form is a scope key, the token of the lexer is a bound prefix of at least that
   many parts and the lexer resumes at or after the end of the written name.  No hypothesis on the characters of the input, no caveat
   about how a character is read *)
Theorem longest_written_any : forall keys inp pos parts cps endpos,
  pos < length inp -> is_name_start (ch inp pos) = true -> collect inp pos = (parts, cps, endpos) ->
  (match parts with p :: _ => str_eqb p str_item | [] => false end) = false ->
  forall gs qs R, qs <> [] -> skipn pos inp = weave gs qs ++ R -> reading R false gs qs ->
    firstn (length qs) parts = qs /\
    (mem (flatten_parts qs) keys = true ->
     exists k, length qs <= k <= length parts /\ bound keys parts k /\
       (forall j, k < j <= length parts -> ~ bound keys parts j) /\
       lex_name keys false inp pos = LName (name_new (firstn k parts)) (S (nth (k - 1) cps 0)) /\
       pos + length (weave gs qs) <= S (nth (k - 1) cps 0)).
Proof.
  intros keys inp pos parts cps endpos Hpos Hstart Hc Hitem gs qs R Hne Hwr Hr.
  apply reading_ctx_iff in Hr.
  exact (longest_written_any_ctx keys inp pos parts cps endpos Hpos Hstart Hc Hitem gs qs R Hne Hwr Hr).
Qed.

(* ------------------------------------------------------------------ what the original character classes did (witnesses) *)

Definition k_a : str := [97%N].
Definition k_b : str := [98%N].
Definition k_a_b : str := [97; 32; 98]%N.
Definition k_a_plus_b : str := [97; 43; 98]%N.

(* white space that begins with U+1680: `a<U+1680>b` is the name `a b` written with the white-space character U+1680 between its words,
   `a b` is bound; the original lexer gave the unbound word `a<U+1680>b`, the repaired one gives `a b`.  `a+<U+1680> b` is `a+b` written
   with white space behind the symbol, `a+b` is bound; the original collector returned a, +, <U+1680>, b, the look-up text was `a+ b` (the
   part <U+1680> is trimmed away but still separates) and the lexer read a, +, b; the repaired lexer reads `a+b` *)
Lemma gap_rule_witness :
  [97; 5760; 98]%N = weave [[]; [5760%N]] [k_a; k_b] /\ reading [] false [[]; [5760%N]] [k_a; k_b] /\
  mem (flatten_parts [k_a; k_b]) [k_a; k_b; k_a_b] = true /\
  lex_name_chars_orig [k_a; k_b; k_a_b] false [97; 5760; 98]%N 0 = LName [97; 5760; 98]%N 3 /\
  lex_all_chars_orig [k_a; k_b; k_a_b] [97; 5760; 98]%N = Some [KName [97; 5760; 98]%N] /\
  lex_all [k_a; k_b; k_a_b] [97; 5760; 98]%N = Some [KName k_a_b] /\
  [97; 43; 5760; 32; 98]%N = weave [[]; []; [5760; 32]%N] [k_a; [43%N]; k_b] /\ reading [] false [[]; []; [5760; 32]%N] [k_a; [43%N]; k_b] /\
  mem (flatten_parts [k_a; [43%N]; k_b]) [k_a; k_b; k_a_plus_b] = true /\
  collect_orig [97; 43; 5760; 32; 98]%N 0 = ([k_a; [43%N]; [5760%N]; k_b], [0; 1; 2; 4], 5) /\
  flatten_parts [k_a; [43%N]; [5760%N]; k_b] = [97; 43; 32; 98]%N /\
  lex_all_chars_orig [k_a; k_b; k_a_plus_b] [97; 43; 5760; 32; 98]%N = Some [KName k_a; KSym 43; KName k_b] /\
  lex_all_chars_orig [k_a; k_b; k_a_plus_b] [97; 43; 32; 5760; 98]%N = Some [KName k_a_plus_b] /\
  collect [97; 43; 5760; 32; 98]%N 0 = ([k_a; [43%N]; k_b], [0; 1; 4], 5) /\
  lex_all [k_a; k_b; k_a_plus_b] [97; 43; 5760; 32; 98]%N = Some [KName k_a_plus_b].
Proof.
  assert (Wa : word k_a) by (split; [discriminate|repeat constructor]).
  assert (Wb : word k_b) by (split; [discriminate|repeat constructor]).
  repeat split; try reflexivity; try (repeat constructor; fail).
  - left. split; [exact Wa|]. split; [discriminate|]. split; [repeat constructor|]. left. split; [exact Wb|]. split; [intros _; discriminate|].
    intros _. reflexivity.
  - left. split; [exact Wa|]. split; [discriminate|]. split; [constructor|]. right. split; [exists 43%N; split; reflexivity|].
    split; [repeat constructor|]. left. split; [exact Wb|]. split; [discriminate|]. intros _. reflexivity.
Qed.

(* a word that begins with U+180E behind a blank: with the original classes `<U+180E>b` was a word, the name with the words `a`, `<U+180E>b`
   could be bound (scope key `a <U+180E>b`) and, written with one blank between its words, was read as the words a, b.  Now U+180E is no
   name character: there is no such word *)
Definition k_a_mvs_b : str := [97; 32; 6158; 98]%N.
Lemma word_rule_witness :
  name_new [k_a; [6158; 98]%N] = k_a_mvs_b /\
  [97; 32; 6158; 98]%N = weave [[]; [32%N]] [k_a; [6158; 98]%N] /\ forallb is_name_part_orig [6158; 98]%N = true /\
  mem (flatten_parts [k_a; [6158; 98]%N]) [k_a; k_a_mvs_b] = true /\
  collect_orig [97; 32; 6158; 98]%N 0 = ([k_a; k_b], [0; 3], 4) /\
  lex_all_chars_orig [k_a; k_a_mvs_b] [97; 32; 6158; 98]%N = Some [KName k_a; KName k_b] /\
  forallb is_name_part [6158; 98]%N = false.
Proof. repeat split. Qed.

(* the three code points as white space: `a<U+1680> b` and `a<U+180E>b` are the name `a b`, `a+<U+FEFF>b` is the name `a+b` *)
Lemma reading_witness :
  reading [] false [[]; [5760; 32]%N] [k_a; k_b] /\
  lex_all [k_a; k_b; k_a_b] [97; 5760; 32; 98]%N = Some [KName k_a_b] /\
  lex_all [k_a; k_b; k_a_b] [97; 6158; 98]%N = Some [KName k_a_b] /\
  reading [] false [[]; []; [65279%N]] [k_a; [43%N]; k_b] /\
  lex_all [k_a; k_b; k_a_plus_b] [97; 43; 65279; 98]%N = Some [KName k_a_plus_b].
Proof.
  assert (Wa : word k_a) by (split; [discriminate|repeat constructor]).
  assert (Wb : word k_b) by (split; [discriminate|repeat constructor]).
  split; [|split; [reflexivity|split; [reflexivity|split; [|reflexivity]]]].
  - cbn [reading]. split; [constructor|]. left. split; [exact Wa|]. split; [discriminate|]. split; [repeat constructor|].
    left. split; [exact Wb|]. split; [intros _; discriminate|]. intros _. reflexivity.
  - cbn [reading]. split; [constructor|]. left. split; [exact Wa|]. split; [discriminate|]. split; [constructor|].
    right. split; [exists 43%N; split; reflexivity|]. split; [repeat constructor|]. left. split; [exact Wb|]. split; [discriminate|].
    intros _. reflexivity.
Qed.

(* the written name of Complete.three_words_written is such a reading *)
Lemma three_words_reading :
  skipn 0 inp_three_words = weave gaps_three_words (firstn 4 parts_three_words) ++ rest_three_words /\
  reading rest_three_words false gaps_three_words (firstn 4 parts_three_words) /\
  is_name_start (ch inp_three_words 0) = true /\
  mem (flatten_parts (firstn 4 parts_three_words)) [key_ab; key_ab_cd_ef] = true.
Proof.
  destruct three_words_written as (H1 & H2 & _ & H4 & H5). split; [exact H1|]. split; [apply canon_reading; exact H2|]. split; assumption.
Qed.
