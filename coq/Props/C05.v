(* C05 — FEEL parsing and evaluation are total: property theorems only.  Proofs: C05/Proofs.v, C05/Odometer.v, C05/LrBounds.v.
   PARTIAL by nature: the theorems cover the machine-integer arithmetic, vector indexing and loop logic of the anchored code
   (model C05/Model.v, both the build with overflow checks, Debug, and the one without, Release); what the model cannot exhibit —
   stack depth, the allocator, the regex engine, chrono / chrono-tz internals, the C decNumber kernel, termination of the LR loop —
   is observed by the totality run of props/c05.py, not proved.
   valid_len len: 0 <= len <= isize::MAX (every Vec / String length). *)
From Coq Require Import ZArith List Bool.
From DV Require Import C05.Model C05.Proofs C05.Odometer C05.LrBounds C05.LrDriver Gen.LalrTables Gen.LalrTokens.
Import ListNotations.
Open Scope Z_scope.

(* ---- built-in functions that compute positions: no panic for all lengths, positions and lengths-to-take, in both builds *)
Theorem C05_sublist3_no_panic : forall b len pos l, valid_len len -> sublist3 b len pos l <> Panic.
Proof. exact sublist3_no_panic. Qed.
Theorem C05_sublist2_no_panic : forall b len pos, valid_len len -> sublist2 b len pos <> Panic.
Proof. exact sublist2_no_panic. Qed.
Theorem C05_substring3_no_panic : forall b len start l, valid_len len -> substring3 b len start l <> Panic.
Proof. exact substring3_no_panic. Qed.
Theorem C05_substring2_no_panic : forall b len start, valid_len len -> substring2 b len start <> Panic.
Proof. exact substring2_no_panic. Qed.
Theorem C05_insert_before_no_panic : forall b len pos, valid_len len -> insert_before b len pos <> Panic.
Proof. exact insert_before_no_panic. Qed.
Theorem C05_remove_no_panic : forall b len pos, valid_len len -> remove b len pos <> Panic.
Proof. exact remove_no_panic. Qed.
Theorem C05_filter_index_no_panic : forall b len i, valid_len len -> filter_index b len i <> Panic.
Proof. exact filter_index_no_panic. Qed.

(* ---- the answer is the same whether or not the build checks arithmetic overflow *)
Theorem C05_sublist3_build_independent : forall len pos l, valid_len len -> sublist3 Debug len pos l = sublist3 Release len pos l.
Proof. exact sublist3_build_independent. Qed.
Theorem C05_sublist2_build_independent : forall len pos, valid_len len -> sublist2 Debug len pos = sublist2 Release len pos.
Proof. exact sublist2_build_independent. Qed.
Theorem C05_substring3_build_independent : forall len start l, valid_len len -> substring3 Debug len start l = substring3 Release len start l.
Proof. exact substring3_build_independent. Qed.
Theorem C05_substring2_build_independent : forall len start, valid_len len -> substring2 Debug len start = substring2 Release len start.
Proof. exact substring2_build_independent. Qed.
Theorem C05_insert_before_build_independent : forall len pos, valid_len len -> insert_before Debug len pos = insert_before Release len pos.
Proof. exact insert_before_build_independent. Qed.
Theorem C05_remove_build_independent : forall len pos, valid_len len -> remove Debug len pos = remove Release len pos.
Proof. exact remove_build_independent. Qed.
Theorem C05_filter_index_build_independent : forall len i, valid_len len -> filter_index Debug len i = filter_index Release len i.
Proof. exact filter_index_build_independent. Qed.

(* ---- every index handed to a slice / insert / remove / get is inside the collection *)
Theorem C05_sublist3_in_bounds : forall b len pos l f la, valid_len len -> sublist3 b len pos l = Slice f la -> 0 <= f <= la /\ la <= len.
Proof. exact sublist3_in_bounds. Qed.
Theorem C05_sublist2_in_bounds : forall b len pos f la, valid_len len -> sublist2 b len pos = Slice f la -> 0 <= f <= la /\ la <= len.
Proof. exact sublist2_in_bounds. Qed.
Theorem C05_substring3_in_bounds : forall b len start l f la, valid_len len -> substring3 b len start l = Slice f la -> 0 <= f <= la /\ la <= len.
Proof. exact substring3_in_bounds. Qed.
Theorem C05_substring2_in_bounds : forall b len start f la, valid_len len -> substring2 b len start = Slice f la -> 0 <= f <= la /\ la <= len.
Proof. exact substring2_in_bounds. Qed.
Theorem C05_insert_before_in_bounds : forall b len pos a, valid_len len -> insert_before b len pos = Inserted a -> 0 <= a <= len.
Proof. exact insert_before_in_bounds. Qed.
Theorem C05_remove_in_bounds : forall b len pos a, valid_len len -> remove b len pos = Removed a -> 0 <= a < len.
Proof. exact remove_in_bounds. Qed.
Theorem C05_filter_index_in_bounds : forall b len i a, valid_len len -> filter_index b len i = Item a -> 0 <= a < len.
Proof. exact filter_index_in_bounds. Qed.

(* ---- years and months duration literals: for all digit groups and signs *)
Theorem C05_ym_parse_no_panic : forall b y m neg, ym_parse b y m neg <> YmPanic.
Proof. exact ym_parse_no_panic. Qed.
Theorem C05_ym_parse_build_independent : forall y m neg, ym_parse Debug y m neg = ym_parse Release y m neg.
Proof. exact ym_parse_build_independent. Qed.
Theorem C05_ym_parse_value : forall b y m neg t, ym_parse b (Some y) (Some m) neg = YmOk t -> 0 <= y <= usize_max -> 0 <= m <= usize_max ->
  t = (if neg then - (12 * y + m) else 12 * y + m).
Proof. exact ym_parse_value. Qed.
Theorem C05_ym_parse_then_display : forall b y m neg t, ym_parse b y m neg = YmOk t -> ym_display_panics b t = false.
Proof. exact ym_parse_then_display. Qed.
Theorem C05_sci_zero_count : forall b ndigits e, 1 <= ndigits -> 1 <= e -> e + ndigits - 1 <= usize_max -> sci_zero_count b ndigits e = MOk e.
Proof. exact sci_zero_count_ok. Qed.

(* ---- the for / some / every odometer: for every non-empty list of ranges (any isize bounds, either direction) and lists (any length)
        the loop stops after exactly `total` passes without a panic, the passes are the mixed-radix numbers 0 .. total-1 (innermost
        variable fastest), every pass is inside the domains, and equal numbers mean equal index vectors: each combination exactly once *)
Theorem C05_odometer_terminates_and_enumerates : forall states, states <> [] -> Forall initial states ->
  forall fuel, (Z.to_nat (total states) <= fuel)%nat ->
  exists visited, Model.run fuel states [] = Finished visited /\
                  map rank visited = zseq 0 (Z.to_nat (total states)) /\
                  Forall (fun v => Forall wf v /\ same_shape v states) visited.
Proof. exact odometer_terminates_and_enumerates. Qed.
Theorem C05_odometer_rank_injective : forall a b, Forall wf a -> Forall wf b -> same_shape a b -> rank a = rank b -> map digit a = map digit b.
Proof. exact rank_injective. Qed.

(* ---- LALR driver: on the tables of the current lalr.rs every computed index is inside its table
        (all states x all token types the lexer can return; all rules x all uncovered states).  Finite: bound = the table sizes. *)
Theorem C05_lr_tables_in_bounds :
  (forall st c, 0 <= st < nstates -> In c all_token_values -> newstate_ok st c = true) /\
  (forall r top, 1 <= r < nrules -> 0 <= top < nstates -> rule_ok r = true /\ goto_ok r top = true) /\
  state_ok 0 = true /\ state_ok yy_final = true.
Proof. exact lr_tables_in_bounds. Qed.

(* ---- the driver loop itself (every table access checked, out of bounds = ROob): for EVERY sequence of tokens the lexer can return and
        every number of steps the run never leaves a table — the stack only ever holds valid states (induction over the run on top of two
        single-step sweeps).  Termination and the stack-depth invariant (RUnderflow) are not covered. *)
Theorem C05_lr_driver_never_out_of_bounds : forall fuel ss toks, valid_stack ss -> Forall (fun c => In c all_token_values) toks ->
  LrDriver.run fuel ss toks <> ROob.
Proof. exact lr_driver_never_out_of_bounds. Qed.
Theorem C05_lr_parse_never_out_of_bounds : forall fuel toks, Forall (fun c => In c all_token_values) toks -> LrDriver.run fuel [0] toks <> ROob.
Proof. exact lr_parse_never_out_of_bounds. Qed.
Example C05_lr_driver_examples :
  LrDriver.run 200 [0] [tok_StartExpression; tok_Numeric; tok_Plus; tok_Numeric] = RAccept /\ LrDriver.run 200 [0] [tok_StartExpression; tok_Plus] = RError.
Proof. exact lr_driver_examples. Qed.

(* ---- non-vacuity *)
Example C05_nonvacuous :
  valid_len 3 /\ sublist3 Debug 3 (Int (-2)) (Int 2) = Slice 1 3 /\ substring3 Release 3 (Int 2) (Int 1) = Slice 1 2 /\
  remove Debug 3 (Int (-1)) = Removed 2 /\ insert_before Release 3 (Int 3) = Inserted 2 /\ filter_index Debug 3 (Int (-3)) = Item 0 /\
  ym_parse Debug (Some 2) (Some 3) true = YmOk (-27) /\
  Forall initial [list_state 2; range_state 3 1] /\
  visited_indexes (Model.run 6 [list_state 2; range_state 3 1] []) = Some [[0; 3]; [1; 3]; [0; 2]; [1; 2]; [0; 1]; [1; 1]].
Proof.
  split; [vm_compute; split; discriminate|].
  do 6 (split; [vm_compute; reflexivity|]).
  split; [|vm_compute; reflexivity].
  constructor; [|constructor; [|constructor]].
  - right. exists 2. split; [vm_compute; split; discriminate | reflexivity].
  - left. exists 3, 1. split; [reflexivity | split; reflexivity].
Qed.
Example C05_lr_nonvacuous : 100 < nstates /\ 100 < nrules /\ (50 < length all_token_values)%nat.
Proof. exact (conj (proj1 lr_nonvacuous) (conj (proj1 (proj2 lr_nonvacuous)) (proj1 (proj2 (proj2 lr_nonvacuous))))). Qed.

(* ---- the code of the pinned commit (f2b7a1b) violates the property: witnesses for the build with and without overflow checks *)
Theorem C05_sublist3_orig_refuted : (valid_len 3 /\ sublist3_orig Debug 3 (Int (-4)) (Int 1) = Panic) /\
  (valid_len 1 /\ sublist3_orig Debug 1 (Int 2) (Int usize_max) = Panic) /\ (valid_len 3 /\ sublist3_orig Release 3 (Int 2) (Int usize_max) = Panic).
Proof. exact (conj sublist3_orig_refuted_debug_underflow (conj sublist3_orig_refuted_debug_overflow sublist3_orig_refuted_release)). Qed.
Theorem C05_substring3_orig_refuted : (valid_len 3 /\ substring3_orig Debug 3 (Int 2) (Int usize_max) = Panic) /\
  (substring3_orig Release 3 (Int 2) (Int usize_max) = Slice 1 3 /\ substring3 Release 3 (Int 2) (Int usize_max) = Null).
Proof. exact (conj substring3_orig_refuted_debug substring3_orig_release_wrong). Qed.
Theorem C05_ym_parse_orig_refuted : ym_parse_orig Debug (Some 9999999999999999999) None false = YmPanic /\
  ym_parse_orig Debug (Some 768614336404564650) (Some 8) false = YmPanic /\ ym_parse_orig Debug None (Some 9223372036854775808) true = YmPanic /\
  (ym_parse_orig Debug None (Some 9223372036854775808) false = YmOk isize_min /\ ym_display_panics Debug isize_min = true) /\
  (exists t, ym_parse_orig Release (Some 9999999999999999999) None false = YmOk t /\ t <> 12 * 9999999999999999999).
Proof. exact (conj ym_parse_orig_refuted_debug_mul (conj ym_parse_orig_refuted_debug_add (conj ym_parse_orig_refuted_debug_neg (conj ym_parse_orig_refuted_display ym_parse_orig_release_wrong)))). Qed.
Theorem C05_odometer_orig_refuted : (initial (range_state isize_max isize_max) /\ run_orig Debug 5 [range_state isize_max isize_max] [] = RunPanic) /\
  (total [range_state isize_max isize_max] = 1 /\ run_orig Release 2000 [range_state isize_max isize_max] [] = OutOfFuel).
Proof. exact (conj odometer_orig_refuted_debug odometer_orig_refuted_release). Qed.
Print Assumptions C05_sublist3_no_panic.
Print Assumptions C05_sublist2_no_panic.
Print Assumptions C05_substring3_no_panic.
Print Assumptions C05_substring2_no_panic.
Print Assumptions C05_insert_before_no_panic.
Print Assumptions C05_remove_no_panic.
Print Assumptions C05_filter_index_no_panic.
Print Assumptions C05_sublist3_build_independent.
Print Assumptions C05_sublist2_build_independent.
Print Assumptions C05_substring3_build_independent.
Print Assumptions C05_substring2_build_independent.
Print Assumptions C05_insert_before_build_independent.
Print Assumptions C05_remove_build_independent.
Print Assumptions C05_filter_index_build_independent.
Print Assumptions C05_sublist3_in_bounds.
Print Assumptions C05_sublist2_in_bounds.
Print Assumptions C05_substring3_in_bounds.
Print Assumptions C05_substring2_in_bounds.
Print Assumptions C05_insert_before_in_bounds.
Print Assumptions C05_remove_in_bounds.
Print Assumptions C05_filter_index_in_bounds.
Print Assumptions C05_ym_parse_no_panic.
Print Assumptions C05_ym_parse_build_independent.
Print Assumptions C05_ym_parse_value.
Print Assumptions C05_ym_parse_then_display.
Print Assumptions C05_sci_zero_count.
Print Assumptions C05_odometer_terminates_and_enumerates.
Print Assumptions C05_odometer_rank_injective.
Print Assumptions C05_lr_tables_in_bounds.
Print Assumptions C05_nonvacuous.
Print Assumptions C05_lr_nonvacuous.
Print Assumptions C05_sublist3_orig_refuted.
Print Assumptions C05_substring3_orig_refuted.
Print Assumptions C05_ym_parse_orig_refuted.
Print Assumptions C05_odometer_orig_refuted.
Print Assumptions C05_lr_driver_never_out_of_bounds.
Print Assumptions C05_lr_parse_never_out_of_bounds.
Print Assumptions C05_lr_driver_examples.
