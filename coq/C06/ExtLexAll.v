(* C06 — extended expression language at the text level, ALL tokens of C06.ModelExt (binders and function definitions included):
   the reading of the lexer's tokens as tokens of the extended Spec with the pushdown of C06.LexBind (a name where the variable
   of an iteration context is expected, followed by `in`, is a binding; a name inside the parameter list of a function definition is
   a formal parameter), the text-level parser = lexer model with the binder policy, that reading, extended Spec parser; and the
   pushdown at the level of the Spec tokens, with the condition `etrack_ok` under which the text of a token list is lexed and read
   back as that token list.  Owner: prover-C06-binders.  No proofs here. *)
From Coq Require Import List NArith Bool Arith.
From DV Require Import C06.Model C06.ModelExt C06.Lexer C06.LexBind C06.ExtLex.
Import ListNotations.

(* ------------------------------------------------------------------ the pushdown over the tokens of the Spec *)

(* the classes of the lexer tokens econc writes for a Spec token *)
Definition eclass (tk : etok) : list tclass :=
  match tk with
  | XAtom _ => [CAtom]
  | XOp _ | XBetween | XBand | XIf | XThen | XElse => [COther]
  | XLp => [CLp] | XRp => [CRp] | XLb => [CLb] | XRb => [CRb] | XLc => [CLc] | XRc => [CRc]
  | XInst _ => [COther; COther; COther]
  | XDot _ => [COther; CAtom]
  | XComma => [CComma] | XEll => [CEll]
  | XKey _ => [CAtom; CColon]
  | XBind _ => [CAtom; COther]
  | XPar _ None => [CAtom]
  | XPar _ (Some _) => [CAtom; CColon; COther]
  | XFor | XSome | XEvery => [CHdr]
  | XReturn | XSatisfies => [CEnd]
  | XFun => [CFun]
  end.

Definition estep (st : tstate) (tk : etok) : tstate := fold_left cstep (eclass tk) st.

(* a binding stands exactly where the pushdown expects one; a formal parameter stands inside a parameter list (the colon of a typed one
   sets type_name) and atoms and keys do not (the colon of a key does not set type_name); `function` is followed by `(` *)
Definition ek_ok (st : tstate) (tk : etok) (r : list etok) : bool :=
  match tk with
  | XBind _ => t_wb st
  | XPar _ None => negb (t_wb st) && is_par (t_stk st)
  | XPar _ (Some _) => negb (t_wb st) && is_par (t_stk st) && t_wt (cstep (cstep st CAtom) CColon)
  | XAtom _ => negb (t_wb st) && negb (is_par (t_stk st))
  | XKey _ => negb (t_wb st) && negb (is_par (t_stk st)) && negb (t_wt (cstep (cstep st CAtom) CColon))
  | XFun => negb (t_wb st) && match r with XLp :: _ => true | _ => false end
  | _ => negb (t_wb st)
  end.

Fixpoint etrack_ok (st : tstate) (ts : list etok) : bool :=
  match ts with
  | [] => true
  | tk :: r => ek_ok st tk r && etrack_ok (estep st tk) r
  end.

(* ------------------------------------------------------------------ reading the lexer's tokens *)

Fixpoint eabs_b (keys : list str) (dec : ltoken -> option N) (st : tstate) (ls : list ltoken) : option (list etok) :=
  match ls with
  | [] => Some []
  | l :: r =>
    let st1 := lstep st l in
    let cons1 (t : etok) := match eabs_b keys dec st1 r with Some ts => Some (t :: ts) | None => None end in
    match l with
    | LKw KInstance =>
      match r with
      | LKw KOf :: LType n :: r2 =>
        match pos_of n type_words 0, eabs_b keys dec (lstep (lstep st1 (LKw KOf)) (LType n)) r2 with
        | Some ty, Some ts => Some (XInst ty :: ts)
        | _, _ => None
        end
      | _ => None
      end
    | LSym SDot =>
      match r with
      | LName n :: r2 =>
        match pos_of n keys 0, eabs_b keys dec (lstep st1 (LName n)) r2 with
        | Some i, Some ts => Some (XDot i :: ts)
        | _, _ => None
        end
      | _ => None
      end
    | LName n =>
      if t_wb st then
        match r with
        | LKw KIn :: r2 =>
          match pos_of n keys 0, eabs_b keys dec (lstep st1 (LKw KIn)) r2 with
          | Some i, Some ts => Some (XBind i :: ts)
          | _, _ => None
          end
        | _ => None
        end
      else if is_par (t_stk st) then
        match r with
        | LSym SColon :: LType ty :: r2 =>
          match pos_of n keys 0, pos_of ty type_words 0, eabs_b keys dec (lstep (lstep st1 (LSym SColon)) (LType ty)) r2 with
          | Some i, Some j, Some ts => Some (XPar i (Some j) :: ts)
          | _, _, _ => None
          end
        | _ => match pos_of n keys 0 with Some i => cons1 (XPar i None) | None => None end
        end
      else
        match r with
        | LSym SColon :: r2 =>
          match pos_of n keys 0, eabs_b keys dec (lstep st1 (LSym SColon)) r2 with
          | Some i, Some ts => Some (XKey i :: ts)
          | _, _ => None
          end
        | _ => match dec l with Some a => cons1 (XAtom a) | None => None end
        end
    | LSym SLp => cons1 XLp | LSym SRp => cons1 XRp | LSym SLb => cons1 XLb | LSym SRb => cons1 XRb
    | LSym SLbrace => cons1 XLc | LSym SRbrace => cons1 XRc
    | LSym SComma => cons1 XComma | LSym SEllipsis => cons1 XEll
    | LKw KBetween => cons1 XBetween | LKw KBetweenAnd => cons1 XBand
    | LKw KIf => cons1 XIf | LKw KThen => cons1 XThen | LKw KElse => cons1 XElse
    | LKw KFor => cons1 XFor | LKw KSome => cons1 XSome | LKw KEvery => cons1 XEvery
    | LKw KReturn => cons1 XReturn | LKw KSatisfies => cons1 XSatisfies | LKw KFunction => cons1 XFun
    | _ =>
      match tok_op l with
      | Some o => cons1 (XOp o)
      | None => if is_atom_tok l then match dec l with Some a => cons1 (XAtom a) | None => None end else None
      end
    end
  end.

(* the text-level parser for the whole extended language *)
Definition parse_text_all (keys : list str) (dec : ltoken -> option N) (cs : str) : option etree :=
  match lex_b keys cs with
  | Some ls => match eabs_b keys dec tstate0 ls with Some ts => eparse_tokens ts | None => None end
  | None => None
  end.

(* the same over the stream of the lexer before the repair of the `item` branch of consume_name (LexBind.lex_b_orig) *)
Definition parse_text_all_orig (keys : list str) (dec : ltoken -> option N) (cs : str) : option etree :=
  match lex_b_orig keys cs with
  | Some ls => match eabs_b keys dec tstate0 ls with Some ts => eparse_tokens ts | None => None end
  | None => None
  end.

(* ------------------------------------------------------------------ side conditions on the names *)

Definition key_in (keys : list str) (n : N) : bool := (n <? N.of_nat (length keys))%N.

(* type numbers are positions in type_words; member names, keys, variables and parameter names are positions in the scope keys
   (nothing else about the variable of an iteration / quantified context: `item` is allowed since the repair of consume_name) *)
Definition names_all (keys : list str) (t : etok) : bool :=
  match t with
  | XInst ty => (ty <? 6)%N
  | XDot n | XKey n | XPar n None => key_in keys n
  | XPar n (Some ty) => key_in keys n && (ty <? 6)%N
  | XBind n => key_in keys n
  | _ => true
  end.
