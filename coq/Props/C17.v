(* C17 — property theorems only.  Statements are pinned with Check; proofs are in C17/Proofs.v. *)
From Coq Require Import List NArith Bool.
From DV Require Import C17.Model C17.Proofs C17.Abstract C17.AbstractProofs.
Import ListNotations.
Open Scope N_scope.

Theorem C17_reachable_inv : forall ops, Inv (fst (run remove init ops)).
Proof. exact reachable_inv. Qed.

Theorem C17_refines_abstract : forall ops,
  defs (fst (run remove init ops)) = adefs (fst (arun ainit ops)) /\
  (forall k, lookup k (evs (fst (run remove init ops))) = lookup k (aevs (fst (arun ainit ops)))) /\
  snd (run remove init ops) = snd (arun ainit ops).
Proof. exact refines_abstract. Qed.

Theorem C17_add_iff_free : forall ops m, let s := fst (run remove init ops) in
  snd (add s m) = true <-> (forall d, In d (defs s) -> ns d <> ns m /\ nm d <> nm m).
Proof. exact add_iff_free. Qed.

(* after the last deploy (only evaluations since) the name k is served by the document d iff a model of that name and
   document was stored at that deploy and builds *)
Theorem C17_deployed_exactly : forall pre post k d, forallb is_eval post = true ->
  lookup k (evs (fst (run remove init (pre ++ Deploy :: post)))) = Some d <->
  exists x, In x (defs (fst (run remove init pre))) /\ builds x = true /\ nm x = k /\ doc x = d.
Proof. exact deployed_exactly. Qed.

Theorem C17_mutation_undeploys : forall pre o post k, forallb is_eval post = true ->
  mutates (fst (arun ainit pre)) o = true ->
  lookup k (evs (fst (run remove init (pre ++ o :: post)))) = None.
Proof. exact mutation_undeploys. Qed.

Theorem C17_failed_build_isolated : forall ops d, let s := fst (run remove init ops) in
  In d (defs s) -> builds d = true -> lookup (nm d) (evs (deploy s)) = Some (doc d).
Proof. exact failed_build_isolated. Qed.

Theorem C17_orig_remove_refuted : exists ops,
  ~ Inv (fst (run remove_orig init ops)) /\
  snd (run remove_orig init (ops ++ [Add mB])) <> snd (arun ainit (ops ++ [Add mB])).
Proof. exact orig_remove_refuted. Qed.

Example C17_nonvacuous :
  let s := fst (run remove init [Add mA; Add mE; Add mB; Remove 2 12; Deploy]) in
  defs s = [mA; mE] /\ lookup 11 (evs s) = Some 101 /\ lookup 14 (evs s) = None.
Proof. exact reachable_nontrivial. Qed.

(* ---- the abstract workspace of C17/Abstract.v: a set of stored documents and a served relation, every operation given by
   a predicate on membership (add: both keys free, the set gains exactly the element; remove n k: the set minus every element
   whose namespace is n or whose name is k; replace: remove by both keys, then add; clear; deploy: exactly the stored
   documents that build are served; eval: answered by the document served).  It shares no function with the ImplModel. ---- *)

(* for every history the states (read through abs) and the results of the ImplModel are a run of the abstract workspace *)
Theorem C17_refines_abstract_spec : forall ops,
  aruns aempty ops (abs (fst (run remove init ops))) (snd (run remove init ops)).
Proof. exact refines_abstract_spec. Qed.

(* ... and the only one: the abstract workspace determines state and results *)
Theorem C17_refines_abstract_spec_unique : forall ops a xs, aruns aempty ops a xs ->
  aeq a (abs (fst (run remove init ops))) /\ xs = snd (run remove init ops).
Proof. exact refines_abstract_spec_unique. Qed.

Theorem C17_abstract_deterministic : forall a o a1 x1 a2 x2, AInv a ->
  aspec a o a1 x1 -> aspec a o a2 x2 -> aeq a1 a2 /\ x1 = x2.
Proof. exact aspec_deterministic. Qed.

(* namespaces and names are keys of the stored set, and what is served is stored and builds, after every history *)
Theorem C17_abstract_invariant : forall ops a xs, aruns aempty ops a xs -> AInv a.
Proof. exact abstract_invariant. Qed.

(* the sentences of the property, about the abstract workspace *)
Theorem C17_abs_add_iff_free : forall a m a' r, aspec a (Add m) a' (OAdd r) ->
  (r = true <-> free a m) /\
  (r = true -> (forall x, stored a' x <-> stored a x \/ x = m) /\ nothing_served a') /\
  (r = false -> aeq a a').
Proof. exact abs_add_iff_free. Qed.

Theorem C17_abs_remove_exactly : forall a n k a' x, aspec a (Remove n k) a' x ->
  (forall y, stored a' y <-> stored a y /\ ns y <> n /\ nm y <> k) /\ nothing_served a'.
Proof. exact abs_remove_exactly. Qed.

Theorem C17_abs_remove_no_stale_key : forall a n k a' x, AInv a -> aspec a (Remove n k) a' x ->
  forall z, stored a z -> ~ stored a' z -> forall y, stored a' y -> ns y <> ns z /\ nm y <> nm z.
Proof. exact abs_remove_no_stale_key. Qed.

Theorem C17_abs_remove_then_add : forall a n k a1 x m a2 r, aspec a (Remove n k) a1 x -> ns m = n -> nm m = k ->
  aspec a1 (Add m) a2 (OAdd r) -> r = true.
Proof. exact abs_remove_then_add. Qed.

Theorem C17_abs_replace : forall a m a' x, aspec a (Replace m) a' x ->
  x = OAdd true /\ (forall y, stored a' y <-> y = m \/ (stored a y /\ ns y <> ns m /\ nm y <> nm m)) /\ nothing_served a'.
Proof. exact abs_replace. Qed.

Theorem C17_abs_modification_undeploys : forall a o a' x, aspec a o a' x -> modifies o x -> nothing_served a'.
Proof. exact abs_modification_undeploys. Qed.

Theorem C17_abs_deploy_exactly : forall a a' x, aspec a Deploy a' x ->
  (forall y, stored a' y <-> stored a y) /\
  (forall k d, served a' k d <-> exists y, stored a y /\ builds y = true /\ nm y = k /\ doc y = d).
Proof. exact abs_deploy_exactly. Qed.

Theorem C17_abs_eval_answer : forall a k a' r, AInv a -> aspec a (Eval k) a' (OEval r) ->
  aeq a a' /\ (forall d, r = Some d <-> served a k d).
Proof. exact abs_eval_answer. Qed.

Theorem C17_abs_evaluable_exactly : forall pre post a xs k d, forallb is_eval post = true ->
  aruns aempty (pre ++ Deploy :: post) a xs ->
  exists a0 xs0, aruns aempty pre a0 xs0 /\
    (served a k d <-> exists y, stored a0 y /\ builds y = true /\ nm y = k /\ doc y = d).
Proof. exact abs_evaluable_exactly. Qed.

(* transferred to the ImplModel: replace, deploy, evaluate serves the NEW document after every history *)
Theorem C17_replace_serves_new_document : forall pre m, builds m = true ->
  snd (run remove init (pre ++ [Replace m; Deploy; Eval (nm m)])) =
  snd (run remove init pre) ++ [OAdd true; OUnit; OEval (Some (doc m))].
Proof. exact replace_serves_new_document. Qed.

Theorem C17_replace_not_building : forall pre m, builds m = false ->
  snd (run remove init (pre ++ [Replace m; Deploy; Eval (nm m)])) =
  snd (run remove init pre) ++ [OAdd true; OUnit; OEval None].
Proof. exact replace_not_building. Qed.

Theorem C17_impl_remove_exactly : forall ops n k x, let s := fst (run remove init ops) in
  In x (defs (fst (step remove s (Remove n k)))) <-> In x (defs s) /\ ns x <> n /\ nm x <> k.
Proof. exact impl_remove_exactly. Qed.

Theorem C17_impl_remove_frees_both_keys : forall ops n k z m, let s := fst (run remove init ops) in
  In z (defs s) -> ~ In z (defs (remove s n k)) -> ns m = ns z -> nm m = nm z ->
  snd (add (remove s n k) m) = true.
Proof. exact impl_remove_frees_both_keys. Qed.

Example C17_abstract_nonvacuous :
  snd (run remove init [Add mA; Deploy; Eval 11; Replace mA'; Eval 11; Deploy; Eval 11; Add mA; Eval 11]) =
  [OAdd true; OUnit; OEval (Some 101); OAdd true; OEval None; OUnit; OEval (Some 105); OAdd false; OEval (Some 105)] /\
  aruns aempty [Add mA; Deploy; Eval 11; Replace mA']
    (abs (fst (run remove init [Add mA; Deploy; Eval 11; Replace mA'])))
    [OAdd true; OUnit; OEval (Some 101); OAdd true] /\
  stored (abs (fst (run remove init [Add mA; Deploy; Eval 11; Replace mA']))) mA' /\
  ~ stored (abs (fst (run remove init [Add mA; Deploy; Eval 11; Replace mA']))) mA.
Proof. exact abstract_nonvacuous. Qed.

Print Assumptions C17_reachable_inv.
Print Assumptions C17_refines_abstract.
Print Assumptions C17_add_iff_free.
Print Assumptions C17_deployed_exactly.
Print Assumptions C17_mutation_undeploys.
Print Assumptions C17_failed_build_isolated.
Print Assumptions C17_orig_remove_refuted.
Print Assumptions C17_nonvacuous.
Print Assumptions C17_refines_abstract_spec.
Print Assumptions C17_refines_abstract_spec_unique.
Print Assumptions C17_abstract_deterministic.
Print Assumptions C17_abstract_invariant.
Print Assumptions C17_abs_add_iff_free.
Print Assumptions C17_abs_remove_exactly.
Print Assumptions C17_abs_remove_no_stale_key.
Print Assumptions C17_abs_remove_then_add.
Print Assumptions C17_abs_replace.
Print Assumptions C17_abs_modification_undeploys.
Print Assumptions C17_abs_deploy_exactly.
Print Assumptions C17_abs_eval_answer.
Print Assumptions C17_abs_evaluable_exactly.
Print Assumptions C17_replace_serves_new_document.
Print Assumptions C17_replace_not_building.
Print Assumptions C17_impl_remove_exactly.
Print Assumptions C17_impl_remove_frees_both_keys.
Print Assumptions C17_abstract_nonvacuous.
