(* C06 — theorems about the full model of the parser (coq/C06/Actions.v).  Owner: ext-actions.
   Part 1 (stack safety): the node stack is typed symbolically.  Every grammar symbol has a declared effect on the node stack
   (what it consumes from below, what it leaves; `sigs`), every action has an abstract version on node kinds (`aapply`) proved
   sound for ALL concrete stacks (`aapply_sound`), and a finite sweep over the rules of feel.y (regenerated with the tables) shows
   that the action of every rule finds exactly what its right-hand side leaves and leaves what its left-hand side declares:
   no `ok_or_else(err_pop)` failure, no out-of-bounds index into the value stack, no node silently dropped by an `if let`. *)
From Coq Require Import List NArith ZArith Bool Arith String Lia FMapPositive.
From DV Require Import Gen.LalrTables C06.Lr C06.Actions C06.ActionsKinds.
Set Warnings "-unused-intro-pattern".
Import ListNotations.

Lemma kind_eqb_eq : forall a b, kind_eqb a b = true <-> a = b.
Proof.
  intros a b; split.
  - destruct a, b; cbn; intro H; try reflexivity; discriminate H.
  - intros ->. unfold kind_eqb. apply Nat.eqb_refl.
Qed.

Lemma kinds_eqb_eq : forall a b, kinds_eqb a b = true <-> a = b.
Proof.
  induction a as [|x a IH]; destruct b as [|y b]; cbn; split; intro H; try reflexivity; try discriminate H.
  - apply andb_true_iff in H. destruct H as [H1 H2]. apply kind_eqb_eq in H1. apply IH in H2. subst. reflexivity.
  - inversion H; subst. apply andb_true_iff. split; [apply kind_eqb_eq; reflexivity | apply IH; reflexivity].
Qed.

Lemma aval_eqb_eq : forall a b, aval_eqb a b = true -> a = b.
Proof. destruct a, b; cbn; intro H; try reflexivity; discriminate H. Qed.

Lemma ntyped_nil : forall ns, ntyped [] ns.
Proof. intro ns. reflexivity. Qed.

Lemma ntyped_cons : forall k ks n ns, kind_of n = k -> ntyped ks ns -> ntyped (k :: ks) (n :: ns).
Proof. intros k ks n ns Hk H. unfold ntyped in *. cbn. rewrite Hk, H. reflexivity. Qed.

Lemma ntyped_cons_inv : forall k ks ns, ntyped (k :: ks) ns -> exists n ns0, ns = n :: ns0 /\ kind_of n = k /\ ntyped ks ns0.
Proof.
  intros k ks ns H. unfold ntyped in H. destruct ns as [|n ns0]; cbn in H; [discriminate H|].
  injection H as Hk Hr. exists n, ns0. split; [reflexivity|]. split; [exact Hk | exact Hr].
Qed.

Lemma vtyped_idx : forall avs vs k a, vtyped avs vs -> aidx avs k = Some a -> exists v, vidx vs k = Some v /\ vmatch a v.
Proof.
  intros avs vs k a H Hk. destruct k as [|j]; [discriminate Hk|]. cbn in *.
  unfold vtyped in H. revert vs j H Hk. induction avs as [|a0 avs IH]; intros vs j H Hk.
  - destruct j; discriminate Hk.
  - destruct vs as [|v vs]; cbn in H; [inversion H|]. inversion H as [|? ? ? ? Hm Hr]; subst.
    destruct j as [|j]; cbn in *.
    + inversion Hk; subst. exists v. split; [reflexivity | exact Hm].
    + exact (IH vs j Hr Hk).
Qed.

Lemma ahas_idx : forall avs vs k want, vtyped avs vs -> ahas (aidx avs k) want = true -> exists v, vidx vs k = Some v /\ vmatch want v.
Proof.
  intros avs vs k want H Hh. unfold ahas in Hh. destruct (aidx avs k) as [a|] eqn:E; [|discriminate Hh].
  apply aval_eqb_eq in Hh. subst a. exact (vtyped_idx _ _ _ _ H E).
Qed.

Ltac is_spec_tac := let n := fresh "n" in intro n; destruct n; cbn; try reflexivity; eexists; reflexivity.
Lemma is_comma_list_spec : is_spec is_comma_list KCommaList. Proof. is_spec_tac. Qed.
Lemma is_context_spec : is_spec is_context KContext. Proof. is_spec_tac. Qed.
Lemma is_context_type_spec : is_spec is_context_type KContextType. Proof. is_spec_tac. Qed.
Lemma is_expression_list_spec : is_spec is_expression_list KExpressionList. Proof. is_spec_tac. Qed.
Lemma is_param_types_spec : is_spec is_param_types KParamTypes. Proof. is_spec_tac. Qed.
Lemma is_iteration_contexts_spec : is_spec is_iteration_contexts KIterationContexts. Proof. is_spec_tac. Qed.
Lemma is_named_params_spec : is_spec is_named_params KNamedParams. Proof. is_spec_tac. Qed.
Lemma is_positional_params_spec : is_spec is_positional_params KPositionalParams. Proof. is_spec_tac. Qed.
Lemma is_quantified_contexts_spec : is_spec is_quantified_contexts KQuantifiedContexts. Proof. is_spec_tac. Qed.
Lemma is_formal_params_spec : is_spec is_formal_params KFormalParams. Proof. is_spec_tac. Qed.
Lemma is_qualified_name_spec : is_spec is_qualified_name KQualifiedName. Proof. is_spec_tac. Qed.

(* ------------------------------------------------------------------ soundness of the combinators *)
Lemma same_sound : forall ks ns, ntyped ks ns -> sound_step ks ns (ROk ns) ks.
Proof. intros ks ns H. exists ns. repeat split; [exact H]. Qed.

Lemma push_sound : forall k n ks ns, kind_of n = k -> ntyped ks ns -> sound_step ks ns (ROk (n :: ns)) (k :: ks).
Proof. intros k n ks ns Hk H. exists (n :: ns). repeat split. apply ntyped_cons; assumption. Qed.

Lemma pop1_sound : forall f k ks ks' ns, (forall x, kind_of (f x) = k) -> apop1 k ks = Some ks' -> ntyped ks ns ->
  sound_step ks ns (pop1 f ns) ks'.
Proof.
  intros f k ks ks' ns Hf Ha H. destruct ks as [|k1 st]; cbn in Ha; [discriminate Ha|]. inversion Ha; subst ks'.
  apply ntyped_cons_inv in H. destruct H as (n & ns0 & -> & _ & H0). cbn.
  exists (f n :: ns0). repeat split. apply ntyped_cons; [apply Hf | exact H0].
Qed.

Lemma pop2_sound : forall f k ks ks' ns, (forall x y, kind_of (f x y) = k) -> apop2 k ks = Some ks' -> ntyped ks ns ->
  sound_step ks ns (pop2 f ns) ks'.
Proof.
  intros f k ks ks' ns Hf Ha H. destruct ks as [|k1 [|k2 st]]; cbn in Ha; try discriminate Ha. inversion Ha; subst ks'.
  apply ntyped_cons_inv in H. destruct H as (n1 & ns1 & -> & _ & H1).
  apply ntyped_cons_inv in H1. destruct H1 as (n2 & ns2 & -> & _ & H2). cbn.
  exists (f n2 n1 :: ns2). repeat split. apply ntyped_cons; [apply Hf | exact H2].
Qed.

Lemma pop3_sound : forall f k ks ks' ns, (forall x y z, kind_of (f x y z) = k) -> apop3 k ks = Some ks' -> ntyped ks ns ->
  sound_step ks ns (pop3 f ns) ks'.
Proof.
  intros f k ks ks' ns Hf Ha H. destruct ks as [|k1 [|k2 [|k3 st]]]; cbn in Ha; try discriminate Ha. inversion Ha; subst ks'.
  apply ntyped_cons_inv in H. destruct H as (n1 & ns1 & -> & _ & H1).
  apply ntyped_cons_inv in H1. destruct H1 as (n2 & ns2 & -> & _ & H2).
  apply ntyped_cons_inv in H2. destruct H2 as (n3 & ns3 & -> & _ & H3). cbn.
  exists (f n3 n2 n1 :: ns3). repeat split. apply ntyped_cons; [apply Hf | exact H3].
Qed.

Lemma tail_sound : forall is_k mk kc ks ks' ns, is_spec is_k kc -> (forall l, kind_of (mk l) = kc) ->
  atail kc ks = Some ks' -> ntyped ks ns -> sound_step ks ns (tail_action is_k mk ns) ks'.
Proof.
  intros is_k mk kc ks ks' ns Hs Hmk Ha H. destruct ks as [|k1 st]; cbn in Ha; [discriminate Ha|].
  apply ntyped_cons_inv in H. destruct H as (n1 & ns1 & -> & Hk1 & H1). cbn.
  specialize (Hs n1). rewrite Hk1 in Hs. destruct (kind_eqb k1 kc) eqn:E.
  - destruct Hs as [l Hl]. rewrite Hl. destruct st as [|k2 st']; [discriminate Ha|]. inversion Ha; subst ks'.
    apply ntyped_cons_inv in H1. destruct H1 as (n2 & ns2 & -> & _ & H2).
    exists (mk (n2 :: l) :: ns2). repeat split. apply ntyped_cons; [apply Hmk | exact H2].
  - rewrite Hs. inversion Ha; subst ks'. exists (mk [n1] :: ns1). repeat split. apply ntyped_cons; [apply Hmk | exact H1].
Qed.

Lemma pop_if_sound : forall is_k f kc kout ks ks' ns, is_spec is_k kc -> (forall l, kind_of (f l) = kout) ->
  apop_if kc kout ks = Some ks' -> ntyped ks ns -> sound_step ks ns (pop_if is_k f ns) ks'.
Proof.
  intros is_k f kc kout ks ks' ns Hs Hf Ha H. destruct ks as [|k1 st]; cbn in Ha; [discriminate Ha|].
  apply ntyped_cons_inv in H. destruct H as (n1 & ns1 & -> & Hk1 & H1). cbn.
  specialize (Hs n1). rewrite Hk1 in Hs. destruct (kind_eqb k1 kc) eqn:E; [|discriminate Ha].
  destruct Hs as [l Hl]. rewrite Hl. inversion Ha; subst ks'.
  exists (f l :: ns1). repeat split. apply ntyped_cons; [apply Hf | exact H1].
Qed.

(* ------------------------------------------------------------------ every abstract action is sound for all concrete stacks *)
Ltac use_val Hv Hh :=
  let v := fresh "v" in let E := fresh "E" in let M := fresh "M" in
  destruct (ahas_idx _ _ _ _ Hv Hh) as (v & E & M); rewrite E; cbn in M;
  repeat match type of M with exists _, _ => let x := fresh "x" in destruct M as [x M] end; subst v.

Ltac spec_tac :=
  first [apply is_comma_list_spec | apply is_context_spec | apply is_context_type_spec | apply is_expression_list_spec
        | apply is_param_types_spec | apply is_iteration_contexts_spec | apply is_named_params_spec | apply is_positional_params_spec
        | apply is_quantified_contexts_spec | apply is_formal_params_spec | apply is_qualified_name_spec].

(* the known part of the node stack begins with one node: expose it *)
Ltac open1 Ha Hn :=
  match type of Ha with
  | match ?ks with _ => _ end = _ =>
    let k1 := fresh "k" in let st := fresh "st" in
    destruct ks as [|k1 st]; [discriminate Ha|];
    let n1 := fresh "n" in let ns1 := fresh "ns" in let Hk := fresh "Hk" in
    apply ntyped_cons_inv in Hn; destruct Hn as (n1 & ns1 & -> & Hk & Hn)
  end.

Ltac close1 := eexists; split; [reflexivity|]; split; [apply ntyped_cons; [reflexivity | eassumption] | reflexivity].

Lemma aapply_sound : forall a len avs ks ks' vs ns,
  aapply a len avs ks = Some ks' -> vtyped avs vs -> ntyped ks ns -> sound_step ks ns (apply_act a len vs ns) ks'.
Proof.
  intros a len avs ks ks' vs ns Ha Hv Hn.
  destruct a; cbn [aapply apply_act] in *;
    first
    [ eapply pop2_sound; [| exact Ha | exact Hn]; intros; reflexivity
    | eapply pop3_sound; [| exact Ha | exact Hn]; intros; reflexivity
    | eapply pop1_sound; [| exact Ha | exact Hn]; intros; reflexivity
    | eapply tail_sound; [| | exact Ha | exact Hn]; [spec_tac | intros; reflexivity]
    | eapply pop_if_sound; [| | exact Ha | exact Hn]; [spec_tac | intros; reflexivity]
    | injection Ha as <-; apply same_sound; exact Hn
    | injection Ha as <-; apply push_sound; [reflexivity | exact Hn]
    | unfold apush_if in Ha; destruct (ahas _ _) eqn:Hh in Ha; [|discriminate Ha]; injection Ha as <-;
      use_val Hv Hh; apply push_sound; [reflexivity | exact Hn]
    | unfold apop1 in Ha; open1 Ha Hn; injection Ha as <-; cbn; close1
    | idtac ].
  - (* context_type_entry *)
    open1 Ha Hn. destruct (ahas _ _) eqn:Hh in Ha; [|discriminate Ha]. injection Ha as <-. use_val Hv Hh. close1.
  - (* formal_parameter_with_type *)
    open1 Ha Hn. destruct (ahas _ _) eqn:Hh in Ha; [|discriminate Ha]. injection Ha as <-. use_val Hv Hh. close1.
  - (* formal_parameters_tail *)
    open1 Ha Hn.
    assert (Hs : sound_step st ns0 (pop_if is_formal_params (fun items => AFormalParams (items ++ [n])) ns0) ks').
    { eapply pop_if_sound; [| | exact Ha | exact Hn]; [spec_tac | intros; reflexivity]. }
    destruct Hs as (ns' & E & T & S). exists ns'. split; [exact E|]. split; [exact T | exact S].
  - (* interval_end *)
    destruct (aidx avs 1) as [a0|] eqn:Ea; [|discriminate Ha].
    destruct (vtyped_idx _ _ _ _ Hv Ea) as (v & E & _). rewrite E.
    eapply pop1_sound; [| exact Ha | exact Hn]; intros; reflexivity.
  - (* interval_start *)
    destruct (aidx avs len) as [a0|] eqn:Ea; [|discriminate Ha].
    destruct (vtyped_idx _ _ _ _ Hv Ea) as (v & E & _). rewrite E.
    eapply pop1_sound; [| exact Ha | exact Hn]; intros; reflexivity.
  - (* named_parameter *)
    destruct (ahas _ _) eqn:Hh in Ha; [|discriminate Ha]. use_val Hv Hh.
    eapply pop1_sound; [| exact Ha | exact Hn]; intros; reflexivity.
  - (* path *)
    open1 Ha Hn. destruct (ahas _ _) eqn:Hh in Ha; [|discriminate Ha]. injection Ha as <-. use_val Hv Hh. close1.
  - (* path_names *)
    destruct (ahas (aidx avs 3) AVName) eqn:H3 in Ha; [|discriminate Ha].
    destruct (ahas (aidx avs 1) AVName) eqn:H1 in Ha; [|discriminate Ha]. injection Ha as <-.
    use_val Hv H3. use_val Hv H1. apply push_sound; [reflexivity | exact Hn].
  - (* qualified_name_tail *)
    destruct (ahas _ _) eqn:Hh in Ha; [|discriminate Ha]. use_val Hv Hh.
    eapply pop_if_sound; [| | exact Ha | exact Hn]; [spec_tac | intros; reflexivity].
Qed.

(* finite: 150 rules, at most 8 combinations of effects each; re-proved whenever lalr.rs or feel.y changes *)
Lemma all_rules_ok_true : all_rules_ok = true.
Proof. vm_cast_no_check (eq_refl true). Qed.

Lemma eff_in_In : forall p q l, eff_in p q l = true -> In (p, q) l.
Proof.
  intros p q l H. unfold eff_in in H. apply existsb_exists in H. destruct H as ([p' q'] & Hin & Heq).
  apply andb_true_iff in Heq. destruct Heq as [H1 H2]. cbn in H1, H2.
  apply kinds_eqb_eq in H1. apply kinds_eqb_eq in H2. subst. exact Hin.
Qed.

Lemma aact_sound : forall r len avs ks q vs ns,
  aact r len avs ks = Some q -> vtyped avs vs -> ntyped ks ns -> sound_step ks ns (run_action r len vs ns) q.
Proof.
  intros r len avs ks q vs ns Ha Hv Hn. unfold aact in Ha. unfold run_action. destruct (ract_at r) as [|a|].
  - injection Ha as <-. apply same_sound. exact Hn.
  - exact (aapply_sound a len avs ks q vs ns Ha Hv Hn).
  - discriminate Ha.
Qed.

Lemma rule_ok_sound : forall r lhs rhs, rule_ok (r, (lhs, rhs)) = true ->
  forall p0, In p0 (preconds lhs) ->
  exists sts, stacks_after rhs [p0] = Some sts /\
    forall st, In st sts -> forall vs ns, vtyped (avals lhs rhs) vs -> ntyped st ns ->
      exists q, In (p0, q) (sig_of lhs) /\ sound_step st ns (run_action r (List.length rhs) vs ns) q.
Proof.
  intros r lhs rhs H p0 Hp. unfold rule_ok in H. rewrite forallb_forall in H. specialize (H p0 Hp).
  destruct (stacks_after rhs [p0]) as [sts|]; [|discriminate H]. exists sts. split; [reflexivity|].
  intros st Hst vs ns Hv Hn. rewrite forallb_forall in H. specialize (H st Hst).
  destruct (aact r (List.length rhs) (avals lhs rhs) st) as [q|] eqn:Ea; [|discriminate H].
  exists q. split; [exact (eff_in_In _ _ _ H) | exact (aact_sound _ _ _ _ _ _ _ Ea Hv Hn)].
Qed.

(* STACK SAFETY, rule by rule, for all concrete stacks.  For every rule `lhs: rhs` of the grammar (numbered as in the tables), from every
   P the left-hand side is declared to consume: the declared effects of the right-hand side symbols compose (stacks_after is defined),
   and on EVERY node stack whose top has the kinds one of these compositions leaves, with the values of the right-hand side (and, for a
   mid-rule action, of the symbols in front of it) on top of the value stack, the action of the rule returns Ok: no pop error, no index
   out of bounds, no node dropped by an `if let`; it touches nothing below the known part and leaves kinds q with (P, q) a declared
   effect of the left-hand side.  (By induction over a parse this excludes the err_pop failures; that induction needs the invariant of the
   LR automaton -- the symbols on the stack at a reduction are the rule's right-hand side -- which is not formalised here.) *)
Lemma r2_fits_true : forallb (fun r => Z.of_nat (List.length (snd (snd r))) =? zn t_r2 (fst r))%Z grammar_rules = true.
Proof. vm_cast_no_check (eq_refl true). Qed.

Lemma rules_ok_true : forallb rule_ok grammar_rules = true.
Proof. vm_cast_no_check (eq_refl true). Qed.

Theorem actions_stack_safe :
  forall r lhs rhs, In (r, (lhs, rhs)) grammar_rules ->
  Z.of_nat (List.length rhs) = zn t_r2 r /\
  forall p0, In p0 (preconds lhs) ->
  exists sts, stacks_after rhs [p0] = Some sts /\
    forall st, In st sts -> forall vs ns, vtyped (avals lhs rhs) vs -> ntyped st ns ->
      exists q, In (p0, q) (sig_of lhs) /\ sound_step st ns (run_action r (List.length rhs) vs ns) q.
Proof.
  intros r lhs rhs Hin. split.
  - pose proof r2_fits_true as Hl. rewrite forallb_forall in Hl. specialize (Hl _ Hin). apply Z.eqb_eq in Hl. exact Hl.
  - pose proof rules_ok_true as Hr. rewrite forallb_forall in Hr. exact (rule_ok_sound r lhs rhs (Hr _ Hin)).
Qed.

(* every action name in the reduce arms of lalr.rs is one of the 90 modelled actions *)
Lemma all_actions_known : forallb (fun p => match act_of_name (snd p) with Some _ => true | None => false end) rule_actions = true.
Proof. vm_cast_no_check (eq_refl true). Qed.

(* the step of the driver: when the action returns Ok the reduction goes through *)
Lemma freduce_ok : forall rule st toks ns' top rest,
  run_action rule (Z.to_nat (zn t_r2 rule)) (p_vs st) (p_ns st) = ROk ns' ->
  skipn (Z.to_nat (zn t_r2 rule)) (p_ss st) = top :: rest ->
  freduce rule st toks =
    Next (PS (goto_of rule top :: top :: rest) (VState (goto_of rule top) :: skipn (Z.to_nat (zn t_r2 rule)) (p_vs st)) ns') toks (Some rule).
Proof.
  intros rule st toks ns' top rest Ha Hs. unfold freduce, run_action in *.
  destruct (ract_at rule) as [|a|].
  - injection Ha as <-. rewrite Hs. reflexivity.
  - rewrite Ha. rewrite Hs. reflexivity.
  - discriminate Ha.
Qed.

(* non-vacuity: rule 93 `list_tail: COMMA expression list_tail` on a concrete stack *)
Example stack_safe_nonvacuous :
  (nth_error grammar_rules 92 = Some (93%Z, ("list_tail", ["COMMA"; "expression"; "list_tail"]))%string /\
   stacks_after ["COMMA"; "expression"; "list_tail"]%string [[]] = Some [[KOther]; [KCommaList; KOther]; [KContext]; [KCommaList; KContext]]) /\
  run_action 93 3 [VState 5; VState 4; VTok tok_Comma] [ACommaList [AName 2]; AName 1; ANull] = ROk [ACommaList [AName 1; AName 2]; ANull].
Proof. split; [split|]; vm_compute; reflexivity. Qed.

(* ================================================================== Part 2: lists of any length round-trip through parse_full
   `[ e1 , ... , en ]`: the real parser shifts every element, then folds the list from the right through the `list_tail` actions
   (`items.insert(0, item)`).  Given, for every element, that its tokens are read to its tree in list position (`elem_ok`), the
   token list of the whole list is parsed to AList [e1; ...; en] -- for every n, by induction; the steps of the automaton are
   computed from the regenerated tables (the state numbers below are definitions evaluated from the tables, not literals). *)
Local Open Scope Z_scope.

Definition kk (t : Z) : ftok := (t, VTok t).
Definition shift_to (s tok : Z) : Z := zn t_table (zn t_pact s + zn t_translate tok).
Definition s_start : Z := Eval vm_compute in shift_to 0 tok_StartExpression.   (* after the start token *)
Definition s_lb : Z := Eval vm_compute in shift_to s_start tok_LeftBracket.     (* after `[` where an expression may begin *)
Definition g_of (s : Z) : Z := goto_of 10 s.                                    (* after an expression read in state s *)
Definition t_of (g : Z) : Z := goto_of 92 g.                                    (* after a list_tail read in state g *)
Definition g_lb : Z := Eval vm_compute in g_of s_lb.                            (* after `[ e1` *)
Definition s_cm : Z := Eval vm_compute in shift_to g_lb tok_Comma.              (* after `, ` inside a list *)
Definition g_cm : Z := Eval vm_compute in g_of s_cm.                            (* after `, ei` *)
Definition s_rbt : Z := Eval vm_compute in shift_to g_lb tok_RightBracket.      (* after the closing `]` *)
Definition s_li : Z := Eval vm_compute in goto_of 91 s_lb.                      (* after list_items *)

Fixpoint fsteps (k : nat) (st : pstate) (toks : list ftok) : option (pstate * list ftok) :=
  match k with
  | O => Some (st, toks)
  | S j => match fstep st toks with Next st' toks' _ => fsteps j st' toks' | Done _ => None end
  end.

Lemma fsteps_app : forall k1 k2 st toks st1 toks1,
  fsteps k1 st toks = Some (st1, toks1) -> fsteps (k1 + k2) st toks = fsteps k2 st1 toks1.
Proof.
  induction k1 as [|k1 IH]; intros k2 st toks st1 toks1 H; cbn in *.
  - injection H as <- <-. reflexivity.
  - destruct (fstep st toks) as [st' toks' r|r]; [|discriminate H]. exact (IH k2 st' toks' st1 toks1 H).
Qed.

Lemma frun_fsteps : forall k f st toks st1 toks1,
  fsteps k st toks = Some (st1, toks1) -> frun (k + f) st toks = frun f st1 toks1.
Proof.
  induction k as [|k IH]; intros f st toks st1 toks1 H; cbn in *.
  - injection H as <- <-. reflexivity.
  - destruct (fstep st toks) as [st' toks' r|r]; [|discriminate H]. exact (IH f st' toks' st1 toks1 H).
Qed.

Lemma fsteps_1 : forall st toks st' toks' r, fstep st toks = Next st' toks' r -> fsteps 1 st toks = Some (st', toks').
Proof. intros st toks st' toks' r H. cbn. rewrite H. reflexivity. Qed.

(* the token after an element of a list *)
Definition closes (t : Z) : Prop := t = tok_Comma \/ t = tok_RightBracket.

(* the tokens ts, read in state s with a closing token after them, are reduced to one expression with the tree e,
   within 40 steps per token (the fuel parse_full gives itself) *)
Definition elem_at (s : Z) (ts : list ftok) (e : ast) : Prop :=
  forall ss vs ns (la : ftok) (rest : list ftok), closes (fst la) ->
  exists k, (k <= 40 * List.length ts)%nat /\
    fsteps k (PS (s :: ss) vs ns) (ts ++ la :: rest) = Some (PS (g_of s :: s :: ss) (VState (g_of s) :: vs) (e :: ns), la :: rest).

(* ... as the first element and as a later element; and its tree is not the parser's internal CommaList *)
Definition elem_ok (ts : list ftok) (e : ast) : Prop := elem_at s_lb ts e /\ elem_at s_cm ts e /\ is_comma_list e = None.

Fixpoint tail_tokens (tss : list (list ftok)) : list ftok :=
  match tss with
  | [] => [kk tok_RightBracket]
  | ts :: r => kk tok_Comma :: ts ++ tail_tokens r
  end.

(* `[` e1 `,` ... `,` en `]` *)
Definition list_tokens (tss : list (list ftok)) : list ftok :=
  kk tok_LeftBracket :: match tss with [] => [kk tok_RightBracket] | ts :: r => ts ++ tail_tokens r end.

Definition tail_nodes (es : list ast) (ns : list ast) : list ast := match es with [] => ns | _ => ACommaList es :: ns end.

Definition after_elem (g : Z) : Prop := g = g_lb \/ g = g_cm.
Definition in_ctx (s : Z) : Prop := s = s_start \/ s = s_lb \/ s = s_cm.

(* ---- single steps of the automaton, computed from the tables; stacks below the part shown and the rest of the input are arbitrary *)
Lemma step_shift_comma : forall g, after_elem g -> forall ss vs ns r,
  fstep (PS (g :: ss) vs ns) (kk tok_Comma :: r) = Next (PS (s_cm :: g :: ss) (VTok tok_Comma :: vs) ns) r None.
Proof. intros g [-> | ->] ss vs ns r; vm_compute; reflexivity. Qed.

Lemma step_shift_rb : forall g, after_elem g -> forall ss vs ns r,
  fstep (PS (g :: ss) vs ns) (kk tok_RightBracket :: r) = Next (PS (s_rbt :: g :: ss) (VTok tok_RightBracket :: vs) ns) r None.
Proof. intros g [-> | ->] ss vs ns r; vm_compute; reflexivity. Qed.

(* list_tail: RIGHT_BRACKET -- no action, no lookahead *)
Lemma step_red92 : forall g, after_elem g -> forall ss v vs ns r,
  fstep (PS (s_rbt :: g :: ss) (v :: vs) ns) r = Next (PS (t_of g :: g :: ss) (VState (t_of g) :: vs) ns) r (Some 92).
Proof. intros g [-> | ->] ss v vs ns r; vm_compute; reflexivity. Qed.

(* list_tail: COMMA expression list_tail -- action list_tail *)
Lemma step_red93 : forall g, after_elem g -> forall ss v1 v2 v3 vs e es ns r, is_comma_list e = None ->
  fstep (PS (t_of g_cm :: g_cm :: s_cm :: g :: ss) (v1 :: v2 :: v3 :: vs) (tail_nodes es (e :: ns))) r =
  Next (PS (t_of g :: g :: ss) (VState (t_of g) :: vs) (ACommaList (e :: es) :: ns)) r (Some 93).
Proof.
  intros g Hg ss v1 v2 v3 vs e es ns r He. destruct es as [|e' es]; cbn [tail_nodes].
  - destruct Hg as [-> | ->]; destruct e; try discriminate He; vm_compute; reflexivity.
  - destruct Hg as [-> | ->]; vm_compute; reflexivity.
Qed.

(* list_items: expression list_tail -- action list_tail *)
Lemma step_red91 : forall ss v1 v2 vs e es ns r, is_comma_list e = None ->
  fstep (PS (t_of g_lb :: g_lb :: s_lb :: ss) (v1 :: v2 :: vs) (tail_nodes es (e :: ns))) r =
  Next (PS (s_li :: s_lb :: ss) (VState s_li :: vs) (ACommaList (e :: es) :: ns)) r (Some 91).
Proof.
  intros ss v1 v2 vs e es ns r He. destruct es as [|e' es]; cbn [tail_nodes].
  - destruct e; try discriminate He; vm_compute; reflexivity.
  - vm_compute; reflexivity.
Qed.

(* list: LEFT_BRACKET list_items (action list), boxed_expression: list, expression: boxed_expression -- no lookahead *)
Lemma steps_finish : forall s, in_ctx s -> forall ss v1 v2 vs l ns r,
  fsteps 3 (PS (s_li :: s_lb :: s :: ss) (v1 :: v2 :: vs) (ACommaList l :: ns)) r =
  Some (PS (g_of s :: s :: ss) (VState (g_of s) :: vs) (AList l :: ns), r).
Proof. intros s [-> | [-> | ->]] ss v1 v2 vs l ns r; vm_compute; reflexivity. Qed.

Lemma step_shift_lb : forall s, in_ctx s -> forall ss vs ns r,
  fstep (PS (s :: ss) vs ns) (kk tok_LeftBracket :: r) = Next (PS (s_lb :: s :: ss) (VTok tok_LeftBracket :: vs) ns) r None.
Proof. intros s [-> | [-> | ->]] ss vs ns r; vm_compute; reflexivity. Qed.

(* what may follow a list: the end of the input, or the `,` / `]` of an enclosing list *)
Definition rest_ok (rest : list ftok) : Prop := rest = [] \/ exists la r, rest = la :: r /\ closes (fst la).

(* `[ ]`: shift, list_items: RIGHT_BRACKET (action list_empty); this reduction looks at the next token (`]` may also open an interval) *)
Lemma steps_empty : forall ss vs ns r, rest_ok r ->
  fsteps 2 (PS (s_lb :: ss) vs ns) (kk tok_RightBracket :: r) = Some (PS (s_li :: s_lb :: ss) (VState s_li :: vs) (ACommaList [] :: ns), r).
Proof.
  intros ss vs ns r [-> | ([lt lv] & r' & -> & Hc)].
  - vm_compute; reflexivity.
  - cbn in Hc. destruct Hc as [-> | ->]; vm_compute; reflexivity.
Qed.

Lemma step_start : forall r,
  fstep pstate0 (kk tok_StartExpression :: r) = Next (PS [s_start; 0] [VTok tok_StartExpression; VEmpty] []) r None.
Proof. intro r; vm_compute; reflexivity. Qed.

(* at the end of the input: feel: START_EXPRESSION expression, the end marker is shifted, the final state accepts *)
Lemma run_end : forall f v1 v2 t, frun (S (S (S f))) (PS [g_of s_start; s_start; 0] [v1; v2; VEmpty] [t]) [] = FAccept t.
Proof. intros f v1 v2 t; vm_compute; reflexivity. Qed.

Lemma tail_tokens_head : forall tss rest, exists la r, tail_tokens tss ++ rest = la :: r /\ closes (fst la).
Proof.
  intros [|ts tss] rest; cbn.
  - exists (kk tok_RightBracket), rest. split; [reflexivity | right; reflexivity].
  - eexists (kk tok_Comma), _. split; [reflexivity | left; reflexivity].
Qed.

Fixpoint tail_bound (tss : list (list ftok)) : nat :=
  match tss with
  | [] => 2
  | ts :: r => 2 + 40 * List.length ts + tail_bound r
  end.

Lemma tail_bound_le : forall tss, (tail_bound tss <= 40 * List.length (tail_tokens tss))%nat.
Proof.
  induction tss as [|ts r IH]; cbn [tail_bound tail_tokens List.length].
  - lia.
  - rewrite app_length. lia.
Qed.

(* after an element: `, e ... , e ]` is read and folded into one list_tail *)
Lemma tail_parse : forall tss es, Forall2 elem_ok tss es ->
  forall g, after_elem g -> forall ss vs ns rest,
  exists k, (k <= tail_bound tss)%nat /\
    fsteps k (PS (g :: ss) vs ns) (tail_tokens tss ++ rest) =
    Some (PS (t_of g :: g :: ss) (VState (t_of g) :: vs) (tail_nodes es ns), rest).
Proof.
  intros tss es H. induction H as [|ts e tss es He Hr IH]; intros g Hg ss vs ns rest.
  - exists 2%nat. split; [cbn; lia|]. cbn [tail_tokens app tail_nodes].
    change 2%nat with (1 + 1)%nat. rewrite (fsteps_app 1 1 _ _ _ _ (fsteps_1 _ _ _ _ _ (step_shift_rb g Hg ss vs ns rest))).
    exact (fsteps_1 _ _ _ _ _ (step_red92 g Hg ss _ vs ns rest)).
  - destruct He as (_ & Hcm & Hnc).
    cbn [tail_tokens]. rewrite <- app_comm_cons. rewrite <- app_assoc.
    destruct (tail_tokens_head tss rest) as (la & r & Hla & Hcl). rewrite Hla.
    destruct (Hcm (g :: ss) (VTok tok_Comma :: vs) ns la r Hcl) as (k1 & Hk1 & S1).
    assert (Hgc : after_elem g_cm) by (right; reflexivity).
    destruct (IH g_cm Hgc (s_cm :: g :: ss) (VState (g_of s_cm) :: VTok tok_Comma :: vs) (e :: ns) rest) as (k2 & Hk2 & S2).
    exists (1 + (k1 + (k2 + 1)))%nat. split; [cbn [tail_bound]; lia|].
    rewrite (fsteps_app 1 _ _ _ _ _ (fsteps_1 _ _ _ _ _ (step_shift_comma g Hg ss vs ns _))).
    rewrite (fsteps_app k1 _ _ _ _ _ S1). rewrite <- Hla.
    change (g_of s_cm) with g_cm in *.
    rewrite (fsteps_app k2 _ _ _ _ _ S2).
    apply (fsteps_1 _ _ _ _ (Some 93)). exact (step_red93 g Hg ss _ _ _ vs e es ns rest Hnc).
Qed.

Definition list_bound (tss : list (list ftok)) : nat :=
  match tss with [] => 6 | ts :: r => 5 + 40 * List.length ts + tail_bound r end.

Lemma list_bound_le : forall tss, (list_bound tss <= 40 * List.length (list_tokens tss))%nat.
Proof.
  intros [|ts r]; cbn [list_bound list_tokens List.length].
  - lia.
  - rewrite app_length. pose proof (tail_bound_le r). lia.
Qed.

(* a whole list, wherever an expression may stand (at the start, as first or as later element of a list): read to AList es *)
Lemma list_parse : forall tss es, Forall2 elem_ok tss es ->
  forall s, in_ctx s -> forall ss vs ns rest, rest_ok rest ->
  exists k, (k <= list_bound tss)%nat /\
    fsteps k (PS (s :: ss) vs ns) (list_tokens tss ++ rest) =
    Some (PS (g_of s :: s :: ss) (VState (g_of s) :: vs) (AList es :: ns), rest).
Proof.
  intros tss es H s Hs ss vs ns rest Hrest. unfold list_tokens. rewrite <- app_comm_cons.
  destruct H as [|ts e tss es He Hr].
  - exists (1 + (2 + 3))%nat. split; [cbn; lia|]. cbn [app].
    rewrite (fsteps_app 1 _ _ _ _ _ (fsteps_1 _ _ _ _ _ (step_shift_lb s Hs ss vs ns _))).
    rewrite (fsteps_app 2 _ _ _ _ _ (steps_empty (s :: ss) _ ns rest Hrest)).
    exact (steps_finish s Hs ss _ _ vs [] ns rest).
  - destruct He as (Hlb & _ & Hnc). rewrite <- app_assoc.
    destruct (tail_tokens_head tss rest) as (la & r & Hla & Hcl). rewrite Hla.
    destruct (Hlb (s :: ss) (VTok tok_LeftBracket :: vs) ns la r Hcl) as (k1 & Hk1 & S1).
    assert (Hg : after_elem g_lb) by (left; reflexivity).
    destruct (tail_parse tss es Hr g_lb Hg (s_lb :: s :: ss) (VState (g_of s_lb) :: VTok tok_LeftBracket :: vs) (e :: ns) rest) as (k2 & Hk2 & S2).
    exists (1 + (k1 + (k2 + (1 + 3))))%nat. split; [cbn [list_bound]; lia|].
    rewrite (fsteps_app 1 _ _ _ _ _ (fsteps_1 _ _ _ _ _ (step_shift_lb s Hs ss vs ns _))).
    rewrite (fsteps_app k1 _ _ _ _ _ S1). rewrite <- Hla.
    change (g_of s_lb) with g_lb in *.
    rewrite (fsteps_app k2 _ _ _ _ _ S2).
    rewrite (fsteps_app 1 _ _ _ _ _ (fsteps_1 _ _ _ _ _ (step_red91 (s :: ss) _ _ _ e es ns rest Hnc))).
    exact (steps_finish s Hs ss _ _ vs (e :: es) ns rest).
Qed.

(* THE ROUND TRIP, lists of any length: parse_full reads `[ e1 , ... , en ]` (behind the start token) to AList [e1; ...; en] *)
Theorem list_roundtrip : forall tss es, Forall2 elem_ok tss es ->
  parse_full (kk tok_StartExpression :: list_tokens tss) = Some (AList es).
Proof.
  intros tss es H. unfold parse_full, parse_res.
  assert (Hs : in_ctx s_start) by (left; reflexivity).
  destruct (list_parse tss es H s_start Hs [0] [VTok tok_StartExpression; VEmpty] [] [] (or_introl eq_refl)) as (k & Hk & Hst).
  rewrite app_nil_r in Hst.
  pose proof (list_bound_le tss) as Hb.
  assert (Hf : exists f, fuel_of (kk tok_StartExpression :: list_tokens tss) = (1 + (k + S (S (S f))))%nat).
  { unfold fuel_of. cbn [List.length]. exists (40 * S (S (List.length (list_tokens tss))) - 1 - k - 3)%nat. lia. }
  destruct Hf as [f Hf]. rewrite Hf.
  rewrite (frun_fsteps 1 _ _ _ _ _ (fsteps_1 _ _ _ _ _ (step_start _))).
  rewrite (frun_fsteps k _ _ _ _ _ Hst).
  rewrite run_end. reflexivity.
Qed.

(* a list is itself an element of a list: nesting to any depth *)
Lemma list_elem_ok : forall tss es, Forall2 elem_ok tss es -> elem_ok (list_tokens tss) (AList es).
Proof.
  intros tss es H. pose proof (list_bound_le tss) as Hb. repeat split.
  - intros ss vs ns la rest Hc.
    destruct (list_parse tss es H s_lb (or_intror (or_introl eq_refl)) ss vs ns (la :: rest) (or_intror (ex_intro _ la (ex_intro _ rest (conj eq_refl Hc))))) as (k & Hk & Hst).
    exists k. split; [lia | exact Hst].
  - intros ss vs ns la rest Hc.
    destruct (list_parse tss es H s_cm (or_intror (or_intror eq_refl)) ss vs ns (la :: rest) (or_intror (ex_intro _ la (ex_intro _ rest (conj eq_refl Hc))))) as (k & Hk & Hst).
    exists k. split; [lia | exact Hst].
Qed.

(* elements to start from: a name, a numeral, a string, a boolean, null *)
Definition atom_tok (t : ftok) (e : ast) : Prop :=
  (exists n, t = (tok_Name, VName n) /\ e = AName n) \/
  (exists b a, t = (tok_Numeric, VNumeric b a) /\ e = ANumeric b a) \/
  (exists s, t = (tok_String, VString s) /\ e = AString s) \/
  (exists b, t = (tok_Boolean, VBoolean b) /\ e = ABoolean b) \/
  (t = kk tok_Null /\ e = ANull).

Lemma atom_elem_ok : forall t e, atom_tok t e -> elem_ok [t] e.
Proof.
  intros t e H.
  assert (Hat : forall s, s = s_lb \/ s = s_cm -> elem_at s [t] e).
  { intros s Hs ss vs ns [lt lv] rest Hcl. cbn in Hcl.
    destruct H as [(n & -> & ->) | [(b & a & -> & ->) | [(x & -> & ->) | [(b & -> & ->) | (-> & ->)]]]].
    - exists 3%nat. split; [cbn; lia|]. destruct Hs as [-> | ->]; destruct Hcl as [-> | ->]; vm_compute; reflexivity.
    - exists 5%nat. split; [cbn; lia|]. destruct Hs as [-> | ->]; destruct Hcl as [-> | ->]; vm_compute; reflexivity.
    - exists 5%nat. split; [cbn; lia|]. destruct Hs as [-> | ->]; destruct Hcl as [-> | ->]; vm_compute; reflexivity.
    - exists 5%nat. split; [cbn; lia|]. destruct Hs as [-> | ->]; destruct Hcl as [-> | ->]; vm_compute; reflexivity.
    - exists 4%nat. split; [cbn; lia|]. destruct Hs as [-> | ->]; destruct Hcl as [-> | ->]; vm_compute; reflexivity. }
  repeat split.
  - apply Hat. left; reflexivity.
  - apply Hat. right; reflexivity.
  - destruct H as [(n & -> & ->) | [(b & a & -> & ->) | [(x & -> & ->) | [(b & -> & ->) | (-> & ->)]]]]; reflexivity.
Qed.

(* ------------------------------------------------------------------ closed form: nested lists of atoms, any depth, any width *)
Inductive nlist :=
| NName (n : N) | NNumeric (b a : N) | NString (s : N) | NBoolean (b : bool) | NNull
| NList (l : list nlist).

Fixpoint nl_tokens (t : nlist) : list ftok :=
  match t with
  | NName n => [(tok_Name, VName n)]
  | NNumeric b a => [(tok_Numeric, VNumeric b a)]
  | NString s => [(tok_String, VString s)]
  | NBoolean b => [(tok_Boolean, VBoolean b)]
  | NNull => [kk tok_Null]
  | NList l => list_tokens (map nl_tokens l)
  end.

Fixpoint nl_tree (t : nlist) : ast :=
  match t with
  | NName n => AName n
  | NNumeric b a => ANumeric b a
  | NString s => AString s
  | NBoolean b => ABoolean b
  | NNull => ANull
  | NList l => AList (map nl_tree l)
  end.

Lemma nl_elem_ok : forall t, elem_ok (nl_tokens t) (nl_tree t).
Proof.
  fix IH 1. intros [n | b a | s | b | | l]; cbn [nl_tokens nl_tree].
  - apply atom_elem_ok. left. exists n. split; reflexivity.
  - apply atom_elem_ok. right; left. exists b, a. split; reflexivity.
  - apply atom_elem_ok. right; right; left. exists s. split; reflexivity.
  - apply atom_elem_ok. right; right; right; left. exists b. split; reflexivity.
  - apply atom_elem_ok. right; right; right; right. split; reflexivity.
  - apply list_elem_ok.
    induction l as [|x r IHr]; cbn [map]; constructor; [apply IH | exact IHr].
Qed.

Theorem nested_lists_roundtrip : forall l, parse_full (kk tok_StartExpression :: nl_tokens (NList l)) = Some (nl_tree (NList l)).
Proof.
  intro l. cbn [nl_tokens nl_tree]. apply list_roundtrip.
  induction l as [|x r IHr]; cbn [map]; constructor; [apply nl_elem_ok | exact IHr].
Qed.
