(* C13 — the parser's scope discipline: at no moment of a successful parse is a context of the caller popped or written, the
   parse ends on the scope it started with, pushes = pops; and this is a property of WHERE the actions sit: the seeded placement
   of C13_c (push per quantified variable, one pop) satisfies it for one variable and violates it for two. *)
From Coq Require Import List ZArith NArith Bool Lia.
From DV Require Import C01.Syntax C13.ParseScope C13.ParseScopeProofs C13.ParseDiscipline.
Import ListNotations.

Lemma walk_app a : forall d b, walk d (a ++ b) = match walk d a with Some m => walk m b | None => None end.
Proof.
  induction a as [|x a IH]; intros d b; [reflexivity|]. cbn [app walk].
  destruct x; [apply IH | destruct d; [reflexivity | apply IH] | destruct d; [reflexivity | apply IH]].
Qed.

Lemma walk_flat_map {A} (g : A -> list pact) l : (forall a d, walk d (g a) = Some d) -> forall d, walk d (flat_map g l) = Some d.
Proof.
  intros H. induction l as [|a l IH]; intros d; cbn [flat_map]; [reflexivity|]. rewrite walk_app, H. apply IH.
Qed.

(* inside a context pushed by the parse (depth S d) names may be added *)
Lemma walk_flat_map_in {A} (g : A -> list pact) l : (forall a d, walk (S d) (g a) = Some (S d)) ->
  forall d, walk (S d) (flat_map g l) = Some (S d).
Proof.
  intros H. induction l as [|a l IH]; intros d; cbn [flat_map]; [reflexivity|]. rewrite walk_app, H. apply IH.
Qed.

Lemma walk_names ns : forall d, walk (S d) (map PAdd ns) = Some (S d).
Proof. induction ns as [|n ns IH]; intros d; cbn [map walk]; [reflexivity | apply IH]. Qed.

(* THE DISCIPLINE of the action list of any successful parse, at any depth d the parse has already reached *)
Theorem walk_pacts : forall f e d, walk d (pacts f e) = Some d.
Proof.
  induction f as [|f IH]; intros e d; [reflexivity|].
  destruct e; cbn [pacts]; repeat (rewrite walk_app; rewrite ?IH); rewrite ?IH; try reflexivity.
  - (* EIn *) apply walk_flat_map. intros t d0. destruct t; repeat (rewrite walk_app; rewrite ?IH); rewrite ?IH; reflexivity.
  - (* EList *) apply walk_flat_map. intros a d0. apply IH.
  - (* ECtx *) cbn [walk]. rewrite walk_app.
    rewrite (walk_flat_map_in (fun ke : N * expr => pacts f (snd ke) ++ [PAdd (fst ke)])).
    + reflexivity.
    + intros a d0. rewrite walk_app, IH. reflexivity.
  - (* EFor *) cbn [walk]. rewrite walk_app.
    rewrite (walk_flat_map_in (fun nd : N * dom => PAdd (fst nd) :: match snd nd with DList x => pacts f x | DRange lo hi => pacts f lo ++ pacts f hi end)).
    + rewrite walk_app, IH. reflexivity.
    + intros [x dm] d0. cbn [walk snd]. destruct dm; repeat (rewrite walk_app; rewrite ?IH); rewrite ?IH; reflexivity.
  - (* ESome *) cbn [walk]. rewrite walk_app.
    rewrite (walk_flat_map_in (fun nd : N * expr => PAdd (fst nd) :: pacts f (snd nd))).
    + rewrite walk_app, IH. reflexivity.
    + intros a d0. cbn [walk]. apply IH.
  - (* EEvery *) cbn [walk]. rewrite walk_app.
    rewrite (walk_flat_map_in (fun nd : N * expr => PAdd (fst nd) :: pacts f (snd nd))).
    + rewrite walk_app, IH. reflexivity.
    + intros a d0. cbn [walk]. apply IH.
  - (* EFun *) cbn [walk]. rewrite walk_app, walk_names, walk_app, IH. reflexivity.
  - (* ECall *) apply walk_flat_map. intros a d0. apply IH.
  - (* ECallN *) apply walk_flat_map. intros a d0. apply IH.
Qed.

(* what a successful walk means for the scope: the caller's contexts S stay beneath the d contexts of the parse *)
Lemma walk_sound acts : forall d d', walk d acts = Some d' ->
  forall T S, length T = d -> exists T', length T' = d' /\ pexec acts (T ++ S) = T' ++ S.
Proof.
  induction acts as [|a acts IH]; intros d d' H T S HT.
  - cbn [walk] in H. inversion H. subst d'. exists T. split; [exact HT | reflexivity].
  - destruct a as [| |n]; cbn [walk] in H.
    + destruct (IH (Datatypes.S d) d' H ([] :: T) S) as [T' [L E]]; [cbn [length]; lia|]. exists T'. split; [exact L|]. exact E.
    + destruct d as [|d0]; [discriminate H|]. destruct T as [|c T0]; [discriminate HT|]. cbn [length] in HT.
      destruct (IH d0 d' H T0 S) as [T' [L E]]; [lia|]. exists T'. split; [exact L|]. exact E.
    + destruct d as [|d0]; [discriminate H|]. destruct T as [|c T0]; [discriminate HT|].
      destruct (IH (Datatypes.S d0) d' H ((n :: c) :: T0) S) as [T' [L E]]; [exact HT|]. exists T'. split; [exact L|]. exact E.
Qed.

Lemma walk_prefix pre : forall d suf d', walk d (pre ++ suf) = Some d' -> exists m, walk d pre = Some m.
Proof. intros d suf d' H. rewrite walk_app in H. destruct (walk d pre) as [m|]; [exists m; reflexivity | discriminate H]. Qed.

(* at every moment of a successful parse the scope is the caller's scope S with the parser's own contexts on top *)
Theorem parse_never_touches_callers_scope : forall f e pre suf S, pacts f e = pre ++ suf -> exists T, pexec pre S = T ++ S.
Proof.
  intros f e pre suf S E. pose proof (walk_pacts f e 0) as H. rewrite E in H.
  destruct (walk_prefix pre 0 suf 0 H) as [m Hm].
  destruct (walk_sound pre 0 m Hm [] S eq_refl) as [T' [_ HT]]. exists T'. exact HT.
Qed.

Lemma walk_counts acts : forall d d', walk d acts = Some d' -> (d + count_push acts = d' + count_pop acts)%nat.
Proof.
  induction acts as [|a acts IH]; intros d d' H.
  - cbn [walk] in H. inversion H. reflexivity.
  - destruct a as [| |n]; cbn [walk] in H; unfold count_push, count_pop in *; cbn [filter length].
    + specialize (IH _ _ H). lia.
    + destruct d as [|d0]; [discriminate H|]. specialize (IH _ _ H). lia.
    + destruct d as [|d0]; [discriminate H|]. specialize (IH _ _ H). lia.
Qed.

Theorem parse_pushes_equal_pops : forall f e, count_push (pacts f e) = count_pop (pacts f e).
Proof. intros f e. pose proof (walk_counts _ _ _ (walk_pacts f e 0)) as H. lia. Qed.

(* the final state, from the discipline (second proof of C13_parse_scope_balanced) *)
Corollary parse_scope_balanced_by_discipline : forall f e S, pexec (pacts f e) S = S.
Proof.
  intros f e S. destruct (walk_sound _ 0 0 (walk_pacts f e 0) [] S eq_refl) as [T' [L E]].
  destruct T'; [exact E | discriminate L].
Qed.

(* ---------------- the family of placements: pacts is the member `false` ---------------- *)
Lemma flat_map_ext_all {A B} (g h : A -> list B) l : (forall a, g a = h a) -> flat_map g l = flat_map h l.
Proof. intros H. induction l as [|a l IH]; cbn [flat_map]; [reflexivity|]. rewrite H, IH. reflexivity. Qed.

Theorem pacts_v_false : forall f e, pacts_v false f e = pacts f e.
Proof.
  induction f as [|f IH]; intros e; [reflexivity|].
  destruct e; cbn [pacts_v pacts]; rewrite ?IH; try reflexivity.
  - f_equal. apply flat_map_ext_all. intros t. destruct t; rewrite ?IH; reflexivity.
  - apply flat_map_ext_all. exact IH.
  - f_equal. f_equal. apply flat_map_ext_all. intros ke. rewrite IH. reflexivity.
  - f_equal. f_equal. f_equal. apply flat_map_ext_all. intros [x dm]. cbn [snd]. destruct dm; rewrite ?IH; reflexivity.
  - f_equal. f_equal. apply flat_map_ext_all. intros nd. rewrite IH. reflexivity.
  - f_equal. f_equal. apply flat_map_ext_all. intros nd. rewrite IH. reflexivity.
  - f_equal. apply flat_map_ext_all. exact IH.
  - f_equal. apply flat_map_ext_all. intros ne. apply IH.
Qed.

(* the other member: one push per quantified variable, one pop (C13_c).  One variable: every clause of the discipline holds;
   two variables: a context stays on the parsing scope, pushes <> pops *)
Theorem seeded_C13_c_refuted :
  walk 0 (pacts_v true 10 w_one_variable) = Some 0%nat /\
  pexec (pacts_v true 10 w_one_variable) [[7%N]] = [[7%N]] /\
  walk 0 (pacts_v true 10 w_two_variables) = Some 1%nat /\
  pexec (pacts_v true 10 w_two_variables) [[7%N]] = [[101%N]; [7%N]] /\
  count_push (pacts_v true 10 w_two_variables) = 2%nat /\ count_pop (pacts_v true 10 w_two_variables) = 1%nat /\
  pexec (pacts 10 w_two_variables) [[7%N]] = [[7%N]].
Proof. vm_compute. repeat split; reflexivity. Qed.
