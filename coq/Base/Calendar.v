(* Base/Calendar.v — owner: builder-time (C14, C15).
   The proleptic Gregorian calendar on Z, for every year (no range limit).
   Definitions only; the theorems are in Base/CalendarProofs.v. *)
From Coq Require Import ZArith Bool List.
Import ListNotations.
Open Scope Z_scope.

(* ---------------- the calendar as the property states it ---------------- *)
Definition leap (y : Z) : bool :=
  (y mod 4 =? 0) && (negb (y mod 100 =? 0) || (y mod 400 =? 0)).

(* length of month m of year y; 0 when m is not a month *)
Definition last_day (y m : Z) : Z :=
  match m with
  | 1 | 3 | 5 | 7 | 8 | 10 | 12 => 31
  | 4 | 6 | 9 | 11 => 30
  | 2 => if leap y then 29 else 28
  | _ => 0
  end.

Definition valid (y m d : Z) : bool :=
  (1 <=? m) && (m <=? 12) && (1 <=? d) && (d <=? last_day y m).

Definition year_len (y : Z) : Z := if leap y then 366 else 365.

(* days in the months before month m of a year (m in 1..12) *)
Definition before_month (y m : Z) : Z :=
  match m with
  | 1 => 0 | 2 => 31 | 3 => 59 | 4 => 90 | 5 => 120 | 6 => 151 | 7 => 181
  | 8 => 212 | 9 => 243 | 10 => 273 | 11 => 304 | 12 => 334 | _ => 0
  end + (if (3 <=? m) && leap y then 1 else 0).

(* days in the years before year y, counted from year 0: one leap day for each earlier leap year *)
Definition before_year (y : Z) : Z :=
  365 * y + (y + 3) / 4 - (y + 99) / 100 + (y + 399) / 400.

(* day number of a civil date, 1970-01-01 = 0 *)
Definition days_from_civil (y m d : Z) : Z :=
  before_year y + before_month y m + (d - 1) - 719528.

(* ---------------- the inverse, by eras of 400 years (146097 days), March-based ---------------- *)
Definition civil_of_doe (doe : Z) : Z * Z * Z :=
  let yoe := (doe - doe / 1460 + doe / 36524 - doe / 146096) / 365 in
  let doy := doe - (365 * yoe + yoe / 4 - yoe / 100) in
  let mp := (5 * doy + 2) / 153 in
  let d := doy - (153 * mp + 2) / 5 + 1 in
  let m := if mp <? 10 then mp + 3 else mp - 9 in
  ((if m <=? 2 then yoe + 1 else yoe), m, d).

Definition civil_from_days (z : Z) : Z * Z * Z :=
  let z' := z + 719468 in
  let era := z' / 146097 in
  let doe := z' mod 146097 in
  let '(y0, m, d) := civil_of_doe doe in
  (y0 + 400 * era, m, d).

(* ISO weekday, Monday = 1 .. Sunday = 7; 1970-01-01 (day 0) is a Thursday *)
Definition weekday_of_days (z : Z) : Z := (z + 3) mod 7 + 1.
Definition weekday (y m d : Z) : Z := weekday_of_days (days_from_civil y m d).

(* lexicographic comparison of (year, month, day) triples *)
Definition cmp3 (a b : Z * Z * Z) : comparison :=
  let '(y1, m1, d1) := a in
  let '(y2, m2, d2) := b in
  match y1 ?= y2 with
  | Eq => match m1 ?= m2 with Eq => d1 ?= d2 | c => c end
  | c => c
  end.

Definition valid3 (a : Z * Z * Z) : bool := let '(y, m, d) := a in valid y m d.
Definition days3 (a : Z * Z * Z) : Z := let '(y, m, d) := a in days_from_civil y m d.

(* enumeration used by the finite sweep over one era *)
Fixpoint zrange (start : Z) (n : nat) : list Z :=
  match n with O => [] | S k => start :: zrange (start + 1) k end.
