(* C02/NearestOps.v — every operation of the model that ends with the rounding step is correctly rounded in the sense of C02/Exact.v:
   its result is THE decimal128 nearest (ties to even) to the exact value, null exactly when the exact value reaches the overflow threshold.
     * x  ^n        : the exact product / power is an integer times a power of ten: round34_correctly_rounded directly;
     + -  modulo    : the same for the exact integer sum / difference / remainder at the smaller exponent;
     /              : the exact quotient  coef a / coef b * 10^(expo a - expo b)  against the >= 36 computed quotient digits + sticky digit;
     sqrt           : the exact root  sqrt (coef d * 10^(expo d))  against the >= 36 computed root digits + sticky digit
   (sticky_transfer, C02/Nearest.v: the two compare alike with every decimal point that matters).  All operands: any coefficient size,
   any exponent, zeros included.  Also: null exactly when undefined or out of range, and the audit's counter-instance to the earlier
   statement. *)
From Coq Require Import ZArith NArith Bool List Lia.
From DV Require Import Base.Dec Base.DecFacts Base.DecRound C02.Model C02.Proofs C02.Sqrt C02.Format C02.Exact C02.Nearest.
Open Scope Z_scope.

(* ---------------------------------------------------------------- * and integer powers *)
Theorem dmul_correctly_rounded : forall a b,
  correctly_rounded (Quot (coef a * coef b) 1 (expo a + expo b)) (xorb (neg a) (neg b)) (dmul a b).
Proof. intros a b. unfold dmul. apply round34_correctly_rounded. Qed.

Theorem dpow_nat_correctly_rounded : forall a n,
  correctly_rounded (Quot (coef a ^ n) 1 (expo a * Z.of_N n)) (neg a && N.odd n) (dpow_nat a n).
Proof. intros a n. unfold dpow_nat. apply round34_correctly_rounded. Qed.

(* ---------------------------------------------------------------- + - modulo: the exact integer z at the smaller exponent *)
Lemma round_Z_correctly_rounded : forall z e zs, correctly_rounded (Quot (Z.abs_N z) 1 e) (zsign z zs) (round_Z z e zs).
Proof. intros z e zs. unfold round_Z, zsign. apply round34_correctly_rounded. Qed.

Theorem dadd_correctly_rounded : forall a b, let e := emin2 a b in let z := scaled a e + scaled b e in
  correctly_rounded (Quot (Z.abs_N z) 1 e) (zsign z (neg a && neg b)) (dadd a b).
Proof. intros a b. cbv zeta. rewrite dadd_exact_then_round. apply round_Z_correctly_rounded. Qed.

Lemma scaled_dflip : forall b e, scaled (dflip b) e = - scaled b e.
Proof. intros b e. unfold scaled, sval, dflip. cbn [neg coef expo]. destruct (neg b); cbn [negb]; lia. Qed.

Theorem dsub_correctly_rounded : forall a b, let e := emin2 a b in let z := scaled a e - scaled b e in
  correctly_rounded (Quot (Z.abs_N z) 1 e) (zsign z (neg a && negb (neg b))) (dsub a b).
Proof.
  intros a b. cbv zeta. unfold dsub. rewrite dadd_exact_then_round.
  assert (E : emin2 a (dflip b) = emin2 a b) by reflexivity. rewrite E, scaled_dflip.
  change (neg (dflip b)) with (negb (neg b)). apply round_Z_correctly_rounded.
Qed.

Theorem dmod_correctly_rounded : forall a b, coef b <> 0%N -> let e := emin2 a b in
  let z := scaled a e - scaled b e * floor_div a b in
  correctly_rounded (Quot (Z.abs_N z) 1 e) (zsign z (neg b)) (dmod a b).
Proof.
  intros a b Hb. cbv zeta. unfold dmod, dis_zero. apply N.eqb_neq in Hb. rewrite Hb. apply round_Z_correctly_rounded.
Qed.

(* ---------------------------------------------------------------- / *)
Lemma compare_eq_cases : forall a b c d : Z,
  (a < b -> c < d) -> (a = b -> c = d) -> (b < a -> d < c) -> Z.compare a b = Z.compare c d.
Proof.
  intros a b c d H1 H2 H3. destruct (Z.compare_spec a b) as [E|L|G]; symmetry.
  - apply Z.compare_eq_iff. auto.
  - apply Z.compare_lt_iff. auto.
  - apply Z.compare_gt_iff. auto.
Qed.

(* the computed digits: q = floor (n / Y) with n = X * 10^k, sticky digit t; every multiple J * 10 of ten compares with 10 q + t as J * Y with n *)
Lemma div_sticky_cmp : forall n Y q r t J : Z, 0 < Y -> n = Y * q + r -> 0 <= r < Y -> (t = 0 /\ r = 0 \/ t = 1 /\ 0 < r) ->
  Z.compare (J * Y) n = Z.compare (10 * J) (10 * q + t).
Proof.
  intros n Y q r t J HY Hn Hr Ht.
  assert (M1 : J < q -> Y * (J + 1) <= Y * q) by (intros; apply Z.mul_le_mono_nonneg_l; lia).
  assert (M2 : q < J -> Y * (q + 1) <= Y * J) by (intros; apply Z.mul_le_mono_nonneg_l; lia).
  apply compare_eq_cases; intros H; destruct (Z.lt_trichotomy J q) as [L|[L|L]];
    try (specialize (M1 L)); try (specialize (M2 L)); try subst J; lia.
Qed.

Theorem ddiv_nearest : forall a b, (0 < coef b)%N ->
  correctly_rounded (Quot (coef a) (coef b) (expo a - expo b)) (xorb (neg a) (neg b)) (ddiv a b).
Proof.
  intros a b Hb. unfold ddiv.
  assert (dis_zero b = false) as -> by (unfold dis_zero; apply N.eqb_neq; lia).
  destruct (dis_zero a) eqn:Eza.
  { unfold dis_zero in Eza. apply N.eqb_eq in Eza. rewrite Eza. apply zero_correctly_rounded. apply quot_zero_is_zero. exact Hb. }
  unfold dis_zero in Eza. apply N.eqb_neq in Eza. assert (Ha : (0 < coef a)%N) by lia. cbv zeta.
  set (sg := xorb (neg a) (neg b)).
  set (k := Z.to_N (Z.max 0 (36 + Z.of_N (ndigits (coef b)) - Z.of_N (ndigits (coef a))))).
  set (n := (coef a * 10 ^ k)%N). set (qq := (n / coef b)%N). set (rr := (n mod coef b)%N).
  set (t := (if (rr =? 0)%N then 0 else 1)%N).
  set (e0 := expo a - expo b). replace (expo a - expo b - Z.of_N k - 1) with (e0 - Z.of_N k - 1) by reflexivity.
  set (E := e0 - Z.of_N k - 1).
  pose proof (ddiv_quotient_digits (coef a) (coef b) Ha Hb) as Hq35. cbv zeta in Hq35. fold k n qq in Hq35.
  pose proof (N.div_mod n (coef b) ltac:(lia)) as DM. pose proof (N.mod_lt n (coef b) ltac:(lia)) as ML. fold qq rr in DM, ML.
  assert (Ht : (t = 0 /\ rr = 0 \/ t = 1 /\ 0 < rr)%N).
  { unfold t. destruct (rr =? 0)%N eqn:Er; [apply N.eqb_eq in Er | apply N.eqb_neq in Er]; lia. }
  apply (sticky_transfer (Quot (coef a) (coef b) e0) (Quot (10 * qq + t) 1 E) E sg).
  - exact Hb.
  - cbn [exact_wf]. lia.
  - intros j kk Hk. rewrite (pt_cmp_quot_at (coef a) (coef b) e0 j kk E) by (unfold E; lia).
    rewrite (pt_cmp_quot_at (10 * qq + t) 1 E j kk E) by lia.
    rewrite Z.sub_diag, Z.pow_0_r, Z.mul_1_r. change (Z.of_N 1) with 1. rewrite Z.mul_1_r.
    rewrite (pow10_cut (kk - E) 1) by lia. rewrite Z.pow_1_r. set (J := j * 10 ^ (kk - E - 1)).
    assert (EX : Z.of_N (coef a) * 10 ^ (e0 - E) = 10 * Z.of_N n).
    { unfold n, E. rewrite N2Z.inj_mul, N2Z.inj_pow. change (Z.of_N 10) with 10.
      replace (e0 - (e0 - Z.of_N k - 1)) with (Z.of_N k + 1) by lia. rewrite Z.pow_add_r by lia. rewrite Z.pow_1_r. ring. }
    rewrite EX. replace (j * Z.of_N (coef b) * (10 ^ (kk - E - 1) * 10)) with ((J * Z.of_N (coef b)) * 10) by (unfold J; ring).
    replace (10 * Z.of_N n) with (Z.of_N n * 10) by ring. rewrite cmp_scale by lia.
    replace (j * (10 ^ (kk - E - 1) * 10)) with (10 * J) by (unfold J; ring).
    rewrite N2Z.inj_add, N2Z.inj_mul. change (Z.of_N 10) with 10.
    apply (div_sticky_cmp (Z.of_N n) (Z.of_N (coef b)) (Z.of_N qq) (Z.of_N rr) (Z.of_N t) J); lia.
  - unfold pt_le_x. rewrite (pt_cmp_quot_at (10 * qq + t) 1 E (10 ^ 34) (E + 1) E) by lia.
    replace (E + 1 - E) with 1 by lia. rewrite Z.sub_diag, Z.pow_0_r, Z.pow_1_r. change (Z.of_N 1) with 1.
    apply Z.compare_le_iff. apply N2Z.inj_le in Hq35. rewrite N2Z.inj_pow in Hq35. change (Z.of_N 10) with 10 in Hq35. change (Z.of_N 35) with 35 in Hq35.
    rewrite N2Z.inj_add, N2Z.inj_mul. change (Z.of_N 10) with 10.
    change (10 ^ 35) with (10 ^ 34 * 10) in Hq35. set (T := 10 ^ 34) in *. clearbody T. clear - Hq35. lia.
  - apply round34_correctly_rounded.
Qed.

(* ---------------------------------------------------------------- sqrt *)
(* the computed digits: s = floor (sqrt n), sticky digit t; every multiple J * 10 of ten compares with 10 s + t as J^2 with n *)
Lemma sqrt_sticky_cmp : forall n s t J : Z, 0 <= s -> 0 <= J -> s * s <= n < (s + 1) * (s + 1) ->
  (t = 0 /\ s * s = n \/ t = 1 /\ s * s < n) -> Z.compare (J ^ 2) n = Z.compare (10 * J) (10 * s + t).
Proof.
  intros n s t J Hs HJ Hn Ht. rewrite Z.pow_2_r.
  assert (M1 : J < s -> (J + 1) * (J + 1) <= s * s) by (intros; nia).
  assert (M2 : s < J -> (s + 1) * (s + 1) <= J * J) by (intros; nia).
  apply compare_eq_cases; intros H; destruct (Z.lt_trichotomy J s) as [L|[L|L]];
    try (specialize (M1 L)); try (specialize (M2 L)); try subst J; lia.
Qed.

Theorem dsqrt_nearest : forall d, coef d = 0%N \/ neg d = false ->
  correctly_rounded (Root (coef d) (expo d)) (neg d) (dsqrt d).
Proof.
  intros d Hd. unfold dsqrt. destruct (dis_zero d) eqn:Ez.
  { unfold dis_zero in Ez. apply N.eqb_eq in Ez. rewrite Ez. apply zero_correctly_rounded. apply root_zero_is_zero. }
  unfold dis_zero in Ez. apply N.eqb_neq in Ez. destruct Hd as [Hd|Hd]; [contradiction|]. rewrite Hd. cbv zeta.
  assert (Hc : (0 < coef d)%N) by lia.
  pose proof (Z.div_mod (expo d) 2 ltac:(lia)) as DM. pose proof (Z.mod_pos_bound (expo d) 2 ltac:(lia)) as MB.
  set (par := expo d mod 2) in *.
  set (c0 := (coef d * 10 ^ Z.to_N par)%N).
  assert (Hc0 : (0 < c0)%N). { unfold c0. assert (10 ^ Z.to_N par <> 0)%N by (apply N.pow_nonzero; lia). nia. }
  set (k := Z.to_N (Z.max 0 (36 - Z.of_N (ndigits c0) / 2))).
  set (n := (c0 * 10 ^ (2 * k))%N). set (s := N.sqrt n).
  set (t := (if (s * s =? n)%N then 0 else 1)%N).
  replace ((expo d - par) / 2) with (expo d / 2).
  2:{ replace (expo d - par) with (expo d / 2 * 2) by lia. rewrite Z.div_mul by lia. reflexivity. }
  set (E := expo d / 2 - Z.of_N k - 1).
  pose proof (dsqrt_root_digits c0 Hc0) as Hs35. cbv zeta in Hs35. fold k n s in Hs35.
  pose proof (N.sqrt_spec n ltac:(lia)) as [SL SU]. fold s in SL, SU.
  assert (Ht : (t = 0 /\ s * s = n \/ t = 1 /\ s * s < n)%N).
  { unfold t. destruct (s * s =? n)%N eqn:Er; [apply N.eqb_eq in Er | apply N.eqb_neq in Er]; lia. }
  apply (sticky_transfer (Root (coef d) (expo d)) (Quot (10 * s + t) 1 E) E false).
  - exact I.
  - cbn [exact_wf]. lia.
  - intros j kk Hk. destruct (Z.lt_ge_cases j 0) as [Nj|Nj]; [rewrite !pt_cmp_neg by lia; reflexivity|].
    rewrite (pt_cmp_root_at (coef d) (expo d) j kk (E + 1)) by (unfold E; lia).
    rewrite (pt_cmp_quot_at (10 * s + t) 1 E j kk E) by lia.
    rewrite Z.sub_diag, Z.pow_0_r, Z.mul_1_r. change (Z.of_N 1) with 1. rewrite Z.mul_1_r.
    rewrite (pow10_cut (kk - E) 1) by lia. rewrite Z.pow_1_r. replace (kk - E - 1) with (kk - (E + 1)) by lia.
    set (J := j * 10 ^ (kk - (E + 1))).
    assert (HJ : 0 <= J). { unfold J. pose proof (pow10_pos (kk - (E + 1)) ltac:(lia)). nia. }
    assert (EX : Z.of_N (coef d) * 10 ^ (expo d - 2 * (E + 1)) = Z.of_N n).
    { pose proof (radicand_scale (coef d) (expo d) k) as RS. fold par c0 n in RS.
      replace (E + 1) with (expo d / 2 - Z.of_N k) by (unfold E; lia). lia. }
    rewrite EX. replace (j * (10 ^ (kk - (E + 1)) * 10)) with (10 * J) by (unfold J; ring).
    rewrite N2Z.inj_add, N2Z.inj_mul. change (Z.of_N 10) with 10.
    apply (sqrt_sticky_cmp (Z.of_N n) (Z.of_N s) (Z.of_N t) J); [lia|exact HJ| |].
    + assert (N.succ s = s + 1)%N as Es by lia. rewrite Es in SU. clear - SL SU. lia.
    + clear - Ht. lia.
  - unfold pt_le_x. rewrite (pt_cmp_quot_at (10 * s + t) 1 E (10 ^ 34) (E + 1) E) by lia.
    replace (E + 1 - E) with 1 by lia. rewrite Z.sub_diag, Z.pow_0_r, Z.pow_1_r. change (Z.of_N 1) with 1.
    apply Z.compare_le_iff. apply N2Z.inj_le in Hs35. rewrite N2Z.inj_pow in Hs35. change (Z.of_N 10) with 10 in Hs35. change (Z.of_N 35) with 35 in Hs35.
    rewrite N2Z.inj_add, N2Z.inj_mul. change (Z.of_N 10) with 10.
    change (10 ^ 35) with (10 ^ 34 * 10) in Hs35. set (T := 10 ^ 34) in *. clearbody T. clear - Hs35. lia.
  - apply round34_correctly_rounded.
Qed.

(* ---------------------------------------------------------------- null exactly when undefined or out of range *)
(* division: null iff the divisor is zero or the exact quotient reaches the overflow threshold (10^34 - 1/2) * 10^6111 *)
Theorem ddiv_none_iff : forall a b,
  ddiv a b = None <-> coef b = 0%N \/ ((0 < coef b)%N /\ overflows (Quot (coef a) (coef b) (expo a - expo b))).
Proof.
  intros a b. destruct (N.eq_dec (coef b) 0) as [Z0|NZ].
  - split; [intros _; left; exact Z0 | intros _; exact (proj1 (div_by_zero_null a b Z0))].
  - assert (Hb : (0 < coef b)%N) by lia. pose proof (ddiv_nearest a b Hb) as CR.
    destruct (ddiv a b) as [r|]; cbn [correctly_rounded] in CR.
    + split; [intros H; discriminate H|]. intros [H|[_ H]]; [contradiction|]. exfalso. exact (in_range_not_overflows _ (proj1 CR) H).
    + split; [intros _; right; split; [exact Hb|exact CR] | reflexivity].
Qed.

(* modulo (Spec): null iff the divisor is zero or the exact remainder reaches the threshold (impossible for operands in format) *)
Theorem dmod_none_iff : forall a b, let e := emin2 a b in let z := scaled a e - scaled b e * floor_div a b in
  dmod a b = None <-> coef b = 0%N \/ (coef b <> 0%N /\ overflows (Quot (Z.abs_N z) 1 e)).
Proof.
  intros a b. cbv zeta. destruct (N.eq_dec (coef b) 0) as [Z0|NZ].
  - split; [intros _; left; exact Z0 | intros _; exact (proj2 (div_by_zero_null a b Z0))].
  - pose proof (dmod_correctly_rounded a b NZ) as CR. cbv zeta in CR.
    destruct (dmod a b) as [r|]; cbn [correctly_rounded] in CR.
    + split; [intros H; discriminate H|]. intros [H|[_ H]]; [contradiction|]. exfalso. exact (in_range_not_overflows _ (proj1 CR) H).
    + split; [intros _; right; split; [exact NZ|exact CR] | reflexivity].
Qed.

(* square root of a datum: null iff the operand is negative and not zero *)
Theorem dsqrt_none_iff : forall d, in_format d = true -> (dsqrt d = None <-> coef d <> 0%N /\ neg d = true).
Proof.
  intros d Hf. split.
  - intros H. destruct (N.eq_dec (coef d) 0) as [Z0|NZ].
    + destruct (dsqrt_defined d Hf (or_introl Z0)) as [r Hr]. congruence.
    + destruct (neg d) eqn:Sg; [split; [exact NZ|reflexivity]|].
      destruct (dsqrt_defined d Hf (or_intror Sg)) as [r Hr]. congruence.
  - intros [H1 H2]. exact (sqrt_negative_null d H1 H2).
Qed.

(* comparison is the comparison of the values, read at ANY common exponent (so it cannot see trailing zeros) *)
Lemma dcmp_eq_iff_value_at : forall a b e, e <= expo a -> e <= expo b -> (dcmp a b = Eq <-> scaled a e = scaled b e).
Proof. intros a b e Ha Hb. rewrite (cmp_at a b e Ha Hb). apply Z.compare_eq_iff. Qed.

(* ---------------------------------------------------------------- the audit's counter-instance *)
(* a = 10^34 - 3, b = 1: the quotient is representable; the earlier statement (div_weak_statement, C02/Exact.v) also accepted 1E+34
   (c = 10^33, q = 1).  The predicate of C02/Exact.v accepts the exact quotient and rejects 1E+34. *)
Ltac pt_true := vm_compute; discriminate.
Example audit_counterexample :
  ddiv (mkdec false 9999999999999999999999999999999997 0) (mkdec false 1 0) = Some (mkdec false 9999999999999999999999999999999997 0) /\
  rounds_to (Quot 9999999999999999999999999999999997 1 0) false (mkdec false 9999999999999999999999999999999997 0) /\
  ~ rounds_to (Quot 9999999999999999999999999999999997 1 0) false (mkdec false 1 34) /\
  div_weak_statement (mkdec false 9999999999999999999999999999999997 0) (mkdec false 1 0) (mkdec false 1 34).
Proof.
  assert (R : rounds_to (Quot 9999999999999999999999999999999997 1 0) false (mkdec false 9999999999999999999999999999999997 0)).
  { split; [vm_compute; reflexivity|]. split; [reflexivity|]. exists 9999999999999999999999999999999997%N, 0.
    unfold quantum, nearest_even, x_lt_pt, pt_le_x, x_le_pt, x_eq_pt.
    split; [|split].
    - split; [pt_true|]. split; [vm_compute; reflexivity|]. intros _. pt_true.
    - split; [pt_true|]. split; [pt_true|]. intros [H|H]; vm_compute in H; discriminate H.
    - vm_compute. reflexivity. }
  split; [vm_compute; reflexivity|]. split; [exact R|]. split.
  - intros H. assert (W : exact_wf (Quot 9999999999999999999999999999999997 1 0)) by (cbn; lia). pose proof (rounds_to_unique _ _ _ _ W R H) as V. vm_compute in V. discriminate V.
  - exists (10 ^ 33)%N, 1. split; [vm_compute; reflexivity|]. split; [reflexivity|]. split; [vm_compute; reflexivity|].
    split; [pt_true|]. split; [pt_true|]. split; [intros _; pt_true|].
    intros B H1 H2. cbv zeta. cbn [coef expo] in *. replace (1 + 0 - B) with (1 + (0 - B)) by lia.
    rewrite Z.pow_add_r, Z.pow_1_r by lia. pose proof (pow10_pos (0 - B) ltac:(lia)) as HT. set (T := 10 ^ (0 - B)) in *. clearbody T.
    change (Z.of_N (10 ^ 33)) with (10 ^ 33). change (Z.of_N 9999999999999999999999999999999997) with 9999999999999999999999999999999997.
    change (Z.of_N 1) with 1. split; [lia|]. intros C. exfalso. lia.
Qed.

(* ---------------------------------------------------------------- examples: the predicate singles out the result *)
Ltac from_op E H := rewrite E in H; cbn [correctly_rounded] in H; exact (proj2 H).
Example correctly_rounded_examples :
  (* 2/3 rounds up in the 34th digit; the neighbour below is not a correct rounding *)
  rounds_to (Quot 2 3 0) false (mkdec false 6666666666666666666666666666666667 (-34)) /\
  ~ rounds_to (Quot 2 3 0) false (mkdec false 6666666666666666666666666666666666 (-34)) /\
  (* exact ties: ...9999/2 goes up to the even 5000...0, ...9997/2 goes down to the even ...98; the odd neighbours are rejected *)
  rounds_to (Quot 9999999999999999999999999999999999 2 0) false (mkdec false 5 33) /\
  ~ rounds_to (Quot 9999999999999999999999999999999999 2 0) false (mkdec false 4999999999999999999999999999999999 0) /\
  rounds_to (Quot 9999999999999999999999999999999997 2 0) false (mkdec false 4999999999999999999999999999999998 0) /\
  ~ rounds_to (Quot 9999999999999999999999999999999997 2 0) false (mkdec false 4999999999999999999999999999999999 0) /\
  (* the subnormal grid: 1E-6176 / 2 is a tie between 0 and 1E-6176 and goes to the even 0; 3E-6176 / 2 goes to 2E-6176 *)
  rounds_to (Quot 1 2 (-6176)) false (mkdec false 0 (-6176)) /\
  ~ rounds_to (Quot 1 2 (-6176)) false (mkdec false 1 (-6176)) /\
  rounds_to (Quot 3 2 (-6176)) false (mkdec false 2 (-6176)) /\
  (* overflow: 1E+6111 / 1E-100 is null and its exact quotient reaches the threshold; the largest datum + 4E+6110 does not *)
  overflows (Quot 1 1 6211) /\ ddiv (mkdec false 1 6111) (mkdec false 1 (-100)) = None /\
  in_range (Quot 99999999999999999999999999999999994 1 6110) /\
  (* sqrt 2, and the neighbour above is rejected *)
  rounds_to (Root 2 0) false (mkdec false 1414213562373095048801688724209698 (-33)) /\
  ~ rounds_to (Root 2 0) false (mkdec false 1414213562373095048801688724209699 (-33)).
Proof.
  assert (D : forall a b r, (0 < coef b)%N -> ddiv a b = Some r -> rounds_to (Quot (coef a) (coef b) (expo a - expo b)) (xorb (neg a) (neg b)) r).
  { intros a b r Hb E. pose proof (ddiv_nearest a b Hb) as H. rewrite E in H. exact (proj2 H). }
  assert (U : forall x s r1 r2, rounds_to x s r1 -> exact_wf x -> veqb r1 r2 = false -> ~ rounds_to x s r2).
  { intros x s r1 r2 H1 Hwf Hv H2. pose proof (rounds_to_unique x s r1 r2 Hwf H1 H2) as V. apply veqb_iff in V. congruence. }
  assert (R1 := D (mkdec false 2 0) (mkdec false 3 0) _ ltac:(reflexivity) ltac:(vm_compute; reflexivity)).
  assert (R2 := D (mkdec false 9999999999999999999999999999999999 0) (mkdec false 2 0) _ ltac:(reflexivity) ltac:(vm_compute; reflexivity)).
  assert (R3 := D (mkdec false 9999999999999999999999999999999997 0) (mkdec false 2 0) _ ltac:(reflexivity) ltac:(vm_compute; reflexivity)).
  assert (R4 := D (mkdec false 1 (-6176)) (mkdec false 2 0) _ ltac:(reflexivity) ltac:(vm_compute; reflexivity)).
  assert (R5 := D (mkdec false 3 (-6176)) (mkdec false 2 0) _ ltac:(reflexivity) ltac:(vm_compute; reflexivity)).
  assert (R6 : rounds_to (Root 2 0) false (mkdec false 1414213562373095048801688724209698 (-33))).
  { pose proof (dsqrt_nearest (mkdec false 2 0) (or_intror eq_refl)) as H.
    assert (E : dsqrt (mkdec false 2 0) = Some (mkdec false 1414213562373095048801688724209698 (-33))) by (vm_compute; reflexivity).
    rewrite E in H. exact (proj2 H). }
  cbn [coef expo neg xorb Z.sub Z.opp Z.add Z.pos_sub] in R1, R2, R3, R4, R5.
  split; [exact R1|]. split; [apply (U _ _ _ _ R1); [cbn; lia | vm_compute; reflexivity]|].
  split.
  { (* the same number written 5E+33 *)
    destruct R2 as (_ & _ & c & q & Q & N & V). split; [vm_compute; reflexivity|]. split; [reflexivity|]. exists c, q. split; [exact Q|]. split; [exact N|].
    apply (veq_trans _ (mkdec false 5000000000000000000000000000000000 0)); [apply veqb_iff; vm_compute; reflexivity | exact V]. }
  split; [apply (U _ _ _ _ R2); [cbn; lia | vm_compute; reflexivity]|].
  split; [exact R3|]. split; [apply (U _ _ _ _ R3); [cbn; lia | vm_compute; reflexivity]|].
  split; [exact R4|]. split; [apply (U _ _ _ _ R4); [cbn; lia | vm_compute; reflexivity]|].
  split; [exact R5|].
  split; [unfold overflows, pt_le_x; pt_true|]. split; [vm_compute; reflexivity|].
  split; [unfold in_range, x_lt_pt; vm_compute; reflexivity|].
  split; [exact R6|]. apply (U _ _ _ _ R6); [exact I | vm_compute; reflexivity].
Qed.

(* ---------------------------------------------------------------- what FEEL sees: the reduced result *)
(* f_add .. f_sqrt are reduced (d..): removing trailing zeros keeps a correct rounding correct (same sign, same value, still in format) *)
Lemma dreduce_neg : forall d, neg (dreduce d) = neg d.
Proof. intros d. unfold dreduce. destruct (dis_zero d); [reflexivity|]. destruct (strip_zeros _ (coef d) (expo d)). reflexivity. Qed.

Theorem reduced_correctly_rounded : forall x s o, correctly_rounded x s o -> correctly_rounded x s (reduced o).
Proof.
  intros x s [r|] H; cbn [reduced option_map correctly_rounded] in *; [|exact H].
  destruct H as (IR & F & S & c & q & Q & N & V). split; [exact IR|].
  split; [apply dreduce_in_format; exact F|]. split; [rewrite dreduce_neg; exact S|]. exists c, q. split; [exact Q|]. split; [exact N|].
  apply (veq_trans _ r); [apply dreduce_value | exact V].
Qed.

(* computed values (1/3, 2/3, -2/3, two exact ties, an exact quotient, overflow, ties on the subnormal grid, gradual underflow; roots) *)
Example div_values :
  ddiv (mkdec false 1 0) (mkdec false 3 0) = Some (mkdec false 3333333333333333333333333333333333 (-34)) /\
  ddiv (mkdec false 2 0) (mkdec false 3 0) = Some (mkdec false 6666666666666666666666666666666667 (-34)) /\
  ddiv (mkdec true 2 0) (mkdec false 3 0) = Some (mkdec true 6666666666666666666666666666666667 (-34)) /\
  ddiv (mkdec false 9999999999999999999999999999999999 0) (mkdec false 2 0) = Some (mkdec false 5000000000000000000000000000000000 0) /\
  ddiv (mkdec false 9999999999999999999999999999999997 0) (mkdec false 2 0) = Some (mkdec false 4999999999999999999999999999999998 0) /\
  f_div (mkdec false 1 0) (mkdec false 8 0) = Some (mkdec false 125 (-3)) /\
  ddiv (mkdec false 1 6111) (mkdec false 1 (-100)) = None /\
  ddiv (mkdec false 1 (-6176)) (mkdec false 2 0) = Some (mkdec false 0 (-6176)) /\
  ddiv (mkdec false 3 (-6176)) (mkdec false 2 0) = Some (mkdec false 2 (-6176)) /\
  ddiv (mkdec false 1 (-6143)) (mkdec false 3 0) = Some (mkdec false 333333333333333333333333333333333 (-6176)) /\
  ddiv (mkdec true 0 5) (mkdec false 3 0) = Some (mkdec true 0 5) /\
  ddiv (mkdec false 1 0) (mkdec false 0 0) = None.
Proof. vm_compute. repeat split. Qed.

Example sqrt_values :
  dsqrt (mkdec false 2 0) = Some (mkdec false 1414213562373095048801688724209698 (-33)) /\
  f_sqrt (mkdec false 16 0) = Some (mkdec false 4 0) /\
  f_sqrt (mkdec false 1 (-6176)) = Some (mkdec false 1 (-3088)) /\
  f_sqrt (mkdec false 9999999999999999999999999999999999 6111) = Some (mkdec false 3162277660168379331998893544432718 3039) /\
  dsqrt (mkdec true 0 (-3)) = Some (mkdec true 0 (-2)) /\
  dsqrt (mkdec true 1 0) = None.
Proof. vm_compute. repeat split. Qed.
