(* C06 — property theorems (statements only).  Owner: builder-parse. *)
From Coq Require Import List NArith Bool Arith.
From DV Require Import C06.Model C06.Lr C06.Proofs C06.Fuel C06.StrProofs C06.LayoutProofs C06.TablesProofs.
Import ListNotations.

(* the committed LALR tables (regenerated from feel-parser/src/lalr.rs on this run) give, on every ordered pair of
   operators, the tree the Spec's precedence table dictates (or reject exactly when the Spec rejects).
   Bound: chains [-] a op1 [-] b op2 [-] c over the 34 operator items of Lr.all_items, 2 * 34^2 token lists. *)
Theorem C06_tables_pairs : forall (n : bool) (i j : item),
  tables_tree (chain n [i; j]) = parse_tokens (chain n [i; j]).
Proof. exact tables_pairs. Qed.
Print Assumptions C06_tables_pairs.

(* the same for every ordered triple; bound: 2 * 34^3 token lists *)
Theorem C06_tables_triples : forall (n : bool) (i j k : item),
  tables_tree (chain n [i; j; k]) = parse_tokens (chain n [i; j; k]).
Proof. exact tables_triples. Qed.
Print Assumptions C06_tables_triples.

(* Spec, all trees of the operator fragment (or, and, comparisons, between, in, + - * / **, unary minus, instance of, path,
   filter, invocation with one argument; no depth bound): the precedence-climbing parser gives the tree back from the
   minimally parenthesised rendering, for every sufficiently large fuel *)
Theorem C06_roundtrip_min : forall t, exists f0, forall f, f0 <= f -> parse_fuel f (render_min t) = Some t.
Proof. exact roundtrip_min. Qed.
Print Assumptions C06_roundtrip_min.

(* ... and never another tree, whatever the fuel (in particular with the fuel parse_tokens uses) *)
Theorem C06_roundtrip_min_unique : forall t f t', parse_fuel f (render_min t) = Some t' -> t' = t.
Proof. exact roundtrip_min_unique. Qed.
Print Assumptions C06_roundtrip_min_unique.

Theorem C06_roundtrip_full : forall t, exists f0, forall f, f0 <= f -> parse_fuel f (render_full t) = Some t.
Proof. exact roundtrip_full. Qed.
Print Assumptions C06_roundtrip_full.

(* the same with the concrete parser parse_tokens (fuel = number of tokens + 1, proved to be always enough): the headline *)
Theorem C06_roundtrip_min_tokens : forall t, parse_tokens (render_min t) = Some t.
Proof. exact roundtrip_min_tokens. Qed.
Print Assumptions C06_roundtrip_min_tokens.

Theorem C06_roundtrip_full_tokens : forall t, parse_tokens (render_full t) = Some t.
Proof. exact roundtrip_full_tokens. Qed.
Print Assumptions C06_roundtrip_full_tokens.

(* whatever the parser accepts with any fuel, parse_tokens accepts with the same tree *)
Theorem C06_fuel_suffices : forall f ts t, parse_fuel f ts = Some t -> parse_tokens ts = Some t.
Proof. exact parse_tokens_complete. Qed.
Print Assumptions C06_fuel_suffices.

(* needed parentheses, in part: proved for every tree made of an operator over an operator (20 x 20 operator shapes, the
   inner one in each operand position): every pair of parentheses of the minimal rendering is needed (without it parse_tokens
   does not give the tree back) and both renderings round-trip with the concrete fuel of parse_tokens.
   Missing: the statement for all trees (no bound); deeper trees are covered by the correspondence check only. *)
Theorem C06_needed_paren_partial : forall k1 k2 pos, k1 < shapes -> k2 < shapes -> pos < 3 ->
  all_needed (nested k1 k2 pos) = true /\ roundtrips (nested k1 k2 pos) = true.
Proof. exact needed_nested. Qed.
Print Assumptions C06_needed_paren_partial.

Example C06_nonvacuous :
  render_min (Bin Mul (Bin Add (Atom 1) (Neg (Neg (Atom 3)))) (Btw (Atom 5) (Bin And (Atom 7) (Atom 9)) (Atom 11)))
  = [TLp; TAtom 1; TOp Add; TOp Sub; TOp Sub; TAtom 3; TRp; TOp Mul; TLp; TAtom 5; TBetween; TAtom 7; TOp And; TAtom 9; TBand; TAtom 11; TRp].
Proof. vm_compute. reflexivity. Qed.
Print Assumptions C06_nonvacuous.

(* layouts: any sequence of white space characters, block comments whose body does not contain star-slash (whatever else it contains:
   runs of stars before the terminator, slashes, openers of comments, quotes, line breaks) and line comments closed by a line feed is
   skipped entirely by the model of read_input / consume_whitespace / consume_comment: the lexer resumes exactly at the next token *)
Theorem C06_layout_skipped : forall ps f rest, forallb piece_ok ps = true -> token_start rest = true -> comments ps <= f ->
  skip_layout f (render_layout ps ++ rest) = rest.
Proof. exact layout_skipped. Qed.
Print Assumptions C06_layout_skipped.

Theorem C06_layout_orig_refuted : skip_layout 2 two_comments_then_1 = [49%N] /\ skip_layout_orig two_comments_then_1 <> [49%N].
Proof. exact layout_orig_refuted_witness. Qed.
Print Assumptions C06_layout_orig_refuted.

(* string literals: every string of Unicode scalar values, written with any choice of spelling per character (raw, short escape,
   \uXXXX, \UXXXXXX, surrogate pair; upper or lower case hexadecimal digits), is decoded back to itself by the model of
   consume_string / consume_unicode (UTF-8 bytes computed with the code's masks and shifts, then from_utf8) *)
Theorem C06_unescape_escape : forall sps s, Forall (fun c => scalar c = true) s -> unescape (escape sps s) = Some s.
Proof. exact unescape_escape. Qed.
Print Assumptions C06_unescape_escape.

Theorem C06_unescape_surrogate_orig_refuted :
  unescape surrogate_witness = Some [128591%N] /\ unescape_orig surrogate_witness = None.
Proof. exact (conj unescape_surrogate_witness unescape_orig_surrogate_witness). Qed.
Print Assumptions C06_unescape_surrogate_orig_refuted.
