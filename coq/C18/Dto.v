(* C18 — TCK data transfer objects (server/src/dto.rs): Value -> OutputNodeDto / ValueDto and back
   (WrappedValue::try_from), and the bodies of the service's answers.  No proofs in this file. *)
From Coq Require Import List NArith Bool.
From DV Require Import C18.Model C18.Service.
Import ListNotations.
Open Scope N_scope.

(* ValueDto in normal form: the first member that is present among simple / components / list (the order in which
   WrappedValue::try_from(&ValueDto) looks at them); DNone = no member present *)
Inductive dto :=
| DSimple (ty tx : option text) (nil : bool)
| DComponents (cs : list (option text * option dto * bool))     (* name, value, isNil *)
| DList (items : list dto) (nil : bool)
| DNone.

(* type names: 1 xsd:string 2 xsd:decimal 3 xsd:boolean 4 xsd:date 5 xsd:time 6 xsd:dateTime 7 xsd:duration *)
Definition xsd_of_kind (k : N) : option N :=
  if k =? 1 then Some 4 else if k =? 2 then Some 5 else if k =? 3 then Some 6 else
  if k =? 4 then Some 7 else if k =? 5 then Some 7 else None.

Section Dto.
Variable tyname : N -> text.                         (* the text of a type name *)
Variable parse_simple : text -> text -> option value.  (* Value::try_from_xsd_* selected by the type name *)
Variable parse_name : text -> option text.           (* dmntk_feel_parser::parse_longest_name *)

(* TryFrom<&Value> for ValueDto *)
Fixpoint to_dto (v : value) : dto :=
  match v with
  | VStr s => DSimple (Some (tyname 1)) (Some s) false
  | VNum n => DSimple (Some (tyname 2)) (Some (render_num n)) false
  | VBool b => DSimple (Some (tyname 3)) (Some (if b then t_true else t_false)) false
  | VOther k d => match xsd_of_kind k with Some t => DSimple (Some (tyname t)) (Some d) false | None => DNone end
  | VNull => DSimple None None true
  | VCtx es => DComponents (map (fun kv => (Some (fst kv), Some (to_dto (snd kv)), false)) es)
  | VList l => DList (map to_dto l) false
  end.

(* FeelContext::set_entry on a BTreeMap: a later entry with the same key replaces the earlier one; keys stay sorted.
   Contexts of the model are association lists in key order; insertion keeps that order. *)
Fixpoint lex_lt (a b : text) : bool :=
  match a, b with
  | _, [] => false
  | [], _ :: _ => true
  | x :: a', y :: b' => if x <? y then true else if y <? x then false else lex_lt a' b'
  end.
Fixpoint set_entry (k : text) (v : value) (es : list (text * value)) : list (text * value) :=
  match es with
  | [] => [(k, v)]
  | (k', v') :: r => if lex_lt k k' then (k, v) :: es else if lex_lt k' k then (k', v') :: set_entry k v r else (k, v) :: r
  end.

(* TryFrom<&Vec<ComponentDto>> and TryFrom<&ComponentDto>, fd = the conversion of a nested ValueDto *)
Definition from_components (fd : dto -> option value) : list (option text * option dto * bool) -> list (text * value) -> option value :=
  fix go cs acc :=
    match cs with
    | [] => Some (VCtx acc)
    | (name, val, isnil) :: r =>
      match name with
      | None => None
      | Some nm =>
        match (if isnil then Some VNull else match val with Some d' => fd d' | None => None end) with
        | None => None
        | Some v => match parse_name nm with Some key => go r (set_entry key v acc) | None => None end
        end
      end
    end.

(* TryFrom<&ValueDto> / <&SimpleDto> / <&ListDto> for WrappedValue *)
Fixpoint from_dto (d : dto) : option value :=
  match d with
  | DSimple _ _ true => Some VNull
  | DSimple (Some ty) (Some tx) false => parse_simple ty tx
  | DSimple _ _ false => None
  | DComponents cs => from_components from_dto cs []
  | DList _ true => Some VNull
  | DList items false => match traverse from_dto items with Some vs => Some (VList vs) | None => None end
  | DNone => None
  end.
End Dto.

(* keys of a context as a BTreeMap holds them: strictly increasing *)
Fixpoint sorted_keys (es : list (text * value)) : bool :=
  match es with
  | [] => true
  | (k, _) :: r => forallb (fun kv => lex_lt k (fst kv)) r && sorted_keys r
  end.

(* values as the evaluator holds them: contexts keyed in increasing order, no kind without a TCK form *)
Fixpoint tck_value (v : value) : bool :=
  match v with
  | VList l => forallb tck_value l
  | VCtx es => sorted_keys es && forallb (fun kv => tck_value (snd kv)) es
  | VOther k _ => match xsd_of_kind k with Some _ => true | None => false end
  | _ => true
  end.

(* ---------------- bodies of the answers ---------------- *)
Definition k_data : text := [100; 97; 116; 97].
Definition k_errors : text := [101; 114; 114; 111; 114; 115].
Definition k_details : text := [100; 101; 116; 97; 105; 108; 115].
Definition k_status : text := [115; 116; 97; 116; 117; 115].
Definition k_namespace : text := [110; 97; 109; 101; 115; 112; 97; 99; 101].
Definition k_name : text := [110; 97; 109; 101].

Section Body.
Variable txt : N -> text.          (* the text of a namespace / name / status *)
Variable msg : err -> text.        (* the text of an error *)
Variable result : N -> value.      (* the value the evaluator built from document d computes for the request at hand *)

(* ResultDto serialised by serde_json; the evaluate handler writes {"data": + Value::jsonify() + } itself *)
Definition body (r : reply) : text :=
  match r with
  | RAdded n k => compact (VCtx [(k_data, VCtx [(k_namespace, VStr (txt n)); (k_name, VStr (txt k))])])
  | RStatus c => compact (VCtx [(k_data, VCtx [(k_status, VStr (txt c))])])
  | RValue _ d => 123 :: quote k_data ++ 58 :: jsonify (result d) ++ [125]
  | RErr e => compact (VCtx [(k_errors, VList [VCtx [(k_details, VStr (msg e))]])])
  end.
(* the evaluate handler of the pinned commit *)
Definition body_orig (r : reply) : text :=
  match r with
  | RValue _ d => 123 :: quote k_data ++ 58 :: jsonify_orig (result d) ++ [125]
  | _ => body r
  end.
End Body.
