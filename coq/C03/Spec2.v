(* C03 — definitions for the audit repairs (AUDIT.md problems 5, 12).  No proofs in this file (see C03/Audit.v).
   1. what the CURRENT code answers for an input entry, said with the Spec's `sat_item`: a list of tests is read up to its
      first `null` literal only (known finding null-literal-entry);
   2. on which (value, entry) pairs that answer is the Spec's, and the table-level condition built from it;
   3. the order of PRIORITY / OUTPUT ORDER as a relation, written without the sort and without the comparator of the code:
      lexicographic over the output clauses, per clause the rank of the output in the clause's list of output values. *)
From Coq Require Import List ZArith NArith Bool.
From DV Require Import C03.Model.
Import ListNotations.

(* ------------------------------------------------------------------ 1. the code's answer for an entry *)
(* the items before the first null literal *)
Fixpoint before_null (l : list item) : list item :=
  match l with
  | [] => []
  | i :: r => if item_nonnull i then i :: before_null r else []
  end.

Definition tv_not (t : tv) : tv := match t with TT => TF | TF => TT | TN => TN end.

(* true when a test before the first null literal is satisfied; otherwise false if there is no null literal, null if there is one *)
Definition code_in_list (x : atom) (l : list item) : tv :=
  if existsb (sat_item x) (before_null l) then TT else if forallb item_nonnull l then TF else TN.

Definition code_in_test (x : atom) (u : utest) : tv :=
  match u with
  | UAny => TT
  | UPos l => code_in_list x l
  | UNeg l => tv_not (code_in_list x l)
  end.

(* ------------------------------------------------------------------ 2. where the code's answer is the Spec's *)
Definition list_agrees (x : atom) (l : list item) : bool :=
  Bool.eqb (existsb (sat_item x) (before_null l)) (existsb (sat_item x) l).

Definition utest_agrees (x : atom) (u : utest) : bool :=
  match u with
  | UAny => true
  | UPos l => list_agrees x l
  | UNeg l => forallb item_nonnull l || existsb (sat_item x) l
  end.

Definition entry_agrees (x : atom) (ic : iclause) (e : utest) : bool :=
  match i_values ic with None => true | Some vs => list_agrees x vs end && utest_agrees x e.

Definition out_values_nonnull (t : table) : bool :=
  forallb (fun oc => match o_values oc with None => true | Some vs => forallb nonnull vs end) (t_outputs t).

(* every entry the evaluation of (t, xs) looks at is answered as the Spec answers it; no null among the output values *)
Definition agreeing (t : table) (xs : list atom) : bool :=
  arity_ok t xs && out_values_nonnull t &&
  forallb (fun r => all3 entry_agrees xs (t_inputs t) (r_in r)) (t_rules t).

(* ------------------------------------------------------------------ 3. output-value priority as a relation *)
(* ranks: Some i = the i-th of the clause's output values, None = not listed (or the clause lists none): after every listed value *)
Definition rank_lt (a b : option nat) : Prop :=
  match a, b with
  | Some i, Some j => (i < j)%nat
  | Some _, None => True
  | None, _ => False
  end.

(* the first clause in which the ranks differ decides; later clauses only break ties *)
Inductive lex_lt : list (option nat) -> list (option nat) -> Prop :=
| lex_here : forall x y a b, rank_lt x y -> lex_lt (x :: a) (y :: b)
| lex_next : forall x a b, lex_lt a b -> lex_lt (x :: a) (x :: b).

(* the output of r1 has priority over the output of r2 *)
Definition precedes (t : table) (r1 r2 : rule) : Prop := lex_lt (key t r1) (key t r2).

(* PRIORITY: among the matching rules (in rule order) the one whose output no other output precedes; among several such, the first:
   it precedes every matching rule before it and no matching rule after it precedes it *)
Definition priority_winner (t : table) (hs : list rule) (w : rule) : Prop :=
  exists before after, hs = before ++ w :: after /\
    (forall r, In r before -> precedes t w r) /\
    (forall r, In r after -> ~ precedes t r w).
