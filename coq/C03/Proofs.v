(* C03 — proofs about C03/Model.v:
   A. the three-valued unary-test evaluation of the code decides `sat` for every value and every test (no typing hypothesis);
   B. the rules the code collects are exactly the satisfied rules, in rule order;
   C. get_result composes what the Spec composes; D. the priority sort; E. every hit policy;
   F. the headline refinement and its corollaries; G. the pinned commit refuted. *)
From Coq Require Import List ZArith NArith Bool Lia Permutation Sorted.
From DV Require Import C03.Model.
Import ListNotations.

(* ================================================================== A. unary tests *)
Lemma atom_eqb_refl a : atom_eqb a a = true.
Proof. destruct a; cbn [atom_eqb]; [reflexivity | apply Z.eqb_refl | apply N.eqb_refl | apply eqb_reflx]. Qed.

Lemma atom_eqb_eq a b : atom_eqb a b = true <-> a = b.
Proof. split; [|intros ->; apply atom_eqb_refl].
  destruct a, b; cbn [atom_eqb]; try discriminate; try reflexivity.
  - intros H. apply Z.eqb_eq in H. congruence.
  - intros H. apply N.eqb_eq in H. congruence.
  - intros H. apply eqb_prop in H. congruence. Qed.

Lemma atom_eqb_sym a b : atom_eqb a b = atom_eqb b a.
Proof. destruct a, b; cbn [atom_eqb]; try reflexivity; [apply Z.eqb_sym | apply N.eqb_sym | destruct b0, b; reflexivity]. Qed.

Lemma kind_eqb_eq a b : kind_eqb a b = true <-> a = b.
Proof. destruct a, b; cbn [kind_eqb]; split; congruence. Qed.

Lemma cmp_c_z o a b :
  cmp_c o (Z.compare a b) =
  match o with CLt => Z.ltb a b | CLe => Z.ltb a b || Z.eqb a b | CGt => Z.ltb b a | CGe => Z.ltb b a || Z.eqb b a end.
Proof. destruct o; destruct (Z.compare_spec a b) as [H|H|H]; cbn [cmp_c];
  repeat match goal with
  | |- context [Z.ltb ?x ?y] => destruct (Z.ltb_spec x y)
  | |- context [Z.eqb ?x ?y] => destruct (Z.eqb_spec x y)
  end; cbn [orb]; try reflexivity; lia. Qed.

Lemma cmp_c_n o a b :
  cmp_c o (N.compare a b) =
  match o with CLt => N.ltb a b | CLe => N.ltb a b || N.eqb a b | CGt => N.ltb b a | CGe => N.ltb b a || N.eqb b a end.
Proof. destruct o; destruct (N.compare_spec a b) as [H|H|H]; cbn [cmp_c];
  repeat match goal with
  | |- context [N.ltb ?x ?y] => destruct (N.ltb_spec x y)
  | |- context [N.eqb ?x ?y] => destruct (N.eqb_spec x y)
  end; cbn [orb]; try reflexivity; lia. Qed.

Lemma zleb_split a b : Z.leb a b = Z.ltb a b || Z.eqb a b.
Proof. destruct (Z.leb_spec a b), (Z.ltb_spec a b), (Z.eqb_spec a b); cbn [orb]; try reflexivity; lia. Qed.
Lemma nleb_split a b : N.leb a b = N.ltb a b || N.eqb a b.
Proof. destruct (N.leb_spec a b), (N.ltb_spec a b), (N.eqb_spec a b); cbn [orb]; try reflexivity; lia. Qed.

Lemma is_tt_of_bool b : is_tt (of_bool b) = b.
Proof. destruct b; reflexivity. Qed.

(* every item, every value (null and values of another kind included): the code's answer is `true` exactly when the item is satisfied *)
Lemma in_equal_sat x a : is_tt (in_equal x a) = atom_eqb x a.
Proof. destruct x, a; unfold in_equal; cbn [teq atom_eqb is_tt]; try reflexivity.
  - destruct (Z.eqb z z0); reflexivity.
  - destruct (N.eqb s s0); reflexivity.
  - destruct (Bool.eqb b b0); reflexivity. Qed.

Lemma in_cmp_sat o x a : is_tt (in_cmp o x a) = sat_item x (ICmp o a).
Proof. destruct x, a; cbn [in_cmp is_tt]; try (destruct o; reflexivity).
  - rewrite is_tt_of_bool, cmp_c_z. destruct o; cbn [sat_item lt_atom le_atom]; try reflexivity; symmetry; apply zleb_split.
  - rewrite is_tt_of_bool, cmp_c_n. destruct o; cbn [sat_item lt_atom le_atom]; try reflexivity; symmetry; apply nleb_split. Qed.

Lemma in_range_sat x lo lc hi hc : is_tt (in_range x lo lc hi hc) = sat_item x (IRange lo lc hi hc).
Proof. destruct x, lo; try (destruct lc; reflexivity); destruct hi;
    cbn [in_range is_tt sat_item le_atom lt_atom]; rewrite ?is_tt_of_bool, ?andb_false_r; try reflexivity;
    destruct lc, hc; rewrite ?andb_false_r; reflexivity. Qed.

Lemma item_tv_sat x i : exists t, item_tv x i = Some t /\ is_tt t = sat_item x i.
Proof. destruct i as [a|o a|lo lc hi hc]; cbn [item_tv item_tv_gen].
  - exists (in_equal x a). split; [destruct a; reflexivity | apply in_equal_sat].
  - eexists. split; [reflexivity | apply in_cmp_sat].
  - eexists. split; [reflexivity | apply in_range_sat]. Qed.

Lemma in_list_sat x l : in_list x l = of_bool (existsb (sat_item x) l).
Proof. induction l as [|i l IH]; cbn [existsb]; [reflexivity|].
  unfold in_list. cbn [in_list_gen]. fold (item_tv x i). destruct (item_tv_sat x i) as [t [-> Ht]]. rewrite <- Ht.
  destruct t; cbn [is_tt of_bool orb]; try reflexivity; apply IH. Qed.

(* the unary-test evaluation with the null literal handled decides `sat` for EVERY value and every entry *)
Theorem in_test_sat x u : in_test false true in_neg_list x u = of_bool (sat x u).
Proof. destruct u as [|l|l]; cbn [in_test sat].
  - destruct x; reflexivity.
  - apply (in_list_sat x l).
  - unfold in_neg_list, in_neg_list_gen. fold (in_list x l). rewrite in_list_sat. destruct (existsb (sat_item x) l); reflexivity. Qed.

(* ================================================================== B. matching rules *)
Lemma entry_true_sat x ic e : entry_true false true x ic e = entry_sat x ic e.
Proof. unfold entry_true, entry_sat, neg. cbv iota. fold in_neg_list.
  rewrite (in_test_sat x e), is_tt_of_bool. destruct (i_values ic) as [vs|]; [|reflexivity].
  fold (in_list x vs). rewrite (in_list_sat x vs), is_tt_of_bool. reflexivity. Qed.

Lemma rule_matches_sat ics : forall xs es, length xs = length ics -> length es = length ics ->
  rule_matches false true xs ics es = all3 entry_sat xs ics es.
Proof. induction ics as [|ic ics IH]; intros [|x xs] [|e es]; cbn [all3 rule_matches length]; try discriminate; try reflexivity.
  intros H1 H2. rewrite entry_true_sat, IH by lia. reflexivity. Qed.

Lemma filter_map {A B} (f : B -> bool) (g : A -> B) l : filter f (map g l) = map g (filter (fun x => f (g x)) l).
Proof. induction l as [|x l IH]; cbn [map filter]; [reflexivity|]. destruct (f (g x)); cbn [map]; rewrite IH; reflexivity. Qed.

Definition rules_fit (t : table) : Prop := forall r, In r (t_rules t) -> length (r_in r) = length (t_inputs t).

Theorem matching_hits t xs : rules_fit t -> length xs = length (t_inputs t) ->
  matching false true t xs = map (eval_rule false true t xs) (hits t xs).
Proof. intros Hr Hl. unfold matching, hits. rewrite filter_map. f_equal. apply filter_ext_in. intros r Hin.
  cbn [eval_rule matches]. unfold rule_sat. apply rule_matches_sat; [exact Hl | apply Hr; exact Hin]. Qed.

Lemma rule_outs_spec ocs : forall os, rule_outs true ocs os = map (fun p => out_filter (o_values (fst p)) (snd p)) (combine ocs os).
Proof. induction ocs as [|oc ocs IH]; intros [|o os]; cbn [rule_outs combine map fst snd]; try reflexivity. rewrite IH. reflexivity. Qed.

Lemma outs_eval t xs r : outs (eval_rule false true t xs r) = spec_outs t r.
Proof. cbn [eval_rule outs]. unfold spec_outs. apply rule_outs_spec. Qed.

Lemma hits_in t xs r : In r (hits t xs) -> In r (t_rules t) /\ rule_sat t xs r = true.
Proof. unfold hits. intros H. apply filter_In in H. exact H. Qed.

(* ================================================================== C. composing a result *)
Lemma wf_parts t : wf t = true ->
  0 < length (t_outputs t) /\
  (forall r, In r (t_rules t) -> length (r_in r) = length (t_inputs t) /\ length (r_out r) = length (t_outputs t)) /\
  (1 < length (t_outputs t) -> length (names t) = length (t_outputs t) /\ nodupb (names t) = true).
Proof. unfold wf. intros H. apply andb_true_iff in H. destruct H as [H H3]. apply andb_true_iff in H. destruct H as [H1 H2].
  split; [apply Nat.ltb_lt; exact H1|]. split.
  - intros r Hr. rewrite forallb_forall in H2. specialize (H2 r Hr). apply andb_true_iff in H2. destruct H2 as [Ha Hb].
    apply Nat.eqb_eq in Ha. apply Nat.eqb_eq in Hb. split; assumption.
  - intros Hn. apply Nat.ltb_lt in Hn. rewrite Hn in H3. apply andb_true_iff in H3. destruct H3 as [Ha Hb]. split; [|exact Hb].
    unfold names. clear - Ha. induction (t_outputs t) as [|oc l IH]; cbn [map flat_some length forallb] in *; [reflexivity|].
    apply andb_true_iff in Ha. destruct Ha as [Hs Hl]. destruct (o_name oc); cbn in Hs; [|discriminate]. cbn [length]. rewrite IH by exact Hl. reflexivity. Qed.

Lemma flat_some_length {A} (l : list (option A)) : length (flat_some l) <= length l.
Proof. induction l as [|[a|] l IH]; cbn [flat_some length]; lia. Qed.

Lemma spec_outs_length t r : length (r_out r) = length (t_outputs t) -> length (spec_outs t r) = length (t_outputs t).
Proof. intros H. unfold spec_outs. rewrite map_length, combine_length. lia. Qed.

Lemma get_result_spec t xs r : wf t = true -> In r (t_rules t) ->
  get_result t (eval_rule false true t xs r) = Some (spec_out t r).
Proof. intros Hwf Hr. destruct (wf_parts t Hwf) as [Hpos [Hlen Hnames]]. destruct (Hlen r Hr) as [_ Ho].
  unfold get_result, spec_out, compose. rewrite outs_eval. pose proof (spec_outs_length t r Ho) as Hl.
  destruct (spec_outs t r) as [|a [|b l]] eqn:E; cbn [length] in Hl.
  - lia.
  - reflexivity.
  - assert (Hn : 1 < length (t_outputs t)) by lia. destruct (Hnames Hn) as [Hnl _].
    replace (Nat.ltb 1 (length (a :: b :: l))) with true by (symmetry; apply Nat.ltb_lt; cbn [length]; lia).
    unfold component_names. fold (names t). rewrite Hnl, <- Hl, Nat.eqb_refl. reflexivity. Qed.

Lemma get_results_spec t xs l : wf t = true -> (forall r, In r l -> In r (t_rules t)) ->
  get_results t (map (eval_rule false true t xs) l) = Some (map (spec_out t) l).
Proof. intros Hwf. induction l as [|r l IH]; intros Hin; cbn [map get_results]; [reflexivity|].
  rewrite (get_result_spec t xs r Hwf (Hin r (or_introl eq_refl))), IH; [reflexivity|]. intros r' Hr'. apply Hin. right. exact Hr'. Qed.

(* ================================================================== D. the priority sort *)
Section SortFacts.
Context {A : Type}.
Variable cmp : A -> A -> comparison.

Lemma insert_perm x l : Permutation (x :: l) (insert cmp x l).
Proof. induction l as [|y l IH]; cbn [insert]; [apply Permutation_refl|].
  destruct (cmp x y); try apply Permutation_refl. eapply perm_trans; [apply perm_swap|]. apply perm_skip. exact IH. Qed.

Lemma ssort_perm l : Permutation l (ssort cmp l).
Proof. induction l as [|x l IH]; cbn [ssort fold_right]; [apply perm_nil|].
  eapply perm_trans; [apply perm_skip; exact IH|]. apply insert_perm. Qed.

Lemma ssort_length l : length (ssort cmp l) = length l.
Proof. symmetry. apply Permutation_length. apply ssort_perm. Qed.

Lemma ssort_in l x : In x (ssort cmp l) <-> In x l.
Proof. split; intros H; [eapply Permutation_in; [apply Permutation_sym, ssort_perm|exact H] | eapply Permutation_in; [apply ssort_perm|exact H]]. Qed.

(* sortedness needs only: x > y implies not (y > x) *)
Hypothesis cmp_gt_flip : forall x y, cmp x y = Gt -> cmp y x <> Gt.
Definition leq (x y : A) : Prop := cmp x y <> Gt.

Lemma insert_hdrel x y l : leq y x -> HdRel leq y l -> HdRel leq y (insert cmp x l).
Proof. intros Hyx Hl. destruct l as [|z l]; cbn [insert]; [constructor; exact Hyx|].
  destruct (cmp x z); constructor; try exact Hyx. inversion Hl; assumption. Qed.

Lemma insert_sorted x l : Sorted leq l -> Sorted leq (insert cmp x l).
Proof. induction l as [|y l IH]; cbn [insert]; intros Hs; [repeat constructor|].
  inversion Hs as [|y' l' Hs' Hhd]; subst. destruct (cmp x y) eqn:E.
  - constructor; [exact Hs|]. constructor. unfold leq. congruence.
  - constructor; [exact Hs|]. constructor. unfold leq. congruence.
  - constructor; [apply IH; exact Hs'|]. apply insert_hdrel; [apply cmp_gt_flip; exact E|exact Hhd]. Qed.

Lemma ssort_sorted l : Sorted leq (ssort cmp l).
Proof. induction l as [|x l IH]; cbn [ssort fold_right]; [constructor|]. apply insert_sorted. exact IH. Qed.

(* stability: the elements selected by a predicate that the comparator cannot separate keep their order *)
Variable p : A -> bool.
Hypothesis p_class : forall x y, p x = true -> p y = true -> cmp x y = Eq.

Lemma insert_stable x l : filter p (insert cmp x l) = filter p (x :: l).
Proof. induction l as [|y l IH]; cbn [insert]; [reflexivity|].
  destruct (cmp x y) eqn:E; try reflexivity. cbn [filter] in *. destruct (p x) eqn:Px, (p y) eqn:Py; rewrite IH; try reflexivity.
  rewrite (p_class x y Px Py) in E. discriminate. Qed.

Lemma ssort_stable l : filter p (ssort cmp l) = filter p l.
Proof. induction l as [|x l IH]; cbn [ssort fold_right]; [reflexivity|]. fold (ssort cmp l). rewrite insert_stable. cbn [filter]. rewrite IH. reflexivity. Qed.
End SortFacts.

Lemma insert_map {A B} (f : A -> B) (cA : A -> A -> comparison) (cB : B -> B -> comparison) x l :
  (forall y, In y l -> cB (f x) (f y) = cA x y) -> map f (insert cA x l) = insert cB (f x) (map f l).
Proof. induction l as [|y l IH]; intros H; cbn [insert map]; [reflexivity|].
  rewrite (H y (or_introl eq_refl)). destruct (cA x y); cbn [map]; try reflexivity. rewrite IH; [reflexivity|].
  intros z Hz. apply H. right. exact Hz. Qed.

Lemma ssort_map {A B} (f : A -> B) (cA : A -> A -> comparison) (cB : B -> B -> comparison) l :
  (forall x y, In x l -> In y l -> cB (f x) (f y) = cA x y) -> map f (ssort cA l) = ssort cB (map f l).
Proof. induction l as [|x l IH]; intros H; cbn [ssort fold_right map]; [reflexivity|]. fold (ssort cA l). fold (ssort cB (map f l)).
  rewrite (insert_map f cA cB).
  - rewrite IH; [reflexivity|]. intros a b Ha Hb. apply H; right; assumption.
  - intros y Hy. apply H; [left; reflexivity | right; apply (ssort_in cA l y); exact Hy]. Qed.

Lemma cmp_pos_key p1 p2 rest : cmp_pos p1 p2 rest = match cmp_key1 p1 p2 with Eq => rest | c => c end.
Proof. destruct p1 as [i|], p2 as [j|]; cbn [cmp_pos cmp_key1]; try reflexivity.
  destruct (Nat.compare_spec i j) as [H|H|H]; destruct (Nat.ltb_spec i j), (Nat.ltb_spec j i); try reflexivity; lia. Qed.

Lemma position_nil a : position a [] = None.
Proof. reflexivity. Qed.

Lemma cmp_outs_keys ocs : forall a b,
  cmp_outs (map (fun oc => match o_values oc with Some vs => vs | None => [] end) ocs) a b =
  cmp_keys (map (fun p => key1 (fst p) (snd p)) (combine ocs a)) (map (fun p => key1 (fst p) (snd p)) (combine ocs b)).
Proof. induction ocs as [|oc ocs IH]; intros [|v1 a] [|v2 b]; cbn [map combine cmp_outs cmp_keys fst snd]; try reflexivity.
  rewrite cmp_pos_key, IH. unfold key1. destruct (o_values oc); reflexivity. Qed.

Lemma prioritized_spec t xs : rules_fit t -> length xs = length (t_inputs t) ->
  prioritized false true t xs = map (eval_rule false true t xs) (by_priority t (hits t xs)).
Proof. intros Hr Ht. unfold prioritized, by_priority. rewrite (matching_hits t xs Hr Ht). symmetry. apply ssort_map.
  intros x y _ _. rewrite !outs_eval. unfold output_values, key. apply cmp_outs_keys. Qed.

(* the comparator on keys: x > y implies y < x *)
Lemma cmp_key1_flip a b : cmp_key1 a b = CompOpp (cmp_key1 b a).
Proof. destruct a as [i|], b as [j|]; cbn [cmp_key1 CompOpp]; try reflexivity. apply Nat.compare_antisym. Qed.

Lemma cmp_keys_flip a : forall b, cmp_keys a b = CompOpp (cmp_keys b a).
Proof. induction a as [|x a IH]; intros [|y b]; cbn [cmp_keys CompOpp]; try reflexivity.
  rewrite (cmp_key1_flip x y). destruct (cmp_key1 y x); cbn [CompOpp]; try reflexivity. apply IH. Qed.

Lemma cmp_keys_gt_flip a b : cmp_keys a b = Gt -> cmp_keys b a <> Gt.
Proof. intros H. rewrite (cmp_keys_flip b a), H. cbn. discriminate. Qed.

Lemma cmp_key1_refl a : cmp_key1 a a = Eq.
Proof. destruct a; cbn [cmp_key1]; [apply Nat.compare_refl|reflexivity]. Qed.
Lemma cmp_keys_refl a : cmp_keys a a = Eq.
Proof. induction a as [|x a IH]; cbn [cmp_keys]; [reflexivity|]. rewrite cmp_key1_refl. exact IH. Qed.

(* ================================================================== E. hit policies *)
Lemma rv_eqb_refl r : rv_eqb r r = true.
Proof. destruct r as [a|es]; cbn [rv_eqb]; [apply atom_eqb_refl|].
  induction es as [|[k v] es IH]; cbn [ctx_eqb]; [reflexivity|]. rewrite N.eqb_refl, atom_eqb_refl, IH. reflexivity. Qed.

Lemma sum_go_spec l : forall acc, sum_go acc l = match nums l with Some zs => ANum (acc + fold_right Z.add 0%Z zs) | None => ANull end.
Proof. induction l as [|a l IH]; intros acc; cbn [sum_go nums fold_right]; [f_equal; lia|].
  destruct a; try reflexivity. rewrite IH. destruct (nums l); cbn [option_map fold_right]; [f_equal; lia|reflexivity]. Qed.

Lemma bif_sum_spec l : bif_sum l = spec_sum l.
Proof. unfold bif_sum, spec_sum. destruct l as [|a l]; [reflexivity|]. destruct a; try reflexivity. cbn [nums].
  rewrite sum_go_spec. destruct (nums l); reflexivity. Qed.

Lemma fr_zmin a v zs : fold_right Z.min (Z.min a v) zs = Z.min v (fold_right Z.min a zs).
Proof. induction zs as [|z zs IH]; cbn [fold_right]; [lia|]. rewrite IH. lia. Qed.
Lemma fr_zmax a v zs : fold_right Z.max (Z.max a v) zs = Z.max v (fold_right Z.max a zs).
Proof. induction zs as [|z zs IH]; cbn [fold_right]; [lia|]. rewrite IH. lia. Qed.
Lemma fr_nmin a v zs : fold_right N.min (N.min a v) zs = N.min v (fold_right N.min a zs).
Proof. induction zs as [|z zs IH]; cbn [fold_right]; [lia|]. rewrite IH. lia. Qed.
Lemma fr_nmax a v zs : fold_right N.max (N.max a v) zs = N.max v (fold_right N.max a zs).
Proof. induction zs as [|z zs IH]; cbn [fold_right]; [lia|]. rewrite IH. lia. Qed.

Lemma minz_go_spec l : forall acc, minz_go acc l = match nums l with Some zs => ANum (fold_right Z.min acc zs) | None => ANull end.
Proof. induction l as [|a l IH]; intros acc; cbn [minz_go nums fold_right]; [reflexivity|].
  destruct a; try reflexivity. rewrite IH. destruct (nums l); cbn [option_map fold_right]; [|reflexivity].
  replace (if Z.ltb z acc then z else acc) with (Z.min acc z) by (destruct (Z.ltb_spec z acc); lia). rewrite fr_zmin. reflexivity. Qed.

Lemma mins_go_spec l : forall acc, mins_go acc l = match strs l with Some zs => AStr (fold_right N.min acc zs) | None => ANull end.
Proof. induction l as [|a l IH]; intros acc; cbn [mins_go strs fold_right]; [reflexivity|].
  destruct a; try reflexivity. rewrite IH. destruct (strs l); cbn [option_map fold_right]; [|reflexivity].
  replace (if N.ltb s acc then s else acc) with (N.min acc s) by (destruct (N.ltb_spec s acc); lia). rewrite fr_nmin. reflexivity. Qed.

Lemma bif_min_spec l : bif_min l = spec_min l.
Proof. unfold bif_min, spec_min. destruct l as [|a l]; [reflexivity|]. destruct a; try reflexivity; cbn [nums strs].
  - rewrite minz_go_spec. destruct (nums l); reflexivity.
  - rewrite mins_go_spec. destruct (strs l); reflexivity. Qed.

Lemma maxz_go_spec l :
  forall acc, maxz_go acc l = match nums l with Some zs => ANum (fold_right Z.max acc zs) | None => ANull end.
Proof. induction l as [|a l IH]; intros acc; cbn [maxz_go nums fold_right]; [reflexivity|].
  destruct a; try reflexivity. rewrite IH. destruct (nums l); cbn [option_map fold_right]; [|reflexivity].
  replace (if Z.ltb acc z then z else acc) with (Z.max acc z) by (destruct (Z.ltb_spec acc z); lia). rewrite fr_zmax. reflexivity. Qed.

Lemma maxs_go_spec l :
  forall acc, maxs_go acc l = match strs l with Some zs => AStr (fold_right N.max acc zs) | None => ANull end.
Proof. induction l as [|a l IH]; intros acc; cbn [maxs_go strs fold_right]; [reflexivity|].
  destruct a; try reflexivity. rewrite IH. destruct (strs l); cbn [option_map fold_right]; [|reflexivity].
  replace (if N.ltb acc s then s else acc) with (N.max acc s) by (destruct (N.ltb_spec acc s); lia). rewrite fr_nmax. reflexivity. Qed.

Lemma bif_max_spec l : bif_max l = spec_max l.
Proof. unfold bif_max, spec_max. destruct l as [|a l]; [reflexivity|].
  destruct a; try reflexivity; cbn [nums strs].
  - rewrite maxz_go_spec. destruct (nums l); reflexivity.
  - rewrite maxs_go_spec. destruct (strs l); reflexivity. Qed.

Lemma forallb_negb_existsb {A} (f : A -> bool) l : forallb (fun x => negb (f x)) l = negb (existsb f l).
Proof. induction l as [|x l IH]; cbn [forallb existsb]; [reflexivity|]. rewrite IH, negb_orb. reflexivity. Qed.

Lemma forallb_map' {A B} (f : B -> bool) (g : A -> B) l : forallb f (map g l) = forallb (fun x => f (g x)) l.
Proof. induction l as [|x l IH]; cbn [map forallb]; [reflexivity|]. rewrite IH. reflexivity. Qed.

Lemma default_spec t : wf t = true -> default_value false t = OOne (spec_default t).
Proof. intros Hwf. destruct (wf_parts t Hwf) as [Hpos [_ Hnames]].
  unfold default_value, default_value_fixed, spec_default, component_names. fold (names t).
  destruct (t_outputs t) as [|oc [|oc2 ocs]] eqn:Eo; cbn [length] in Hpos.
  - lia.
  - cbn [map forallb]. destruct (o_default oc); reflexivity.
  - destruct Hnames as [Hnl _]; [cbn [length]; lia|].
    rewrite forallb_map', (forallb_negb_existsb (fun oc => is_some (o_default oc))).
    destruct (existsb (fun oc => is_some (o_default oc)) (oc :: oc2 :: ocs)); cbn [negb]; [|reflexivity].
    rewrite map_length, Hnl, Nat.eqb_refl, map_map. reflexivity. Qed.

(* ================================================================== F. the refinement *)
Lemma build_ok_wf t : wf t = true -> build_ok t = true.
Proof. intros Hwf. destruct (wf_parts t Hwf) as [_ [Hlen _]]. unfold build_ok. apply forallb_forall. intros r Hr.
  destruct (Hlen r Hr) as [Ha Hb]. rewrite Ha, Hb, !Nat.leb_refl. reflexivity. Qed.

Section Refine.
Variables (t : table) (xs : list atom).
Hypothesis Hwf : wf t = true.
Hypothesis Hxs : length xs = length (t_inputs t).
Let E := eval_rule false true t xs.

Lemma wf_fit : rules_fit t.
Proof. intros r Hr. destruct (wf_parts t Hwf) as [_ [H _]]. apply (H r Hr). Qed.
Lemma MH : matching false true t xs = map (eval_rule false true t xs) (hits t xs).
Proof. exact (matching_hits t xs wf_fit Hxs). Qed.
Lemma PS : prioritized false true t xs = map (eval_rule false true t xs) (by_priority t (hits t xs)).
Proof. exact (prioritized_spec t xs wf_fit Hxs). Qed.

Lemma hits_rules r : In r (hits t xs) -> In r (t_rules t).
Proof. intros H. apply hits_in in H. tauto. Qed.

Lemma sorted_rules r : In r (by_priority t (hits t xs)) -> In r (t_rules t).
Proof. intros H. apply hits_rules. unfold by_priority in H. apply ssort_in in H. exact H. Qed.

Lemma firsts_spec l : length (t_outputs t) = 1 -> (forall r, In r l -> In r (t_rules t)) ->
  firsts (map E l) = Some (map (single_out t) l).
Proof. intros H1. destruct (wf_parts t Hwf) as [_ [Hlen _]].
  induction l as [|r l IH]; intros Hin; cbn [map firsts]; [reflexivity|].
  unfold E at 1. rewrite outs_eval. unfold single_out at 1.
  assert (Hl : length (spec_outs t r) = 1).
  { rewrite <- H1. apply spec_outs_length. apply Hlen. apply Hin. left. reflexivity. }
  destruct (spec_outs t r) as [|a [|b l']]; cbn [length] in Hl; try lia. cbn [hd].
  rewrite IH; [reflexivity|]. intros r' Hr'. apply Hin. right. exact Hr'. Qed.

Lemma names_le1 : length (t_outputs t) = 1 -> Nat.ltb 1 (length (component_names t)) = false.
Proof. intros H. apply Nat.ltb_ge. unfold component_names. pose proof (flat_some_length (map o_name (t_outputs t))) as L.
  rewrite map_length in L. lia. Qed.

Lemma names_gt1 : 1 < length (t_outputs t) -> Nat.ltb 1 (length (component_names t)) = true.
Proof. intros H. destruct (wf_parts t Hwf) as [_ [_ Hn]]. destruct (Hn H) as [Hl _]. apply Nat.ltb_lt.
  unfold component_names. fold (names t). lia. Qed.

Lemma aggregate_spec (f g : list atom -> atom) (sel : agg) :
  (t_policy t = PCollect sel) -> (sel = ASum \/ sel = AMin \/ sel = AMax) ->
  (f (map (single_out t) (hits t xs)) = g (map (single_out t) (hits t xs))) ->
  aggregate false true f t xs =
  match hits t xs with
  | [] => match t_outputs t with _ :: _ :: _ => onull | _ => OOne (spec_default t) end
  | h :: hs => spec_agg g t (h :: hs)
  end.
Proof. intros _ _ Hfg. unfold aggregate, spec_agg. rewrite MH. fold E.
  destruct (wf_parts t Hwf) as [Hpos _].
  destruct (t_outputs t) as [|oc [|oc2 ocs]] eqn:Eo; cbn [length] in Hpos; [lia| |].
  - rewrite names_le1 by (rewrite Eo; reflexivity).
    destruct (hits t xs) as [|h hs] eqn:Eh; cbn [map].
    + rewrite (default_spec t Hwf). reflexivity.
    + change (E h :: map E hs) with (map E (h :: hs)). rewrite firsts_spec.
      * rewrite Hfg. reflexivity.
      * rewrite Eo. reflexivity.
      * intros r Hr. apply hits_rules. rewrite Eh. exact Hr.
  - rewrite names_gt1 by (rewrite Eo; cbn [length]; lia). destruct (hits t xs); reflexivity. Qed.

Theorem hit_policy_refines : hit_policy false true t xs = dt_spec t xs.
Proof. unfold hit_policy, dt_spec.
  destruct (t_policy t) as [| | | | | |a] eqn:Hp.
  - (* UNIQUE *) rewrite MH. fold E. destruct (hits t xs) as [|h [|h2 hs]] eqn:Eh; cbn [map].
    + rewrite (default_spec t Hwf). reflexivity.
    + unfold E. rewrite (get_result_spec t xs h Hwf); [reflexivity|]. apply hits_rules. rewrite Eh. left. reflexivity.
    + reflexivity.
  - (* ANY *) rewrite MH. fold E. destruct (hits t xs) as [|h hs] eqn:Eh; cbn [map].
    + rewrite (default_spec t Hwf). reflexivity.
    + change (E h :: map E hs) with (map E (h :: hs)). unfold E.
      rewrite (get_result_spec t xs h Hwf) by (apply hits_rules; rewrite Eh; left; reflexivity).
      rewrite (get_results_spec t xs (h :: hs) Hwf) by (intros r Hr; apply hits_rules; rewrite Eh; exact Hr).
      cbn [map forallb]. rewrite rv_eqb_refl. cbn [andb]. rewrite forallb_map'. reflexivity.
  - (* PRIORITY *) rewrite PS. fold E. destruct (hits t xs) as [|h hs] eqn:Eh.
    + unfold by_priority; cbn [ssort fold_right map]. rewrite (default_spec t Hwf). reflexivity.
    + pose proof (ssort_length (fun x y => cmp_keys (key t x) (key t y)) (h :: hs)) as L. fold (by_priority t (h :: hs)) in L.
      pose proof sorted_rules as SR. rewrite Eh in SR.
      destruct (by_priority t (h :: hs)) as [|r0 rest]; cbn [length] in L; [discriminate|]. cbn [map hd].
      unfold E. rewrite (get_result_spec t xs r0 Hwf); [reflexivity|]. apply SR. left. reflexivity.
  - (* FIRST *) rewrite MH. fold E. destruct (hits t xs) as [|h hs] eqn:Eh; cbn [map].
    + rewrite (default_spec t Hwf). reflexivity.
    + unfold E. rewrite (get_result_spec t xs h Hwf); [reflexivity|]. apply hits_rules. rewrite Eh. left. reflexivity.
  - (* RULE ORDER *) rewrite MH. fold E. destruct (hits t xs) as [|h hs] eqn:Eh; cbn [map].
    + rewrite (default_spec t Hwf). reflexivity.
    + change (E h :: map E hs) with (map E (h :: hs)). unfold E.
      rewrite (get_results_spec t xs (h :: hs) Hwf) by (intros r Hr; apply hits_rules; rewrite Eh; exact Hr). reflexivity.
  - (* OUTPUT ORDER *) rewrite PS. fold E. destruct (hits t xs) as [|h hs] eqn:Eh.
    + unfold by_priority; cbn [ssort fold_right map]. rewrite (default_spec t Hwf). reflexivity.
    + pose proof (ssort_length (fun x y => cmp_keys (key t x) (key t y)) (h :: hs)) as L. fold (by_priority t (h :: hs)) in L.
      pose proof sorted_rules as SR. rewrite Eh in SR.
      destruct (by_priority t (h :: hs)) as [|r0 rest] eqn:Es; cbn [length] in L; [discriminate|].
      change (map E (r0 :: rest)) with (E r0 :: map E rest). cbv iota.
      change (E r0 :: map E rest) with (map E (r0 :: rest)). unfold E.
      rewrite (get_results_spec t xs (r0 :: rest) Hwf) by exact SR. reflexivity.
  - destruct a.
    + (* COLLECT *) rewrite MH. fold E. destruct (hits t xs) as [|h hs] eqn:Eh; cbn [map].
      * rewrite (default_spec t Hwf). reflexivity.
      * change (E h :: map E hs) with (map E (h :: hs)). unfold E.
        rewrite (get_results_spec t xs (h :: hs) Hwf) by (intros r Hr; apply hits_rules; rewrite Eh; exact Hr). reflexivity.
    + (* C# *) rewrite MH. fold E. destruct (hits t xs) as [|h hs] eqn:Eh; cbn [map].
      * rewrite (default_spec t Hwf). reflexivity.
      * cbn [length]. rewrite map_length. reflexivity.
    + (* C+ *) rewrite (aggregate_spec bif_sum spec_sum ASum Hp) by (auto using bif_sum_spec). destruct (hits t xs); reflexivity.
    + (* C< *) rewrite (aggregate_spec bif_min spec_min AMin Hp) by (auto using bif_min_spec). destruct (hits t xs); reflexivity.
    + (* C> *) destruct (Nat.eq_dec (length (t_outputs t)) 1) as [H1|H1].
      * rewrite (aggregate_spec bif_max spec_max AMax Hp) by (auto using bif_max_spec). destruct (hits t xs); reflexivity.
      * (* compound output: both give null *)
        destruct (wf_parts t Hwf) as [Hpos _]. unfold aggregate. rewrite names_gt1 by lia.
        destruct (t_outputs t) as [|oc [|oc2 ocs]] eqn:Eo; cbn [length] in *; try lia.
        unfold spec_agg. rewrite Eo. destruct (hits t xs); reflexivity. Qed.
End Refine.

(* the refinement for the algorithm with the null literal handled as a test (known finding null-literal-entry) *)
Theorem policy_refines_nl t xs : wf t = true -> length xs = length (t_inputs t) -> dt_impl_nl t xs = dt_spec t xs.
Proof. intros Hwf Hty. unfold dt_impl_nl, dt_impl_gen. rewrite (build_ok_wf t Hwf). apply hit_policy_refines; assumption. Qed.

(* a table without null literals does not reach the difference *)
Lemma in_list_nonnull x l : forallb item_nonnull l = true -> in_list_gen false x l = in_list_gen true x l.
Proof. induction l as [|i l IH]; cbn [forallb in_list_gen]; intros H; [reflexivity|].
  apply andb_true_iff in H. destruct H as [Hi Hl]. rewrite (IH Hl).
  destruct i as [a|o a|lo lc hi hc]; [destruct a; cbn in Hi; try discriminate|..]; reflexivity. Qed.

Lemma in_test_nonnull x u : utest_nonnull u = true ->
  in_test false false (neg false false) x u = in_test false true (neg false true) x u.
Proof. destruct u as [|l|l]; cbn [utest_nonnull in_test]; intros H; [reflexivity|apply in_list_nonnull; exact H|].
  unfold neg. cbv iota. unfold in_neg_list_gen. rewrite (in_list_nonnull x l H). reflexivity. Qed.

Lemma rule_matches_nonnull xs ics : forall es,
  forallb (fun ic => match i_values ic with None => true | Some vs => forallb item_nonnull vs end) ics = true ->
  forallb utest_nonnull es = true ->
  rule_matches false false xs ics es = rule_matches false true xs ics es.
Proof. revert xs. induction ics as [|ic ics IH]; intros [|x xs] [|e es] Hi He; cbn [rule_matches]; try reflexivity.
  cbn [forallb] in Hi, He. apply andb_true_iff in Hi. destruct Hi as [Hi1 Hi2]. apply andb_true_iff in He. destruct He as [He1 He2].
  rewrite (IH xs es Hi2 He2). f_equal. unfold entry_true. rewrite (in_test_nonnull x e He1).
  destruct (i_values ic) as [vs|]; [|reflexivity]. rewrite (in_list_nonnull x vs Hi1). reflexivity. Qed.

Lemma rule_outs_nonnull ocs : forall os,
  forallb (fun oc => match o_values oc with None => true | Some vs => forallb nonnull vs end) ocs = true ->
  rule_outs false ocs os = rule_outs true ocs os.
Proof. induction ocs as [|oc ocs IH]; intros [|o os] H; cbn [rule_outs]; try reflexivity.
  cbn [forallb] in H. apply andb_true_iff in H. destruct H as [H1 H2]. rewrite (IH os H2). f_equal.
  unfold out_filter_gen. destruct (o_values oc) as [vs|]; [|reflexivity]. rewrite in_list_nonnull; [reflexivity|].
  clear - H1. induction vs as [|v vs IHv]; cbn [map forallb] in *; [reflexivity|].
  apply andb_true_iff in H1. destruct H1 as [Hv Hvs]. rewrite (IHv Hvs). destruct v; cbn in Hv; try discriminate; reflexivity. Qed.

Lemma matching_nonnull t xs : no_null_lits t = true -> matching false false t xs = matching false true t xs.
Proof. unfold no_null_lits. intros H. apply andb_true_iff in H. destruct H as [H H3]. apply andb_true_iff in H. destruct H as [H1 H2].
  unfold matching. f_equal. apply map_ext_in. intros r Hr. unfold eval_rule. rewrite forallb_forall in H3.
  rewrite (rule_matches_nonnull xs (t_inputs t) (r_in r) H1 (H3 r Hr)), (rule_outs_nonnull (t_outputs t) (r_out r) H2). reflexivity. Qed.

Lemma impl_is_nl t xs : no_null_lits t = true -> dt_impl t xs = dt_impl_nl t xs.
Proof. intros H. unfold dt_impl, dt_impl_nl, dt_impl_gen, hit_policy, prioritized, aggregate. rewrite (matching_nonnull t xs H). reflexivity. Qed.

Lemma scope_parts t xs : in_scope t xs = true -> length xs = length (t_inputs t) /\ no_null_lits t = true.
Proof. unfold in_scope, arity_ok. intros H. apply andb_true_iff in H. destruct H as [H1 H2]. apply Nat.eqb_eq in H2. split; assumption. Qed.

(* the former hypothesis of the refinement (literals of the kind of the input value) was stronger *)
Lemma typed_in_scope t xs : typed t xs = true -> in_scope t xs = true.
Proof. unfold typed, typed_nl, in_scope, arity_ok. intros H. apply andb_true_iff in H. destruct H as [H1 H2].
  apply andb_true_iff in H1. destruct H1 as [H1 _]. rewrite H1, H2. reflexivity. Qed.

Theorem policy_refines t xs : wf t = true -> in_scope t xs = true -> dt_impl t xs = dt_spec t xs.
Proof. intros Hwf Hty. destruct (scope_parts t xs Hty) as [H1 H2]. rewrite (impl_is_nl t xs H2). apply policy_refines_nl; assumption. Qed.

Theorem matching_exact t xs : wf t = true -> in_scope t xs = true ->
  matching false false t xs = map (eval_rule false false t xs) (filter (rule_sat t xs) (t_rules t)).
Proof. intros Hwf Hty. destruct (scope_parts t xs Hty) as [H1 H2]. rewrite (matching_nonnull t xs H2), (matching_hits t xs (wf_fit t Hwf) H1). unfold hits.
  apply map_ext_in. intros r Hr. apply filter_In in Hr. destruct Hr as [Hr _].
  unfold no_null_lits in H2. apply andb_true_iff in H2. destruct H2 as [H2 H5]. apply andb_true_iff in H2. destruct H2 as [H3 H4].
  rewrite forallb_forall in H5. unfold eval_rule.
  rewrite (rule_matches_nonnull xs (t_inputs t) (r_in r) H3 (H5 r Hr)), (rule_outs_nonnull (t_outputs t) (r_out r) H4). reflexivity. Qed.

(* ================================================================== corollaries in the words of the property *)
Lemma filter_first {A} (f : A -> bool) l : forall h hs, filter f l = h :: hs ->
  exists l1 l2, l = l1 ++ h :: l2 /\ (forall x, In x l1 -> f x = false) /\ f h = true /\ filter f l2 = hs.
Proof. induction l as [|x l IH]; cbn [filter]; intros h hs H; [discriminate|]. destruct (f x) eqn:Fx.
  - injection H as -> <-. exists [], l. cbn [app In]. repeat split; (tauto || exact Fx).
  - destruct (IH h hs H) as [l1 [l2 [-> [H1 [H2 H3]]]]]. exists (x :: l1), l2. cbn [app In]. repeat split; try assumption.
    intros y [<-|Hy]; [exact Fx|apply H1; exact Hy]. Qed.

Theorem first_is_least_index t xs : wf t = true -> in_scope t xs = true -> t_policy t = PFirst ->
  forall h hs, hits t xs = h :: hs ->
  dt_impl t xs = OOne (spec_out t h) /\
  exists before after, t_rules t = before ++ h :: after /\ rule_sat t xs h = true /\ forall r, In r before -> rule_sat t xs r = false.
Proof. intros Hwf Hty Hp h hs Hh. split.
  - rewrite (policy_refines t xs Hwf Hty). unfold dt_spec. rewrite Hh, Hp. reflexivity.
  - unfold hits in Hh. destruct (filter_first _ _ _ _ Hh) as [l1 [l2 [E [H1 [H2 _]]]]]. exists l1, l2. tauto. Qed.

Theorem collect_in_rule_order t xs : wf t = true -> in_scope t xs = true ->
  t_policy t = PRuleOrder \/ t_policy t = PCollect AList -> hits t xs <> [] ->
  dt_impl t xs = OMany (map (spec_out t) (filter (rule_sat t xs) (t_rules t))).
Proof. intros Hwf Hty Hp Hne. rewrite (policy_refines t xs Hwf Hty). unfold dt_spec. fold (hits t xs).
  destruct (hits t xs) as [|h hs]; [congruence|]. destruct Hp as [-> | ->]; reflexivity. Qed.

Definition key_eqb (a b : list (option nat)) : bool :=
  match cmp_keys a b with Eq => Nat.eqb (length a) (length b) | _ => false end.

Theorem output_order_perm_sorted_stable t l :
  Permutation l (by_priority t l) /\
  Sorted (fun x y => cmp_keys (key t x) (key t y) <> Gt) (by_priority t l) /\
  forall k, filter (fun r => key_eqb (key t r) k) (by_priority t l) = filter (fun r => key_eqb (key t r) k) l.
Proof. unfold by_priority. split; [apply ssort_perm|]. split.
  - apply (ssort_sorted (fun x y => cmp_keys (key t x) (key t y))). intros x y. apply cmp_keys_gt_flip.
  - intros k. apply ssort_stable. intros x y Hx Hy. unfold key_eqb in Hx, Hy.
    (* both keys compare Eq with k: the comparator cannot separate them *)
    destruct (cmp_keys (key t x) k) eqn:Ex; try discriminate. destruct (cmp_keys (key t y) k) eqn:Ey; try discriminate.
    apply Nat.eqb_eq in Hx. apply Nat.eqb_eq in Hy.
    revert Ex Ey Hx Hy. generalize (key t x) (key t y). clear. intros a. revert k.
    induction a as [|p a IH]; intros k b Ex Ey Hx Hy; destruct k as [|q k]; destruct b as [|p' b]; cbn [length] in *; try discriminate; try reflexivity.
    cbn [cmp_keys] in *. destruct (cmp_key1 p q) eqn:E1; try discriminate. destruct (cmp_key1 p' q) eqn:E2; try discriminate.
    assert (p = q) as ->. { destruct p as [i|], q as [j|]; cbn [cmp_key1] in E1; try discriminate; [apply Nat.compare_eq in E1; congruence|reflexivity]. }
    assert (p' = q) as ->. { destruct p' as [i|], q as [j|]; cbn [cmp_key1] in E2; try discriminate; [apply Nat.compare_eq in E2; congruence|reflexivity]. }
    rewrite cmp_key1_refl. apply (IH k b); try assumption; lia. Qed.

Theorem output_order_result t xs : wf t = true -> in_scope t xs = true -> t_policy t = POutputOrder -> hits t xs <> [] ->
  dt_impl t xs = OMany (map (spec_out t) (by_priority t (hits t xs))).
Proof. intros Hwf Hty Hp Hne. rewrite (policy_refines t xs Hwf Hty). unfold dt_spec.
  destruct (hits t xs) as [|h hs]; [congruence|]. rewrite Hp. reflexivity. Qed.

Theorem priority_result t xs : wf t = true -> in_scope t xs = true -> t_policy t = PPriority ->
  forall h hs, hits t xs = h :: hs ->
  exists top rest, by_priority t (h :: hs) = top :: rest /\ dt_impl t xs = OOne (spec_out t top).
Proof. intros Hwf Hty Hp h hs Hh. rewrite (policy_refines t xs Hwf Hty). unfold dt_spec. rewrite Hh, Hp.
  pose proof (ssort_length (fun x y => cmp_keys (key t x) (key t y)) (h :: hs)) as L. fold (by_priority t (h :: hs)) in L.
  destruct (by_priority t (h :: hs)) as [|r0 rest]; cbn [length] in L; [discriminate|]. exists r0, rest. split; reflexivity. Qed.

Lemma ctx_eqb_eq a : forall b, ctx_eqb a b = true <-> a = b.
Proof. induction a as [|[k v] a IH]; intros [|[k' v'] b]; cbn [ctx_eqb]; split; try congruence; try discriminate.
  - intros H. apply andb_true_iff in H. destruct H as [H H3]. apply andb_true_iff in H. destruct H as [H1 H2].
    apply N.eqb_eq in H1. apply atom_eqb_eq in H2. apply IH in H3. congruence.
  - intros [= -> -> ->]. rewrite N.eqb_refl, atom_eqb_refl. cbn [andb]. apply IH. reflexivity. Qed.

Lemma rv_eqb_eq a b : rv_eqb a b = true <-> a = b.
Proof. destruct a as [x|x], b as [y|y]; cbn [rv_eqb]; split; try discriminate; try congruence.
  - intros H. apply atom_eqb_eq in H. congruence.
  - intros [= ->]. apply atom_eqb_refl.
  - intros H. apply ctx_eqb_eq in H. congruence.
  - intros [= ->]. apply ctx_eqb_eq. reflexivity. Qed.

Theorem unique_any t xs : wf t = true -> in_scope t xs = true ->
  (t_policy t = PUnique ->
     (forall h, hits t xs = [h] -> dt_impl t xs = OOne (spec_out t h)) /\
     (2 <= length (hits t xs) -> dt_impl t xs = onull)) /\
  (t_policy t = PAny -> forall h hs, hits t xs = h :: hs ->
     ((forall r, In r hs -> spec_out t r = spec_out t h) -> dt_impl t xs = OOne (spec_out t h)) /\
     ((exists r, In r hs /\ spec_out t r <> spec_out t h) -> dt_impl t xs = onull)).
Proof. intros Hwf Hty. rewrite (policy_refines t xs Hwf Hty). unfold dt_spec. split; intros Hp; rewrite Hp.
  - split.
    + intros h ->. reflexivity.
    + intros L. destruct (hits t xs) as [|h [|h2 hs]]; cbn [length] in L; try lia. reflexivity.
  - intros h hs ->. split.
    + intros Hall. replace (forallb (fun r => rv_eqb (spec_out t h) (spec_out t r)) hs) with true; [reflexivity|].
      symmetry. apply forallb_forall. intros r Hr. apply rv_eqb_eq. symmetry. apply Hall. exact Hr.
    + intros [r [Hr Hd]]. replace (forallb (fun r => rv_eqb (spec_out t h) (spec_out t r)) hs) with false; [reflexivity|].
      symmetry. apply not_true_is_false. intros H. rewrite forallb_forall in H. specialize (H r Hr). apply rv_eqb_eq in H. congruence. Qed.

Theorem count_length t xs : wf t = true -> in_scope t xs = true -> t_policy t = PCollect ACount -> hits t xs <> [] ->
  dt_impl t xs = OOne (RAtom (ANum (Z.of_nat (length (filter (rule_sat t xs) (t_rules t)))))).
Proof. intros Hwf Hty Hp Hne. rewrite (policy_refines t xs Hwf Hty). unfold dt_spec. fold (hits t xs).
  destruct (hits t xs) as [|h hs]; [congruence|]. rewrite Hp. reflexivity. Qed.

Theorem aggregates t xs : wf t = true -> in_scope t xs = true -> length (t_outputs t) = 1 -> hits t xs <> [] ->
  (t_policy t = PCollect ASum -> dt_impl t xs = OOne (RAtom (spec_sum (map (single_out t) (hits t xs))))) /\
  (t_policy t = PCollect AMin -> dt_impl t xs = OOne (RAtom (spec_min (map (single_out t) (hits t xs))))) /\
  (t_policy t = PCollect AMax -> dt_impl t xs = OOne (RAtom (spec_max (map (single_out t) (hits t xs))))).
Proof. intros Hwf Hty H1 Hne. rewrite (policy_refines t xs Hwf Hty). unfold dt_spec, spec_agg.
  destruct (t_outputs t) as [|oc [|oc2 ocs]]; cbn [length] in H1; try discriminate.
  destruct (hits t xs) as [|h hs]; [congruence|]. repeat split; intros ->; reflexivity. Qed.

Theorem no_hit_default t xs : wf t = true -> in_scope t xs = true -> hits t xs = [] ->
  (forall a, t_policy t <> PCollect a \/ length (t_outputs t) = 1 \/ a = AList \/ a = ACount) ->
  dt_impl t xs = OOne (spec_default t).
Proof. intros Hwf Hty Hh Hp. rewrite (policy_refines t xs Hwf Hty). unfold dt_spec. rewrite Hh.
  destruct (t_policy t) as [| | | | | |a]; try reflexivity. destruct a; try reflexivity;
  (destruct (t_outputs t) as [|oc [|oc2 ocs]]; try reflexivity;
   match goal with |- _ = OOne (spec_default _) => idtac end;
   match goal with H : forall a, _ |- _ => destruct (H ASum) as [X|[X|[X|X]]], (H AMin) as [Y|[Y|[Y|Y]]], (H AMax) as [Z|[Z|[Z|Z]]] end;
   cbn [length] in *; try congruence; try discriminate). Qed.

(* the default of a single output clause is its default output entry, of several clauses the context of
   the entries (null where a clause defines none), null when no clause defines one *)
Theorem default_single t oc : t_outputs t = [oc] -> spec_default t = RAtom (or_null (o_default oc)).
Proof. intros H. unfold spec_default. rewrite H. reflexivity. Qed.

Lemma dt_spec_no_crash t xs : dt_spec t xs <> OCrash /\ dt_spec t xs <> OBuildCrash.
Proof. unfold dt_spec, spec_agg, onull.
  destruct (hits t xs); destruct (t_policy t) as [| | | | | |[| | | |]]; destruct (t_outputs t) as [|? [|? ?]];
    repeat match goal with |- context [match ?l with [] => _ | _ :: _ => _ end] => destruct l end;
    repeat match goal with |- context [if ?b then _ else _] => destruct b end; split; discriminate. Qed.

Theorem no_crash_if_well_shaped t xs : wf t = true -> in_scope t xs = true -> dt_impl t xs <> OCrash /\ dt_impl t xs <> OBuildCrash.
Proof. intros Hwf Hty. rewrite (policy_refines t xs Hwf Hty). apply dt_spec_no_crash. Qed.

(* ---------------- contexts are keyed by the component names ---------------- *)
Lemma ctx_get_set_same k v es : ctx_get k (ctx_set k v es) = Some v.
Proof. induction es as [|[k' v'] es IH]; cbn [ctx_set ctx_get]; [rewrite N.eqb_refl; reflexivity|].
  destruct (N.compare_spec k k') as [->|H|H]; cbn [ctx_get].
  - rewrite N.eqb_refl. reflexivity.
  - rewrite N.eqb_refl. reflexivity.
  - destruct (N.eqb_spec k k'); [lia|]. exact IH. Qed.

Lemma ctx_get_set_other k k2 v es : k2 <> k -> ctx_get k2 (ctx_set k v es) = ctx_get k2 es.
Proof. intros Hne. induction es as [|[k' v'] es IH]; cbn [ctx_set ctx_get].
  - destruct (N.eqb_spec k2 k); [congruence|reflexivity].
  - destruct (N.compare_spec k k') as [->|H|H]; cbn [ctx_get].
    + destruct (N.eqb_spec k2 k'); [congruence|reflexivity].
    + destruct (N.eqb_spec k2 k); [congruence|reflexivity].
    + destruct (N.eqb_spec k2 k'); [reflexivity|exact IH]. Qed.

Lemma fold_set_other k l : forall acc, ~ In k (map fst l) ->
  ctx_get k (fold_left (fun es kv => ctx_set (fst kv) (snd kv) es) l acc) = ctx_get k acc.
Proof. induction l as [|[k' v'] l IH]; intros acc Hn; cbn [fold_left fst snd map In] in *; [reflexivity|].
  rewrite IH by tauto. apply ctx_get_set_other. intros ->. tauto. Qed.

Theorem compound_keyed_by_names names vals k v :
  NoDup names -> length names = length vals -> In (k, v) (combine names vals) -> ctx_get k (mk_ctx names vals) = Some v.
Proof. intros Hnd Hlen Hin. unfold mk_ctx.
  assert (Hk : NoDup (map fst (combine names vals))).
  { clear Hin. revert vals Hlen. induction Hnd as [|x l Hx Hnd IH]; intros [|y vals] Hl; cbn [combine map fst length] in *; try constructor; try discriminate.
    - intros H. apply in_map_iff in H. destruct H as [[a b] [E H]]. cbn [fst] in E. subst a. apply in_combine_l in H. tauto.
    - apply IH. lia. }
  revert Hk Hin. generalize (combine names vals) (@nil (N * atom)). intros l. induction l as [|[k' v'] l IH]; intros acc Hk Hin; cbn [In] in Hin; [tauto|].
  cbn [fold_left fst snd map] in *. inversion Hk as [|x xs Hx Hk']; subst. destruct Hin as [[= -> ->]|Hin].
  - rewrite fold_set_other by exact Hx. apply ctx_get_set_same.
  - apply IH; assumption. Qed.

(* ================================================================== G. the pinned commit *)
Definition t_neg : table :=
  {| t_policy := PUnique; t_inputs := [{| i_values := None |}];
     t_outputs := [{| o_name := None; o_values := None; o_default := None |}];
     t_rules := [{| r_in := [UNeg [IRange (ANum 1) true (ANum 5) true]]; r_out := [ANum 7] |}] |}.

Theorem orig_negated_interval_refuted :
  wf t_neg = true /\ in_scope t_neg [ANum 9%Z] = true /\
  dt_spec t_neg [ANum 9%Z] = OOne (RAtom (ANum 7)) /\ dt_impl_orig t_neg [ANum 9%Z] = onull /\ dt_impl t_neg [ANum 9%Z] = OOne (RAtom (ANum 7)).
Proof. vm_compute. repeat split. Qed.

Definition t_prio : table :=
  {| t_policy := POutputOrder; t_inputs := [{| i_values := None |}];
     t_outputs := [{| o_name := Some 0%N; o_values := Some [ANum 1; ANum 2]; o_default := None |};
                   {| o_name := Some 1%N; o_values := Some [ANum 2; ANum 1]; o_default := None |}];
     t_rules := [{| r_in := [UAny]; r_out := [ANum 1; ANum 1] |}; {| r_in := [UAny]; r_out := [ANum 1; ANum 2] |}] |}.

Theorem orig_priority_flattened_refuted :
  wf t_prio = true /\ in_scope t_prio [ANum 0%Z] = true /\
  dt_spec t_prio [ANum 0%Z] = OMany [RCtx [(0%N, ANum 1); (1%N, ANum 2)]; RCtx [(0%N, ANum 1); (1%N, ANum 1)]] /\
  dt_impl_orig t_prio [ANum 0%Z] = OMany [RCtx [(0%N, ANum 1); (1%N, ANum 1)]; RCtx [(0%N, ANum 1); (1%N, ANum 2)]] /\
  dt_impl t_prio [ANum 0%Z] = dt_spec t_prio [ANum 0%Z].
Proof. vm_compute. repeat split. Qed.

Definition t_dflt : table :=
  {| t_policy := PFirst; t_inputs := [{| i_values := None |}];
     t_outputs := [{| o_name := Some 0%N; o_values := None; o_default := Some (AStr 3) |};
                   {| o_name := Some 1%N; o_values := None; o_default := Some (AStr 5) |}];
     t_rules := [{| r_in := [UPos [ILit (ANum 1)]]; r_out := [AStr 1; AStr 2] |}] |}.

Theorem orig_default_compound_refuted :
  wf t_dflt = true /\ in_scope t_dflt [ANum 0%Z] = true /\ hits t_dflt [ANum 0%Z] = [] /\
  dt_spec t_dflt [ANum 0%Z] = OOne (RCtx [(0%N, AStr 3); (1%N, AStr 5)]) /\
  dt_impl_orig t_dflt [ANum 0%Z] = onull /\ dt_impl t_dflt [ANum 0%Z] = dt_spec t_dflt [ANum 0%Z].
Proof. vm_compute. repeat split. Qed.

(* `-` matches every value including null; the null literal is a test (matches exactly a null value) *)
Definition t_dash : table :=
  {| t_policy := PUnique; t_inputs := [{| i_values := None |}];
     t_outputs := [{| o_name := None; o_values := None; o_default := None |}];
     t_rules := [{| r_in := [UAny]; r_out := [ANum 7] |}] |}.
Definition t_nulllit : table :=
  {| t_policy := PCollect AList; t_inputs := [{| i_values := None |}];
     t_outputs := [{| o_name := None; o_values := None; o_default := None |}];
     t_rules := [{| r_in := [UPos [ILit ANull]]; r_out := [ANum 7] |}; {| r_in := [UNeg [ILit ANull]]; r_out := [ANum 8] |};
                 {| r_in := [UPos [ILit (ANum 1); ILit ANull]]; r_out := [ANum 9] |}] |}.

Theorem orig_dash_null_refuted :
  wf t_dash = true /\ in_scope t_dash [ANull] = true /\
  dt_spec t_dash [ANull] = OOne (RAtom (ANum 7)) /\ dt_impl_orig t_dash [ANull] = onull /\ dt_impl t_dash [ANull] = OOne (RAtom (ANum 7)).
Proof. vm_compute. repeat split. Qed.

(* known finding null-literal-entry: the code does not handle the literal null as a unary test *)
Theorem null_literal_known :
  wf t_nulllit = true /\ arity_ok t_nulllit [ANull] = true /\ arity_ok t_nulllit [ANum 1%Z] = true /\ no_null_lits t_nulllit = false /\
  dt_spec t_nulllit [ANull] = OMany [RAtom (ANum 7); RAtom (ANum 9)] /\ dt_impl t_nulllit [ANull] = onull /\
  dt_spec t_nulllit [ANum 1%Z] = OMany [RAtom (ANum 8); RAtom (ANum 9)] /\ dt_impl t_nulllit [ANum 1%Z] = OMany [RAtom (ANum 9)] /\
  dt_impl_nl t_nulllit [ANull] = dt_spec t_nulllit [ANull] /\ dt_impl_nl t_nulllit [ANum 1%Z] = dt_spec t_nulllit [ANum 1%Z].
Proof. vm_compute. repeat split. Qed.

(* a table without output clause is not well-shaped and reaches the index out of bounds of get_result *)
Definition t_noout : table :=
  {| t_policy := PFirst; t_inputs := [{| i_values := None |}]; t_outputs := [];
     t_rules := [{| r_in := [UAny]; r_out := [] |}] |}.
Definition t_short : table :=
  {| t_policy := PFirst; t_inputs := [{| i_values := None |}; {| i_values := None |}];
     t_outputs := [{| o_name := None; o_values := None; o_default := None |}];
     t_rules := [{| r_in := [UAny]; r_out := [ANum 1] |}] |}.

Theorem crash_if_ill_shaped :
  wf t_noout = false /\ dt_impl t_noout [ANum 1%Z] = OCrash /\ wf t_short = false /\ dt_impl t_short [ANum 1%Z; ANum 2%Z] = OBuildCrash.
Proof. vm_compute. repeat split. Qed.

(* non-vacuity: a two-output PRIORITY table with three hits *)
Definition t_ex : table :=
  {| t_policy := PPriority;
     t_inputs := [{| i_values := None |}; {| i_values := Some [ILit (AStr 1); ILit (AStr 2)] |}];
     t_outputs := [{| o_name := Some 0%N; o_values := Some [AStr 5; AStr 4; AStr 3]; o_default := Some (AStr 3) |};
                   {| o_name := Some 1%N; o_values := None; o_default := None |}];
     t_rules := [{| r_in := [UPos [ICmp CLt (ANum 10)]; UAny]; r_out := [AStr 3; ANum 1] |};
                 {| r_in := [UNeg [IRange (ANum 0) true (ANum 3) false]; UPos [ILit (AStr 2)]]; r_out := [AStr 4; ANum 2] |};
                 {| r_in := [UPos [ILit (ANum 5); ICmp CGe (ANum 7)]; UNeg [ILit (AStr 1)]]; r_out := [AStr 5; ANum 3] |};
                 {| r_in := [UPos [ILit (ANum 6)]; UAny]; r_out := [AStr 5; ANum 4] |}] |}.

Theorem nonvacuous :
  wf t_ex = true /\ in_scope t_ex [ANum 5%Z; AStr 2] = true /\ length (hits t_ex [ANum 5%Z; AStr 2]) = 3 /\
  dt_impl t_ex [ANum 5%Z; AStr 2] = OOne (RCtx [(0%N, AStr 5); (1%N, ANum 3)]).
Proof. vm_compute. repeat split. Qed.
