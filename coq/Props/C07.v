(* C07 — property theorems only.  Proofs are in C07/Proofs.v (and C07/Digits.v). *)
From Coq Require Import String ZArith NArith Bool List Ascii.
From DV Require Import Base.Dec C07.Model C07.Proofs.
Import ListNotations.
Open Scope Z_scope.

(* Every finite number — every sign, every coefficient, every exponent — is printed (the usize arithmetic of
   scientific_to_plain never traps), the text is `-?digits(.digits)?` without exponent, it is a JSON number,
   and it denotes exactly the number's value (equal as values: same sign, coefficients equal after cross-scaling). *)
Theorem C07_plain_exact : forall d : dec, exists s p,
  print d = Some s /\ is_plain s = true /\ is_json s = true /\
  denotes s = Some p /\ neg p = neg d /\ veq p d.
Proof. exact plain_exact. Qed.

Theorem C07_no_underflow : forall d : dec, print d <> None.
Proof. exact print_total. Qed.

(* the printed text is the positional rendering of the digits: no detour through scientific notation is visible *)
Theorem C07_print_render : forall d : dec, print d = Some (sign_of d ++ render_unsigned (coef d) (expo d)).
Proof. exact print_render. Qed.

(* the datum built from the token Numeric(ip, fp) / an xsd:decimal text is exactly the number the literal denotes
   (the subsequent rounding to 34 digits is the identity for up to 34 significant digits: C02_round_exact) *)
Theorem C07_literal_exact : forall ip fp, all_digits ip = true -> all_digits fp = true -> ip <> [] -> fp <> [] ->
  denotes (ip ++ "."%char :: fp) = Some (numeric_literal ip fp).
Proof. exact literal_exact. Qed.

Theorem C07_integer_literal_exact : forall ip, all_digits ip = true -> ip <> [] ->
  denotes ip = Some (mkdec false (digits_val ip) 0).
Proof. exact integer_literal_exact. Qed.

(* the function at the pinned commit violated the property on two classes *)
Theorem C07_print_orig_refuted :
  (exists d s, print_orig d = Some s /\ is_plain s = false) /\
  (exists d s, print_orig d = Some s /\ is_plain s = true /\ is_json s = false).
Proof. exact print_orig_refuted. Qed.

Example C07_nonvacuous :
  print (mkdec true 15 (-8)) = Some (rd "-0.00000015"%string) /\
  print (mkdec false 1230 2) = Some (rd "123000"%string) /\
  print (mkdec true 12345 (-2)) = Some (rd "-123.45"%string) /\
  print (mkdec false 0 3) = Some (rd "0"%string).
Proof. exact print_nontrivial. Qed.

Print Assumptions C07_plain_exact.
Print Assumptions C07_no_underflow.
Print Assumptions C07_print_render.
Print Assumptions C07_literal_exact.
Print Assumptions C07_integer_literal_exact.
Print Assumptions C07_print_orig_refuted.
Print Assumptions C07_nonvacuous.
