(* C13 — property theorems only (proofs in C01/Proofs.v): evaluation is pure on the scope-stack machine of coq/C01/Impl.v. *)
From Coq Require Import List ZArith NArith Bool.
From DV Require Import C01.Syntax C01.Spec C01.Impl C01.Proofs C13.ParseScope C13.ParseScopeProofs.
Import ListNotations.
Open Scope Z_scope.

(* after evaluating ANY expression of the fragment over ANY scope stack the stack is exactly what it was
   (every push is matched by a pop and no set_entry reaches a context that was there before) *)
Theorem C13_stack_restored : forall f S e, snd (run_impl f S e) = S.
Proof. intros f S e. unfold run_impl. rewrite run_refines. reflexivity. Qed.

(* any sequence of evaluations of prepared expressions over one scope returns, for each of them, the value it
   returns when evaluated alone, and leaves the scope untouched — whatever the order and the repetitions *)
Theorem C13_repeatable : forall f S es,
  thread (run_impl f) S es = (map (fun e => fst (run_impl f S e)) es, S).
Proof. intros f S es. unfold run_impl. apply evaluations_repeatable. Qed.

(* the value is a function of the expression and the bindings only: the machine and the stack-free semantics agree *)
Theorem C13_value_is_semantic : forall f S e, fst (run_impl f S e) = eval cart_impl f S e.
Proof. intros f S e. unfold run_impl. rewrite run_refines. reflexivity. Qed.

(* a successful parse leaves the parsing scope as it found it: the scope actions the parser performs for ANY expression of the
   fragment (push at `{`, `for`, `some`, `every`, `function(`; add the names; pop at the end of the construct) are balanced *)
Theorem C13_parse_scope_balanced : forall f e S, pexec (pacts f e) S = S.
Proof. exact parse_scope_balanced. Qed.

Example C13_nonvacuous :
  let S := [[(101%N, vnum 2)]; [(102%N, VStr [97%N])]] in
  let e := EFilter (EList [ECtx [(103%N, enum 1)]; ECtx [(103%N, enum 5)]]) (EBin Gt (EName 103%N) (EName 101%N)) in
  run_impl 20 S e = (VCtx [(103%N, vnum 5)], S).
Proof. vm_compute. reflexivity. Qed.

Print Assumptions C13_stack_restored.
Print Assumptions C13_repeatable.
Print Assumptions C13_value_is_semantic.
Print Assumptions C13_parse_scope_balanced.
Print Assumptions C13_nonvacuous.
