(* C04/LinkC01.v — the tiny evaluator of the C04 check (C04/Model.v: tev / teval) IS the FEEL evaluator model of C01
   (C01/Spec.v: eval, C01/Impl.v: run) on the expression fragment both can express.
   The two models were written independently: teval from the closures of model-evaluator/src/builders/mod.rs
   (boxed expressions) plus the literal fragment the check generates, C01's eval from feel-evaluator/src/builders.rs.
   The logic of a decision is a FEEL expression evaluated by that evaluator, so the two must agree.

   translation   C04 expr -> C01 expr (tr_e), C04 value -> C01 value (tr_v), C04 env -> C01 scope stack (tr_env)
     numbers     z |-> of_Z z 0 (sign, coefficient |z|, exponent 0); EAdd / EMul |-> EBin Add / Mul
     strings     the code s |-> the one-code-point string [s]
     names       the same numbers
     f(a, b)     ECall (EName f) [a; b]; the function value VBkm params body |-> VFun [(p, Any) ..] (tr_e body)
                 (business_knowledge_model.rs gives a formal parameter without typeRef the type Any)
     boxed context   ECtx es None |-> ECtx es;  ECtx es (Some r) |-> EPath (ECtx (es ++ [(RES, r)])) RES: the result entry of
                 build_context_evaluator is evaluated in the scope that holds the entries so far, and replaces the context
     environment one context, sorted by key (the first binding of a name is the visible one, as for lookup)
   left out (cev is None on them):
     EInvoke     boxed invocation binds EVERY binding by name and tolerates missing parameters (model-evaluator
                 build_invocation_evaluator); C01's ECallN is the FEEL call f(a: 1), which is null when a parameter is missing
                 and binds parameters only — different code, different behaviour
     ERel        the cells of a row do not see each other, C01's only context-building expression (ECtx) lets later
                 entries see earlier ones
     VSvc        the body of a decision-service function value is the service call-back, not an expression
   hypotheses, all decided by ONE evaluable function cev (the tiny evaluator again, answering None when the
   evaluation leaves the shared fragment):
     - fuel: teval has 60 levels (out of fuel = null there, VPoison in C01)
     - every sum and product has at most 34 digits (C01's + and * round to decimal128; C04's integers do not)
     - no string + string (C01 concatenates as the real code does, C04's vadd gives null: see str_concat_differs)
     - formal parameters pairwise distinct (bind_pos lets the first of two equal names win, mk_args and the real code the
       last: see dup_params_differ)
   conclusion: equal up to the sign of zero (zsign): -3 * 0 is -0 in decimal128 and in the real code, and 0 in Z. *)
From Coq Require Import List NArith ZArith Bool Arith Lia.
From DV Require Base.Dec Base.DecRound.
From DV Require C16.Model.
From DV Require C01.Syntax C01.Spec C01.Impl.
From DV Require Import C04.Model.
Import ListNotations.

Module F := DV.C01.Syntax.
Module FS := DV.C01.Spec.
Module FI := DV.C01.Impl.
Module D := DV.Base.Dec.
Module T := DV.C16.Model.

(* ================= the translation ================= *)
Definition RES : N := 0%N.     (* the key under which the result entry of a boxed context is stored; any key does *)

Definition any_params (ps : list N) : list (N * T.ftype) := map (fun p => (p, T.TS T.SAny)) ps.

Fixpoint tr_e (e : expr) : F.expr :=
  match e with
  | ENull => F.ENull
  | ENum z => F.ENum (D.of_Z z 0)
  | EStr s => F.EStr [s]
  | EVar n => F.EName n
  | EAdd a b => F.EBin F.Add (tr_e a) (tr_e b)
  | EMul a b => F.EBin F.Mul (tr_e a) (tr_e b)
  | ECall f args => F.ECall (F.EName f) (map tr_e args)
  | ECtx es None => F.ECtx (map (fun ke => (fst ke, tr_e (snd ke))) es)
  | ECtx es (Some r) => F.EPath (F.ECtx (map (fun ke => (fst ke, tr_e (snd ke))) es ++ [(RES, tr_e r)])) RES
  | EInvoke _ _ | ERel _ _ => F.ENull           (* outside the fragment *)
  end.

Fixpoint tr_v (v : value) : F.value :=
  match v with
  | VNull => F.VNull
  | VNum z => F.VNum (D.of_Z z 0)
  | VStr s => F.VStr [s]
  | VList vs => F.VList (map tr_v vs)
  | VCtx es => F.VCtx (fold_right (fun kv acc => F.ctx_set (fst kv) (tr_v (snd kv)) acc) [] es)
  | VBkm ps b => F.VFun (any_params ps) (tr_e b)
  | VSvc _ _ => F.VNull                         (* outside the fragment *)
  end.

Definition tr_ctx (es : env) : F.ctx := fold_right (fun kv acc => F.ctx_set (fst kv) (tr_v (snd kv)) acc) [] es.
Definition tr_env (sc : env) : F.stack := [tr_ctx sc].

(* equality up to the sign of zero: the coefficient 0 gets the sign + *)
Definition dnorm (d : D.dec) : D.dec := if (D.coef d =? 0)%N then D.mkdec false 0 (D.expo d) else d.
Fixpoint zsign (w : F.value) : F.value :=
  match w with
  | F.VNum d => F.VNum (dnorm d)
  | F.VList l => F.VList (map zsign l)
  | F.VCtx c => F.VCtx (map (fun kv => (fst kv, zsign (snd kv))) c)
  | other => other
  end.

(* ================= the shared fragment, decided by evaluation ================= *)
Definition fits (z : Z) : bool := (Z.abs z <? 10 ^ 34)%Z.
Definition add_ok (x y : value) : bool :=
  match x, y with VNum a, VNum b => fits (a + b) | VStr _, VStr _ => false | _, _ => true end.
Definition mul_ok (x y : value) : bool :=
  match x, y with VNum a, VNum b => fits (a * b) | _, _ => true end.

Fixpoint nodupb (l : list N) : bool := match l with [] => true | x :: r => negb (mem x r) && nodupb r end.

Section CevStep.
Variable ev : env -> expr -> option value.
Fixpoint cevs (sc : env) (l : list expr) : option (list value) :=
  match l with
  | [] => Some []
  | x :: r => match ev sc x, cevs sc r with Some v, Some vs => Some (v :: vs) | _, _ => None end
  end.
Fixpoint cctx (sc acc : env) (l : list (N * expr)) : option (env * env) :=
  match l with
  | [] => Some (acc, sc)
  | (k, x) :: r => match ev sc x with Some v => cctx (set k v sc) (set k v acc) r | None => None end
  end.
End CevStep.

(* the tiny evaluator (not leaky), None as soon as the evaluation leaves the fragment described in the header *)
Fixpoint cev (f : nat) (sc : env) (e : expr) {struct f} : option value :=
  match f with O => None | S f' =>
  match e with
  | ENull => Some VNull
  | ENum z => Some (VNum z)
  | EStr s => Some (VStr s)
  | EVar n => Some (getv n sc)
  | EAdd a b => match cev f' sc a, cev f' sc b with
                | Some x, Some y => if add_ok x y then Some (vadd x y) else None
                | _, _ => None end
  | EMul a b => match cev f' sc a, cev f' sc b with
                | Some x, Some y => if mul_ok x y then Some (vmul x y) else None
                | _, _ => None end
  | ECall fn args =>
      match cevs (cev f') sc args with
      | None => None
      | Some vs =>
          match getv fn sc with
          | VBkm ps b => if nodupb ps then
                           match bind_pos ps vs with Some pc => cev f' (zip sc pc) b | None => Some VNull end
                         else None
          | VSvc _ _ => None
          | _ => Some VNull
          end
      end
  | ECtx es res =>
      match cctx (cev f') sc [] es with
      | None => None
      | Some (acc, sc1) => match res with Some r => cev f' sc1 r | None => Some (VCtx acc) end
      end
  | EInvoke _ _ | ERel _ _ => None
  end end.

Definition shared (f : nat) (sc : env) (e : expr) : bool := match cev f sc e with Some _ => true | None => false end.

(* ================= cev is the tiny evaluator ================= *)
Lemma cevs_evs f svc (IH : forall sc e v, cev f sc e = Some v -> tev false f svc sc e = (v, sc)) :
  forall l sc vs, cevs (cev f) sc l = Some vs -> evs (tev false f svc) sc l = (vs, sc).
Proof. induction l as [|x r IHl]; intros sc vs H; cbn [cevs evs] in *.
  - inversion H; reflexivity.
  - destruct (cev f sc x) as [v|] eqn:E; [|discriminate]. destruct (cevs (cev f) sc r) as [vs'|] eqn:E2; [|discriminate].
    inversion H; subst. rewrite (IH _ _ _ E). rewrite (IHl _ _ E2). reflexivity. Qed.

Lemma cctx_go f svc (IH : forall sc e v, cev f sc e = Some v -> tev false f svc sc e = (v, sc)) :
  forall l sc acc acc1 sc1, cctx (cev f) sc acc l = Some (acc1, sc1) -> ctx_go (tev false f svc) sc acc l = (acc1, sc1).
Proof. induction l as [|[k x] r IHl]; intros sc acc acc1 sc1 H; cbn [cctx ctx_go] in *.
  - inversion H; reflexivity.
  - destruct (cev f sc x) as [v|] eqn:E; [|discriminate]. rewrite (IH _ _ _ E). apply IHl. exact H. Qed.

Theorem cev_tev svc : forall f sc e v, cev f sc e = Some v -> tev false f svc sc e = (v, sc).
Proof.
  induction f as [|f IH]; intros sc e v H; [discriminate|].
  destruct e as [|z|s|n|a b|a b|fn args|fn binds|es res|cols rows]; cbn [cev] in H; cbn [tev tev_step];
    try (inversion H; reflexivity); try discriminate.
  - destruct (cev f sc a) as [x|] eqn:Ea; [|discriminate]. destruct (cev f sc b) as [y|] eqn:Eb; [|discriminate].
    destruct (add_ok x y); [|discriminate]. inversion H; subst. rewrite (IH _ _ _ Ea), (IH _ _ _ Eb). reflexivity.
  - destruct (cev f sc a) as [x|] eqn:Ea; [|discriminate]. destruct (cev f sc b) as [y|] eqn:Eb; [|discriminate].
    destruct (mul_ok x y); [|discriminate]. inversion H; subst. rewrite (IH _ _ _ Ea), (IH _ _ _ Eb). reflexivity.
  - destruct (cevs (cev f) sc args) as [vs|] eqn:Ea; [|discriminate].
    rewrite (cevs_evs f svc IH _ _ _ Ea).
    destruct (getv fn sc) as [|z|s|l|c|ps b|sid ps]; try (inversion H; reflexivity).
    destruct (nodupb ps); [|discriminate]. unfold apply_fn.
    destruct (bind_pos ps vs) as [pc|]; [|inversion H; reflexivity]. rewrite (IH _ _ _ H). reflexivity.
  - destruct (cctx (cev f) sc [] es) as [[acc sc1]|] eqn:Ec; [|discriminate].
    rewrite (cctx_go f svc IH _ _ _ _ _ Ec). destruct res as [r|].
    + rewrite (IH _ _ _ H). reflexivity.
    + inversion H; reflexivity.
Qed.

Corollary shared_teval svc sc e v : cev TFUEL sc e = Some v -> teval svc sc e = v.
Proof. intros H. unfold teval. rewrite (cev_tev svc _ _ _ _ H). reflexivity. Qed.

(* ================= sorted contexts ================= *)
From DV Require C01.FreeNames C16.Proofs C02.Proofs C04.Proofs.
Module P4 := DV.C04.Proofs.

Ltac nb1 := match goal with
  | |- context [N.eqb ?a ?b] => destruct (N.eqb_spec a b)
  | |- context [N.ltb ?a ?b] => destruct (N.ltb_spec a b)
  end.
Ltac nb := repeat (cbn [F.ctx_set]; try nb1; subst; try lia; try reflexivity).

Lemma ctx_set_set {k v v'} c : F.ctx_set k v (F.ctx_set k v' c) = F.ctx_set k v c.
Proof. induction c as [|[k' x] r IH]; nb. rewrite IH. reflexivity. Qed.

Lemma ctx_set_comm k1 k2 v1 v2 c : k1 <> k2 ->
  F.ctx_set k1 v1 (F.ctx_set k2 v2 c) = F.ctx_set k2 v2 (F.ctx_set k1 v1 c).
Proof. intros Hne. induction c as [|[k' x] r IH]; nb. rewrite IH. reflexivity. Qed.

Definition zf (kv : N * F.value) : N * F.value := (fst kv, zsign (snd kv)).
Lemma zs_ctx_set k w c : map zf (F.ctx_set k w c) = F.ctx_set k (zsign w) (map zf c).
Proof. induction c as [|[k' x] r IH]; cbn [F.ctx_set map zf fst snd]; [reflexivity|].
  destruct (N.eqb k k'); [reflexivity|]. destruct (N.ltb k k'); [reflexivity|]. cbn [map]. rewrite IH. reflexivity. Qed.

Lemma zs_ctx_get n c : F.ctx_get n (map zf c) = option_map zsign (F.ctx_get n c).
Proof. induction c as [|[k' x] r IH]; cbn [F.ctx_get map zf fst snd option_map]; [reflexivity|].
  destruct (N.eqb n k'); [reflexivity|exact IH]. Qed.

Lemma tr_ctx_set k v acc : tr_ctx (set k v acc) = F.ctx_set k (tr_v v) (tr_ctx acc).
Proof. induction acc as [|[k' x] r IH]; cbn [set]; [reflexivity|].
  destruct (N.eqb_spec k k') as [->|Hne].
  - unfold tr_ctx. cbn [fold_right fst snd]. rewrite ctx_set_set. reflexivity.
  - unfold tr_ctx in *. cbn [fold_right fst snd]. rewrite IH. apply ctx_set_comm. congruence. Qed.

Lemma ctx_get_tr n es : F.ctx_get n (tr_ctx es) = option_map tr_v (lookup n es).
Proof. induction es as [|[k x] r IH]; [reflexivity|]. unfold tr_ctx in *. cbn [fold_right fst snd lookup].
  rewrite DV.C01.FreeNames.ctx_get_set, IH. destruct (N.eqb n k); reflexivity. Qed.

Lemma in_ctx_set e k w c : In e (F.ctx_set k w c) -> e = (k, w) \/ In e c.
Proof. induction c as [|[k' x] r IH]; cbn [F.ctx_set]; intros H.
  - destruct H as [<-|[]]. left; reflexivity.
  - destruct (N.eqb k k'). { destruct H as [<-|H]; [left; reflexivity | right; right; exact H]. }
    destruct (N.ltb k k'). { destruct H as [<-|H]; [left; reflexivity | right; exact H]. }
    destruct H as [<-|H]; [right; left; reflexivity|]. destruct (IH H) as [->|Hi]; [left; reflexivity | right; right; exact Hi]. Qed.

Lemma in_tr_ctx e es : In e (tr_ctx es) -> exists v, snd e = tr_v v.
Proof. induction es as [|[k x] r IH]; [intros []|]. unfold tr_ctx in *. cbn [fold_right fst snd]. intros H.
  apply in_ctx_set in H. destruct H as [->|H]; [exists x; reflexivity | apply IH; exact H]. Qed.

(* ================= numbers: exact while the result has at most 34 digits ================= *)
Module DR := DV.Base.DecRound.
Open Scope Z_scope.

Definition numrel (z : Z) (d : D.dec) : Prop :=
  D.coef d = Z.abs_N z /\ D.expo d = 0 /\ (z <> 0 -> D.neg d = (z <? 0)).

Lemma dnorm_numrel z d : dnorm d = D.of_Z z 0 <-> numrel z d.
Proof. unfold dnorm, numrel, D.of_Z. destruct d as [n c e]; cbn [D.coef D.expo D.neg]. split.
  - destruct (N.eqb_spec c 0) as [->|Hc]; intros H; inversion H; subst.
    + repeat split; lia.
    + repeat split; reflexivity.
  - intros [-> [-> Hs]]. destruct (N.eqb_spec (Z.abs_N z) 0) as [Hz|Hz].
    + assert (z = 0) by lia. subst z. reflexivity.
    + rewrite Hs by lia. reflexivity. Qed.

Lemma sval_numrel z d : numrel z d -> D.sval d = z.
Proof. intros [Hc [_ Hs]]. unfold D.sval. rewrite Hc. destruct (Z.eq_dec z 0) as [->|Hz]; [destruct (D.neg d); reflexivity|].
  rewrite (Hs Hz). destruct (Z.ltb_spec z 0); lia. Qed.

Lemma fits_N z : fits z = true -> (Z.abs_N z < 10 ^ D.PREC)%N.
Proof. unfold fits, D.PREC. intros H. apply Z.ltb_lt in H. lia. Qed.

Lemma dadd_small a b d1 d2 : numrel a d1 -> numrel b d2 -> fits (a + b) = true ->
  exists d, DR.dadd d1 d2 = Some d /\ numrel (a + b) d.
Proof. intros H1 H2 Hf. pose proof (sval_numrel _ _ H1) as S1. pose proof (sval_numrel _ _ H2) as S2.
  destruct H1 as [_ [E1 _]], H2 as [_ [E2 _]].
  unfold DR.dadd, DR.exact_add, D.emin2, D.scaled. rewrite E1, E2, S1, S2.
  change (Z.min 0 0) with 0. rewrite Z.sub_diag, Z.pow_0_r, !Z.mul_1_r. unfold DR.round_Z.
  rewrite DV.C02.Proofs.round34_exact; [|apply fits_N; exact Hf | unfold D.ETINY, D.ETOP; lia].
  eexists. split; [reflexivity|]. unfold numrel. cbn [D.coef D.expo D.neg]. repeat split.
  intros Hz. destruct (Z.eqb_spec (a + b) 0); [contradiction|reflexivity]. Qed.

Lemma dmul_small a b d1 d2 : numrel a d1 -> numrel b d2 -> fits (a * b) = true ->
  exists d, DR.dmul d1 d2 = Some d /\ numrel (a * b) d.
Proof. intros [C1 [E1 N1]] [C2 [E2 N2]] Hf. unfold DR.dmul. rewrite C1, C2, E1, E2. change (0 + 0) with 0.
  rewrite <- Zabs2N.inj_mul.
  rewrite DV.C02.Proofs.round34_exact; [|apply fits_N; exact Hf | unfold D.ETINY, D.ETOP; lia].
  eexists. split; [reflexivity|]. unfold numrel. cbn [D.coef D.expo D.neg]. repeat split.
  intros Hz. rewrite N1, N2 by nia.
  destruct (Z.ltb_spec a 0), (Z.ltb_spec b 0), (Z.ltb_spec (a * b) 0); try reflexivity; nia. Qed.

Lemma zsign_num w z : zsign w = F.VNum (D.of_Z z 0) -> exists d, w = F.VNum d /\ numrel z d.
Proof. destruct w; cbn [zsign]; try discriminate. intros H. inversion H as [H1]. exists d. split; [reflexivity|].
  apply dnorm_numrel. exact H1. Qed.

Lemma zsign_of_numrel z d : numrel z d -> zsign (F.VNum d) = F.VNum (D.of_Z z 0).
Proof. intros H. cbn [zsign]. f_equal. apply dnorm_numrel. exact H. Qed.

Lemma add_link wa wb x y : zsign wa = tr_v x -> zsign wb = tr_v y -> add_ok x y = true ->
  zsign (F.binop_eval F.Add wa wb) = tr_v (vadd x y).
Proof. intros Ha Hb Hok.
  destruct x; cbn [tr_v] in Ha; destruct wa; cbn [zsign] in Ha; try discriminate Ha;
  destruct y; cbn [tr_v] in Hb; destruct wb; cbn [zsign] in Hb; try discriminate Hb;
  cbn [add_ok] in Hok; try discriminate Hok; try reflexivity.
  inversion Ha as [Ha']. inversion Hb as [Hb']. apply dnorm_numrel in Ha'. apply dnorm_numrel in Hb'.
  destruct (dadd_small _ _ _ _ Ha' Hb' Hok) as [r [Er Hr]].
  cbn [F.binop_eval F.poisoned vadd tr_v]. rewrite Er. cbn [F.of_num]. apply zsign_of_numrel. exact Hr. Qed.

Lemma mul_link wa wb x y : zsign wa = tr_v x -> zsign wb = tr_v y -> mul_ok x y = true ->
  zsign (F.binop_eval F.Mul wa wb) = tr_v (vmul x y).
Proof. intros Ha Hb Hok.
  destruct x; cbn [tr_v] in Ha; destruct wa; cbn [zsign] in Ha; try discriminate Ha;
  destruct y; cbn [tr_v] in Hb; destruct wb; cbn [zsign] in Hb; try discriminate Hb;
  cbn [mul_ok] in Hok; try reflexivity.
  inversion Ha as [Ha']. inversion Hb as [Hb']. apply dnorm_numrel in Ha'. apply dnorm_numrel in Hb'.
  destruct (dmul_small _ _ _ _ Ha' Hb' Hok) as [r [Er Hr]].
  cbn [F.binop_eval F.poisoned vmul tr_v]. rewrite Er. cbn [F.of_num]. apply zsign_of_numrel. exact Hr. Qed.

(* ================= translated values hold no VPoison; coercion to Any keeps them ================= *)
Close Scope Z_scope.
Lemma vsize_pos w : 1 <= F.vsize w.
Proof. destruct w; cbn [F.vsize]; lia. Qed.
Lemma vsize_in_list u l : In u l -> F.vsize u <= fold_right (fun x n => F.vsize x + n) 0 l.
Proof. induction l as [|x l IH]; intros H; [destruct H|]. cbn [fold_right]. destruct H as [->|H]; [lia|]. specialize (IH H). lia. Qed.
Lemma vsize_in_ctx (e : N * F.value) es : In e es -> F.vsize (snd e) <= fold_right (fun x n => F.vsize (snd x) + n) 0 es.
Proof. induction es as [|x l IH]; intros H; [destruct H|]. cbn [fold_right]. destruct H as [->|H]; [lia|]. specialize (IH H). lia. Qed.

Lemma map_eq_in {A B C} (g : A -> C) (h : B -> C) : forall l l', map g l = map h l' -> forall a, In a l -> exists b, g a = h b.
Proof. induction l as [|x l IH]; intros l' H a Ha; [destruct Ha|]. destruct l' as [|y l']; [discriminate|]. cbn [map] in H.
  inversion H as [[H1 H2]]. destruct Ha as [<-|Ha]; [exists y; exact H1 | exact (IH l' H2 a Ha)]. Qed.

Lemma img_no_poison : forall f w v, F.vsize w <= f -> zsign w = tr_v v -> F.has_poison f w = false.
Proof.
  induction f as [|f IH]; intros w v Hf Hz; [pose proof (vsize_pos w); lia|].
  destruct w; cbn [F.has_poison]; try reflexivity; cbn [zsign] in Hz.
  - destruct v; cbn [tr_v] in Hz; try discriminate Hz. inversion Hz as [Hm].
    destruct (existsb (F.has_poison f) l) eqn:E; [|reflexivity]. apply existsb_exists in E. destruct E as [u [Hu Hp]].
    destruct (map_eq_in _ _ _ _ Hm u Hu) as [v' Hv']. rewrite (IH u v') in Hp; [discriminate| |exact Hv'].
    pose proof (vsize_in_list u l Hu). cbn [F.vsize] in Hf. lia.
  - destruct v; cbn [tr_v] in Hz; try discriminate Hz. inversion Hz as [Hm].
    destruct (existsb (fun e => F.has_poison f (snd e)) es) eqn:E; [|reflexivity]. apply existsb_exists in E. destruct E as [e [He Hp]].
    assert (Hi : In (zf e) (tr_ctx es0)). { unfold tr_ctx. rewrite <- Hm. apply in_map. exact He. }
    apply in_tr_ctx in Hi. destruct Hi as [v' Hv']. cbn [zf snd] in Hv'.
    rewrite (IH (snd e) v') in Hp; [discriminate| |exact Hv'].
    pose proof (vsize_in_ctx e es He). cbn [F.vsize] in Hf. lia.
  - destruct v; discriminate Hz.
  - destruct v; discriminate Hz.
  - destruct v; discriminate Hz.
Qed.

Lemma coerced_any w v : zsign w = tr_v v -> F.coerced1 (T.TS T.SAny) w = w.
Proof. intros H. unfold F.coerced1. unfold F.poison. rewrite (img_no_poison _ w v (le_n _) H).
  change F.T.conformant with T.conformant. rewrite DV.C16.Proofs.conformant_any. reflexivity. Qed.

(* ================= scopes: the flattened C04 scope against the C01 stack, name by name ================= *)
Fixpoint zsign_tr_v (v : value) {struct v} : zsign (tr_v v) = tr_v v.
Proof. destruct v as [|z|s|vs|es|ps b|sid ps]; cbn [tr_v zsign]; try reflexivity.
  - f_equal. apply dnorm_numrel. unfold numrel, D.of_Z. cbn [D.coef D.expo D.neg]. repeat split.
  - f_equal. rewrite map_map. induction vs as [|x vs IHl]; cbn [map]; [reflexivity|]. rewrite (zsign_tr_v x), IHl. reflexivity.
  - f_equal. induction es as [|[k x] es IHl]; cbn [fold_right fst snd map]; [reflexivity|].
    change (map (fun kv => (fst kv, zsign (snd kv)))) with (map zf) in *. rewrite zs_ctx_set, IHl, (zsign_tr_v x). reflexivity.
Qed.

Definition get1 (n : N) (S : F.stack) : F.value := match F.lookup n S with Some v => v | None => F.VNull end.
Definition srel (sc : env) (S : F.stack) : Prop := forall n, zsign (get1 n S) = tr_v (getv n sc).

Lemma get1_cons n c S : get1 n (c :: S) = match F.ctx_get n c with Some w => w | None => get1 n S end.
Proof. unfold get1. cbn [F.lookup]. destruct (F.ctx_get n c); reflexivity. Qed.

Lemma srel_push sc S : srel sc S -> srel sc ([] :: S).
Proof. intros H n. rewrite get1_cons. exact (H n). Qed.

Lemma srel_set sc c S k v w : srel sc (c :: S) -> zsign w = tr_v v -> srel (set k v sc) (F.ctx_set k w c :: S).
Proof. intros H Hw n. rewrite get1_cons, DV.C01.FreeNames.ctx_get_set. unfold getv. rewrite P4.lookup_set.
  destruct (N.eqb n k); [exact Hw|]. specialize (H n). rewrite get1_cons in H. exact H. Qed.

Lemma srel_env sc : srel sc (tr_env sc).
Proof. intros n. unfold tr_env. rewrite get1_cons, ctx_get_tr. unfold getv. destruct (lookup n sc) as [v|]; cbn [option_map]; [apply zsign_tr_v | reflexivity]. Qed.

(* ----- positional arguments ----- *)
Lemma nodupb_NoDup l : nodupb l = true -> NoDup l.
Proof. induction l as [|x r IH]; cbn [nodupb]; intros H; [constructor|]. apply andb_true_iff in H. destruct H as [H1 H2].
  constructor; [|exact (IH H2)]. intro Hin. apply P4.In_mem in Hin. rewrite Hin in H1. discriminate. Qed.

Lemma bind_pos_len : forall ps vs, match bind_pos ps vs with None => length vs < length ps | Some _ => length ps <= length vs end.
Proof. induction ps as [|p pr IH]; intros vs; cbn [bind_pos length]; [lia|]. destruct vs as [|a ar]; cbn [length]; [lia|].
  specialize (IH ar). destruct (bind_pos pr ar); cbn [option_map]; lia. Qed.

Lemma bind_pos_keys : forall ps vs pc n, bind_pos ps vs = Some pc -> ~ In n ps -> lookup n pc = None.
Proof. induction ps as [|p pr IH]; intros vs pc n H Hn; cbn [bind_pos] in H; [inversion H; reflexivity|].
  destruct vs as [|a ar]; [discriminate|]. destruct (bind_pos pr ar) as [pc'|] eqn:E; cbn [option_map] in H; [|discriminate].
  inversion H; subst. rewrite P4.lookup_set. destruct (N.eqb_spec n p) as [->|Hne]; [exfalso; apply Hn; left; reflexivity|].
  apply (IH ar pc' n E). intro Hi. apply Hn. right. exact Hi. Qed.

Lemma bind_pos_nodup : forall ps vs pc, bind_pos ps vs = Some pc -> NoDup (map fst pc).
Proof. induction ps as [|p pr IH]; intros vs pc H; cbn [bind_pos] in H; [inversion H; constructor|].
  destruct vs as [|a ar]; [discriminate|]. destruct (bind_pos pr ar) as [pc'|] eqn:E; cbn [option_map] in H; [|discriminate].
  inversion H; subst. apply P4.nodup_set. exact (IH ar pc' E). Qed.

Definition arg_step (c : F.ctx) (pv : N * T.ftype * F.value) : F.ctx :=
  F.ctx_set (fst (fst pv)) (F.coerced1 (snd (fst pv)) (snd pv)) c.

Lemma args_rel : forall ps vs ws pc, NoDup ps -> bind_pos ps vs = Some pc -> map zsign ws = map tr_v vs ->
  forall c0 n, match lookup n pc with
               | Some v => exists w, F.ctx_get n (fold_left arg_step (combine (any_params ps) ws) c0) = Some w /\ zsign w = tr_v v
               | None => F.ctx_get n (fold_left arg_step (combine (any_params ps) ws) c0) = F.ctx_get n c0
               end.
Proof.
  induction ps as [|p pr IH]; intros vs ws pc Hnd Hb Hm c0 n; cbn [bind_pos] in Hb.
  - inversion Hb; subst. reflexivity.
  - destruct vs as [|a ar]; [discriminate|]. destruct (bind_pos pr ar) as [pc'|] eqn:E; cbn [option_map] in Hb; [|discriminate].
    inversion Hb; subst. destruct ws as [|w wr]; [discriminate|]. cbn [map] in Hm. inversion Hm as [[Hw Hm']].
    inversion Hnd as [|? ? Hp Hnd']; subst.
    cbn [any_params map combine fold_left].
    assert (Ea : arg_step c0 (p, T.TS T.SAny, w) = F.ctx_set p w c0)
      by (unfold arg_step; cbn [fst snd]; rewrite (coerced_any w a Hw); reflexivity).
    rewrite Ea.
    specialize (IH ar wr pc' Hnd' E Hm' (F.ctx_set p w c0) n). fold (any_params pr).
    rewrite P4.lookup_set. destruct (N.eqb_spec n p) as [->|Hne].
    + rewrite (bind_pos_keys pr ar pc' p E Hp) in IH. rewrite IH, DV.C01.FreeNames.ctx_get_set, N.eqb_refl.
      exists w. split; [reflexivity | exact Hw].
    + destruct (lookup n pc') as [v|]; [exact IH|]. rewrite IH, DV.C01.FreeNames.ctx_get_set.
      destruct (N.eqb_spec n p); [contradiction | reflexivity].
Qed.

Lemma srel_call ps vs ws pc sc S c : NoDup ps -> bind_pos ps vs = Some pc -> map zsign ws = map tr_v vs -> srel sc S ->
  FS.mk_args (any_params ps) ws = Some c -> srel (zip sc pc) (c :: S).
Proof. intros Hnd Hb Hm Hs Hc n. unfold FS.mk_args in Hc. destruct (Nat.ltb _ _); [discriminate|]. inversion Hc as [Hc']. clear Hc.
  fold arg_step. rewrite get1_cons. unfold getv. rewrite P4.lookup_zip, (P4.lookup_rev_nodup n pc (bind_pos_nodup _ _ _ Hb)).
  pose proof (args_rel ps vs ws pc Hnd Hb Hm [] n) as H. destruct (lookup n pc) as [v|].
  - destruct H as [w [-> Hw]]. exact Hw.
  - rewrite H. cbn [F.ctx_get]. exact (Hs n).
Qed.

(* ================= the link ================= *)
Section Link.
Variable cartf : list (N * list F.value) -> list F.ctx.
Notation feval := (FS.eval cartf).

Definition ctx_step (g : nat) (S : F.stack) (acc : F.ctx) (ke : N * F.expr) : F.ctx :=
  F.ctx_set (fst ke) (feval g (acc :: S) (snd ke)) acc.

Lemma eval_name g S n : feval (Datatypes.S g) S (F.EName n) = get1 n S.
Proof. reflexivity. Qed.
Lemma eval_bin g S o a b : feval (Datatypes.S g) S (F.EBin o a b) = F.binop_eval o (feval g S a) (feval g S b).
Proof. reflexivity. Qed.
Lemma eval_call g S fn args : feval (Datatypes.S (Datatypes.S g)) S (F.ECall (F.EName fn) args) =
  match get1 fn S with
  | F.VFun ps body => match FS.mk_args ps (map (feval (Datatypes.S g) S) args) with
                      | Some c => feval (Datatypes.S g) (c :: S) body | None => F.VNull end
  | F.VPoison => F.VPoison
  | _ => F.VNull
  end.
Proof. reflexivity. Qed.
Lemma eval_ctx g S es : feval (Datatypes.S g) S (F.ECtx es) = F.VCtx (fold_left (ctx_step g S) es []).
Proof. reflexivity. Qed.
Lemma eval_path g S e k : feval (Datatypes.S g) S (F.EPath e k) = F.path_eval (feval g S e) k.
Proof. reflexivity. Qed.

Definition linked (f : nat) : Prop := forall sc e v, cev f sc e = Some v ->
  forall g S, 2 * f <= g -> srel sc S -> zsign (feval g S (tr_e e)) = tr_v v.

Lemma args_link f (IH : linked f) sc S g : 2 * f <= g -> srel sc S ->
  forall l vs, cevs (cev f) sc l = Some vs -> map zsign (map (feval g S) (map tr_e l)) = map tr_v vs.
Proof. intros Hg Hs. induction l as [|x r IHl]; intros vs H; cbn [cevs] in H.
  - inversion H; reflexivity.
  - destruct (cev f sc x) as [v|] eqn:E; [|discriminate]. destruct (cevs (cev f) sc r) as [vs'|] eqn:E2; [|discriminate].
    inversion H; subst. cbn [map]. rewrite (IH _ _ _ E g S Hg Hs), (IHl vs' eq_refl). reflexivity. Qed.

Lemma ctx_link f (IH : linked f) S g : 2 * f <= g ->
  forall es sc acc c acc1 sc1, cctx (cev f) sc acc es = Some (acc1, sc1) -> srel sc (c :: S) -> map zf c = tr_ctx acc ->
  srel sc1 (fold_left (ctx_step g S) (map (fun ke => (fst ke, tr_e (snd ke))) es) c :: S) /\
  map zf (fold_left (ctx_step g S) (map (fun ke => (fst ke, tr_e (snd ke))) es) c) = tr_ctx acc1.
Proof. intros Hg. induction es as [|[k x] r IHl]; intros sc acc c acc1 sc1 H Hs Hc; cbn [cctx] in H.
  - inversion H; subst. split; [exact Hs | exact Hc].
  - destruct (cev f sc x) as [v|] eqn:E; [|discriminate]. cbn [map fold_left fst snd]. unfold ctx_step at 2 4. cbn [fst snd].
    pose proof (IH _ _ _ E g (c :: S) Hg Hs) as Hv.
    apply (IHl _ _ _ _ _ H).
    + apply srel_set; [exact Hs | exact Hv].
    + rewrite zs_ctx_set, tr_ctx_set, Hc, Hv. reflexivity. Qed.

Theorem link : forall f, linked f.
Proof.
  induction f as [|f IH]; intros sc e v H g S Hg Hs; [discriminate|].
  destruct g as [|[|g]]; try lia. assert (Hg1 : 2 * f <= Datatypes.S g) by lia. assert (Hg0 : 2 * f <= g) by lia.
  destruct e as [|z|s|n|a b|a b|fn args|fn binds|es res|cols rows]; cbn [cev] in H; try discriminate H.
  - inversion H; reflexivity.
  - inversion H; subst. exact (zsign_tr_v (VNum z)).
  - inversion H; reflexivity.
  - inversion H; subst. exact (Hs n).
  - destruct (cev f sc a) as [x|] eqn:Ea; [|discriminate]. destruct (cev f sc b) as [y|] eqn:Eb; [|discriminate].
    destruct (add_ok x y) eqn:Eo; [|discriminate]. inversion H; subst. cbn [tr_e]. rewrite eval_bin.
    apply add_link; [exact (IH _ _ _ Ea _ S Hg1 Hs) | exact (IH _ _ _ Eb _ S Hg1 Hs) | exact Eo].
  - destruct (cev f sc a) as [x|] eqn:Ea; [|discriminate]. destruct (cev f sc b) as [y|] eqn:Eb; [|discriminate].
    destruct (mul_ok x y) eqn:Eo; [|discriminate]. inversion H; subst. cbn [tr_e]. rewrite eval_bin.
    apply mul_link; [exact (IH _ _ _ Ea _ S Hg1 Hs) | exact (IH _ _ _ Eb _ S Hg1 Hs) | exact Eo].
  - destruct (cevs (cev f) sc args) as [vs|] eqn:Ea; [|discriminate]. cbn [tr_e]. rewrite eval_call.
    pose proof (args_link f IH sc S _ Hg1 Hs args vs Ea) as Hm.
    pose proof (Hs fn) as Hfn.
    destruct (getv fn sc) as [|z|s|l|c|ps b|sid ps]; cbn [tr_v] in Hfn;
      destruct (get1 fn S); cbn [zsign] in Hfn; try discriminate Hfn; try (inversion H; reflexivity).
    inversion Hfn; subst. destruct (nodupb ps) eqn:End; [|discriminate]. apply nodupb_NoDup in End.
    assert (Hl : length (map (feval (Datatypes.S g) S) (map tr_e args)) = length vs).
    { rewrite <- (map_length zsign), Hm, map_length. reflexivity. }
    pose proof (bind_pos_len ps vs) as Hb.
    destruct (FS.mk_args (any_params ps) (map (feval (Datatypes.S g) S) (map tr_e args))) as [c|] eqn:Em.
    + destruct (bind_pos ps vs) as [pc|] eqn:Ebp.
      * apply (IH _ _ _ H); [exact Hg1|]. exact (srel_call ps vs _ pc sc S c End Ebp Hm Hs Em).
      * exfalso. unfold FS.mk_args in Em. rewrite Hl in Em. unfold any_params in Em. rewrite map_length in Em.
        destruct (Nat.ltb_spec (length vs) (length ps)); [discriminate | lia].
    + destruct (bind_pos ps vs) as [pc|] eqn:Ebp; [|inversion H; reflexivity].
      exfalso. unfold FS.mk_args in Em. rewrite Hl in Em. unfold any_params in Em. rewrite map_length in Em.
      destruct (Nat.ltb_spec (length vs) (length ps)); [lia | discriminate].
  - destruct (cctx (cev f) sc [] es) as [[acc sc1]|] eqn:Ec; [|discriminate].
    destruct res as [r|]; cbn [tr_e].
    + rewrite eval_path, eval_ctx, fold_left_app. cbn [fold_left]. unfold ctx_step at 1. cbn [fst snd F.path_eval].
      rewrite DV.C01.FreeNames.ctx_get_set, N.eqb_refl.
      destruct (ctx_link f IH S g Hg0 es sc [] [] acc sc1 Ec (srel_push _ _ Hs) eq_refl) as [Hs1 _].
      exact (IH _ _ _ H g _ Hg0 Hs1).
    + inversion H; subst. rewrite eval_ctx.
      destruct (ctx_link f IH S (Datatypes.S g) Hg1 es sc [] [] acc sc1 Ec (srel_push _ _ Hs) eq_refl) as [_ Hc1].
      cbn [zsign tr_v]. f_equal. exact Hc1.
Qed.
End Link.

(* ================= the statements ================= *)
From DV Require C01.Proofs.

(* every fuel of the tiny evaluator, every enumeration function of C01's eval, every related scope / stack pair *)
Theorem tev_is_feel_eval cartf svc f sc S e g : shared f sc e = true -> 2 * f <= g -> srel sc S ->
  zsign (FS.eval cartf g S (tr_e e)) = tr_v (fst (tev false f svc sc e)).
Proof. unfold shared. destruct (cev f sc e) as [v|] eqn:E; [|discriminate]. intros _ Hg Hs.
  rewrite (cev_tev svc _ _ _ _ E). exact (link cartf f sc e v E g S Hg Hs). Qed.

(* teval (60 levels) against the Spec and against the scope-stack machine of C01, on the translated environment *)
Theorem teval_is_feel_eval : forall svc sc e fuel, shared TFUEL sc e = true -> 2 * TFUEL <= fuel ->
  zsign (FS.eval_spec fuel (tr_env sc) (tr_e e)) = tr_v (teval svc sc e) /\
  zsign (fst (FI.run_impl fuel (tr_env sc) (tr_e e))) = tr_v (teval svc sc e) /\
  snd (FI.run_impl fuel (tr_env sc) (tr_e e)) = tr_env sc.
Proof. intros svc sc e fuel Hsh Hf. unfold FI.run_impl. rewrite DV.C01.Proofs.run_refines. cbn [fst snd]. unfold teval, FS.eval_spec.
  repeat split; apply tev_is_feel_eval; try assumption; apply srel_env. Qed.

(* non-vacuity: a boxed context with a result entry, an entry shadowing an outer name, a literal invocation whose body
   reads a name of the caller's scope (dynamic scoping), a negative factor *)
Definition link_env : env :=
  [(1%N, VBkm [10%N; 11%N] (EAdd (EMul (EVar 10%N) (EVar 11%N)) (EVar 2%N))); (2%N, VNum 7); (3%N, VStr 65%N)].
Definition link_e : expr :=
  ECtx [(2%N, ENum 3); (4%N, ECall 1%N [EAdd (ENum 2) (ENum 1); EVar 2%N]); (5%N, EVar 3%N)] (Some (EMul (EVar 4%N) (ENum (-2)))).
Definition no_svc : N -> env -> value := fun _ _ => VNull.

Lemma link_nonvacuous :
  shared TFUEL link_env link_e = true /\
  teval no_svc link_env link_e = VNum (-24) /\
  FS.eval_spec 120 (tr_env link_env) (tr_e link_e) = F.VNum (D.of_Z (-24) 0) /\
  fst (FI.run_impl 120 (tr_env link_env) (tr_e link_e)) = F.VNum (D.of_Z (-24) 0) /\
  shared TFUEL link_env (ECall 1%N [ENum 5]) = true /\ teval no_svc link_env (ECall 1%N [ENum 5]) = VNull /\   (* a missing argument: null on both sides *)
  shared TFUEL link_env (EAdd (EVar 2%N) ENull) = true /\ teval no_svc link_env (EAdd (EVar 2%N) ENull) = VNull. (* null operand *)
Proof. vm_compute. repeat split; reflexivity. Qed.

(* ---------- the corners outside the hypotheses: the two models differ, the real code sides with C01 in each ---------- *)
(* "a" + "b": dv model answers "ab" *)
Lemma str_concat_differs :
  teval no_svc [] (EAdd (EStr 97%N) (EStr 98%N)) = VNull /\
  FS.eval_spec 5 (tr_env []) (tr_e (EAdd (EStr 97%N) (EStr 98%N))) = F.VStr [97%N; 98%N].
Proof. vm_compute. split; reflexivity. Qed.

(* a knowledge model with the formal parameters (x, x) and body x, invoked as f(1, 2): dv model answers 2 *)
Lemma dup_params_differ :
  let sc := [(1%N, VBkm [10%N; 10%N] (EVar 10%N))] in let e := ECall 1%N [ENum 1; ENum 2] in
  teval no_svc sc e = VNum 1 /\ FS.eval_spec 5 (tr_env sc) (tr_e e) = F.VNum (D.of_Z 2 0).
Proof. vm_compute. split; reflexivity. Qed.

(* a * 0 with a = -3: dv model answers -0; Z has one zero (this is why the conclusion is stated up to zsign) *)
Lemma negative_zero :
  let e := EMul (ENum (-3)) (ENum 0) in
  shared TFUEL [] e = true /\ teval no_svc [] e = VNum 0 /\
  FS.eval_spec 5 (tr_env []) (tr_e e) = F.VNum (D.mkdec true 0 0) /\ F.VNum (D.mkdec true 0 0) <> tr_v (VNum 0).
Proof. vm_compute. repeat split; try reflexivity. discriminate. Qed.

(* a * a + 1 with a = 10^17: 35 digits; dv model answers 1E+34 *)
Lemma rounding_differs :
  let e := EAdd (EMul (ENum (10 ^ 17)) (ENum (10 ^ 17))) (ENum 1) in
  shared TFUEL [] e = false /\ teval no_svc [] e = VNum (10 ^ 34 + 1) /\
  FS.eval_spec 5 (tr_env []) (tr_e e) = F.VNum (D.mkdec false (10 ^ 33) 1).
Proof. vm_compute. repeat split; reflexivity. Qed.
