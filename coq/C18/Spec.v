(* C18 — the SPECIFICATION of the service, written independently of `serve` (C18/Service.v): a relation between a request,
   the ABSTRACT workspace of C17 (C17/Abstract.v: a set of stored documents and a served relation) before and after it, and
   the CLASS of the response: which member the answer carries (data or errors) and what the data denotes.  No workspace
   state of the ImplModel, no index map, no reply constructor of the handler model occurs here.  Definitions only; the
   proofs are in C18/ProofsSpec.v. *)
From Coq Require Import List NArith Bool.
From DV Require Import C17.Model C17.Abstract C18.Service.
Import ListNotations.
Open Scope N_scope.

(* what the data member of an answer denotes *)
Inductive denotation :=
| DAdded (n k : N)        (* the namespace and the name of the document that has been stored *)
| DStatus (c : N)         (* the status text of a definitions endpoint: 1 cleared 2 replaced 3 removed 4 deployed *)
| DEvaluation (d : N).    (* the value that the document d computes for the input sent *)

(* exactly one member is present *)
Inductive rclass := CData (x : denotation) | CErrors.

(* the workspace operation a request asks for — when every part its endpoint needs is present and usable *)
Inductive asks : request -> op -> Prop :=
| AsksAdd : forall m, asks (QAdd (CModel m)) (Add m)
| AsksReplace : forall m, asks (QReplace (CModel m)) (Replace m)
| AsksRemove : forall n k, asks (QRemove (Some n) (Some k)) (Remove n k)
| AsksClear : asks QClear Clear
| AsksDeploy : asks QDeploy Deploy
| AsksEvaluate : forall k, asks (QEvaluate k true) (Eval k)
| AsksTck : forall k, asks (QTck (Some k) true (Some true)) (Eval k).

(* The service, as its clients may rely on it.
   - a request that asks for nothing (malformed body, content that is not Base64 / UTF-8 / a DMN document, a missing member,
     an input that cannot be used, an unknown route) is answered with errors and the workspace is what it was;
   - add: data naming the stored document when both its keys are free and the set gains exactly it; otherwise errors, unchanged;
   - replace: every stored document with its namespace or its name leaves, it enters; data (status replaced);
   - remove: every stored document with that namespace or that name leaves; clear: nothing stays; deploy: exactly the stored
     documents that build are served — data (the status);
   - evaluate (plain or TCK): data denoting the value of the document served under the name; errors if none is served;
     unchanged either way. *)
Inductive spec_serve (a : astate) : request -> astate -> rclass -> Prop :=
| SFault : forall q a', (forall o, ~ asks q o) -> aeq a a' -> spec_serve a q a' CErrors
| SAdded : forall q m a', asks q (Add m) -> free a m ->
    (forall x, stored a' x <-> stored a x \/ x = m) -> nothing_served a' ->
    spec_serve a q a' (CData (DAdded (ns m) (nm m)))
| SAddRefused : forall q m a', asks q (Add m) -> ~ free a m -> aeq a a' -> spec_serve a q a' CErrors
| SReplaced : forall q m a', asks q (Replace m) ->
    (forall x, stored a' x <-> x = m \/ (stored a x /\ ns x <> ns m /\ nm x <> nm m)) -> nothing_served a' ->
    spec_serve a q a' (CData (DStatus 2))
| SRemoved : forall q n k a', asks q (Remove n k) ->
    (forall x, stored a' x <-> stored a x /\ ns x <> n /\ nm x <> k) -> nothing_served a' ->
    spec_serve a q a' (CData (DStatus 3))
| SCleared : forall q a', asks q Clear -> (forall x, ~ stored a' x) -> nothing_served a' ->
    spec_serve a q a' (CData (DStatus 1))
| SDeployed : forall q a', asks q Deploy -> (forall x, stored a' x <-> stored a x) ->
    (forall k d, served a' k d <-> exists x, stored a x /\ builds x = true /\ nm x = k /\ doc x = d) ->
    spec_serve a q a' (CData (DStatus 4))
| SEvaluated : forall q k d a', asks q (Eval k) -> served a k d -> aeq a a' ->
    spec_serve a q a' (CData (DEvaluation d))
| SNotDeployed : forall q k a', asks q (Eval k) -> (forall d, ~ served a k d) -> aeq a a' ->
    spec_serve a q a' CErrors.

(* a sequence of requests *)
Inductive spec_serves : astate -> list request -> astate -> list rclass -> Prop :=
| SsNil : forall a a', aeq a a' -> spec_serves a [] a' []
| SsCons : forall a q a1 c r a2 cs, spec_serve a q a1 c -> spec_serves a1 r a2 cs -> spec_serves a (q :: r) a2 (c :: cs).

(* the class of an answer of the handler model *)
Definition class_of (r : reply) : rclass :=
  match r with
  | RAdded n k => CData (DAdded n k)
  | RStatus c => CData (DStatus c)
  | RValue _ d => CData (DEvaluation d)
  | RErr _ => CErrors
  end.
