(* C08 — proofs about coq/C08/Model.v: characterisations for lists and strings of any length. *)
From Coq Require Import List NArith ZArith Bool Arith Lia Permutation.
From DV Require Import C09.Values C09.Model C09.Proofs C08.Model.
Import ListNotations.
Open Scope Z_scope.

(* ================= integer conversion ================= *)

Lemma pow10_pos : forall k, 0 <= k -> 0 < 10 ^ k.
Proof. intros k H. apply Z.pow_pos_nonneg; lia. Qed.

(* a number with trailing fraction zeros denotes its integer: 1.0 = 10 * 10^-1 is 1 *)
Lemma to_int_scale : forall p j, 0 <= j -> to_int (p * 10 ^ j) (- j) = Some p.
Proof.
  intros p j Hj. unfold to_int. destruct (0 <=? - j) eqn:E.
  - apply Z.leb_le in E. assert (j = 0) by lia. subst j. cbn. f_equal. lia.
  - rewrite Z.opp_involutive. pose proof (pow10_pos j Hj) as P.
    rewrite Z.mod_mul by lia. cbn. rewrite Z.div_mul by lia. reflexivity.
Qed.
Lemma to_int_integer : forall p, to_int p 0 = Some p.
Proof. intros p. unfold to_int. cbn. f_equal. lia. Qed.

(* the integer has the sign of the coefficient, and negation commutes *)
Lemma to_int_witness : forall c e p, to_int c e = Some p -> exists d, 0 < d /\ (p = c * d \/ c = p * d).
Proof.
  intros c e p H. unfold to_int in H. destruct (0 <=? e) eqn:E.
  - apply Z.leb_le in E. injection H as <-. exists (10 ^ e). split; [apply pow10_pos; lia|left; reflexivity].
  - apply Z.leb_gt in E. destruct (c mod 10 ^ (- e) =? 0) eqn:M; [|discriminate]. injection H as <-.
    apply Z.eqb_eq in M. exists (10 ^ (- e)). split; [apply pow10_pos; lia|]. right.
    pose proof (pow10_pos (- e) ltac:(lia)) as P.
    rewrite (Z.div_mod c (10 ^ (- e))) at 1 by lia. rewrite M. lia.
Qed.

Lemma to_int_sign : forall c e p, to_int c e = Some p -> (0 <? c) = (0 <? p) /\ (c <? 0) = (p <? 0).
Proof.
  intros c e p H. destruct (to_int_witness c e p H) as [d [Hd [E|E]]]; subst.
  - split; [destruct (0 <? c) eqn:A; destruct (0 <? c * d) eqn:B|destruct (c <? 0) eqn:A; destruct (c * d <? 0) eqn:B]; auto;
      rewrite ?Z.ltb_lt, ?Z.ltb_ge in *; nia.
  - split; [destruct (0 <? p * d) eqn:A; destruct (0 <? p) eqn:B|destruct (p * d <? 0) eqn:A; destruct (p <? 0) eqn:B]; auto;
      rewrite ?Z.ltb_lt, ?Z.ltb_ge in *; nia.
Qed.

Lemma to_int_opp : forall c e p, to_int c e = Some p -> to_int (- c) e = Some (- p).
Proof.
  intros c e p H. unfold to_int in *. destruct (0 <=? e) eqn:E.
  - injection H as <-. f_equal. lia.
  - apply Z.leb_gt in E. pose proof (pow10_pos (- e) ltac:(lia)) as P.
    destruct (c mod 10 ^ (- e) =? 0) eqn:M; [|discriminate]. injection H as <-. apply Z.eqb_eq in M.
    rewrite (Z.mod_opp_l_z c (10 ^ (- e))) by lia. cbn. f_equal. apply Z.div_opp_l_z; lia.
Qed.

(* ================= positions ================= *)

(* the 0-based index a FEEL position denotes in a sequence of length n: 1..n from the start, -1..-n from the end *)
Definition spec_index (n p : Z) : option Z :=
  if (1 <=? p) && (p <=? n) then Some (p - 1)
  else if (- n <=? p) && (p <=? -1) then Some (n + p)
  else None.
(* insert before additionally accepts nothing more: positions 1..n and -n..-1 *)

Definition fits (n : Z) : Prop := n <= U64MAX.

Ltac bool_to_prop :=
  repeat match goal with
  | H : (_ && _) = true |- _ => apply andb_true_iff in H; destruct H
  | H : (_ && _) = false |- _ => apply andb_false_iff in H
  | H : (_ <=? _) = true |- _ => apply Z.leb_le in H
  | H : (_ <=? _) = false |- _ => apply Z.leb_gt in H
  | H : (_ <? _) = true |- _ => apply Z.ltb_lt in H
  | H : (_ <? _) = false |- _ => apply Z.ltb_ge in H
  end.

Ltac split_ors := repeat match goal with H : _ \/ _ |- _ => destruct H end.
Ltac crush :=
  repeat (match goal with |- context [if ?b then _ else _] => let E := fresh "E" in destruct b eqn:E end);
  bool_to_prop; split_ors; bool_to_prop; try reflexivity; try lia;
  try (match goal with |- context [Z.to_nat (?n - - ?p)] => replace (n - - p) with (n + p) by lia end; reflexivity).

Lemma zlen_nonneg : forall A (l : list A), 0 <= zlen l.
Proof. intros. unfold zlen. lia. Qed.

(* the common shape of sublist2 / remove: `pick` is applied to the 0-based index *)
Definition by_position (xs : list value) (c e : Z) (pick : nat -> value) : value :=
  let n := zlen xs in
  if 0 <? c then
    match to_usize_gen to_int c e with
    | Some p => if p - 1 <? n then pick (Z.to_nat (p - 1)) else VNull
    | None => VNull end
  else if c <? 0 then
    match to_usize_gen to_int (- c) e with
    | Some p => if p <=? n then pick (Z.to_nat (n - p)) else VNull
    | None => VNull end
  else VNull.

Lemma by_position_spec : forall xs c e p pick, fits (zlen xs) -> to_int c e = Some p ->
  by_position xs c e pick = match spec_index (zlen xs) p with Some i => pick (Z.to_nat i) | None => VNull end.
Proof.
  intros xs c e p pick Hfit H. unfold by_position, spec_index, to_usize_gen, fits, U64MAX in *.
  pose proof (zlen_nonneg _ xs) as Hn. set (n := zlen xs) in *.
  destruct (to_int_sign c e p H) as [S1 S2]. rewrite S1, S2. rewrite H, (to_int_opp c e p H).
  destruct (0 <? p) eqn:A.
  - bool_to_prop.
    destruct ((0 <=? p) && (p <=? 18446744073709551615)) eqn:B.
    + destruct (p - 1 <? n) eqn:C; destruct ((1 <=? p) && (p <=? n)) eqn:D; bool_to_prop; try reflexivity; try lia.
      destruct ((- n <=? p) && (p <=? -1)) eqn:F; bool_to_prop; try reflexivity; lia.
    + destruct ((1 <=? p) && (p <=? n)) eqn:D; bool_to_prop; try lia.
      destruct ((- n <=? p) && (p <=? -1)) eqn:F; bool_to_prop; try reflexivity; lia.
  - destruct (p <? 0) eqn:A2.
    + bool_to_prop.
      destruct ((0 <=? - p) && (- p <=? 18446744073709551615)) eqn:B.
      * destruct (- p <=? n) eqn:C; destruct ((1 <=? p) && (p <=? n)) eqn:D; bool_to_prop; try lia;
          destruct ((- n <=? p) && (p <=? -1)) eqn:F; bool_to_prop; try lia; try reflexivity.
        f_equal. f_equal. lia.
      * destruct ((1 <=? p) && (p <=? n)) eqn:D; bool_to_prop; try lia.
        destruct ((- n <=? p) && (p <=? -1)) eqn:F; bool_to_prop; try reflexivity; lia.
    + bool_to_prop. assert (p = 0) by lia. subst p.
      destruct ((1 <=? 0) && (0 <=? n)) eqn:D; bool_to_prop; try lia.
      destruct ((- n <=? 0) && (0 <=? -1)) eqn:F; bool_to_prop; try reflexivity; lia.
Qed.

Lemma by_position_nonint : forall xs c e pick, to_int c e = None -> by_position xs c e pick = VNull.
Proof.
  intros xs c e pick H. unfold by_position, to_usize_gen. rewrite H.
  assert (H2 : to_int (- c) e = None).
  { unfold to_int in *. destruct (0 <=? e) eqn:E; [discriminate|].
    apply Z.leb_gt in E. pose proof (pow10_pos (- e) ltac:(lia)) as P.
    destruct (c mod 10 ^ (- e) =? 0) eqn:M; [discriminate|]. apply Z.eqb_neq in M.
    destruct (- c mod 10 ^ (- e) =? 0) eqn:M2; auto. apply Z.eqb_eq in M2. exfalso. apply M.
    apply Z.mod_divide in M2; [|lia]. apply Z.mod_divide; [lia|].
    destruct M2 as [q Hq]. exists (- q). lia. }
  rewrite H2. destruct (0 <? c); destruct (c <? 0); reflexivity.
Qed.

(* ---- sublist(list, start position) ---- *)
Theorem sublist2_spec : forall xs c e p, fits (zlen xs) -> to_int c e = Some p ->
  pos Sublist [VList xs; VNum c e] =
  Some (match spec_index (zlen xs) p with Some i => VList (skipn (Z.to_nat i) xs) | None => VNull end).
Proof.
  intros xs c e p Hf H. unfold pos. cbn [positional]. f_equal.
  exact (by_position_spec xs c e p (fun i => VList (skipn i xs)) Hf H).
Qed.
Theorem sublist2_nonint : forall xs c e, to_int c e = None -> pos Sublist [VList xs; VNum c e] = Some VNull.
Proof.
  intros xs c e H. unfold pos. cbn [positional]. f_equal.
  exact (by_position_nonint xs c e (fun i => VList (skipn i xs)) H).
Qed.

(* ---- remove(list, position) ---- *)
Theorem remove_spec : forall xs c e p, fits (zlen xs) -> to_int c e = Some p ->
  pos Remove [VList xs; VNum c e] =
  Some (match spec_index (zlen xs) p with Some i => VList (remove_at (Z.to_nat i) xs) | None => VNull end).
Proof.
  intros xs c e p Hf H. unfold pos. cbn [positional]. f_equal.
  exact (by_position_spec xs c e p (fun i => VList (remove_at i xs)) Hf H).
Qed.
Theorem remove_nonint : forall xs c e, to_int c e = None -> pos Remove [VList xs; VNum c e] = Some VNull.
Proof.
  intros xs c e H. unfold pos. cbn [positional]. f_equal.
  exact (by_position_nonint xs c e (fun i => VList (remove_at i xs)) H).
Qed.

Lemma remove_at_length : forall A (l : list A) i, (i < length l)%nat -> length (remove_at i l) = (length l - 1)%nat.
Proof.
  intros A l i H. unfold remove_at. rewrite app_length, firstn_length, skipn_length. lia.
Qed.
Lemma nth_firstn_lt' : forall A (l : list A) i j d, (j < i)%nat -> nth j (firstn i l) d = nth j l d.
Proof.
  intros A l. induction l as [|x l IH]; intros i j d H.
  - rewrite firstn_nil. reflexivity.
  - destruct i; [lia|]. destruct j; cbn; auto. apply IH. lia.
Qed.
Lemma nth_skipn' : forall A (l : list A) i j d, nth j (skipn i l) d = nth (i + j) l d.
Proof.
  intros A l. induction l as [|x l IH]; intros i j d.
  - rewrite skipn_nil. destruct j; destruct (i + _)%nat; reflexivity.
  - destruct i; cbn; auto.
Qed.

Lemma remove_at_nth : forall A (l : list A) i j d, (i < length l)%nat ->
  nth j (remove_at i l) d = if (j <? i)%nat then nth j l d else nth (S j) l d.
Proof.
  intros A l i j d H. unfold remove_at. destruct (j <? i)%nat eqn:E.
  - apply Nat.ltb_lt in E. rewrite app_nth1 by (rewrite firstn_length; lia). apply nth_firstn_lt'. exact E.
  - apply Nat.ltb_ge in E. rewrite app_nth2 by (rewrite firstn_length; lia).
    rewrite firstn_length. replace (Nat.min i (length l)) with i by lia.
    rewrite nth_skipn'. f_equal. lia.
Qed.

(* ---- insert before(list, position, newItem) ---- *)
Lemma insert_before_unfold : forall xs c e x,
  b_insert_before to_int (VList xs) (VNum c e) x =
  (let n := zlen xs in
   if 0 <? c then
     match to_usize_gen to_int c e with
     | Some i => if i <=? n then VList (insert_at (Z.to_nat (i - 1)) x xs) else VNull
     | None => VNull end
   else if c <? 0 then
     match to_usize_gen to_int (- c) e with
     | Some i => if i <=? n then VList (insert_at (Z.to_nat (n - i)) x xs) else VNull
     | None => VNull end
   else VNull).
Proof. reflexivity. Qed.

Theorem insert_before_spec : forall xs c e p x, fits (zlen xs) -> to_int c e = Some p ->
  pos InsertBefore [VList xs; VNum c e; x] =
  Some (match spec_index (zlen xs) p with Some i => VList (insert_at (Z.to_nat i) x xs) | None => VNull end).
Proof.
  intros xs c e p x Hf H. unfold pos. cbn [positional]. f_equal. rewrite insert_before_unfold. cbv zeta.
  pose proof (by_position_spec xs c e p (fun i => VList (insert_at i x xs)) Hf H) as B.
  rewrite <- B. unfold by_position.
  destruct (0 <? c) eqn:A; [|reflexivity].
  destruct (to_usize_gen to_int c e) as [i|] eqn:U; [|reflexivity].
  assert (1 <= i).
  { unfold to_usize_gen in U. rewrite H in U. destruct ((0 <=? p) && (p <=? U64MAX)); [|discriminate]. injection U as <-.
    destruct (to_int_sign c e p H) as [S1 _]. rewrite A in S1. symmetry in S1. apply Z.ltb_lt in S1. lia. }
  destruct (i <=? zlen xs) eqn:A1; destruct (i - 1 <? zlen xs) eqn:B2; bool_to_prop; try reflexivity; lia.
Qed.

Lemma insert_at_length : forall A (l : list A) i x, length (insert_at i x l) = S (length l).
Proof. intros. unfold insert_at. rewrite app_length. cbn [length]. rewrite firstn_length, skipn_length. lia. Qed.
Lemma insert_at_nth : forall A (l : list A) i j x d, (i <= length l)%nat ->
  nth j (insert_at i x l) d = if (j <? i)%nat then nth j l d else if (j =? i)%nat then x else nth (j - 1) l d.
Proof.
  intros A l i j x d H. unfold insert_at. destruct (j <? i)%nat eqn:E.
  - apply Nat.ltb_lt in E. rewrite app_nth1 by (rewrite firstn_length; lia). apply nth_firstn_lt'. exact E.
  - apply Nat.ltb_ge in E. rewrite app_nth2 by (rewrite firstn_length; lia).
    rewrite firstn_length. replace (Nat.min i (length l)) with i by lia.
    destruct (j =? i)%nat eqn:E2.
    + apply Nat.eqb_eq in E2. subst j. rewrite Nat.sub_diag. reflexivity.
    + apply Nat.eqb_neq in E2. destruct (j - i)%nat as [|k] eqn:K; [lia|]. cbn [nth].
      rewrite nth_skipn'. f_equal. lia.
Qed.

(* ---- sublist(list, start position, length) ---- *)
Theorem sublist3_spec : forall xs c e p lc le k, fits (zlen xs) -> to_int c e = Some p -> to_int lc le = Some k ->
  pos Sublist [VList xs; VNum c e; VNum lc le] =
  Some (match spec_index (zlen xs) p with
        | Some i => if (0 <=? k) && (i + k <=? zlen xs) then VList (firstn (Z.to_nat k) (skipn (Z.to_nat i) xs)) else VNull
        | None => VNull end).
Proof.
  intros xs c e p lc le k Hf H Hk. unfold pos. cbn [positional b_sublist3]. unfold to_usize, to_usize_gen.
  rewrite Hk. unfold fits, U64MAX in *. pose proof (zlen_nonneg _ xs) as Hn. set (n := zlen xs) in *.
  destruct (to_int_sign c e p H) as [S1 S2]. rewrite S1, S2, H, (to_int_opp c e p H). unfold spec_index.
  clear S1 S2 H Hk. crush.
Qed.

(* ---- substring(string, start position [, length]) with integer arguments ---- *)
Theorem substring2_spec : forall cs p, zlen cs <= I64MAX -> I64MIN <= p <= I64MAX ->
  pos Substring [VStr cs; VNum p 0] =
  Some (match spec_index (zlen cs) p with Some i => VStr (skipn (Z.to_nat i) cs) | None => VNull end).
Proof.
  intros cs p Hf Hp. unfold pos. cbn [positional b_substring]. unfold to_isize, to_isize_gen. rewrite to_int_integer.
  unfold I64MAX, I64MIN in *. pose proof (zlen_nonneg _ cs) as Hn. set (n := zlen cs) in *.
  replace ((-9223372036854775808 <=? p) && (p <=? 9223372036854775807)) with true
    by (symmetry; apply andb_true_iff; split; apply Z.leb_le; lia).
  unfold spec_index. crush.
Qed.

Theorem substring3_spec : forall cs p k, zlen cs <= I64MAX -> I64MIN <= p <= I64MAX ->
  pos Substring [VStr cs; VNum p 0; VNum k 0] =
  Some (match spec_index (zlen cs) p with
        | Some i => if (1 <=? k) && (i + k <=? zlen cs) then VStr (firstn (Z.to_nat k) (skipn (Z.to_nat i) cs)) else VNull
        | None => VNull end).
Proof.
  intros cs p k Hf Hp. unfold pos. cbn [positional b_substring]. unfold to_isize, to_isize_gen, to_usize, to_usize_gen.
  rewrite to_int_integer. unfold I64MAX, I64MIN, U64MAX in *. pose proof (zlen_nonneg _ cs) as Hn. set (n := zlen cs) in *.
  replace ((-9223372036854775808 <=? p) && (p <=? 9223372036854775807)) with true
    by (symmetry; apply andb_true_iff; split; apply Z.leb_le; lia).
  assert (HL : is_lt (ncmp k 0 1 0) = (k <? 1)).
  { unfold ncmp. cbn. rewrite !Z.mul_1_r. unfold Z.ltb. destruct (k ?= 1); reflexivity. }
  rewrite HL. unfold spec_index. change (ntrunc k 0) with (k, 0). cbv beta iota. rewrite to_int_integer. clear HL. crush.
Qed.

(* a position that is not an integer gives null *)
Theorem substring_nonint : forall cs c e len, to_int c e = None -> b_substring to_int (VStr cs) (VNum c e) len = VNull.
Proof. intros cs c e len H. cbn [b_substring]. unfold to_isize, to_isize_gen. rewrite H. reflexivity. Qed.

(* ================= named = positional ================= *)

Definition spread_bif (b : bif) : bool :=
  match b with All | Any | Max | Min | Sum | Mean | Median | Mode => true | _ => false end.
(* the arguments a named invocation can express: the variadic aggregates take the list itself *)
Definition named_domain (b : bif) (args : list value) : Prop :=
  if spread_bif b then exists xs, args = [VList xs] else True.

Theorem named_eq_positional : forall b args pn,
  param_names b (length args) = Some pn -> named_domain b args ->
  nam b (combine pn args) = pos b args.
Proof.
  intros b args pn Hp Hd. unfold nam, pos.
  destruct (spread_bif b) eqn:SB; unfold named_domain in Hd; rewrite SB in Hd.
  - destruct Hd as [xs0 Hxs]. subst args. destruct b; try discriminate; cbn in Hp; injection Hp as <-; reflexivity.
  - destruct b; try discriminate;
      destruct args as [|a1 [|a2 [|a3 [|a4 r]]]]; cbn in Hp; try discriminate; injection Hp as <-; reflexivity.
Qed.

(* the order in which the named parameters are written does not matter *)
Lemma get_param_perm : forall n ps ps', NoDup (map fst ps) -> Permutation ps ps' -> get_param n ps = get_param n ps'.
Proof.
  intros n ps ps' Hnd Hperm. induction Hperm as [|[k v] l l' Hp IH|[k1 v1] [k2 v2] l|l l' l'' H1 IH1 H2 IH2].
  - reflexivity.
  - cbn [get_param]. destruct (pname_eqb n k); auto. apply IH. cbn in Hnd. inversion Hnd; auto.
  - cbn [get_param]. destruct (pname_eqb n k2) eqn:E2; destruct (pname_eqb n k1) eqn:E1; auto.
    exfalso. cbn in Hnd. inversion Hnd as [|? ? Hnotin _]; subst. apply Hnotin. left.
    destruct n; destruct k1; try discriminate; destruct k2; try discriminate; reflexivity.
  - rewrite IH1 by assumption. apply IH2. eapply Permutation_NoDup; [|exact Hnd]. apply Permutation_map. exact H1.
Qed.

Theorem named_order_irrelevant : forall b ps ps', NoDup (map fst ps) -> Permutation ps ps' -> nam b ps = nam b ps'.
Proof.
  intros b ps ps' Hnd Hp. unfold nam, named, named1, named2, named_guard, named_list.
  assert (G : forall n, get_param n ps = get_param n ps') by (intros n; apply get_param_perm; assumption).
  destruct b; rewrite ?G; reflexivity.
Qed.

(* ================= all / any ================= *)

(* all(list) is the three-valued conjunction of the items (C09's `and`), every non-boolean item counting as null *)
Theorem all_is_kleene_conjunction : forall vs, b_all false vs = fold_right v_and (VBool true) vs.
Proof.
  intros vs. unfold b_all. cbn [negb]. induction vs as [|v vs IH]; [reflexivity|].
  cbn [existsb forallb fold_right]. rewrite <- IH. clear IH.
  destruct v as [|[]| | | | | | | | | | |]; cbn [is_false is_bool orb andb];
    destruct (existsb is_false vs); destruct (forallb is_bool vs); reflexivity.
Qed.

(* any(list): on lists of booleans it is the disjunction; the repository's suite pins null as soon as an item is not a boolean *)
Theorem any_on_booleans : forall vs, forallb is_bool vs = true -> b_any vs = fold_right v_or (VBool false) vs.
Proof.
  intros vs H. unfold b_any. destruct vs as [|v0 vs0]; [reflexivity|]. rewrite H. remember (v0 :: vs0) as vs. clear Heqvs v0 vs0.
  induction vs as [|v vs IH]; [reflexivity|].
  cbn [forallb] in H. apply andb_true_iff in H. destruct H as [Hv Hvs].
  cbn [existsb fold_right]. rewrite <- (IH Hvs). destruct v as [|[]| | | | | | | | | | |]; try discriminate; cbn; auto;
    try (destruct (existsb is_true vs); reflexivity).
Qed.
Theorem any_with_non_boolean : forall vs, forallb is_bool vs = false -> b_any vs = VNull.
Proof. intros vs H. unfold b_any. destruct vs; [discriminate|]. rewrite H. reflexivity. Qed.

(* ================= reverse, append, concatenate, count ================= *)
Theorem reverse_involutive : forall xs, b_reverse (b_reverse (VList xs)) = VList xs.
Proof. intros xs. cbn. rewrite rev_involutive. reflexivity. Qed.
Theorem reverse_nth : forall xs i, (i < length xs)%nat ->
  b_reverse (VList xs) = VList (rev xs) /\ nth i (rev xs) VNull = nth (length xs - S i) xs VNull.
Proof. intros xs i H. split; [reflexivity|]. apply rev_nth. exact H. Qed.
Theorem count_is_length : forall xs, b_count (VList xs) = VNum (Z.of_nat (length xs)) 0.
Proof. reflexivity. Qed.
Theorem concatenate_two : forall xs ys, b_concatenate [VList xs; VList ys] = VList (xs ++ ys).
Proof. intros. cbn. rewrite app_nil_r. reflexivity. Qed.
Lemma concat_lists_all : forall ls, concat_lists (map VList ls) = Some (concat ls).
Proof. induction ls as [|l ls IH]; cbn; auto. rewrite IH. reflexivity. Qed.
Theorem concatenate_spec : forall ls, b_concatenate (map VList ls) = VList (concat ls).
Proof. intros ls. unfold b_concatenate. rewrite concat_lists_all. reflexivity. Qed.
Theorem append_spec : forall xs vs, b_append (VList xs) vs = VList (xs ++ vs).
Proof. reflexivity. Qed.

(* ================= flatten ================= *)
Definition is_list (v : value) : bool := match v with VList _ => true | _ => false end.

Fixpoint flat_items (l : list value) : list value :=
  match l with
  | [] => []
  | x :: r => match x with VList _ => flatten_value x ++ flat_items r | _ => x :: flat_items r end
  end.
Lemma flatten_value_unfold : forall xs, flatten_value (VList xs) = flat_items xs.
Proof. intros xs. cbn [flatten_value]. induction xs as [|x r IH]; cbn [flat_items]; auto; try (rewrite IH; reflexivity). Qed.

Theorem flatten_no_lists : forall v, Forall (fun x => is_list x = false) (flatten_value v).
Proof.
  intros v. pattern v. apply value_rect'; clear v.
  - intros xs IH. rewrite flatten_value_unfold. induction xs as [|x r IHr]; cbn [flat_items]; [constructor|].
    inversion IH as [|? ? Hx Hr]; subst. specialize (IHr Hr).
    destruct x; try (constructor; [reflexivity|exact IHr]).
    apply Forall_app. split; [exact Hx|exact IHr].
  - intros. constructor.
  - intros. constructor.
  - intros v Hv. destruct v; try contradiction; constructor.
Qed.

Lemma flat_items_of_flat : forall l, Forall (fun x => is_list x = false) l -> flat_items l = l.
Proof.
  induction l as [|x r IH]; intros H; [reflexivity|]. inversion H as [|? ? Hx Hr]; subst.
  cbn [flat_items]. destruct x; try discriminate; rewrite (IH Hr); reflexivity.
Qed.

Theorem flatten_idempotent : forall xs, b_flatten (b_flatten (VList xs)) = b_flatten (VList xs).
Proof.
  intros xs. cbn [b_flatten]. f_equal. rewrite flatten_value_unfold.
  apply flat_items_of_flat. apply flatten_no_lists.
Qed.

(* order is preserved: flattening a concatenation is the concatenation of the flattenings *)
Theorem flatten_app : forall xs ys, flatten_value (VList (xs ++ ys)) = flatten_value (VList xs) ++ flatten_value (VList ys).
Proof.
  intros xs ys. rewrite !flatten_value_unfold. induction xs as [|x r IH]; [reflexivity|].
  cbn [app flat_items]. rewrite IH. destruct x; try reflexivity. apply app_assoc.
Qed.

(* ================= index of / list contains ================= *)
Lemma index_of_from_spec : forall xs x k v,
  In v (index_of_from k xs x) <->
  exists i, (i < length xs)%nat /\ v = VNum (k + Z.of_nat i) 0 /\ veq (nth i xs VNull) x = true.
Proof.
  induction xs as [|y r IH]; intros x k v; cbn [index_of_from].
  - split; [contradiction|]. intros [i [H _]]. cbn in H. lia.
  - destruct (veq y x) eqn:E.
    + cbn [In]. rewrite IH. split.
      * intros [H|[i [Hi [Hv He]]]].
        -- exists O. cbn. repeat split; auto; [lia|]. rewrite <- H. f_equal. lia.
        -- exists (S i). cbn. repeat split; auto; [lia|]. rewrite Hv. f_equal. lia.
      * intros [[|i] [Hi [Hv He]]].
        -- left. rewrite Hv. f_equal. cbn. lia.
        -- right. exists i. cbn in Hi, He. repeat split; auto; [lia|]. rewrite Hv. f_equal. lia.
    + rewrite IH. split.
      * intros [i [Hi [Hv He]]]. exists (S i). cbn. repeat split; auto; [lia|]. rewrite Hv. f_equal. lia.
      * intros [[|i] [Hi [Hv He]]].
        -- cbn in He. rewrite E in He. discriminate.
        -- exists i. cbn in Hi, He. repeat split; auto; [lia|]. rewrite Hv. f_equal. lia.
Qed.

(* the positions are listed in ascending order *)
Fixpoint positions_asc (k : Z) (l : list value) : Prop :=
  match l with
  | [] => True
  | VNum i 0 :: r => k <= i /\ positions_asc (i + 1) r
  | _ :: _ => False
  end.
Lemma positions_asc_weaken : forall l k k', k' <= k -> positions_asc k l -> positions_asc k' l.
Proof. destruct l as [|v r]; intros k k' H P; auto. destruct v; try contradiction. destruct e; try contradiction. cbn in *. destruct P. split; auto. lia. Qed.
Lemma index_of_from_asc : forall xs x k, positions_asc k (index_of_from k xs x).
Proof.
  induction xs as [|y r IH]; intros x k; cbn [index_of_from]; [exact I|].
  destruct (veq y x).
  - cbn. split; [lia|]. apply IH.
  - eapply positions_asc_weaken; [|apply IH]. lia.
Qed.

Theorem index_of_spec : forall xs x v,
  b_index_of (VList xs) x = VList (index_of_from 1 xs x) /\
  positions_asc 1 (index_of_from 1 xs x) /\
  (In v (index_of_from 1 xs x) <->
   exists i, (i < length xs)%nat /\ v = VNum (1 + Z.of_nat i) 0 /\ teq (nth i xs VNull) x = Some true).
Proof.
  intros xs x v. split; [reflexivity|]. split; [apply index_of_from_asc|].
  rewrite index_of_from_spec. split; intros [i [Hi [Hv He]]]; exists i; repeat split; auto.
  - unfold veq in He. destruct (teq (nth i xs VNull) x) as [[]|]; try discriminate; reflexivity.
  - unfold veq. rewrite He. reflexivity.
Qed.

Theorem list_contains_spec : forall xs x,
  b_list_contains (VList xs) x = VBool true <-> exists y, In y xs /\ teq y x = Some true.
Proof.
  intros xs x. cbn [b_list_contains]. split.
  - intros H. injection H as H. apply existsb_exists in H. destruct H as [y [Hy He]]. exists y. split; auto.
    unfold veq in He. destruct (teq y x) as [[]|]; try discriminate; reflexivity.
  - intros [y [Hy He]]. f_equal. apply existsb_exists. exists y. split; auto. unfold veq. rewrite He. reflexivity.
Qed.

(* ================= distinct values / union ================= *)

(* no earlier result equals a later one *)
Fixpoint distinct_list (l : list value) : Prop :=
  match l with
  | [] => True
  | x :: r => distinct_list r /\ Forall (fun y => veq x y = false) r
  end.

Lemma distinct_list_snoc : forall l x, distinct_list l -> forallb (fun v => negb (veq v x)) l = true -> distinct_list (l ++ [x]).
Proof.
  induction l as [|y r IH]; intros x D F.
  - cbn. split; auto.
  - cbn [forallb] in F. apply andb_true_iff in F. destruct F as [F1 F2]. cbn in D. destruct D as [D1 D2].
    cbn [app distinct_list]. split; [apply IH; auto|]. apply Forall_app. split; auto.
    constructor; [|constructor]. apply negb_true_iff in F1. exact F1.
Qed.

Lemma fold_add_distinct : forall xs acc, distinct_list acc ->
  let res := fold_left add_distinct xs acc in
  distinct_list res /\
  (forall r, In r res -> In r acc \/ In r xs) /\
  (forall x, In x acc \/ In x xs -> In x res \/ exists r, In r res /\ veq r x = true) /\
  (exists tl, res = acc ++ tl).
Proof.
  induction xs as [|x xs IH]; intros acc D; cbn [fold_left].
  - repeat split; auto.
    + intros x [H|[]]. left. exact H.
    + exists []. rewrite app_nil_r. reflexivity.
  - assert (E : add_distinct acc x = if forallb (fun v => negb (veq v x)) acc then acc ++ [x] else acc) by reflexivity.
    rewrite E. clear E. destruct (forallb (fun v => negb (veq v x)) acc) eqn:F.
    + destruct (IH (acc ++ [x]) (distinct_list_snoc acc x D F)) as (D' & Hin & Hcov & [tl Htl]). cbv zeta in *.
      repeat split; auto.
      * intros r Hr. destruct (Hin r Hr) as [H|H]; [|right; right; exact H].
        apply in_app_or in H. destruct H as [H|[H|[]]]; [left; exact H|right; left; exact H].
      * intros y [H|[H|H]]; apply Hcov; [left; apply in_or_app; left; exact H|left; apply in_or_app; right; left; exact H|right; exact H].
      * exists (x :: tl). rewrite Htl, <- app_assoc. reflexivity.
    + destruct (IH acc D) as (D' & Hin & Hcov & [tl Htl]). cbv zeta in *.
      repeat split; auto.
      * intros r Hr. destruct (Hin r Hr) as [H|H]; [left; exact H|right; right; exact H].
      * intros y [H|[H|H]]; [apply Hcov; left; exact H| |apply Hcov; right; exact H].
        subst y. right.
        assert (E : exists v, In v acc /\ veq v x = true).
        { clear -F. induction acc as [|a acc IHa]; [discriminate|]. cbn [forallb] in F. apply andb_false_iff in F. destruct F as [F|F].
          - exists a. split; [left; reflexivity|]. apply negb_false_iff in F. exact F.
          - destruct (IHa F) as [v [Hv He]]. exists v. split; [right; exact Hv|exact He]. }
        destruct E as [v [Hv He]]. exists v. split; auto. rewrite Htl. apply in_or_app. left. exact Hv.
      * exists tl. exact Htl.
Qed.

(* distinct values: no two results are equal, every result is an item, every item is (equal to) a result *)
Theorem distinct_values_spec : forall xs, exists res,
  b_distinct_values (VList xs) = VList res /\ distinct_list res /\
  (forall r, In r res -> In r xs) /\
  (forall x, In x xs -> In x res \/ exists r, In r res /\ teq r x = Some true).
Proof.
  intros xs. exists (fold_left add_distinct xs []). split; [reflexivity|].
  destruct (fold_add_distinct xs [] I) as (D & Hin & Hcov & _). cbv zeta in *. repeat split; auto.
  - intros r Hr. destruct (Hin r Hr) as [[]|H]; exact H.
  - intros x Hx. destruct (Hcov x (or_intror Hx)) as [H|[r [Hr He]]]; [left; exact H|right].
    exists r. split; auto. unfold veq in He. destruct (teq r x) as [[]|]; try discriminate; reflexivity.
Qed.

Theorem union_spec : forall ls, exists res,
  b_union (map VList ls) = VList res /\ distinct_list res /\
  (forall r, In r res -> In r (concat ls)) /\
  (forall x, In x (concat ls) -> In x res \/ exists r, In r res /\ teq r x = Some true).
Proof.
  intros ls. exists (fold_left add_distinct (concat ls) []). split.
  - unfold b_union. rewrite concat_lists_all. reflexivity.
  - destruct (fold_add_distinct (concat ls) [] I) as (D & Hin & Hcov & _). cbv zeta in *. repeat split; auto.
    + intros r Hr. destruct (Hin r Hr) as [[]|H]; exact H.
    + intros x Hx. destruct (Hcov x (or_intror Hx)) as [H|[r [Hr He]]]; [left; exact H|right].
      exists r. split; auto. unfold veq in He. destruct (teq r x) as [[]|]; try discriminate; reflexivity.
Qed.

(* ================= strings ================= *)
Lemma prefixb_spec : forall p s, prefixb p s = true <-> exists t, s = p ++ t.
Proof.
  induction p as [|x p IH]; intros s; cbn [prefixb].
  - split; [intros _; exists s; reflexivity|reflexivity].
  - destruct s as [|y s].
    + split; [discriminate|]. intros [t H]. discriminate.
    + rewrite andb_true_iff, N.eqb_eq, IH. split.
      * intros [-> [t ->]]. exists t. reflexivity.
      * intros [t H]. injection H as -> ->. split; auto. exists t. reflexivity.
Qed.

Lemma find_some : forall m s i, find m s = Some i ->
  (i <= length s)%nat /\ s = firstn i s ++ m ++ skipn (i + length m) s /\
  (forall j, (j < i)%nat -> prefixb m (skipn j s) = false).
Proof.
  intros m s. induction s as [|c s IH]; intros i H.
  - cbn [find] in H. destruct (prefixb m []) eqn:P; [|discriminate]. injection H as <-.
    apply prefixb_spec in P. destruct P as [t Ht]. repeat split; [lia| |intros j Hj; lia].
    destruct m; [reflexivity|discriminate].
  - cbn [find] in H. destruct (prefixb m (c :: s)) eqn:P.
    + injection H as <-. repeat split; [lia| |intros j Hj; lia].
      apply prefixb_spec in P. destruct P as [t Ht]. cbn [firstn app plus]. rewrite Ht at 1. f_equal.
      rewrite Ht. rewrite skipn_app, skipn_all, Nat.sub_diag. reflexivity.
    + destruct (find m s) as [k|] eqn:F; [|discriminate]. injection H as <-.
      destruct (IH k eq_refl) as (L & E & N). repeat split.
      * cbn. lia.
      * cbn [firstn app plus skipn]. f_equal. exact E.
      * intros [|j] Hj; [exact P|]. cbn [skipn]. apply N. lia.
Qed.

Lemma find_none : forall m s, find m s = None -> forall j, (j <= length s)%nat -> prefixb m (skipn j s) = false.
Proof.
  intros m s. induction s as [|c s IH]; intros H j Hj.
  - cbn [find] in H. destruct (prefixb m []) eqn:P; [discriminate|]. cbn in Hj. replace j with O by lia. exact P.
  - cbn [find] in H. destruct (prefixb m (c :: s)) eqn:P; [discriminate|].
    destruct (find m s) eqn:F; [discriminate|]. destruct j as [|j]; [exact P|]. cbn [skipn]. apply IH; auto. cbn in Hj. lia.
Qed.

Theorem contains_spec : forall s m, b_contains (VStr s) (VStr m) = VBool true <-> exists a b, s = a ++ m ++ b.
Proof.
  intros s m. cbn. unfold containsb. split.
  - destruct (find m s) as [i|] eqn:F; [|discriminate]. intros _.
    destruct (find_some m s i F) as (_ & E & _). eexists. eexists. exact E.
  - intros [a [b E]]. destruct (find m s) as [i|] eqn:F; [reflexivity|]. exfalso.
    pose proof (find_none m s F (length a)) as N. subst s. rewrite app_length in N. specialize (N ltac:(lia)).
    rewrite skipn_app, skipn_all, Nat.sub_diag in N. cbn in N.
    assert (P : prefixb m (m ++ b) = true) by (apply prefixb_spec; exists b; reflexivity). rewrite P in N. discriminate.
Qed.

Theorem starts_with_spec : forall s m, b_starts_with (VStr s) (VStr m) = VBool true <-> exists t, s = m ++ t.
Proof. intros s m. cbn. rewrite <- prefixb_spec. split; [intros H; injection H; auto|intros ->; reflexivity]. Qed.

Theorem ends_with_spec : forall s m, b_ends_with (VStr s) (VStr m) = VBool true <-> exists a, s = a ++ m.
Proof.
  intros s m. cbn. unfold suffixb. split.
  - intros H. injection H as H. apply prefixb_spec in H. destruct H as [t Ht].
    exists (rev t). rewrite <- (rev_involutive s), Ht, rev_app_distr, rev_involutive. reflexivity.
  - intros [a ->]. f_equal. apply prefixb_spec. exists (rev a). apply rev_app_distr.
Qed.

(* substring before / after split the string around the first occurrence of the match *)
Theorem substring_before_after_spec : forall s m,
  (exists a b, s = a ++ m ++ b) ->
  exists before after,
    b_substring_before (VStr s) (VStr m) = VStr before /\ b_substring_after (VStr s) (VStr m) = VStr after /\
    s = before ++ m ++ after /\
    (forall j, (j < length before)%nat -> prefixb m (skipn j s) = false).
Proof.
  intros s m Hc. apply contains_spec in Hc. cbn in Hc. unfold containsb in Hc.
  destruct (find m s) as [i|] eqn:F; [|discriminate].
  destruct (find_some m s i F) as (L & E & N).
  exists (firstn i s), (skipn (i + length m) s). cbn. rewrite F. repeat split; auto.
  intros j Hj. apply N. rewrite firstn_length in Hj. lia.
Qed.
Theorem substring_before_after_no_match : forall s m,
  b_contains (VStr s) (VStr m) = VBool false ->
  b_substring_before (VStr s) (VStr m) = VStr [] /\ b_substring_after (VStr s) (VStr m) = VStr [].
Proof. intros s m. cbn. unfold containsb. destruct (find m s); [discriminate|]. auto. Qed.

Theorem string_length_spec : forall s, b_string_length (VStr s) = VNum (Z.of_nat (length s)) 0.
Proof. reflexivity. Qed.

(* ================= numeric aggregates ================= *)
Lemma numbers_of_map : forall ns, numbers_of (map vnum ns) = Some ns.
Proof. induction ns as [|[c e] ns IH]; cbn; auto. rewrite IH. reflexivity. Qed.

(* sum, mean, median over the shared decimal128 layer: C08/NumProofs.v *)
Theorem aggregates_empty : b_sum [] = VNull /\ b_mean [] = VNull /\ b_median [] = VNull /\ b_min [] = VNull /\ b_max false [] = VNull /\ b_mode [] = VList [].
Proof. repeat split; reflexivity. Qed.
Theorem aggregates_non_number : forall f pre x post, In f [b_sum; b_mean; b_median; b_mode] ->
  (match x with VNum _ _ => False | _ => True end) -> f (map vnum pre ++ x :: post) = VNull.
Proof.
  intros f pre x post Hf Hx.
  assert (N : numbers_of (map vnum pre ++ x :: post) = None).
  { induction pre as [|[c e] pre IH]; cbn; [destruct x; try contradiction; reflexivity|]. rewrite IH. reflexivity. }
  assert (NE : map vnum pre ++ x :: post <> []) by (destruct pre; discriminate).
  destruct Hf as [<-|[<-|[<-|[<-|[]]]]]; unfold b_sum, b_mean, b_median, b_mode; rewrite N;
    destruct (map vnum pre ++ x :: post); try contradiction; reflexivity.
Qed.

(* the sort used by median and mode: a permutation of the input, ascending by value *)
Lemma ninsert_perm : forall x l, Permutation (ninsert x l) (x :: l).
Proof.
  intros x l. induction l as [|y r IH]; cbn [ninsert]; auto.
  destruct (is_lt (ncmp (fst x) (snd x) (fst y) (snd y))); auto.
  eapply perm_trans; [apply perm_skip; exact IH|apply perm_swap].
Qed.
Lemma nsort_perm_acc : forall l acc, Permutation (fold_left (fun a x => ninsert x a) l acc) (l ++ acc).
Proof.
  induction l as [|x l IH]; intros acc; cbn [fold_left app]; auto.
  eapply perm_trans; [apply IH|]. eapply perm_trans; [apply Permutation_app_head; apply ninsert_perm|].
  apply Permutation_sym. apply Permutation_middle.
Qed.
Theorem nsort_perm : forall l, Permutation (nsort l) l.
Proof. intros l. unfold nsort. eapply perm_trans; [apply nsort_perm_acc|]. rewrite app_nil_r. apply Permutation_refl. Qed.

Fixpoint ascending (l : list (Z * Z)) : Prop :=
  match l with
  | [] => True
  | x :: r => match r with [] => True | y :: _ => nle x y = true end /\ ascending r
  end.
Lemma nle_total : forall x y, is_lt (ncmp (fst x) (snd x) (fst y) (snd y)) = false -> nle y x = true.
Proof.
  intros x y H. unfold nle. rewrite (ncmp_antisym (fst x) (snd x) (fst y) (snd y)).
  destruct (ncmp (fst x) (snd x) (fst y) (snd y)); try discriminate; reflexivity.
Qed.
Lemma ninsert_asc : forall x l, ascending l -> ascending (ninsert x l).
Proof.
  intros x l. induction l as [|y r IH]; intros A; cbn [ninsert]; [cbn; auto|].
  destruct (is_lt (ncmp (fst x) (snd x) (fst y) (snd y))) eqn:E.
  - cbn [ascending]. split; auto. unfold nle. destruct (ncmp (fst x) (snd x) (fst y) (snd y)); try discriminate; reflexivity.
  - cbn [ascending] in A. destruct A as [A1 A2]. specialize (IH A2).
    cbn [ascending]. split; auto.
    destruct r as [|z r']; cbn [ninsert] in *.
    + apply nle_total. exact E.
    + destruct (is_lt (ncmp (fst x) (snd x) (fst z) (snd z))); [apply nle_total; exact E|exact A1].
Qed.
Theorem nsort_ascending : forall l, ascending (nsort l).
Proof.
  intros l. unfold nsort. assert (G : forall acc, ascending acc -> ascending (fold_left (fun a x => ninsert x a) l acc)).
  { induction l as [|x l IH]; intros acc A; cbn [fold_left]; auto. apply IH. apply ninsert_asc. exact A. }
  apply G. exact I.
Qed.

(* ---- min / max of numbers: a member of the list that bounds every item ---- *)
Lemma ncmp_common : forall c1 e1 c2 e2 E, E <= e1 -> E <= e2 ->
  ncmp c1 e1 c2 e2 = Z.compare (c1 * 10 ^ (e1 - E)) (c2 * 10 ^ (e2 - E)).
Proof.
  intros c1 e1 c2 e2 E H1 H2. unfold ncmp. set (e := Z.min e1 e2).
  assert (He : E <= e) by (unfold e; lia).
  replace (e1 - E) with ((e1 - e) + (e - E)) by lia. replace (e2 - E) with ((e2 - e) + (e - E)) by lia.
  rewrite !Z.pow_add_r by (unfold e; lia). rewrite !Z.mul_assoc.
  apply Zmult_compare_compat_r. pose proof (pow10_pos (e - E) ltac:(lia)). lia.
Qed.

Lemma ncmp_le_trans : forall a b c : Z * Z,
  is_le (ncmp (fst a) (snd a) (fst b) (snd b)) = true -> is_le (ncmp (fst b) (snd b) (fst c) (snd c)) = true ->
  is_le (ncmp (fst a) (snd a) (fst c) (snd c)) = true.
Proof.
  intros [c1 e1] [c2 e2] [c3 e3]. cbn [fst snd]. set (E := Z.min e1 (Z.min e2 e3)).
  rewrite (ncmp_common c1 e1 c2 e2 E), (ncmp_common c2 e2 c3 e3 E), (ncmp_common c1 e1 c3 e3 E) by (unfold E; lia).
  set (x := c1 * 10 ^ (e1 - E)). set (y := c2 * 10 ^ (e2 - E)). set (z := c3 * 10 ^ (e3 - E)).
  destruct (Z.compare_spec x y); destruct (Z.compare_spec y z); destruct (Z.compare_spec x z); cbn; intros; try reflexivity; try discriminate; lia.
Qed.

Lemma ncmp_refl_le : forall a : Z * Z, is_le (ncmp (fst a) (snd a) (fst a) (snd a)) = true.
Proof. intros [c e]. cbn. unfold ncmp. rewrite Z.compare_refl. reflexivity. Qed.

Theorem max_numbers_spec : forall ns m, exists r,
  max_num false m (map vnum ns) = vnum r /\ In r (m :: ns) /\
  (forall x, In x (m :: ns) -> is_le (ncmp (fst x) (snd x) (fst r) (snd r)) = true).
Proof.
  induction ns as [|[c e] ns IH]; intros m.
  - exists m. cbn. repeat split; auto. intros x [<-|[]]. apply ncmp_refl_le.
  - cbn [map vnum fst snd max_num].
    destruct (is_gt (ncmp c e (fst m) (snd m))) eqn:G.
    + destruct (IH (c, e)) as [r (E & Hin & Hb)]. exists r. split; [exact E|]. split.
      * destruct Hin as [<-|Hin]; [right; left; reflexivity|right; right; exact Hin].
      * intros x [<-|[<-|Hx]].
        -- apply (ncmp_le_trans m (c, e) r); [|apply Hb; left; reflexivity].
           cbn [fst snd]. rewrite (ncmp_antisym c e (fst m) (snd m)). destruct (ncmp c e (fst m) (snd m)); try discriminate; reflexivity.
        -- apply Hb. left. reflexivity.
        -- apply Hb. right. exact Hx.
    + destruct (IH m) as [r (E & Hin & Hb)]. exists r. split; [exact E|]. split.
      * destruct Hin as [<-|Hin]; [left; reflexivity|right; right; exact Hin].
      * intros x [<-|[<-|Hx]].
        -- apply Hb. left. reflexivity.
        -- apply (ncmp_le_trans (c, e) m r); [|apply Hb; left; reflexivity].
           cbn [fst snd]. destruct (ncmp c e (fst m) (snd m)); try discriminate; reflexivity.
        -- apply Hb. right. exact Hx.
Qed.

Theorem min_numbers_spec : forall ns m, exists r,
  min_num m (map vnum ns) = vnum r /\ In r (m :: ns) /\
  (forall x, In x (m :: ns) -> is_le (ncmp (fst r) (snd r) (fst x) (snd x)) = true).
Proof.
  induction ns as [|[c e] ns IH]; intros m.
  - exists m. cbn. repeat split; auto. intros x [<-|[]]. apply ncmp_refl_le.
  - cbn [map vnum fst snd min_num].
    destruct (is_lt (ncmp c e (fst m) (snd m))) eqn:G.
    + destruct (IH (c, e)) as [r (E & Hin & Hb)]. exists r. split; [exact E|]. split.
      * destruct Hin as [<-|Hin]; [right; left; reflexivity|right; right; exact Hin].
      * intros x [<-|[<-|Hx]].
        -- apply (ncmp_le_trans r (c, e) m); [apply Hb; left; reflexivity|].
           cbn [fst snd]. destruct (ncmp c e (fst m) (snd m)); try discriminate; reflexivity.
        -- apply Hb. left. reflexivity.
        -- apply Hb. right. exact Hx.
    + destruct (IH m) as [r (E & Hin & Hb)]. exists r. split; [exact E|]. split.
      * destruct Hin as [<-|Hin]; [left; reflexivity|right; right; exact Hin].
      * intros x [<-|[<-|Hx]].
        -- apply Hb. left. reflexivity.
        -- apply (ncmp_le_trans r m (c, e)); [apply Hb; left; reflexivity|].
           cbn [fst snd]. rewrite (ncmp_antisym c e (fst m) (snd m)). destruct (ncmp c e (fst m) (snd m)); try discriminate; reflexivity.
        -- apply Hb. right. exact Hx.
Qed.

(* a null (or any non-number) among numbers puts the list outside the domain of both functions *)
Theorem min_max_null_item : forall m pre post,
  max_num false m (map vnum pre ++ VNull :: post) = VNull /\ min_num m (map vnum pre ++ VNull :: post) = VNull.
Proof.
  intros m pre. revert m. induction pre as [|[c e] pre IH]; intros m post; cbn; [split; reflexivity|].
  split; apply IH.
Qed.

(* ================= get value / get entries / not ================= *)
Theorem get_value_spec : forall es k, b_get_value (VCtx es) (VStr k) = match lookup k es with Some v => v | None => VNull end.
Proof. reflexivity. Qed.
Theorem get_entries_spec : forall es,
  b_get_entries (VCtx es) = VList (map (fun e => VCtx [(KEY, VStr (fst e)); (VALUE, snd e)]) es).
Proof. reflexivity. Qed.
Theorem not_spec : forall v, b_not v = match v with VBool b => VBool (negb b) | _ => VNull end.
Proof. reflexivity. Qed.

(* ================= wrong arity ================= *)
Theorem fixed_arity_null : forall a1 a2 a3 a4 r,
  pos Contains [a1; a2; a3] = Some VNull /\ pos Count [] = Some VNull /\ pos Count [a1; a2] = Some VNull /\
  pos Sublist [a1] = Some VNull /\ pos Sublist (a1 :: a2 :: a3 :: a4 :: r) = Some VNull /\
  pos Substring [a1] = Some VNull /\ pos Substring (a1 :: a2 :: a3 :: a4 :: r) = Some VNull /\
  pos InsertBefore [a1; a2] = Some VNull /\ pos Remove [a1] = Some VNull /\ pos Not [] = Some VNull /\
  pos All [] = Some VNull /\ pos Max [] = Some VNull /\ pos Append [a1] = Some VNull /\ pos Union [] = Some VNull.
Proof. intros. repeat split; reflexivity. Qed.

(* ================= the defects of the pinned commit ================= *)
Definition l123 : value := VList [VNum 1 0; VNum 2 0; VNum 3 0].

Lemma orig_scaled_position_refuted :
  pos_orig Sublist [l123; VNum 10 (-1)] = Some VNull /\ pos Sublist [l123; VNum 10 (-1)] = Some l123 /\
  pos_orig Substring [VStr [97; 98]%N; VNum 10 (-1)] = Some VNull /\ pos Substring [VStr [97; 98]%N; VNum 10 (-1)] = Some (VStr [97; 98]%N).
Proof. repeat split; reflexivity. Qed.
Lemma orig_sublist_trap_refuted :
  pos_orig Sublist [l123; VNum (-4) 0; VNum 1 0] = None /\ pos Sublist [l123; VNum (-4) 0; VNum 1 0] = Some VNull.
Proof. split; reflexivity. Qed.
Lemma orig_max_min_null_refuted :
  pos_orig Max [VList [VNum 1 0; VNull; VNum 3 0]] = Some (VNum 3 0) /\ pos_orig Min [VList [VNum 1 0; VNull; VNum 3 0]] = Some VNull.
Proof. split; reflexivity. Qed.
Lemma orig_all_order_refuted :
  pos_orig All [VList [VNull; VBool false]] = Some VNull /\ pos_orig All [VList [VBool false; VNull]] = Some (VBool false).
Proof. split; reflexivity. Qed.
Lemma orig_named_mean_refuted :
  let l := VList [VNum 0 0; VNum 2 0; VNum 100 0] in
  nam_orig Mean [(PList, l)] = Some (VNum 2 0) /\
  match pos_orig Mean [l] with Some (VNum c e) => ncmp c e 34 0 | _ => Lt end = Eq.
Proof. split; vm_compute; reflexivity. Qed.

Lemma nonvacuous :
  let l := VList [VNum 1 0; VNum 10 (-1); VNull; VList [VNum 2 0]; VNum 1 0] in
  pos Sublist [l; VNum (-20) (-1); VNum 1 0] = Some (VList [VList [VNum 2 0]]) /\
  pos IndexOf [l; VNum 100 (-2)] = Some (VList [VNum 1 0; VNum 2 0; VNum 5 0]) /\
  pos DistinctValues [l] = Some (VList [VNum 1 0; VNull; VList [VNum 2 0]]) /\
  pos Flatten [l] = Some (VList [VNum 1 0; VNum 10 (-1); VNull; VNum 2 0; VNum 1 0]) /\
  nam Substring [(PLength, VNum 2 0); (PString, VStr [97; 128512; 98]%N); (PStartPosition, VNum (-2) 0)] = Some (VStr [128512; 98]%N) /\
  match pos Mean [VNum 1 0; VNum 2 0] with Some (VNum c e) => ncmp c e 15 (-1) | _ => Lt end = Eq.
Proof. repeat split; vm_compute; reflexivity. Qed.

(* ---- min / max of strings ---- *)
Lemma lcmp_le_trans : forall a b c, is_le (lcmp a b) = true -> is_le (lcmp b c) = true -> is_le (lcmp a c) = true.
Proof.
  intros a b c H1 H2.
  destruct (lcmp a b) eqn:E1; try discriminate.
  - apply lcmp_eq in E1. subst b. exact H2.
  - destruct (lcmp b c) eqn:E2; try discriminate.
    + apply lcmp_eq in E2. subst c. rewrite E1. reflexivity.
    + rewrite (lcmp_trans_lt a b c E1 E2). reflexivity.
Qed.

Theorem max_strings_spec : forall ss m, exists r,
  max_str false m (map VStr ss) = VStr r /\ In r (m :: ss) /\ (forall x, In x (m :: ss) -> is_le (lcmp x r) = true).
Proof.
  induction ss as [|s ss IH]; intros m.
  - exists m. cbn. repeat split; auto. intros x [<-|[]]. rewrite lcmp_refl. reflexivity.
  - cbn [map max_str]. destruct (is_gt (lcmp s m)) eqn:G.
    + destruct (IH s) as [r (E & Hin & Hb)]. exists r. split; [exact E|]. split.
      * destruct Hin as [<-|Hin]; [right; left; reflexivity|right; right; exact Hin].
      * intros x [<-|[<-|Hx]].
        -- apply (lcmp_le_trans m s r); [|apply Hb; left; reflexivity].
           rewrite (lcmp_antisym s m). destruct (lcmp s m); try discriminate; reflexivity.
        -- apply Hb. left. reflexivity.
        -- apply Hb. right. exact Hx.
    + destruct (IH m) as [r (E & Hin & Hb)]. exists r. split; [exact E|]. split.
      * destruct Hin as [<-|Hin]; [left; reflexivity|right; right; exact Hin].
      * intros x [<-|[<-|Hx]].
        -- apply Hb. left. reflexivity.
        -- apply (lcmp_le_trans s m r); [|apply Hb; left; reflexivity].
           destruct (lcmp s m); try discriminate; reflexivity.
        -- apply Hb. right. exact Hx.
Qed.

Theorem min_strings_spec : forall ss m, exists r,
  min_str m (map VStr ss) = VStr r /\ In r (m :: ss) /\ (forall x, In x (m :: ss) -> is_le (lcmp r x) = true).
Proof.
  induction ss as [|s ss IH]; intros m.
  - exists m. cbn. repeat split; auto. intros x [<-|[]]. rewrite lcmp_refl. reflexivity.
  - cbn [map min_str]. destruct (is_lt (lcmp s m)) eqn:G.
    + destruct (IH s) as [r (E & Hin & Hb)]. exists r. split; [exact E|]. split.
      * destruct Hin as [<-|Hin]; [right; left; reflexivity|right; right; exact Hin].
      * intros x [<-|[<-|Hx]].
        -- apply (lcmp_le_trans r s m); [apply Hb; left; reflexivity|].
           destruct (lcmp s m); try discriminate; reflexivity.
        -- apply Hb. left. reflexivity.
        -- apply Hb. right. exact Hx.
    + destruct (IH m) as [r (E & Hin & Hb)]. exists r. split; [exact E|]. split.
      * destruct Hin as [<-|Hin]; [left; reflexivity|right; right; exact Hin].
      * intros x [<-|[<-|Hx]].
        -- apply Hb. left. reflexivity.
        -- apply (lcmp_le_trans r m s); [apply Hb; left; reflexivity|].
           rewrite (lcmp_antisym s m). destruct (lcmp s m); try discriminate; reflexivity.
        -- apply Hb. right. exact Hx.
Qed.

(* min / max dispatch on the kind of the first item; a list that starts with anything else is outside the domain *)
Theorem min_max_dispatch : forall c e s r,
  b_max false (VNum c e :: r) = max_num false (c, e) r /\ b_max false (VStr s :: r) = max_str false s r /\
  b_min (VNum c e :: r) = min_num (c, e) r /\ b_min (VStr s :: r) = min_str s r /\
  b_max false (VNull :: r) = VNull /\ b_min (VNull :: r) = VNull /\ b_max false (VBool true :: r) = VNull /\ b_min (VBool true :: r) = VNull.
Proof. intros. repeat split; reflexivity. Qed.

(* ---- mode: every result is an item of the list (partial characterisation) ---- *)
Lemma runs_members : forall (L : list (Z * Z)) l acc,
  (forall r, In r acc -> In (snd r) L) -> (forall x, In x l -> In x L) ->
  forall r, In r (runs l acc) -> In (snd r) L.
Proof.
  intros L. induction l as [|x l IH]; intros acc Hacc Hl r Hr; cbn [runs] in Hr.
  - apply Hacc. apply in_rev. exact Hr.
  - destruct acc as [|[n v] acc'].
    + apply (IH [(1%nat, x)]); auto.
      * intros r0 [<-|[]]. cbn. apply Hl. left. reflexivity.
      * intros y Hy. apply Hl. right. exact Hy.
    + destruct (is_eq (ncmp (fst x) (snd x) (fst v) (snd v))).
      * apply (IH ((S n, v) :: acc')); auto.
        -- intros r0 [<-|H0]; [apply (Hacc (n, v)); left; reflexivity|apply Hacc; right; exact H0].
        -- intros y Hy. apply Hl. right. exact Hy.
      * apply (IH ((1%nat, x) :: (n, v) :: acc')); auto.
        -- intros r0 [<-|H0]; [cbn; apply Hl; left; reflexivity|apply Hacc; exact H0].
        -- intros y Hy. apply Hl. right. exact Hy.
Qed.

Theorem mode_members_partial : forall n ns, exists rs,
  b_mode (map vnum (n :: ns)) = VList (map vnum rs) /\ (forall r, In r rs -> In r (n :: ns)).
Proof.
  intros n ns. unfold b_mode. rewrite numbers_of_map.
  set (rs := runs (nsort (n :: ns)) []).
  set (mx := fold_left (fun m r => Nat.max m (fst r)) rs O).
  exists (map snd (filter (fun r => Nat.eqb (fst r) mx) rs)). split.
  - destruct n. cbn [map]. rewrite map_map. reflexivity.
  - intros r Hr. apply in_map_iff in Hr. destruct Hr as [q [<- Hq]]. apply filter_In in Hq. destruct Hq as [Hq _].
    apply (runs_members (n :: ns) (nsort (n :: ns)) []); auto.
    + intros r0 [].
    + intros x Hx. eapply Permutation_in; [apply nsort_perm|exact Hx].
Qed.
