(* C10 — property theorems (statements only).  Owner: builder-parse. *)
From Coq Require Import List NArith Bool Arith.
From DV Require Import C10.Model C10.Proofs C10.Backtrack C10.NormalForm.
Import ListNotations.

(* longest match: for every key set and every input, outside the `item` and `for .. in` tweaks, the name token is the
   longest prefix of the collected parts whose flattened text is a scope key, and the lexer resumes just after the last
   character of that prefix; when no prefix is bound the token is the whole candidate *)
Theorem C10_longest : forall keys inp pos parts cps endpos,
  collect inp pos = (parts, cps, endpos) ->
  (match parts with p :: _ => str_eqb p str_item | [] => false end) = false ->
  (forall pc, 1 <= pc <= length parts -> bound keys parts pc ->
     (forall j, pc < j <= length parts -> ~ bound keys parts j) ->
     lex_name keys false inp pos = LName (name_new (firstn pc parts)) (S (nth (pc - 1) cps 0))) /\
  ((forall j, 1 <= j <= length parts -> ~ bound keys parts j) ->
     lex_name keys false inp pos = LName (name_new parts) endpos).
Proof. exact lex_name_longest. Qed.
Print Assumptions C10_longest.

(* back-tracking is exact: every collected part is literally the input text whose last character is at its recorded position
   (ends_at: nth j part = input (S e - length part + j)), so the position the lexer returns to, S (nth (pc - 1) cps 0), is the index
   right after the last character of the chosen part: no character of the name is lost, none is read twice *)
Theorem C10_backtrack_exact : forall inp pos parts cps endpos,
  collect inp pos = (parts, cps, endpos) -> Forall2 (ends_at inp) parts cps.
Proof. exact backtrack_exact. Qed.
Print Assumptions C10_backtrack_exact.

Theorem C10_operator_when_unbound : forall keys inp pos parts cps endpos,
  collect inp pos = (parts, cps, endpos) ->
  (match parts with p :: _ => str_eqb p str_item | [] => false end) = false ->
  1 <= length parts -> bound keys parts 1 -> (forall j, 1 < j <= length parts -> ~ bound keys parts j) ->
  lex_name keys false inp pos = LName (name_new (firstn 1 parts)) (S (nth 0 cps 0)).
Proof. exact operator_when_unbound. Qed.
Print Assumptions C10_operator_when_unbound.

(* the text under which the lexer looks a prefix up is the text under which names are stored (one normal form) *)
Theorem C10_normal_form : forall ps, flatten_parts ps = name_new ps.
Proof. exact normal_form. Qed.
Print Assumptions C10_normal_form.

(* the original flatten_name_parts agreed with Name::new when every additional symbol stands between two words (the property's
   quantifier: words joined by one symbol).  In part: proved for all part lists of at most 5 parts over two words and the six
   symbols (37449 lists).  Missing: all part lists (a proof over the six successive str::replace passes); the class is not an
   exact characterisation (`. . a` also agrees).  After the repair C10_normal_form holds for every part list. *)
Theorem C10_normal_form_orig_partial : forall ps, List.In ps (lists_upto 5) -> isolated ps = true ->
  flatten_parts_orig ps = name_new ps.
Proof. exact normal_form_orig_isolated. Qed.
Print Assumptions C10_normal_form_orig_partial.

(* the original flatten_name_parts did not agree with Name::new *)
Theorem C10_normal_form_orig_refuted :
  flatten_parts_orig parts_a_plus_minus_b <> name_new parts_a_plus_minus_b /\ flatten_parts_orig parts_a_plus <> name_new parts_a_plus.
Proof. exact normal_form_refuted_witness. Qed.
Print Assumptions C10_normal_form_orig_refuted.

Example C10_operator_when_unbound_nonvacuous :
  lex_all [key_a; key_b] inp_a_minus_b = Some [KName key_a; KSym 45; KName key_b] /\
  lex_all [key_a; key_b; key_a_minus_b] inp_a_minus_b = Some [KName key_a_minus_b].
Proof. exact operator_when_unbound_witness. Qed.
Print Assumptions C10_operator_when_unbound_nonvacuous.

(* the for / some / every tweak: with `in` as the first part the original code indexed consumed_positions[-1] (a panic);
   the repaired code (/repo 83bd59b) lexes the candidate as an ordinary name *)
Theorem C10_till_in_first_part_orig_refuted :
  lex_name_orig [] true inp_in_plus_x 0 = LCrash /\ lex_name [] true inp_in_plus_x 0 = LName inp_in_plus_x 4.
Proof. exact till_in_first_part_witness. Qed.
Print Assumptions C10_till_in_first_part_orig_refuted.
