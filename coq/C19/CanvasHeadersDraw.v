(* C19 — a decision table with rules as rows and ONE, TWO or THREE header lines drawn as box text with merged cells.
   (owner: ext-merged; the merged drawings are in coq/C19/CanvasMerged.v, the regular one-header-line tables in coq/C19/CanvasDraw.v)
   Input entries of consecutive rules can be merged into one cell (ht_merge).
   Header lines: [output label line over all output columns - only with several outputs] / the line of the input expressions and
   component names (with one output: its label) / [allowed values line].  The hit-policy cell and the annotation names span all header
   lines, an input expression spans the label line and the name line, the output label spans the output columns.  Every text is a block
   of lines that fills the inside of its cell (any widths, heights, alignments).  No proofs in this file. *)
From Coq Require Import List NArith Bool Arith.
From DV Require Import C19.Model C19.Canvas C19.CanvasDraw C19.CanvasMerged.
Import ListNotations.

Definition block := list (list N).
Definition btext (b : block) : list N := text_rows b false.       (* the text the recogniser reads from the frame of the block *)

Record htable := {
  ht_ws : list nat;                        (* inner widths of the grid columns: marker column, inputs, outputs, annotations *)
  ht_hs : list nat;                        (* inner heights of the grid lines: header lines, then rules *)
  ht_hp : block;                           (* hit policy cell *)
  ht_ins : list (block * block);           (* input expression, allowed values (drawn when ht_values) *)
  ht_label : option block;                 (* output label line above the component names (drawn with several outputs) *)
  ht_outs : list (block * block);          (* component name (with one output: the output label), output values (drawn when ht_values) *)
  ht_anns : list block;                    (* annotation names *)
  ht_values : bool;                        (* the allowed-values line is drawn *)
  ht_rules : list (block * list block * list block * list block);      (* number cell, input / output / annotation entries *)
  ht_merge : list (nat * nat * nat) }.     (* merged input entries (rules as rows): input index, first rule, last rule; every rule of the group holds the block of the merged cell *)

Section Drawing.
Variable s : htable.
Definition h_ni : nat := length (ht_ins s).
Definition h_no : nat := length (ht_outs s).
Definition h_na : nat := length (ht_anns s).
Definition h_nr : nat := length (ht_rules s).
Definition h_multi : bool := 1 <? h_no.
Definition h_lrow : bool := h_multi && match ht_label s with Some _ => true | None => false end.
Definition h_hdr : nat := 1 + (if h_lrow then 1 else 0) + (if ht_values s then 1 else 0).
Definition h_top : nat := h_hdr - (if ht_values s then 1 else 0).       (* header lines above the allowed-values line *)
Definition c_out : nat := 1 + h_ni.
Definition c_ann : nat := 1 + h_ni + h_no.

(* the merged cell of grid cell (i, j) *)
Definition merge_of (q r : nat) : option (nat * nat * nat) :=
  find (fun g => let '(q', a, b) := g in (q' =? q) && (a <=? r) && (r <=? b)) (ht_merge s).
Definition hreg (i j : nat) : creg :=
  if h_hdr <=? i then
    (if (1 <=? j) && (j <? c_out) then
       match merge_of (j - 1) (i - h_hdr) with Some (_, a, b) => (h_hdr + a, j, S (h_hdr + b), S j) | None => (i, j, S i, S j) end
     else (i, j, S i, S j))
  else if j =? 0 then (0, 0, h_hdr, 1)
  else if j <? c_out then (if i <? h_top then (0, j, h_top, S j) else (h_top, j, h_hdr, S j))
  else if j <? c_ann then
    (if h_multi then (if h_lrow && (i =? 0) then (0, c_out, 1, c_ann) else (i, j, S i, S j))
     else (if i <? h_top then (0, j, h_top, S j) else (h_top, j, h_hdr, S j)))
  else (0, j, h_hdr, S j).

(* the blocks of header line k, column by column, and of a rule *)
Definition sel (k : nat) (ev : block * block) : block := if k <? h_top then fst ev else snd ev.
Definition label_block : block := match ht_label s with Some l => l | None => [] end.
Definition hrow_blocks (k : nat) : list block :=
  ht_hp s :: map (sel k) (ht_ins s)
  ++ (if h_lrow && (k =? 0) then map (fun _ => label_block) (ht_outs s) else map (sel k) (ht_outs s))
  ++ ht_anns s.
Definition rule_blocks (r : block * list block * list block * list block) : list block := let '(n, i, o, a) := r in n :: i ++ o ++ a.
Definition grid_blocks (i : nat) : list block :=
  if i <? h_hdr then hrow_blocks i else rule_blocks (nth (i - h_hdr) (ht_rules s) ([], [], [], [])).
Definition htxt (i j : nat) : block := nth j (grid_blocks i) [].

Definition header_drawing : mdraw :=
  {| md_ws := ht_ws s; md_hs := ht_hs s; md_reg := hreg; md_txt := htxt;
     md_v1 := c_out; md_v2 := match ht_anns s with [] => None | _ => Some c_ann end;
     md_h1 := h_hdr; md_h2 := None |}.

Definition block_eqb (a b : block) : bool := all2 (all2 N.eqb) a b.
Definition input_entry (r q : nat) : block := let '(_, i, _, _) := nth r (ht_rules s) ([], [], [], []) in nth q i [].
(* every rule of a group of merged input entries holds the same block *)
Definition merged_same : bool :=
  forallb (fun g => let '(q, a, b) := g in forallb (fun r => block_eqb (input_entry r q) (input_entry a q)) (seq a (S b - a))) (ht_merge s).

Definition hrule_lengths_ok : bool :=
  forallb (fun r => let '(n, i, o, a) := r in (length i =? h_ni) && (length o =? h_no) && (length a =? h_na)) (ht_rules s).

(* the drawing is a well-formed merged drawing (texts fill their cells and have no box characters, widths and heights from 1), the
   grid has one column per marker / input / output / annotation and one line per header line / rule, there is an input, an output and
   a rule, and every rule has one entry per column *)
Definition wf_htable : bool :=
  wf_mdraw header_drawing && (1 <=? h_ni) && (1 <=? h_no) && (1 <=? h_nr) && hrule_lengths_ok &&
  (length (ht_ws s) =? c_ann + h_na) && (length (ht_hs s) =? h_hdr + h_nr) && merged_same.

Section Abs.
Variable code : list N -> N.
Definition bc (b : block) : N := code (btext b).
(* the table of Model.v this drawing shows: texts through `code` *)
Definition abs_htable : table :=
  {| t_inputs := map (fun ev => (bc (fst ev), bc (snd ev))) (ht_ins s);
     t_outputs := map (fun nv => (bc (fst nv), bc (snd nv))) (ht_outs s);
     t_label := if h_multi then option_map bc (ht_label s) else match ht_outs s with [nv] => Some (bc (fst nv)) | _ => None end;
     t_values := ht_values s;
     t_annotations := map bc (ht_anns s);
     t_rules := map (fun r => let '(_, i, o, a) := r in {| r_in := map bc i; r_out := map bc o; r_ann := map bc a |}) (ht_rules s) |}.
End Abs.
End Drawing.
