"""C11 — typed inputs and outputs: conforming values pass unchanged, others become null.
Proof: coq/Props/C11.v (all item-definition trees, all values; on the values/types/coercion of C16).
Correspondence: generated DMN documents (item definitions of every kind to depth 3, over the eight simple types, with and
without allowed values) loaded by dmntk_model::parse + ModelEvaluator::new and driven through evaluate_invocable:
 * input side  — an echo decision `e_i` returns its typed input `x_i`, so its result is what reached the decision logic;
 * output side — a decision `o_j` (and a knowledge model `b_j`, a decision service `s_j`) with a typed output variable whose logic is a literal value;
   the typed knowledge models and services are also invoked from untyped decisions: `ib_j` / `is_j` through a boxed <invocation>, `fb_j` / `fs_j`
   by a FEEL call, `cb_j` through a boxed invocation inside a boxed context (the coercion to the callee's output type happens at each of these sites).
Each case is run through the implementation, the per-copy ImplModel (var_eval / output_value) and the Spec
(input_spec; the proved coercion laws), compared three-way as DESIGN.md §2 prescribes."""
import json
import os
import re

from vlib import core
from vlib.coqterm import App

HEADER = ('From Coq Require Import List NArith Bool.\nFrom DV Require Import C16.Model C11.Model C11.ConfModel.\nImport ListNotations.\nOpen Scope N_scope.\n'
          # the independent specification of coq/C11/ConfModel.v (conforms_to / spec on the resolved type tree); meaningful when enough_in holds
          'Definition spec_in (f : nat) (D : defs) (r : tref) (x : value) : value :=\n'
          '  match r with RNone => x | RPrim p => if kind p x then x else VNull\n'
          '  | RNamed n => match dlookup n D with Some T => match resolve f D T with Some t => spec t x | None => VNull end | None => VNull end end.\n'
          'Definition conf_in (f : nat) (D : defs) (r : tref) (x : value) : bool :=\n'
          '  match r with RNone => true | RPrim p => is_atom p x\n'
          '  | RNamed n => match dlookup n D with Some T => conforms f D T x | None => false end end.\n'
          'Definition enough_in (f : nat) (D : defs) (r : tref) : bool :=\n'
          '  match r with RNamed n => match dlookup n D with Some T => enough f D T | None => true end | _ => true end.\n')
FUEL = 40

PR = ['string', 'number', 'boolean', 'date', 'time', 'dateTime', 'dayTimeDuration', 'yearMonthDuration']
CP = ['PString', 'PNumber', 'PBoolean', 'PDate', 'PTime', 'PDateTime', 'PDtd', 'PYmd']
CS = ['SString', 'SNumber', 'SBoolean', 'SDate', 'STime', 'SDateTime', 'SDtd', 'SYmd']
KEYS = {1: 'a', 2: 'b', 3: 'c', 4: 'd', 5: 'e'}
KEYI = {v: k for k, v in KEYS.items()}

# types: ('s', p, av) | ('r', id, av) | ('c', ((key, T), ...), av) | ('ls', p, av) | ('lr', id, av) | ('lc', fields, av)
# av: None | tuple of tests ('lit', p, n) | ('lt', n) | ('le', n) | ('gt', n) | ('ge', n) | ('iv', lo, lc, hi, hc)
# values: None | ('a', p, payload) | ('l', (v, ...)) | ('c', ((key, v), ...))  with keys ascending
# trefs: ('none',) | ('p', p) | ('n', id) | ('u', text)  -- 'u' = a typeRef that names nothing (output side only)


# ------------------------------------------------------------------ rendering: FEEL literals, XML, Coq terms
def lit(v):
    if v is None:
        return 'null'
    k = v[0]
    if k == 'a':
        p, n = v[1], v[2]
        return ['"s%d"' % n, '%d' % n, 'true' if n else 'false', 'date("2020-01-%02d")' % (n + 1), 'time("10:00:%02d")' % n,
                'date and time("2020-01-%02dT10:00:00")' % (n + 1), 'duration("P%dD")' % n, 'duration("P%dM")' % n][p]
    if k == 'l':
        return '[' + ', '.join(lit(x) for x in v[1]) + ']'
    return '{' + ', '.join('%s: %s' % (KEYS[kk], lit(x)) for kk, x in v[1]) + '}'


def test_text(t):
    k = t[0]
    if k == 'null':
        return 'null'
    if k == 'lit':
        return lit(('a', t[1], t[2]))
    if k in ('lt', 'le', 'gt', 'ge'):
        return {'lt': '<', 'le': '<=', 'gt': '>', 'ge': '>='}[k] + ' %d' % t[1]
    return '%s%d..%d%s' % ('[' if t[2] else '(', t[1], t[3], ']' if t[4] else ')')


def esc(s):
    return s.replace('&', '&amp;').replace('<', '&lt;').replace('>', '&gt;').replace('"', '&quot;')


def av_xml(av):
    return '' if av is None else '<allowedValues><text>%s</text></allowedValues>' % esc(', '.join(test_text(t) for t in av))


def idef_xml(tag, name, T, rng):
    k = T[0]
    coll = ' isCollection="true"' if k in ('ls', 'lr', 'lc') else ''
    head = '<%s name="%s"%s>' % (tag, name, coll)
    if k in ('s', 'ls'):
        body = '<typeRef>%s</typeRef>' % PR[T[1]] + av_xml(T[2])
    elif k in ('r', 'lr'):
        body = '<typeRef>t%d</typeRef>' % T[1] + av_xml(T[2])
    else:
        fs = list(T[1])
        rng.shuffle(fs)          # the document order of components is irrelevant: the closure builds a BTreeMap
        body = av_xml(T[2]) + ''.join(idef_xml('itemComponent', KEYS[kk], ft, rng) for kk, ft in fs)
    return head + body + '</%s>' % tag


def tref_attr(r):
    if r[0] == 'none':
        return ''
    if r[0] == 'p':
        return ' typeRef="%s"' % PR[r[1]]
    if r[0] == 'n':
        return ' typeRef="t%d"' % r[1]
    return ' typeRef="%s"' % r[1]


def invocation_xml(fname, binds):
    return ('<invocation><literalExpression><text>%s</text></literalExpression>' % fname +
            ''.join('<binding><parameter name="%s"/><literalExpression><text>%s</text></literalExpression></binding>' % (p, esc(lit(x))) for p, x in binds) + '</invocation>')


def invoker_xml(name, fid, logic):
    """an untyped decision that requires the knowledge model / decision service fid and whose logic invokes it"""
    return ('<decision name="%s" id="d%s"><variable name="%s"/><knowledgeRequirement><requiredKnowledge href="#%s"/></knowledgeRequirement>%s</decision>'
            % (name, name, name, fid, logic))


XHEAD = '<?xml version="1.0" encoding="UTF-8"?><definitions namespace="ns1" name="m1" id="d1" xmlns="https://www.omg.org/spec/DMN/20191111/MODEL/">'


def model_xml(m, rng):
    parts = [XHEAD]
    # the document order of the item definitions is irrelevant: they are written in a random order, so that references point forwards as often as
    # backwards (seeded change C11_j: types were resolved while only the definitions read so far were known)
    ds = list(m['D'])
    rng.shuffle(ds)
    for tid, T in ds:
        parts.append(idef_xml('itemDefinition', 't%d' % tid, T, rng))
    for i, (r, _) in enumerate(m['in']):
        parts.append('<inputData name="x%d" id="i%d"><variable name="x%d"%s/></inputData>' % (i, i, i, tref_attr(r)))
        parts.append('<decision name="e%d" id="de%d"><variable name="e%d"/><informationRequirement><requiredInput href="#i%d"/></informationRequirement>'
                     '<literalExpression><text>x%d</text></literalExpression></decision>' % (i, i, i, i, i))
    j = 0
    for r, vals in m['out']:
        for v in vals:
            parts.append('<decision name="o%d" id="do%d"><variable name="o%d"%s/><literalExpression><text>%s</text></literalExpression></decision>'
                         % (j, j, j, tref_attr(r), esc(lit(v))))
            if j % 3 == 1:      # the same result type on a knowledge model (every other one takes the value as its parameter q) ...
                par = j % 2 == 0
                parts.append('<businessKnowledgeModel name="b%d" id="db%d"><variable name="b%d"%s/><encapsulatedLogic>%s<literalExpression><text>%s</text></literalExpression></encapsulatedLogic></businessKnowledgeModel>'
                             % (j, j, j, tref_attr(r), '<formalParameter name="q"/>' if par else '', 'q' if par else esc(lit(v))))
                # ... invoked from UNTYPED decisions (nothing masks what the invocation hands back): through a boxed invocation, by a FEEL call,
                # and through a boxed invocation that is the entry `a` of a boxed context
                parts.append(invoker_xml('ib%d' % j, 'db%d' % j, invocation_xml('b%d' % j, [('q', v)] if par else [])))
                parts.append(invoker_xml('fb%d' % j, 'db%d' % j, '<literalExpression><text>%s</text></literalExpression>' % esc('b%d(%s)' % (j, lit(v) if par else ''))))
                if j % 6 == 1:
                    parts.append(invoker_xml('cb%d' % j, 'db%d' % j, '<context><contextEntry><variable name="a"/>%s</contextEntry></context>' % invocation_xml('b%d' % j, [])))
            if j % 3 == 2:      # ... and on a decision service over an untyped decision, evaluated directly and invoked from untyped decisions in the same ways
                parts.append('<decision name="u%d" id="du%d"><variable name="u%d"/><literalExpression><text>%s</text></literalExpression></decision>' % (j, j, j, esc(lit(v))))
                parts.append('<decisionService name="s%d" id="ds%d"><variable name="s%d"%s/><outputDecision href="#du%d"/></decisionService>' % (j, j, j, tref_attr(r), j))
                parts.append(invoker_xml('is%d' % j, 'ds%d' % j, invocation_xml('s%d' % j, [])))
                parts.append(invoker_xml('fs%d' % j, 'ds%d' % j, '<literalExpression><text>s%d()</text></literalExpression>' % j))
                if v is not None and v[0] == 'c' and len(v[1]) >= 2:
                    # ... and on a decision service with SEVERAL output decisions, one per entry of the value (their variables are named like the entries): the
                    # service's result is the context of their values, coerced to the declared type like every other result (seeded change C11_k)
                    for kk, x in v[1]:
                        parts.append('<decision name="mu%d%s" id="dmu%d%s"><variable name="%s"/><literalExpression><text>%s</text></literalExpression></decision>'
                                     % (j, KEYS[kk], j, KEYS[kk], KEYS[kk], esc(lit(x))))
                    parts.append('<decisionService name="m%d" id="dm%d"><variable name="m%d"%s/>%s</decisionService>'
                                 % (j, j, j, tref_attr(r), ''.join('<outputDecision href="#dmu%d%s"/>' % (j, KEYS[kk]) for kk, _ in v[1])))
            j += 1
    parts.append('</definitions>')
    return ''.join(parts)


def av_coq(av):
    if av is None:
        return 'None'
    out = []
    for t in av:
        k = t[0]
        if k == 'null':
            out.append('UNull')
        elif k == 'lit':
            out.append('ULit %s %d' % (CS[t[1]], t[2]))
        elif k == 'iv':
            out.append('UIv %d %s %d %s' % (t[1], 'true' if t[2] else 'false', t[3], 'true' if t[4] else 'false'))
        else:
            out.append('U%s %d' % (k.capitalize(), t[1]))
    return '(Some [%s])' % '; '.join(out)


def idef_coq(T):
    k = T[0]
    if k in ('s', 'ls'):
        return '(%s %s %s)' % ('ISimple' if k == 's' else 'ICollSimple', CP[T[1]], av_coq(T[2]))
    if k in ('r', 'lr'):
        return '(%s %d %s)' % ('IRef' if k == 'r' else 'ICollRef', T[1], av_coq(T[2]))
    return '(%s [%s] %s)' % ('IComp' if k == 'c' else 'ICollComp', '; '.join('(%d, %s)' % (kk, idef_coq(ft)) for kk, ft in sorted(T[1])), av_coq(T[2]))


def val_coq(v):
    if v is None:
        return 'VNull'
    k = v[0]
    if k == 'a':
        return '(VAtom %s %d)' % (CS[v[1]], v[2])
    if k == 'l':
        return '(VList [%s])' % '; '.join(val_coq(x) for x in v[1])
    return '(VCtx [%s])' % '; '.join('(%d, %s)' % (kk, val_coq(x)) for kk, x in v[1])


def tref_coq(r):
    if r[0] == 'none':
        return 'RNone'
    if r[0] == 'p':
        return '(RPrim %s)' % CP[r[1]]
    if r[0] == 'n':
        return '(RNamed %d)' % r[1]
    return '(RNamed 999999)'      # names no item definition


def term_val(x):
    """parsed Coq value -> value tuple"""
    if isinstance(x, App):
        if x.name == 'VNull':
            return None
        if x.name == 'VAtom':
            return ('a', CS.index(x.args[0].name), x.args[1])
        if x.name == 'VList':
            return ('l', tuple(term_val(y) for y in x.args[0]))
        if x.name == 'VCtx':
            return ('c', tuple((kk, term_val(y)) for kk, y in x.args[0]))
    return ('?', repr(x))


def norm(j):
    """canonical JSON of the harness -> value tuple (anything outside the generated universe is kept as ('?', ...))"""
    if j is None:
        return None
    if isinstance(j, bool):
        return ('a', 2, int(j))
    if isinstance(j, str):
        m = re.fullmatch(r's(\d+)', j)
        return ('a', 0, int(m.group(1))) if m else ('?', j)
    if isinstance(j, list):
        return ('l', tuple(norm(x) for x in j))
    if isinstance(j, dict):
        if 'p' in j and re.fullmatch(r'\d+', j['p']):
            return ('a', 1, int(j['p']))
        for key, p, rx, off in (('d', 3, r'2020-01-(\d\d)', -1), ('t', 4, r'10:00:(\d\d)', 0), ('dt', 5, r'2020-01-(\d\d)T10:00:00', -1),
                                ('dtd', 6, r'P(\d+)D', 0), ('ymd', 7, r'P(\d+)M', 0)):
            if key in j:
                m = re.fullmatch(rx, j[key])
                return ('a', p, int(m.group(1)) + off) if m else ('?', json.dumps(j))
        if 'c' in j:
            return ('c', tuple(sorted((KEYI.get(kk, kk), norm(x)) for kk, x in j['c'])))
    return ('?', json.dumps(j))


# ------------------------------------------------------------------ generators
def avs_for(p):
    # ('null',): the literal null among the alternatives - for a value that matches no other alternative the test is null, not false, and the value is
    # still not allowed (seeded change C11_i: only a test that is `false` rejected the value)
    if p == 1:
        return [None, (('lt', 10),), (('iv', 20, True, 30, False), ('lit', 1, 5), ('ge', 100)), (('iv', 1, True, 10, True), ('null',))]
    if p == 0:
        return [None, (('lit', 0, 1), ('lit', 0, 2)), (('lit', 0, 1), ('lit', 0, 2), ('null',))]
    if p == 2:
        return [None, (('lit', 2, 1),)]
    return [None, (('le', 10), ('lit', 0, 1), ('lit', p, 2))]


def test_ok(t, v):
    if v is None or v[0] != 'a':
        return False
    p, n = v[1], v[2]
    k = t[0]
    if k == 'null':
        return False
    if k == 'lit':
        return p == t[1] and n == t[2]
    if p != 1:
        return False
    if k == 'lt':
        return n < t[1]
    if k == 'le':
        return n <= t[1]
    if k == 'gt':
        return n > t[1]
    if k == 'ge':
        return n >= t[1]
    return (t[1] <= n if t[2] else t[1] < n) and (n <= t[3] if t[4] else n < t[3])


def av_ok(av, v):
    return av is None or any(test_ok(t, v) for t in av)


def payloads(p, avs):
    """candidate payloads of prim p: first one allowed by all the allowed-values sets met on the way, if there is one"""
    cands = [1, 2, 5, 3, 9, 25, 20, 100, 0] if p in (0, 1) else ([1, 0] if p == 2 else [2, 1, 3])
    good = [n for n in cands if all(av_ok(a, ('a', p, n)) for a in avs)]
    return good, [n for n in cands if n not in good]


def resolve(D, T):
    """follows plain references"""
    seen = 0
    while T[0] == 'r' and seen < 10:
        T = D[T[1]]
        seen += 1
    return T


def gen_conf(D, T, avs=()):
    """a value meant to conform to T (when some allowed-values set has no member of the type, the closest miss)"""
    k = T[0]
    if k == 's':
        good, bad = payloads(T[1], list(avs) + [T[2]])
        return ('a', T[1], (good or bad)[0])
    if k == 'r':
        return gen_conf(D, D[T[1]], list(avs) + [T[2]])
    if k == 'c':
        return ('c', tuple((kk, gen_conf(D, ft)) for kk, ft in sorted(T[1])))
    if k == 'ls':
        good, bad = payloads(T[1], [T[2]])
        ns = (good or bad)[:2]
        return ('l', tuple(('a', T[1], n) for n in ns))
    if k == 'lr':
        return ('l', (gen_conf(D, D[T[1]], [T[2]]), gen_conf(D, D[T[1]], [T[2]])))
    return ('l', (('c', tuple((kk, gen_conf(D, ft)) for kk, ft in sorted(T[1]))),))


def item_type(D, T):
    k = T[0]
    if k == 'ls':
        return ('s', T[1], T[2])
    if k == 'lr':
        return D[T[1]]
    if k == 'lc':
        return ('c', T[1], None)
    return None


def root_bads(D, T, v, rng, full):
    """replacements of the value at one position: null, atoms of every simple type (also the right type with boundary payloads),
    the value wrapped into a list / a context"""
    R = resolve(D, T)
    out = [None]
    prims = range(8) if full else sorted(set(rng.sample(range(8), 3)) | ({R[1], {3: 5, 5: 3}.get(R[1], (R[1] + 1) % 8)} if R[0] in ('s', 'ls') else set()))
    for p in prims:
        out.append(('a', p, 1))
    if R[0] == 's':
        p = R[1]
        ns = [0, 5, 9, 10, 11, 19, 20, 29, 30, 99, 100] if p == 1 else ([1, 2, 3] if p == 0 else ([0, 1] if p == 2 else [1, 2, 3]))
        out += [('a', p, n) for n in (ns if full else rng.sample(ns, min(4, len(ns))))]
    out.append(('l', (v,)))
    out.append(('l', ()))
    out.append(('c', ((1, v),)))
    return out


def variants(D, T, v, rng, full, depth=0):
    """the value with exactly one position changed (every position of the tree), plus structural changes of lists and contexts"""
    out = list(root_bads(D, T, v, rng, full or depth == 0))
    R = resolve(D, T)
    if v is not None and v[0] == 'l' and R[0] in ('ls', 'lr', 'lc'):
        it = item_type(D, R)
        items = list(v[1])
        for i, x in enumerate(items):
            for m in variants(D, it, x, rng, full, depth + 1):
                out.append(('l', tuple(items[:i] + [m] + items[i + 1:])))
        out.append(('l', tuple(items + [None])))
        out.append(('l', tuple(items[:1])))
    if v is not None and v[0] == 'c' and R[0] == 'c':
        es = list(v[1])
        ft = dict(R[1])
        for i, (kk, x) in enumerate(es):
            for m in variants(D, ft[kk], x, rng, full, depth + 1):
                out.append(('c', tuple(es[:i] + [(kk, m)] + es[i + 1:])))
            out.append(('c', tuple(es[:i] + es[i + 1:])))                       # a missing component
        out.append(('c', tuple(sorted(es + [(5, ('a', 1, 1))]))))              # an undeclared entry
    return out


def dedup(xs):
    seen, out = set(), []
    for x in xs:
        if x not in seen:
            seen.add(x)
            out.append(x)
    return out


def reaches_unclean(D, T, fuel=12):
    """T can reach a collection type that carries allowed values (the class where the pinned commit nulled every list)"""
    if fuel == 0:
        return False
    k = T[0]
    if k in ('ls', 'lr', 'lc') and T[2] is not None:
        return True
    if k in ('r', 'lr'):
        return T[1] in D and reaches_unclean(D, D[T[1]], fuel - 1)
    if k in ('c', 'lc'):
        return any(reaches_unclean(D, ft, fuel - 1) for _, ft in T[1])
    return False


class Plan:
    """Collects probes into documents of bounded size; every document carries exactly the item definitions its probes use."""

    def __init__(self, max_in, max_out):
        self.models = []
        self.max_in, self.max_out = max_in, max_out
        self.new()

    def new(self):
        self.cur = {'D': [], 'in': [], 'out': [], 'next': 1}
        self.models.append(self.cur)

    def room(self):
        if len(self.cur['in']) >= self.max_in or sum(len(v) for _, v in self.cur['out']) >= self.max_out:
            self.new()

    def add_def(self, T):
        for tid, t in self.cur['D']:
            if t == T:
                return tid
        tid = self.cur['next']
        self.cur['next'] += 1
        self.cur['D'].append((tid, T))
        return tid

    def defs(self):
        return dict(self.cur['D'])


def leaf_types():
    out = []
    for p in range(8):
        for av in avs_for(p):
            out.append(('s', p, av))
            out.append(('ls', p, av))
    return out


def outer_av(leaf):
    """allowed values for a type built around `leaf` (type-compatible with it where that is possible)"""
    return avs_for(leaf[1])[1]


def wrap(plan, kind, inner, av=None):
    if kind in ('r', 'lr'):
        return (kind, plan.add_def(inner), av)
    return (kind, ((1, inner),), av)


def rand_type(plan, rng, depth, leaves):
    if depth <= 1 or rng.random() < 0.3:
        return rng.choice(leaves)
    kind = rng.choice(['r', 'lr', 'c', 'lc', 'c'])
    if kind in ('r', 'lr'):
        inner = rand_type(plan, rng, depth - 1, leaves)
        return (kind, plan.add_def(inner), outer_av(inner) if inner[0] in ('s', 'ls') and rng.random() < 0.3 else None)
    n = rng.choice([1, 2, 2, 3])
    ks = sorted(rng.sample([1, 2, 3, 4], n))
    return (kind, tuple((kk, rand_type(plan, rng, depth - 1, leaves)) for kk in ks), None if rng.random() < 0.9 else (('lt', 10),))


def build_plan(ctx):
    rng = ctx.rng
    plan = Plan(max_in=ctx.pick(24, 30), max_out=ctx.pick(90, 120))
    leaves = leaf_types()
    types = []      # (document index, tref)  in generation order

    def probe_in(T, full=False, nvals=None):
        tid = plan.add_def(T)
        D = plan.defs()
        v = gen_conf(D, T)
        vals = dedup([v] + variants(D, T, v, rng, full))
        if nvals and len(vals) > nvals:
            vals = vals[:1] + rng.sample(vals[1:], nvals - 1)
        plan.cur['in'].append((('n', tid), vals))
        return tid

    def probe_out(r, T, nvals=8):
        D = plan.defs()
        vals = []
        if T is not None:
            v = gen_conf(D, T)
            it = item_type(D, resolve(D, T))
            vals = [v, ('l', (v,)), ('l', (v, v)), None]
            if it is not None:
                x = gen_conf(D, it)
                vals += [x, ('l', (('l', (x,)),)), ('l', (x, None))]
            if v[0] == 'l' and v[1]:
                vals.append(v[1][0])
            if v[0] == 'c':
                es = list(v[1])
                vals += [('c', tuple(es[1:])), ('c', tuple(sorted(es + [(5, ('a', 1, 1))]))), ('c', tuple((kk, None) for kk, _ in es)), ('l', (('c', tuple(es[1:])),))]
        # a singleton list whose only item conforms to the type WITHOUT being of exactly that type (an empty list, a context with null components or
        # an undeclared entry): still unwrapped (seeded change C11_h: the unwrap asked for an equivalent type)
        must = []
        if T is not None:
            if v[0] == 'l':
                must.append(('l', (('l', ()),)))
            if v[0] == 'c':
                es = list(v[1])
                must += [('l', (('c', tuple((kk, None) for kk, _ in es)),)), ('l', (('c', tuple(sorted(es + [(5, ('a', 1, 1))]))),))]
                # one component of another type than declared (a boolean where a number, string, list, context or referenced type is declared, a number
                # for a boolean): the result does not conform and is null, whichever component it is
                for ix in sorted(set([0, len(es) - 1])):
                    bad = ('a', 1, 7) if (es[ix][1] is not None and es[ix][1][0] == 'a' and es[ix][1][1] == 2) else ('a', 2, 1)
                    must.append(('c', tuple((kk, bad if i == ix else x) for i, (kk, x) in enumerate(es))))
        for p in rng.sample(range(8), 3):
            vals += [('a', p, 1), ('l', (('a', p, 1),))]
        vals = dedup(vals + must)
        if len(vals) > nvals:
            rest = [x for x in vals[4:] if x not in must]
            pick = [x for x in must if x in vals[4:]]
            rng.shuffle(pick)
            pick = pick[:2 + (len(pick) > 2 and rng.random() < 0.5)]
            vals = vals[:4] + pick + rng.sample(rest, max(0, nvals - 4 - len(pick)))
        plan.cur['out'].append((r, vals))

    # (1) the variable evaluator arms: typeRef names a simple type directly — every simple type against every kind of atom
    plan.room()
    for p in range(8):
        vals = [None] + [('a', q, 1) for q in range(8)] + [('l', (('a', p, 1),)), ('l', ()), ('c', ((1, ('a', p, 1)),)), ('a', p, 0 if p == 2 else 2)]
        plan.cur['in'].append((('p', p), vals))
        probe_out(('p', p), ('s', p, None), nvals=10)
    probe_out(('none',), ('s', 1, None))
    probe_out(('u', 'tNowhere'), ('ls', 1, None))
    # (2) depth 1: every simple / collection-of-simple type, with and without allowed values, exhaustively against all atoms
    for T in leaves:
        plan.room()
        tid = probe_in(T, full=True)
        probe_out(('n', tid), T)
    # (3) depth 2: every kind around every leaf
    for kind in ('r', 'lr', 'c', 'lc'):
        for i, leaf in enumerate(leaves):
            plan.room()
            av = outer_av(leaf) if (kind in ('r', 'lr') and i % 2 == 0) else None
            T = wrap(plan, kind, leaf, av)
            tid = probe_in(T, nvals=ctx.pick(14, 40))
            if i % 2 == 1 or not ctx.quick:
                probe_out(('n', tid), T, nvals=6)
    # the referenced-type finding of the pinned commit (tSmall = typeRef tBase + `< 10`) is among them; its witness runs first in every report
    # (4) depth 3: kind around kind around leaf (all 16 x leaves in the thorough tier, a sample in the quick tier)
    combos = [(k1, k2, leaf) for k1 in ('r', 'lr', 'c', 'lc') for k2 in ('r', 'lr', 'c', 'lc') for leaf in leaves]
    if ctx.quick:
        combos = rng.sample(combos, 130)
    for n, (k1, k2, leaf) in enumerate(combos):
        plan.room()
        mid = wrap(plan, k2, leaf, outer_av(leaf) if (k2 in ('r', 'lr') and n % 3 == 0) else None)
        T = wrap(plan, k1, mid, outer_av(leaf) if (k1 == 'r' and k2 == 'r' and n % 2 == 0) else None)
        tid = probe_in(T, nvals=ctx.pick(12, 30))
        if n % 4 == 0:
            probe_out(('n', tid), T, nvals=6)
    # (5) components with several fields of mixed kinds, to depth 3
    for n in range(ctx.pick(60, 500)):
        plan.room()
        ks = sorted(rng.sample([1, 2, 3, 4], rng.choice([2, 2, 3])))
        T = (rng.choice(['c', 'c', 'lc']), tuple((kk, rand_type(plan, rng, 2, leaves)) for kk in ks), None)
        tid = probe_in(T, nvals=ctx.pick(14, 30))
        if n % 3 == 0:
            probe_out(('n', tid), T, nvals=6)
    return [m for m in plan.models if m['in'] or m['out']]


# ------------------------------------------------------------------ the run
def classify(res, v):
    if res == v:
        return 'same'
    if res is not None and res[0] == 'l' and len(res[1]) == 1 and res[1][0] == v:
        return 'wrap'
    if v is not None and v[0] == 'l' and len(v[1]) == 1 and v[1][0] == res:
        return 'unwrap'
    if res is None:
        return 'null'
    return 'other'


def null_first_witness(ctx):
    """Known finding null-alternative-first (the root cause is the one of C03 null-literal-entry: eval_in_list answers null at a null item instead of going on
    to the next alternative): allowed values `null, 5` reject the conforming value 5; with the null LAST (`5, null`) the value passes, and the generated
    types only have it last.  The witness runs on every run; when the code changes it is a violation unless the value now passes."""
    xml = (XHEAD + '<itemDefinition name="tN"><typeRef>number</typeRef><allowedValues><text>null, 5</text></allowedValues></itemDefinition>'
           '<itemDefinition name="tL"><typeRef>number</typeRef><allowedValues><text>5, null</text></allowedValues></itemDefinition>'
           '<inputData name="x" id="i1"><variable name="x" typeRef="tN"/></inputData><inputData name="y" id="i2"><variable name="y" typeRef="tL"/></inputData>'
           '<decision name="e" id="e1"><variable name="e"/><informationRequirement><requiredInput href="#i1"/></informationRequirement><informationRequirement><requiredInput href="#i2"/></informationRequirement>'
           '<literalExpression><text>[x, y]</text></literalExpression></decision></definitions>')
    ans = ctx.run_impl('model', [{'xml': xml, 'calls': [['e', '{x: 5, y: 5}'], ['e', '{x: 6, y: 6}']]}])[0]
    ctx.evaluations += 1
    case = {'allowed_values': ['null, 5', '5, null'], 'inputs': ['{x: 5, y: 5}', '{x: 6, y: 6}'], 'xml': xml}
    if not isinstance(ans, dict) or ans.get('build') != 'ok' or len(ans.get('results', [])) != 2:
        ctx.corr_broken('witness model of null-alternative-first not evaluated', case, ans, None)
        return
    got = [norm(r.get('v')) if 'v' in r else ('?', json.dumps(r)) for r in ans['results']]
    five, nul = ('a', 1, 5), None
    if got[1] != ('l', (nul, nul)):
        ctx.violation('allowed values `null, 5` / `5, null`: the value 6 reached the decision as %s, the property prescribes [null, null]' % json.dumps(ans['results'][1]), case, impl=ans)
    elif got[0] == ('l', (five, five)):
        pass          # repaired: both orders let the conforming value through
    elif got[0] == ('l', (nul, five)) and ctx.known('null-alternative-first', case):
        pass
    else:
        ctx.violation('allowed values `null, 5` / `5, null`: the conforming value 5 reached the decision as %s, the property prescribes [5, 5]' % json.dumps(ans['results'][0]), case, impl=ans)


def run_models(ctx, models, tagbase='c'):
    """Runs the documents through the implementation and the model; returns a flat list of case records."""
    xmls = [model_xml(m, ctx.rng) for m in models]
    reqs, index = [], []
    for mi, m in enumerate(models):
        calls, idx = [], []
        for i, (r, vals) in enumerate(m['in']):
            for v in vals:
                extra = ', zz: 7' if (len(calls) % 3 == 0) else ''
                calls.append(['e%d' % i, '{x%d: %s%s}' % (i, lit(v), extra)])
                idx.append(('in', i, r, v))
            calls.append(['e%d' % i, '{zz: 7}'])                 # the input entry is missing altogether
            idx.append(('in-missing', i, r, None))
        j = 0
        for r, vals in m['out']:
            for v in vals:
                calls.append(['o%d' % j, '{}'])
                idx.append(('out', j, r, v))
                if j % 3 == 1:
                    calls.append(['b%d' % j, '{q: %s}' % lit(v) if j % 2 == 0 else '{}'])
                    idx.append(('out-bkm', j, r, v))
                    for pre, kind in (('ib', 'out-bkm-boxed-invocation'), ('fb', 'out-bkm-feel-call')) + ((('cb', 'out-bkm-boxed-invocation-in-context'),) if j % 6 == 1 else ()):
                        calls.append(['%s%d' % (pre, j), '{}'])
                        idx.append((kind, j, r, v))
                if j % 3 == 2:
                    calls.append(['s%d' % j, '{}'])
                    idx.append(('out-svc', j, r, v))
                    for pre, kind in (('is', 'out-svc-boxed-invocation'), ('fs', 'out-svc-feel-call')):
                        calls.append(['%s%d' % (pre, j), '{}'])
                        idx.append((kind, j, r, v))
                    if v is not None and v[0] == 'c' and len(v[1]) >= 2:
                        calls.append(['m%d' % j, '{}'])
                        idx.append(('out-svc-several-outputs', j, r, v))
                j += 1
        reqs.append({'xml': xmls[mi], 'calls': calls})
        index.append(idx)
    impl = ctx.run_impl('model', reqs, shards=16)
    header = HEADER + ''.join('Definition D%d : defs := [%s].\n' % (mi, ';\n  '.join('(%d, %s)' % (tid, idef_coq(T)) for tid, T in m['D']))
                              for mi, m in enumerate(models))
    terms = []
    for mi, idx in enumerate(index):
        for kind, i, r, v in idx:
            if kind == 'in':
                inp = '(VCtx [(77, %s)])' % val_coq(v)
                terms.append('(var_eval %d D%d 77 %s %s, input_spec %d D%d 77 %s %s, conf_in %d D%d %s %s, enough_in %d D%d %s, spec_in %d D%d %s %s)'
                             % (FUEL, mi, tref_coq(r), inp, FUEL, mi, tref_coq(r), inp, FUEL, mi, tref_coq(r), val_coq(v), FUEL, mi, tref_coq(r),
                                FUEL, mi, tref_coq(r), val_coq(v)))
            elif kind == 'in-missing':
                inp = '(VCtx [(78, VNull)])'
                terms.append('(var_eval %d D%d 77 %s %s, input_spec %d D%d 77 %s %s, false, true, VNull)' % (FUEL, mi, tref_coq(r), inp, FUEL, mi, tref_coq(r), inp))
            else:
                terms.append('(output_value %d D%d %s %s, var_type %d D%d %s, enough_ref %d D%d %s)'
                             % (FUEL, mi, tref_coq(r), val_coq(v), FUEL, mi, tref_coq(r), FUEL, mi, tref_coq(r)))
    model = ctx.run_model(header, terms, shard_size=max(50, len(terms) // 16 + 1), tag='%s%d' % (tagbase, os.getpid()))
    recs, t = [], 0
    for mi, idx in enumerate(index):
        ans = impl[mi]
        ok = isinstance(ans, dict) and ans.get('build') == 'ok' and len(ans.get('results', [])) == len(idx)
        for ci, (kind, i, r, v) in enumerate(idx):
            recs.append({'mi': mi, 'kind': kind, 'i': i, 'r': r, 'v': v, 'call': reqs[mi]['calls'][ci],
                         'impl': (ans['results'][ci] if ok else {'load': {k: ans.get(k) for k in ('parse', 'build', 'build_msg', 'parse_msg', 'crash', 'panic')} if isinstance(ans, dict) else str(ans)}),
                         'model': model[t]})
            t += 1
    return xmls, recs


def case_of(models, xmls, rec):
    m = models[rec['mi']]
    D = dict(m['D'])
    r = rec['r']
    return {'side': rec['kind'], 'typeRef': tref_attr(r).strip(), 'type': idef_coq(D[r[1]]) if r[0] == 'n' else None,
            'value': lit(rec['v']) if rec['kind'] != 'in-missing' else '(no entry)', 'invocable': rec['call'][0], 'input': rec['call'][1], 'xml': xmls[rec['mi']]}


def judge(ctx, models, xmls, recs, stats):
    for rec in recs:
        ctx.evaluations += 1
        m = models[rec['mi']]
        D = dict(m['D'])
        r, v = rec['r'], rec['v']
        ri = rec['impl']
        if 'v' not in ri:
            ctx.violation('loading or invoking a generated model failed: %s' % json.dumps(ri)[:300], case_of(models, xmls, rec), impl=ri)
            continue
        got = norm(ri['v'])
        if rec['kind'] in ('in', 'in-missing'):
            im, sp, conf = term_val(rec['model'][0]), term_val(rec['model'][1]), rec['model'][2]
            if not rec['model'][3] and not any(b.startswith('fuel') for b in ctx.broken):
                ctx.broken.append('fuel %d does not cover a generated type tree (C11_fuel_sufficient does not apply): %s' % (FUEL, tref_attr(r)))
            stats['in'] = stats.get('in', 0) + 1
            # the independent specification (conforms_to / spec, C11_eval_item_spec_general) evaluated on the same case: it must be the Spec's value
            if rec['model'][3]:
                si = term_val(rec['model'][4])
                stats['independent-spec-evaluated'] = stats.get('independent-spec-evaluated', 0) + 1
                if si != sp and not any(b.startswith('independent') for b in ctx.broken):
                    ctx.broken.append('independent specification (spec of coq/C11/ConfModel.v) differs from check on %s: %s vs %s' % (lit(v) if rec['kind'] == 'in' else '(no entry)', repr(si), repr(sp)))
            key = 'conforming' if conf else ('null' if got is None else 'partly-nulled')
            stats[key] = stats.get(key, 0) + 1
            if got is not None and got != v:
                ctx.nontrivial.add((rec['mi'], rec['i'], v))
            elif conf and v is not None and v[0] != 'a':
                ctx.nontrivial.add((rec['mi'], rec['i'], v))
            ctx.corr_checked += 1
            T = D[r[1]] if r[0] == 'n' else None
            if T is not None and reaches_unclean(D, T):
                stats['collection-with-allowed-values'] = stats.get('collection-with-allowed-values', 0) + 1
            # the law of the property, on the implementation's own output: a conforming value passes unchanged
            if conf and got != v:
                ctx.violation('a conforming input value does not reach the decision unchanged: type %s, value %s, decision saw %s'
                              % (idef_coq(T) if T else tref_attr(r), lit(v), json.dumps(ri['v'])), case_of(models, xmls, rec), impl=ri, model={'spec': lit(sp)})
                continue
            if got == sp:
                if got != im:
                    ctx.corr_broken('var_eval', case_of(models, xmls, rec), ri['v'], lit(im) if im is None or im[0] != '?' else im)
                continue
            # the implementation differs from the Spec (var_eval = input_spec is a theorem: there is no known class any more)
            ctx.violation('input of declared type %s: value %s reached the decision as %s, the property prescribes %s'
                          % (idef_coq(T) if T else tref_attr(r), lit(v) if rec['kind'] == 'in' else '(no entry)', json.dumps(ri['v']), lit(sp) if sp is None or sp[0] != '?' else sp),
                          case_of(models, xmls, rec), impl=ri, model={'impl_model': repr(im), 'spec': repr(sp)})
        else:
            om = term_val(rec['model'][0])
            if rec['kind'].endswith('-in-context') and got is not None and got[0] == 'c' and len(got[1]) == 1 and got[1][0][0] == 1:
                got = got[1][0][1]                    # the invocation is the entry `a` of a boxed context: judge the entry
            elif rec['kind'].endswith('-in-context'):
                got = ('?', json.dumps(ri['v']))
            if not rec['model'][2] and not any(b.startswith('fuel') for b in ctx.broken):
                ctx.broken.append('fuel %d does not cover the declared type of a generated output variable (C11_var_type_fuel_sufficient does not apply): %s' % (FUEL, tref_attr(r)))
            stats[rec['kind']] = stats.get(rec['kind'], 0) + 1
            ci, cm = classify(got, v), classify(om, v)
            stats['out-' + ci] = stats.get('out-' + ci, 0) + 1
            if ci not in ('same', 'null'):
                ctx.nontrivial.add((rec['mi'], 'o', rec['i']))
            ctx.corr_checked += 1
            if ci == 'other' or got != om:
                # output_value is proved to be identity / wrap / unwrap / null exactly as the property words it
                how = {'out': 'decision', 'out-bkm': 'knowledge model, evaluated directly', 'out-svc': 'decision service, evaluated directly'}.get(rec['kind']) or \
                    '%s invoked from the untyped decision %s %s' % ('knowledge model' if '-bkm-' in rec['kind'] else 'decision service', rec['call'][0],
                                                                     rec['kind'].split('-', 2)[2].replace('-', ' ').replace('boxed', 'through a boxed').replace('feel call', 'by a FEEL call'))
                ctx.violation('output variable (%s) of declared type %s: result %s was returned as %s, the property prescribes %s (%s)'
                              % (how, tref_attr(r).strip() or '(none)', lit(v), json.dumps(ri['v']), lit(om) if om is None or om[0] != '?' else om, cm),
                              case_of(models, xmls, rec), impl=ri, model={'output_value': repr(om), 'var_type': repr(rec['model'][1])})


def run(ctx):
    ctx.proof_gate()
    ctx.build_harness()
    models = build_plan(ctx)
    xmls, recs = run_models(ctx, models)
    stats = {}
    judge(ctx, models, xmls, recs, stats)
    null_first_witness(ctx)
    # idempotence on the implementation itself: what reached the decision, supplied again, reaches it unchanged
    again = {}
    for rec in recs:
        if rec['kind'] == 'in' and 'v' in rec['impl']:
            got = norm(rec['impl']['v'])
            if got is not None and got != rec['v'] and '?' not in repr(got):
                again.setdefault(rec['mi'], {}).setdefault(rec['i'], []).append(got)
    models2 = []
    for mi, per in sorted(again.items()):
        m = models[mi]
        sel = sorted(per)[:ctx.pick(6, 30)]
        models2.append({'D': m['D'], 'in': [(m['in'][i][0], dedup(per[i])[:ctx.pick(4, 12)]) for i in sel], 'out': []})
    if models2:
        xmls2, recs2 = run_models(ctx, models2, tagbase='i')
        for rec in recs2:
            if rec['kind'] != 'in' or 'v' not in rec['impl']:
                continue
            ctx.evaluations += 1
            stats['idempotence'] = stats.get('idempotence', 0) + 1
            if norm(rec['impl']['v']) != rec['v']:
                ctx.violation('type checking an input twice differs from checking it once: %s reached the decision as %s' % (lit(rec['v']), json.dumps(rec['impl']['v'])),
                              case_of(models2, xmls2, rec), impl=rec['impl'])
    for rec in recs:
        if rec['kind'] == 'in' and rec['v'] is not None and rec['v'][0] == 'c' and len(ctx.samples) < 3 and 'v' in rec['impl'] and norm(rec['impl']['v']) not in (None, rec['v']):
            c = case_of(models, xmls, rec)
            del c['xml']
            ctx.sample({'case': c, 'decision_saw': rec['impl']['v']})
    return ctx.finish(
        rule='item-definition trees: every (simple | collection-of-simple) x 8 simple types x {no allowed values, allowed values} exhaustively against atoms of all 8 types, '
             'nulls, lists and contexts; every kind {referenced, collection-of-referenced, component, collection-of-component} around each of these (depth 2); kind around kind around leaf '
             '(depth 3; sampled in the quick tier, all 16x%d in the thorough tier); multi-field components of mixed kinds; the 8 direct typeRef arms of the variable evaluator. '
             'Values: one conforming value per type and every variant of it with exactly one tree position replaced (null, atoms of other types, boundary payloads of the allowed values, '
             'wrapped, missing / undeclared component, shorter / longer list). Output side: typed output variable (simple types, collections, components, references; untyped; a typeRef naming nothing) of a decision, '
             'of a knowledge model (body = the literal, or = its parameter q bound to the literal) and of a decision service over results that conform / need the singleton wrap / the unwrap / are foreign / null; '
             'every typed knowledge model and service is evaluated directly AND invoked from untyped decisions (whose own variable masks nothing): through a boxed invocation, by a FEEL call b(..) / s(), '
             'and (every other knowledge model) through a boxed invocation that is an entry of a boxed context - each compared with output_value (= coerced_spec of the callee\'s declared type). '
             'non-trivial = a component-wise nulled result, a conforming structured value, or a wrap/unwrap coercion' % len(leaf_types()),
        extra_cov={'exhaustive': False, 'documents': len(models), 'histogram': stats},
        assumptions=['names a..e / t<n> stand for all names; payloads are small naturals (numbers) or identities (other simple types)',
                     'allowed values are drawn from the modelled unary-test language: literals, < <= > >=, intervals over numbers, comma-separated; the alternative `null` '
                     '(a test whose answer is null, not false, for a non-null value) is UNull of the model; the generated lists have it LAST, where the code and the Spec agree '
                     '(C11_null_alternative_last_agrees); in front of a satisfied alternative the code differs (C11_null_alternative_code_vs_spec; listed finding, its witness runs every time)',
                     'component lists have unique names; reference chains are acyclic (cycles are C12)',
                     'interpretive choices of the Spec: a context lacking a declared component is null as a whole; undeclared entries of a component value are dropped; '
                     'an item of a collection of a referenced type is nulled on its own while a foreign item of a collection of a simple type nulls the list (both as in the code; the property fixes only the component case); '
                     'output variables are coerced by FEEL type only (allowed values are not applied to results)'])


def replay(ctx, path):
    obj = json.load(open(path))
    c = obj.get('case')
    if not c or 'xml' not in c:
        print(json.dumps(obj, indent=1)[:3000])
        return 1
    ctx.build_harness()
    ans = ctx.run_impl('model', [{'xml': c['xml'], 'calls': [[c['invocable'], c['input']]]}])[0]
    print('declared type :', c.get('typeRef'), c.get('type'))
    print('invocable     :', c['invocable'], ' input:', c['input'], ' value under test:', c.get('value'))
    print('implementation:', json.dumps(ans)[:600])
    print('recorded      :', json.dumps(obj.get('impl')), ' expected:', json.dumps(obj.get('model')))
    print('what          :', obj.get('what'))
    same = isinstance(ans, dict) and ans.get('results') and ans['results'][0] == obj.get('impl')
    print('REPRODUCED' if same else 'not reproduced (the implementation now answers differently)')
    return 1 if same else 0


MANIFEST = dict(
    technique='Coq proof (per-copy transliteration of the item-definition / variable / type closures, refinement to a generic Spec, conformance laws for all type trees and values, output coercion from C16) with model/code correspondence on generated DMN documents',
    text='Theorems (coq/Props/C11.v, closed under the global context) for every item-definition tree (simple, referenced, component, collection-of each; allowed values; references followed with fuel) and every value: the 8+8+8+16 copy-pasted closures compute one generic function each; the per-copy model equals the Spec; conforming values pass unchanged; the result conforms (up to nulled components) or is null; checking is idempotent; a component type judges each component on its own; results are coerced to the output type as identity / wrap / unwrap / null (C16). The Spec `check` shares its arms with the per-copy model, so the content against an INDEPENDENT specification is separate (coq/C11/ConfModel.v: resolve = the type tree with references followed, defined iff the fuel covers it; conforms_to = conformance by recursion on the type, C16 type_of for simple types, allowed values, exactly the declared components, every item; spec; none mentions eval_item): a conforming value reaches the decision unchanged for every type (C11_eval_item_conforming_unchanged); for the types judged as a whole (simple, collection of simple, references to such) eval_item = the value if it conforms, else null (C11_eval_item_spec); that plain equation is FALSE for component types (C11_plain_equation_refuted: only the non-conforming component is nulled, as the property words it), and for every type eval_item = spec = conforming unchanged, else component-wise / item-wise, else null (C11_eval_item_spec_general); undeclared entries of a context are dropped, a context lacking a declared component is null as a whole, null conforms to nothing and stays null (C11_extra_entries_dropped, C11_extra_entries_result, C11_missing_component_null, C11_null_not_conforming, C11_null_stays_null; observed on the real code first). Fuel: once it covers the tree the resolved tree, the declared FEEL type and the output coercion are fuel-independent (C11_resolve_fuel_independent, C11_idef_type_declared, C11_var_type_fuel_sufficient, C11_output_fuel_sufficient); the declared type falls back to Any only when the chain of type references ends in an undefined name (C11_var_type_declared), below that fuel it silently becomes Any (C11_var_type_low_fuel), and the check evaluates the fuel condition for every generated input and output type; the output side is one equation (C11_output_spec, C16 coerced_spec). The check also evaluates spec on every input case. The document order of the item definitions is irrelevant: a list of definitions with distinct names and any permutation of it give the same checked input, the same FEEL type of a typed variable and the same coerced result, forward references included (C11_definition_order_irrelevant; the check writes the definitions in a shuffled order). The literal null among allowed values (UNull): inert in the Spec wherever it stands (C11_null_alternative_inert); the code\'s scan, which stops at it (av_ok_code), never admits what the Spec rejects, is the Spec without a null or with the null last, and differs exactly when the value satisfies only an alternative behind the first null (C11_null_alternative_code_sound / _last_agrees / _code_vs_spec; witness C11_null_alternative_first_refuted = the listed finding null-alternative-first, run against the real code every time). Tied to model-evaluator/src/builders/{item_definition,item_definition_type,mod,decision}.rs by evaluating generated documents (all kinds to depth 3, values conforming and violating at every tree position) through evaluate_invocable; on the output side typed decisions, knowledge models and decision services are evaluated directly and the typed knowledge models and services are also invoked from untyped decisions through boxed invocations (also inside a boxed context) and by FEEL calls, each compared with output_value of the callee\'s declared type.',
    note='Trusted: Coq kernel + vm_compute, hand-written models (correspondence-checked, not verified), harness, FEEL parsing/evaluation of the generated literals and unary tests (sampled, not proved). Fixed: referenced types ignored their own allowed values; the allowed values of a collection were tested on the whole list.')
