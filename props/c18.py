"""C18 — the HTTP service always answers well-formed JSON reflecting the workspace.
Proof: coq/Props/C18.v (JSON rendering round trip through a strict RFC 8259 parser for every value, the service as the
C17 workspace state machine, TCK DTO round trip, well-formedness of every answer).
Correspondence: (a) Value::jsonify in process (`dv json`) against coq/C18/Model.v `jsonify`, with the strict parse/decode law
evaluated on the implementation's own output; (b) the live service (`dv serve`, dmntk_server::start_server of the working
tree on a loopback port): request sequences over the C17 model alphabet mixed with malformed requests against
coq/C18/Service.v, constant and echo decisions returning generated values, TCK round trips, liveness after every fault."""
import base64
import http.client
import json
import re
import os
import socket
import subprocess
import time

from vlib import core
from vlib.coqterm import App
from props import c17

HEADER = ('From Coq Require Import List NArith Bool.\nFrom DV Require Import C17.Model C18.Model C18.Service C18.Dto C18.Wire.\n'
          'Import ListNotations.\nOpen Scope N_scope.\n')

# ------------------------------------------------------------------ values
# Python form of a model value: None | bool | ('n', neg, int digits str, frac digits str) | ('s', str) | ('l', [..]) |
# ('c', [(key, v)..]) | ('o', kind, display)

RUST_WS = set([9, 10, 11, 12, 13, 32, 0x85, 0xA0, 0x1680, 0x2028, 0x2029, 0x202F, 0x205F, 0x3000] + list(range(0x2000, 0x200B)))
SPECIAL = [34, 92, 47, 0, 1, 8, 9, 10, 12, 13, 27, 31, 32, 127, 0x80, 0x85, 0xA0, 0xE9, 0x2028, 0xD7FF, 0xE000, 0xFFFD, 0xFFFF,
           0x10000, 0x1F600, 0x10FFFF, 123, 125, 91, 93, 44, 58, 39, 117, 110]


def gen_text(rng, maxlen=8):
    n = rng.choice([0, 1, 1, 2, 3, 5, maxlen])
    out = []
    for _ in range(n):
        r = rng.random()
        if r < 0.45:
            out.append(rng.choice(SPECIAL))
        elif r < 0.85:
            out.append(rng.randint(97, 122))
        elif r < 0.93:
            out.append(rng.randint(0, 31))
        else:
            c = rng.randint(0x80, 0x10FFFF)
            if 0xD800 <= c <= 0xDFFF:
                c = 0xE9
            out.append(c)
    return ''.join(chr(c) for c in out)


def rust_trim(s):
    a, b = 0, len(s)
    while a < b and ord(s[a]) in RUST_WS:
        a += 1
    while b > a and ord(s[b - 1]) in RUST_WS:
        b -= 1
    return s[a:b]


def gen_num(rng):
    neg = rng.random() < 0.3
    r = rng.random()
    if r < 0.25:
        ip = str(rng.randint(0, 9))
    elif r < 0.8:
        ip = str(rng.randint(1, 10 ** rng.choice([1, 2, 5, 12, 20])))
    else:
        ip = str(rng.randint(1, 99)) + '0' * rng.choice([1, 3, 10])
    fp = ''
    if rng.random() < 0.5:
        k = rng.choice([1, 2, 3, 6, 9])
        fp = ''.join(rng.choice('0123456789') for _ in range(k))
        if len(ip) + len(fp) > 30:
            fp = fp[:2]
    if rng.random() < 0.12:
        # magnitudes below 1e-6 with one to three significant digits: the number library prints them in scientific form (-1E-7, 1.23E-9) and the
        # service has to turn that into plain text again (seeded change C18_i: the sign was lost in one branch of that conversion)
        ip, fp = '0', '0' * rng.choice([5, 6, 7, 8, 10, 15, 20]) + str(rng.choice([1, 5, 9, 12, 123, 10, 100]))
    if neg and ip.strip('0') == '' and fp.strip('0') == '':
        neg = False
    return ('n', neg, ip, fp)


OTHERS = [(1, 'date("2021-01-31")'), (2, 'time("10:20:30")'), (3, 'date and time("2021-01-31T10:20:30")'),
          (4, 'duration("P1Y2M")'), (5, 'duration("P1DT2H")'), (5, 'duration("-PT0.5S")'), (2, 'time("23:59:59Z")'),
          (0, '[1..2]'), (0, 'function(a) a'), (1, 'date("0001-01-01")')]


def gen_value(rng, depth=0, others=True):
    r = rng.random()
    if depth >= 3:
        r *= 0.7
    if r < 0.07:
        return None
    if r < 0.15:
        return rng.random() < 0.5
    if r < 0.3:
        return gen_num(rng)
    if r < 0.62:
        return ('s', gen_text(rng))
    if r < 0.7 and others:
        k, e = rng.choice(OTHERS)
        return ('o', k, e)
    if r < 0.85:
        return ('l', [gen_value(rng, depth + 1, others) for _ in range(rng.choice([0, 1, 2, 3, 5]))])
    keys = {}
    for _ in range(rng.choice([0, 1, 2, 3, 4])):
        k = rust_trim(gen_text(rng, 5))
        keys[k] = gen_value(rng, depth + 1, others)
    return ('c', sorted(keys.items(), key=lambda kv: [ord(c) for c in kv[0]]))


def cps(s):
    return [ord(c) for c in s]


def to_req(v):
    """value -> request syntax of `dv json`"""
    if v is None or isinstance(v, bool):
        return v
    t = v[0]
    if t == 'n':
        return {'n': ('-' if v[1] else '') + v[2] + ('.' + v[3] if v[3] else '')}
    if t == 's':
        return {'s': cps(v[1])}
    if t == 'l':
        return {'l': [to_req(x) for x in v[1]]}
    if t == 'c':
        return {'c': [[cps(k), to_req(x)] for k, x in v[1]]}
    return {'o': v[2]}


def from_canon(x, like=None):
    """answer syntax of `dv json` -> value (other kinds: kind taken from the request value `like`)"""
    if x is None or isinstance(x, bool):
        return x
    if 'n' in x:
        t = x['n']
        neg = t.startswith('-')
        t = t.lstrip('-')
        ip, _, fp = t.partition('.')
        return ('n', neg, ip, fp)
    if 's' in x:
        return ('s', ''.join(chr(c) for c in x['s']))
    if 'l' in x:
        ls = like[1] if (like and not isinstance(like, bool) and like[0] == 'l' and len(like[1]) == len(x['l'])) else [None] * len(x['l'])
        return ('l', [from_canon(i, l) for i, l in zip(x['l'], ls)])
    if 'c' in x:
        lk = dict(like[1]) if (like and not isinstance(like, bool) and like[0] == 'c') else {}
        out = []
        for k, i in x['c']:
            ks = ''.join(chr(c) for c in k)
            out.append((ks, from_canon(i, lk.get(ks))))
        return ('c', out)
    kind = like[1] if (like and not isinstance(like, bool) and like[0] == 'o') else 0
    return ('o', kind, x['o'])


def num_mismatch(v, vr):
    """the first number of the requested value v that the implementation holds / prints as ANOTHER number (vr is read back through the number's own
    Display: a slip there would otherwise sit on both sides of the comparison); shapes that differ are not this function's subject"""
    from decimal import Decimal
    if v is None or vr is None or isinstance(v, bool) or isinstance(vr, bool):
        return None
    if v[0] == 'n' and vr[0] == 'n':
        a = Decimal(('-' if v[1] else '') + v[2] + ('.' + v[3] if v[3] else ''))
        try:
            b = Decimal(('-' if vr[1] else '') + vr[2] + ('.' + vr[3] if vr[3] else ''))
        except Exception:
            return (str(a), repr(vr))
        return None if a == b else (str(a), str(b))
    if v[0] == 'l' and vr[0] == 'l' and len(v[1]) == len(vr[1]):
        for x, y in zip(v[1], vr[1]):
            m = num_mismatch(x, y)
            if m:
                return m
    if v[0] == 'c' and vr[0] == 'c':
        d = dict(vr[1])
        for k, x in v[1]:
            if k in d:
                m = num_mismatch(x, d[k])
                if m:
                    return m
    return None


def coq_text(s):
    return '[' + '; '.join(str(ord(c)) for c in s) + ']'


def coq_value(v):
    if v is None:
        return 'VNull'
    if isinstance(v, bool):
        return 'VBool ' + ('true' if v else 'false')
    t = v[0]
    if t == 'n':
        return 'VNum {| nneg := %s; nint := [%s]; nfrac := [%s] |}' % ('true' if v[1] else 'false', '; '.join(v[2]), '; '.join(v[3]))
    if t == 's':
        return 'VStr ' + coq_text(v[1])
    if t == 'l':
        return 'VList [' + '; '.join(coq_value(x) for x in v[1]) + ']'
    if t == 'c':
        return 'VCtx [' + '; '.join('(%s, %s)' % (coq_text(k), coq_value(x)) for k, x in v[1]) + ']'
    return 'VOther %d %s' % (v[1], coq_text(v[2]))


def of_coq_value(t):
    """coqterm of a value -> Python form"""
    if isinstance(t, App):
        n, a = t.name, t.args
        if n == 'VNull':
            return None
        if n == 'VBool':
            return bool(a[0])
        if n == 'VNum':
            r = a[0]
            return ('n', bool(r['nneg']), ''.join(str(d) for d in r['nint']), ''.join(str(d) for d in r['nfrac']))
        if n == 'VStr':
            return ('s', ''.join(chr(c) for c in a[0]))
        if n == 'VList':
            return ('l', [of_coq_value(x) for x in a[0]])
        if n == 'VCtx':
            return ('c', [(''.join(chr(c) for c in k), of_coq_value(x)) for k, x in a[0]])
        if n == 'VOther':
            return ('o', a[0], ''.join(chr(c) for c in a[1]))
    raise ValueError('not a value: %r' % (t,))


def strip(v):
    """other kinds arrive as their text (coq: strip)"""
    if v is None or isinstance(v, bool):
        return v
    if v[0] == 'l':
        return ('l', [strip(x) for x in v[1]])
    if v[0] == 'c':
        return ('c', [(k, strip(x)) for k, x in v[1]])
    if v[0] == 'o':
        return ('s', v[2])
    return v


# ------------------------------------------------------------------ strict RFC 8259 parser (same grammar as coq/C18/Model.v json_parse)
class Bad(Exception):
    pass


def strict_parse(s):
    """s: str (already strictly decoded UTF-8).  Returns the document as a model value (numbers keep their digits);
    raises Bad on anything outside RFC 8259 (or a number with an exponent, reported as ('e', text))."""
    n = len(s)
    pos = [0]

    def ws():
        while pos[0] < n and s[pos[0]] in ' \t\n\r':
            pos[0] += 1

    def value(depth):
        if depth > 200:
            raise Bad('too deep')
        ws()
        if pos[0] >= n:
            raise Bad('unexpected end')
        c = s[pos[0]]
        if s.startswith('null', pos[0]):
            pos[0] += 4
            return None
        if s.startswith('true', pos[0]):
            pos[0] += 4
            return True
        if s.startswith('false', pos[0]):
            pos[0] += 5
            return False
        if c == '"':
            pos[0] += 1
            return ('s', string())
        if c == '[':
            pos[0] += 1
            ws()
            out = []
            if pos[0] < n and s[pos[0]] == ']':
                pos[0] += 1
                return ('l', out)
            while True:
                out.append(value(depth + 1))
                ws()
                if pos[0] < n and s[pos[0]] == ',':
                    pos[0] += 1
                elif pos[0] < n and s[pos[0]] == ']':
                    pos[0] += 1
                    return ('l', out)
                else:
                    raise Bad('expected , or ] at %d' % pos[0])
        if c == '{':
            pos[0] += 1
            ws()
            out = []
            if pos[0] < n and s[pos[0]] == '}':
                pos[0] += 1
                return ('c', out)
            while True:
                ws()
                if pos[0] >= n or s[pos[0]] != '"':
                    raise Bad('expected a member name at %d' % pos[0])
                pos[0] += 1
                k = string()
                ws()
                if pos[0] >= n or s[pos[0]] != ':':
                    raise Bad('expected : at %d' % pos[0])
                pos[0] += 1
                out.append((k, value(depth + 1)))
                ws()
                if pos[0] < n and s[pos[0]] == ',':
                    pos[0] += 1
                elif pos[0] < n and s[pos[0]] == '}':
                    pos[0] += 1
                    return ('c', out)
                else:
                    raise Bad('expected , or } at %d' % pos[0])
        if c == '-' or c.isdigit() and c in '0123456789':
            return number()
        raise Bad('unexpected character %r at %d' % (c, pos[0]))

    def digits():
        a = pos[0]
        while pos[0] < n and s[pos[0]] in '0123456789':
            pos[0] += 1
        return s[a:pos[0]]

    def number():
        neg = False
        if s[pos[0]] == '-':
            neg = True
            pos[0] += 1
        ip = digits()
        if ip == '' or (ip[0] == '0' and len(ip) > 1):
            raise Bad('malformed number at %d' % pos[0])
        fp = ''
        if pos[0] < n and s[pos[0]] == '.':
            pos[0] += 1
            fp = digits()
            if fp == '':
                raise Bad('malformed fraction at %d' % pos[0])
        if pos[0] < n and s[pos[0]] in 'eE':
            pos[0] += 1
            if pos[0] < n and s[pos[0]] in '+-':
                pos[0] += 1
            if digits() == '':
                raise Bad('malformed exponent at %d' % pos[0])
            raise Bad('number with an exponent at %d (values are rendered in plain notation)' % pos[0])
        return ('n', neg, ip, fp)

    def hex4():
        h = s[pos[0]:pos[0] + 4]
        if len(h) != 4 or any(ch not in '0123456789abcdefABCDEF' for ch in h):
            raise Bad('malformed \\u escape at %d' % pos[0])
        pos[0] += 4
        return int(h, 16)

    def string():
        out = []
        while True:
            if pos[0] >= n:
                raise Bad('unterminated string')
            c = s[pos[0]]
            pos[0] += 1
            if c == '"':
                return ''.join(out)
            if c == '\\':
                if pos[0] >= n:
                    raise Bad('unterminated escape')
                e = s[pos[0]]
                pos[0] += 1
                if e == 'u':
                    u = hex4()
                    if 0xD800 <= u <= 0xDBFF:
                        if s[pos[0]:pos[0] + 2] != '\\u':
                            raise Bad('lone high surrogate at %d' % pos[0])
                        pos[0] += 2
                        lo = hex4()
                        if not 0xDC00 <= lo <= 0xDFFF:
                            raise Bad('lone high surrogate at %d' % pos[0])
                        out.append(chr(0x10000 + (u - 0xD800) * 1024 + (lo - 0xDC00)))
                    elif 0xDC00 <= u <= 0xDFFF:
                        raise Bad('lone low surrogate at %d' % pos[0])
                    else:
                        out.append(chr(u))
                elif e in '"\\/':
                    out.append(e)
                elif e in 'bfnrt':
                    out.append({'b': '\b', 'f': '\f', 'n': '\n', 'r': '\r', 't': '\t'}[e])
                else:
                    raise Bad('unknown escape \\%s at %d' % (e, pos[0]))
            elif ord(c) < 32:
                raise Bad('raw control character U+%04X in a string at %d' % (ord(c), pos[0]))
            else:
                out.append(c)

    v = value(0)
    ws()
    if pos[0] != n:
        raise Bad('text after the document at %d' % pos[0])
    return v


def parse_body(raw):
    """bytes -> (value, None) or (None, reason)"""
    try:
        s = raw.decode('utf-8', errors='strict')
    except UnicodeDecodeError as e:
        return None, 'body is not UTF-8: %s' % e
    try:
        return strict_parse(s), None
    except Bad as e:
        return None, str(e)
    except RecursionError:
        return None, 'too deep'


def member(doc, key):
    if doc is None or isinstance(doc, bool) or doc[0] != 'c':
        return None
    for k, v in doc[1]:
        if k == key:
            return (v,)
    return None


# ------------------------------------------------------------------ FEEL text of a value (what a client writes)
def feel_string(s, rng=None):
    out = ['"']
    for ch in s:
        c = ord(ch)
        if ch == '"':
            out.append('\\"')
        elif ch == '\\':
            out.append('\\\\')
        elif c < 32 or c in (0x85, 0x2028, 0x2029, 127, 0xFFFE, 0xFFFF) or 0x7F <= c < 0xA0:
            out.append('\\u%04X' % c)
        elif c > 0xFFFF:
            out.append('\\U%06X' % c if (rng is None or rng.random() < 0.5) else ch)
        elif c > 126:
            out.append('\\u%04X' % c if (rng is not None and rng.random() < 0.3) else ch)
        else:
            out.append(ch)
    out.append('"')
    return ''.join(out)


def feel_value(v, rng=None):
    if v is None:
        return 'null'
    if isinstance(v, bool):
        return 'true' if v else 'false'
    t = v[0]
    if t == 'n':
        return ('-' if v[1] else '') + v[2] + ('.' + v[3] if v[3] else '')
    if t == 's':
        return feel_string(v[1], rng)
    if t == 'l':
        return '[' + ', '.join(feel_value(x, rng) for x in v[1]) + ']'
    if t == 'c':
        return '{' + ', '.join('%s: %s' % (feel_string(k, rng), feel_value(x, rng)) for k, x in v[1]) + '}'
    return v[2]


def xml_escape(s):
    return s.replace('&', '&amp;').replace('<', '&lt;').replace('>', '&gt;').replace('"', '&quot;')


XMLNS = 'xmlns="https://www.omg.org/spec/DMN/20191111/MODEL/"'


def const_model(exprs):
    body = ''.join('<decision name="k%d" id="k%d"><variable name="k%d"/><literalExpression><text>%s</text></literalExpression></decision>'
                   % (i, i, i, xml_escape(e)) for i, e in enumerate(exprs))
    return '<?xml version="1.0" encoding="UTF-8"?><definitions namespace="nsk" name="consts" id="dk" %s>%s</definitions>' % (XMLNS, body)


ECHO_INPUTS = [('xs', 'string'), ('xn', 'number'), ('xb', 'boolean'), ('xd', 'date'), ('xt', 'time'), ('xdt', 'dateTime'),
               ('xym', 'yearMonthDuration'), ('xdd', 'dayTimeDuration'), ('xl', 'tStrs'), ('xr', 'tRec')]


def echo_model():
    items = ('<itemDefinition name="tStrs" isCollection="true"><typeRef>string</typeRef></itemDefinition>'
             '<itemDefinition name="tRec"><itemComponent name="a"><typeRef>string</typeRef></itemComponent>'
             '<itemComponent name="b b"><typeRef>number</typeRef></itemComponent></itemDefinition>')
    inputs = ''.join('<inputData name="%s" id="i_%s"><variable name="%s" typeRef="%s"/></inputData>' % (n, n, n, t) for n, t in ECHO_INPUTS)

    def dec(name, expr, reqs):
        r = ''.join('<informationRequirement><requiredInput href="#i_%s"/></informationRequirement>' % x for x in reqs)
        return '<decision name="%s" id="d_%s"><variable name="%s"/>%s<literalExpression><text>%s</text></literalExpression></decision>' % (
            name, name, name, r, xml_escape(expr))
    decs = ''.join(dec('e_' + n, n, [n]) for n, _ in ECHO_INPUTS)
    decs += dec('mix', '{"s t r": xs, list: [xs, xn, xb, null, [xs]], nested: {"q\\"k": xs, n: xn}}', ['xs', 'xn', 'xb'])
    return '<?xml version="1.0" encoding="UTF-8"?><definitions namespace="nse" name="echo" id="de" %s>%s%s%s</definitions>' % (XMLNS, items, inputs, decs)


# ------------------------------------------------------------------ TCK DTO (transliteration of coq/C18/Dto.v to_dto / from_dto on JSON documents)
XSD = {1: 'xsd:date', 2: 'xsd:time', 3: 'xsd:dateTime', 4: 'xsd:duration', 5: 'xsd:duration'}


def to_dto(v):
    def simple(ty, tx):
        return {'simple': {'type': ty, 'text': tx, 'isNil': False}, 'components': None, 'list': None}
    if v is None:
        return {'simple': {'type': None, 'text': None, 'isNil': True}, 'components': None, 'list': None}
    if isinstance(v, bool):
        return simple('xsd:boolean', 'true' if v else 'false')
    t = v[0]
    if t == 'n':
        return simple('xsd:decimal', ('-' if v[1] else '') + v[2] + ('.' + v[3] if v[3] else ''))
    if t == 's':
        return simple('xsd:string', v[1])
    if t == 'o':
        return simple(XSD[v[1]], v[2]) if v[1] in XSD else {'simple': None, 'components': None, 'list': None}
    if t == 'l':
        return {'simple': None, 'components': None, 'list': {'items': [to_dto(x) for x in v[1]], 'isNil': False}}
    return {'simple': None, 'list': None, 'components': [{'name': k, 'value': to_dto(x), 'isNil': False} for k, x in v[1]]}


def coq_opt_text(x):
    return 'None' if x is None else '(Some %s)' % coq_text(x)


def coq_bool(b):
    return 'true' if b else 'false'


def coq_dto(d):
    """ValueDto as received (ordinary JSON) -> term of coq/C18/Dto.v `dto` (first member present among simple / components / list)"""
    if not isinstance(d, dict):
        return 'DNone'
    sm = d.get('simple')
    if isinstance(sm, dict):
        return '(DSimple %s %s %s)' % (coq_opt_text(sm.get('type')), coq_opt_text(sm.get('text')), coq_bool(sm.get('isNil')))
    cs = d.get('components')
    if isinstance(cs, list):
        return '(DComponents [%s])' % '; '.join('(%s, %s, %s)' % (coq_opt_text(c.get('name')), '(Some %s)' % coq_dto(c['value']) if isinstance(c.get('value'), dict) else 'None',
                                                              coq_bool(c.get('isNil'))) for c in cs)
    ls = d.get('list')
    if isinstance(ls, dict):
        return '(DList [%s] %s)' % ('; '.join(coq_dto(x) for x in ls.get('items', [])), coq_bool(ls.get('isNil')))
    return 'DNone'


def plain_json(doc):
    """strictly parsed document -> ordinary Python JSON (numbers as text)"""
    if doc is None or isinstance(doc, bool):
        return doc
    if doc[0] == 's':
        return doc[1]
    if doc[0] == 'n':
        return {'#': ('-' if doc[1] else '') + doc[2] + ('.' + doc[3] if doc[3] else '')}
    if doc[0] == 'l':
        return [plain_json(x) for x in doc[1]]
    return {k: plain_json(x) for k, x in doc[1]}


# ------------------------------------------------------------------ the live service
class Service:
    def __init__(self, exe):
        s = socket.socket()
        s.bind(('127.0.0.1', 0))
        self.port = s.getsockname()[1]
        s.close()
        env = {k: v for k, v in os.environ.items() if k not in ('HOST', 'PORT', 'DMNTK_HOST', 'DMNTK_PORT', 'DIR', 'DMNTK_DIR')}
        self.p = subprocess.Popen([exe, 'serve', str(self.port)], stdout=subprocess.DEVNULL, stderr=subprocess.DEVNULL, env=env)
        for _ in range(200):
            try:
                socket.create_connection(('127.0.0.1', self.port), timeout=0.2).close()
                return
            except OSError:
                if self.p.poll() is not None:
                    break
                time.sleep(0.05)
        raise RuntimeError('the service did not start (exit status %s)' % self.p.poll())

    def req(self, method, path, body=None, ctype='application/json', timeout=20):
        """-> (status, content type, body bytes) or ('transport', text)"""
        c = http.client.HTTPConnection('127.0.0.1', self.port, timeout=timeout)
        h = {}
        if body is not None:
            if isinstance(body, str):
                body = body.encode('utf-8')
            if ctype:
                h['Content-Type'] = ctype
        try:
            c.request(method, path, body=body, headers=h)
            r = c.getresponse()
            d = r.read()
            return (r.status, r.getheader('content-type') or '', d)
        except (ConnectionError, http.client.HTTPException, socket.timeout, OSError) as e:
            return ('transport', repr(e))
        finally:
            c.close()

    def alive(self):
        r = self.req('GET', '/system/info', timeout=10)
        if r[0] != 200:
            return False
        doc, why = parse_body(r[2])
        return why is None and member(doc, 'data') is not None

    def stop(self):
        try:
            self.p.kill()
            self.p.wait(timeout=5)
        except Exception:
            pass


def b64(s):
    return base64.b64encode(s.encode('utf-8') if isinstance(s, str) else s).decode()


def jd(x):
    return json.dumps(x)


# request alphabet of the state-machine correspondence: (name, coq request, method, path, body, ctype, class)
def request_alphabet():
    M = c17.MODELS
    A = []
    for i in range(6):
        A.append(('add%d' % i, 'QAdd (CModel %s)' % c17.coq_mdl(i), 'POST', '/definitions/add', jd({'content': b64(c17.XMLS[i])}), 'application/json', 'op'))
    for i in range(6):
        A.append(('replace%d' % i, 'QReplace (CModel %s)' % c17.coq_mdl(i), 'POST', '/definitions/replace', jd({'content': b64(c17.XMLS[i])}), 'application/json', 'op'))
    for n, k in [(1, 11), (1, 12), (2, 11), (3, 13), (9, 99), (4, 14)]:
        A.append(('remove%d_%d' % (n, k), 'QRemove (Some %d) (Some %d)' % (n, k), 'POST', '/definitions/remove', jd({'namespace': 'ns%d' % n, 'name': 'm%d' % k}), 'application/json', 'op'))
    A.append(('clear', 'QClear', 'POST', '/definitions/clear', None, None, 'op'))
    A.append(('deploy', 'QDeploy', 'POST', '/definitions/deploy', None, None, 'op'))
    for k in (11, 12, 13, 14, 99):
        A.append(('eval%d' % k, 'QEvaluate %d true' % k, 'POST', '/evaluate/m%d/dec' % k, '{x: 1}', 'text/plain', 'op'))
        A.append(('tck%d' % k, 'QTck (Some %d) true (Some true)' % k, 'POST', '/tck/evaluate', jd({'model': 'm%d' % k, 'invocable': 'dec', 'input': []}), 'application/json', 'op'))
    # ordinary requests that are merely LARGE (well under the 4 MB limit the service sets for JSON bodies): they behave like the small ones
    # (seeded change C18_f: the limit silently fell back to the framework's 32 KiB)
    pad = lambda x, n: x.replace('</definitions>', '<!-- ' + 'pad ' * (n // 4) + '--></definitions>')
    A.append(('add1-large', 'QAdd (CModel %s)' % c17.coq_mdl(1), 'POST', '/definitions/add', jd({'content': b64(pad(c17.XMLS[1], 60 * 1024))}), 'application/json', 'op'))
    A.append(('replace3-large', 'QReplace (CModel %s)' % c17.coq_mdl(3), 'POST', '/definitions/replace', jd({'content': b64(pad(c17.XMLS[3], 1024 * 1024))}), 'application/json', 'op'))
    A.append(('tck11-large', 'QTck (Some 11) true (Some true)', 'POST', '/tck/evaluate',
              jd({'model': 'm11', 'invocable': 'dec', 'input': [{'name': 'x', 'value': {'simple': {'type': 'xsd:string', 'text': 'A' * 40000, 'isNil': False}}},
                                                                {'name': 'y', 'value': {'list': {'items': [{'simple': {'type': 'xsd:decimal', 'text': str(k), 'isNil': False}} for k in range(3000)], 'isNil': False}}}]}),
              'application/json', 'op'))
    # requests that never reach the workspace
    A.append(('eval-bad-input', 'QEvaluate 11 false', 'POST', '/evaluate/m11/dec', '{x: ', 'text/plain', 'fault'))
    A.append(('eval-empty-input', 'QEvaluate 11 false', 'POST', '/evaluate/m11/dec', '', 'text/plain', 'fault'))
    A.append(('add-no-content', 'QAdd CMissing', 'POST', '/definitions/add', '{}', 'application/json', 'fault'))
    A.append(('add-bad-base64', 'QAdd CBadBase64', 'POST', '/definitions/add', jd({'content': '@@@not base64@@@'}), 'application/json', 'fault'))
    A.append(('add-bad-utf8', 'QAdd CBadUtf8', 'POST', '/definitions/add', jd({'content': base64.b64encode(b'\xff\xfe<definitions/>').decode()}), 'application/json', 'fault'))
    A.append(('add-bad-xml', 'QAdd CBadXml', 'POST', '/definitions/add', jd({'content': b64('<definitions><decision></definitions>')}), 'application/json', 'fault'))
    A.append(('add-other-xml', 'QAdd CBadXml', 'POST', '/definitions/add', jd({'content': b64('<a/>')}), 'application/json', 'fault'))
    A.append(('replace-no-content', 'QReplace CMissing', 'POST', '/definitions/replace', '{"other": 1}', 'application/json', 'fault'))
    A.append(('replace-bad-base64', 'QReplace CBadBase64', 'POST', '/definitions/replace', jd({'content': '****'}), 'application/json', 'fault'))
    A.append(('replace-bad-utf8', 'QReplace CBadUtf8', 'POST', '/definitions/replace', jd({'content': base64.b64encode(b'\xc3\x28').decode()}), 'application/json', 'fault'))
    A.append(('replace-bad-xml', 'QReplace CBadXml', 'POST', '/definitions/replace', jd({'content': b64('not xml at all')}), 'application/json', 'fault'))
    A.append(('remove-no-namespace', 'QRemove None (Some 11)', 'POST', '/definitions/remove', jd({'name': 'm11'}), 'application/json', 'fault'))
    A.append(('remove-no-name', 'QRemove (Some 1) None', 'POST', '/definitions/remove', jd({'namespace': 'ns1'}), 'application/json', 'fault'))
    A.append(('tck-no-model', 'QTck None true (Some true)', 'POST', '/tck/evaluate', jd({'invocable': 'dec', 'input': []}), 'application/json', 'fault'))
    A.append(('tck-no-invocable', 'QTck (Some 11) false (Some true)', 'POST', '/tck/evaluate', jd({'model': 'm11', 'input': []}), 'application/json', 'fault'))
    A.append(('tck-no-input', 'QTck (Some 11) true None', 'POST', '/tck/evaluate', jd({'model': 'm11', 'invocable': 'dec'}), 'application/json', 'fault'))
    A.append(('tck-bad-input', 'QTck (Some 11) true (Some false)', 'POST', '/tck/evaluate', jd({'model': 'm11', 'invocable': 'dec', 'input': [{'name': 'x', 'value': {}}]}), 'application/json', 'fault'))
    # an invalid typed value NESTED in a list / in a component of a list item: the request fails as a whole (seeded change C18_g: the invalid
    # item was dropped and data computed from the shorter list)
    ok_item = {'simple': {'type': 'xsd:decimal', 'text': '1', 'isNil': False}}
    for tag, bad in (('text', {'simple': {'type': 'xsd:decimal', 'text': 'oops', 'isNil': False}}), ('type', {'simple': {'type': 'xsd:nothing', 'text': '1', 'isNil': False}}),
                     ('bool', {'simple': {'type': 'xsd:boolean', 'text': 'maybe', 'isNil': False}}), ('date', {'simple': {'type': 'xsd:date', 'text': '2021-13-45', 'isNil': False}}),
                     ('empty', {})):
        A.append(('tck-bad-item-in-list-' + tag, 'QTck (Some 11) true (Some false)', 'POST', '/tck/evaluate',
                  jd({'model': 'm11', 'invocable': 'dec', 'input': [{'name': 'x', 'value': {'list': {'items': [ok_item, bad, ok_item], 'isNil': False}}}]}), 'application/json', 'fault'))
        A.append(('tck-bad-item-in-nested-list-' + tag, 'QTck (Some 11) true (Some false)', 'POST', '/tck/evaluate',
                  jd({'model': 'm11', 'invocable': 'dec', 'input': [{'name': 'x', 'value': {'components': [{'name': 'c', 'value': {'list': {'items': [{'list': {'items': [bad], 'isNil': False}}], 'isNil': False}},
                                                                                                       'isNil': False}], 'isNil': False}}]}), 'application/json', 'fault'))
    A.append(('tck-input-no-value', 'QTck (Some 11) true (Some false)', 'POST', '/tck/evaluate', jd({'model': 'm11', 'invocable': 'dec', 'input': [{'name': 'x'}]}), 'application/json', 'fault'))
    A.append(('tck-bad-type', 'QTck (Some 11) true (Some false)', 'POST', '/tck/evaluate',
              jd({'model': 'm11', 'invocable': 'dec', 'input': [{'name': 'x', 'value': {'simple': {'type': 'xsd:nothing', 'text': '1', 'isNil': False}}}]}), 'application/json', 'fault'))
    for nm, body, ct in [('bad-json', '{"content": ', 'application/json'), ('not-json', 'hello', 'application/json'), ('empty-json', '', 'application/json'),
                         ('wrong-type', '{"content": 1}', 'application/json'), ('wrong-ctype', jd({'content': b64(c17.XMLS[0])}), 'text/plain'),
                         ('bad-utf8-json', b'{"content":"\xff\xfe"}', 'application/json'), ('lone-surrogate', '{"content":"\\ud800"}', 'application/json')]:
        A.append(('add-' + nm, 'QRejected', 'POST', '/definitions/add', body, ct, 'rejected'))
    A.append(('tck-bad-json', 'QRejected', 'POST', '/tck/evaluate', '{"model": "m11", "invocable"', 'application/json', 'rejected'))
    A.append(('tck-wrong-type', 'QRejected', 'POST', '/tck/evaluate', '{"model": 11}', 'application/json', 'rejected'))
    A.append(('remove-array', 'QRejected', 'POST', '/definitions/remove', '[1, 2]', 'application/json', 'rejected'))
    A.append(('get-nothing', 'QNoRoute', 'GET', '/nothing', None, None, 'noroute'))
    A.append(('get-clear', 'QNoRoute', 'GET', '/definitions/clear', None, None, 'noroute'))
    A.append(('post-evaluate-short', 'QNoRoute', 'POST', '/evaluate/m11', '{}', 'text/plain', 'noroute'))
    A.append(('put-deploy', 'QNoRoute', 'PUT', '/definitions/deploy', None, None, 'noroute'))
    # rejected by the framework before the handler; known finding class when the answer is not JSON
    A.append(('eval-bad-utf8', 'QEvaluate 11 false', 'POST', '/evaluate/m11/dec', b'{x: "\xff\xfe"}', 'text/plain', 'fault'))
    A.append(('eval-oversized', 'QRejected', 'POST', '/evaluate/m11/dec', '{x: "' + 'A' * (300 * 1024) + '"}', 'text/plain', 'rejected'))
    A.append(('add-oversized', 'QRejected', 'POST', '/definitions/add', '{"content":"' + 'A' * (4 * 1024 * 1024 + 4096) + '"}', 'application/json', 'oversized'))
    return A


STATUS_TEXT = {1: 'definitions cleared', 2: 'definitions replaced', 3: 'definitions removed', 4: 'definitions deployed'}


def classify(resp):
    """HTTP answer -> (class, detail); class in data/errors/malformed/transport"""
    if resp[0] == 'transport':
        return 'transport', resp[1]
    status, ctype, raw = resp
    doc, why = parse_body(raw)
    if why is not None:
        return 'malformed', 'status %s content-type %s: %s: %r' % (status, ctype, why, raw[:120])
    if not ctype.startswith('application/json'):
        return 'malformed', 'content type %r for body %r' % (ctype, raw[:80])
    if doc is None or isinstance(doc, bool) or doc[0] != 'c' or len(doc[1]) != 1:
        return 'malformed', 'not an object with exactly one member: %r' % (raw[:120],)
    e = member(doc, 'errors')
    if e is not None:
        ev = e[0]
        okform = (ev is not None and not isinstance(ev, bool) and ev[0] == 'l' and len(ev[1]) >= 1 and
                  all(member(x, 'details') is not None and member(x, 'details')[0] is not None and member(x, 'details')[0][0] == 's' for x in ev[1]))
        if not okform:
            return 'malformed', 'errors member is not a list of {details: text}: %r' % (raw[:120],)
        return 'errors', (status, doc)
    d = member(doc, 'data')
    if d is not None:
        return 'data', (status, d[0])
    return 'malformed', 'neither data nor errors: %r' % (raw[:120],)


def expected_reply(rep, name, stored, defs):
    """model reply (coqterm) -> ('data', python json) | ('errors', status) ; stored: (ns,nm) -> model index"""
    n, a = rep.name, rep.args
    if n == 'RAdded':
        return ('data', {'namespace': 'ns%d' % a[0], 'name': 'm%d' % a[1]})
    if n == 'RStatus':
        return ('data', {'status': STATUS_TEXT[a[0]]})
    if n == 'RValue':
        k = a[0]
        cand = [stored.get((ns, nm)) for ns, nm in defs if nm == k]
        val = c17.MODELS[cand[0]][3] if cand and cand[0] is not None else None
        if name.startswith('tck'):
            return ('data', {'value': to_dto(('n', False, str(val), ''))})
        return ('data', {'#': str(val)})
    e = a[0].name
    return ('errors', 400 if e == 'EBadRequest' else 200)


def run_sequences(ctx, svc, seqs, alphabet):
    """state-machine correspondence; returns histogram"""
    hist = {}
    terms = ['serve_trace [%s]' % '; '.join(alphabet[i][1] for i in s) for s in seqs]
    traces = ctx.run_model(HEADER, terms, shard_size=40, tag='svc')
    for s, tr in zip(seqs, traces):
        ctx.evaluations += 1
        r0 = svc.req('POST', '/definitions/clear')
        if classify(r0)[0] != 'data':
            ctx.violation('the service does not answer /definitions/clear at the start of a sequence: %r' % (classify(r0),), {'sequence': []})
            return hist
        stored = {}
        names = [alphabet[i][0] for i in s]
        if sum(1 for i in s if alphabet[i][6] != 'op') >= 2 and any(n.startswith(('replace', 'remove')) for n in names):
            ctx.nontrivial.add(tuple(names))
        for step, (i, (rep, defs)) in enumerate(zip(s, tr)):
            name, _, method, path, body, ctype, cls = alphabet[i]
            hist[cls] = hist.get(cls, 0) + 1
            resp = svc.req(method, path, body, ctype)
            got = classify(resp)
            case = {'sequence': names[:step + 1], 'request': {'method': method, 'path': path, 'content_type': ctype,
                                                                'body': (body if isinstance(body, str) else repr(body))[:600] if body is not None else None}}
            ctx.corr_checked += 1
            # liveness after anything that is not a plain operation
            if cls != 'op' and not svc.alive():
                ctx.violation('after the request %s the service no longer answers GET /system/info' % name, case, impl=str(resp)[:300])
                return hist
            if cls in ('extractor', 'oversized') and got[0] in ('malformed', 'transport'):
                if cls == 'oversized' and got[0] == 'transport':
                    continue        # the connection is closed while the client is still sending: no response exists
                if cls == 'oversized' and resp[0] in (400, 413):
                    continue
            if got[0] == 'malformed' or got[0] == 'transport':
                ctx.violation('request %s: the answer is not a well-formed JSON result document: %s' % (name, got[1]), case, impl=str(resp)[:400], model=str(rep))
                continue
            exp = expected_reply(rep, name, stored, defs)
            if exp[0] == 'errors':
                if got[0] != 'errors':
                    ctx.violation('request %s: answered data %s where the workspace semantics give an error (%s)' % (name, jd(plain_json(got[1][1]))[:200], rep), case,
                                  impl=jd(plain_json(got[1][1]))[:400], model=str(rep))
                elif cls in ('rejected',) and got[1][0] != 400:
                    ctx.corr_broken('status of a rejected body', case, got[1][0], 400)
                continue
            if got[0] != 'data':
                ctx.violation('request %s: answered an error %s where the workspace semantics give %s' % (name, jd(plain_json(got[1][1]))[:300], rep), case,
                              impl=jd(plain_json(got[1][1]))[:400], model=str(rep))
                continue
            if plain_json(got[1][1]) != exp[1]:
                ctx.violation('request %s: answered %s, the workspace semantics give %s' % (name, jd(plain_json(got[1][1]))[:300], jd(exp[1])), case,
                              impl=jd(plain_json(got[1][1]))[:400], model=jd(exp[1]))
                continue
            if rep.name == 'RAdded' or (rep.name == 'RStatus' and rep.args[0] == 2):
                mi = int(re.search(r'(\d)', name).group(1))      # add3, replace4, add1-large, replace3-large
                stored[(c17.MODELS[mi][0], c17.MODELS[mi][1])] = mi
        if len(ctx.samples) < 2 and len(s) >= 8:
            ctx.sample({'sequence': names, 'model_replies': [str(r) for r, _ in tr]})
    return hist


def gen_sequences(ctx, alphabet):
    idx = {a[0]: i for i, a in enumerate(alphabet)}
    ops = [i for i, a in enumerate(alphabet) if a[6] == 'op']
    heavy = [i for i, a in enumerate(alphabet) if a[0].endswith('-oversized')]
    faults = [i for i, a in enumerate(alphabet) if a[6] in ('fault', 'rejected', 'noroute') and i not in heavy]
    seqs = [[idx[n] for n in ['add0', 'add0', 'replace0', 'deploy', 'eval11', 'replace4', 'eval11', 'deploy', 'eval11', 'tck11']],
            [idx[n] for n in ['add0', 'add1', 'replace3', 'add-bad-base64', 'deploy', 'eval-bad-utf8', 'eval11', 'eval12', 'remove1_12', 'eval11']],
            [idx[n] for n in ['add5', 'add0', 'deploy', 'eval14', 'eval11', 'add-oversized', 'eval11', 'eval-oversized', 'tck11', 'clear', 'eval11']]]
    # every request of the alphabet (operations that succeed, operations that are refused - an add whose namespace or name is taken -, faults,
    # unknown routes) sent to a DEPLOYED workspace and followed by evaluations: a refused or failing request must not disturb what follows
    # (seeded change C18_e: a refused duplicate add deleted the deployed evaluators)
    for x in range(len(alphabet)):
        if x not in heavy:
            seqs.append([idx['add0'], idx['add1'], idx['deploy'], idx['eval11'], x, idx['eval11'], idx['eval12'], idx['tck11']])
    for _ in range(ctx.pick(90, 1500)):
        L = ctx.rng.randint(6, ctx.pick(14, 40))
        s = []
        for _ in range(L):
            r = ctx.rng.random()
            if r < 0.62:
                s.append(ctx.rng.choice(ops))
            elif r < 0.985:
                s.append(ctx.rng.choice(faults))
            else:
                s.append(ctx.rng.choice(heavy))
        seqs.append(s)
    return seqs


# ------------------------------------------------------------------ failing requests with hostile client-controlled text
# Every endpoint that can fail is sent requests that DO fail (or may fail) and whose client-controlled parts - body text, percent-encoded
# path segments, JSON string members, model / invocable / input names, type names and lexical forms of TCK values, Base64 content that
# decodes to text, namespace / name / decision logic of a submitted model - contain characters that a hand-made JSON writer gets wrong.
# Oracle (unchanged): the answer parses with the strict parser above, is an object with exactly one of data / errors, errors is a list
# of {details: text}; where the request cannot succeed the member must be `errors`; plus: a text the service echoes must not come back
# as "the same characters read as JSON escapes" (`dev\bin` decoding to dev<U+0008>in is a body written without escaping).
HOSTILE_CHARS = [('quotation mark', '"'), ('reverse solidus', '\\'), ('solidus', '/'), ('NUL', '\x00'), ('U+0001', '\x01'), ('backspace', '\x08'), ('tab', '\t'),
                 ('line feed', '\n'), ('form feed', '\x0c'), ('carriage return', '\r'), ('escape', '\x1b'), ('U+001F', '\x1f'), ('delete U+007F', '\x7f'),
                 ('next line U+0085', '\x85'), ('line separator U+2028', '\u2028'), ('paragraph separator U+2029', '\u2029'), ('U+FFFF', '\uffff'),
                 ('non-BMP U+1F600', '\U0001F600'), ('non-BMP U+10FFFF', '\U0010FFFF'), ('apostrophe', "'"), ('percent sign', '%')]
# texts that are well-formed JSON escape sequences when copied into a JSON string unescaped: the body parses, the message is another one
HOSTILE_LOOKALIKES = ['dev\\bin', 'a\\nb', 'a\\tb', 'x\\u0041y', 'x\\/y', 'C:\\\\temp', 'say \\"hi\\"', 'q\\ud83d\\ude00', 'tail\\', '\\', '\\\\', '\\u00', '\\ud800', 'a\r\nb', '%5C%0A', '&#10;&quot;']
XML_OK = lambda c: c in (9, 10, 13) or 0x20 <= c <= 0xD7FF or 0xE000 <= c <= 0xFFFD or 0x10000 <= c <= 0x10FFFF


def hostile_texts(ctx):
    """[(class label, text)]"""
    rng = ctx.rng
    out = []
    for label, ch in HOSTILE_CHARS:
        forms = ['a%sb' % ch, ch, 'ab' + ch, ch + ch + 'z']
        for f in (forms if ctx.tier != 'quick' else [forms[0], rng.choice(forms[1:])]):
            out.append((label, f))
    for t in HOSTILE_LOOKALIKES:
        out.append(('escape look-alike', t))
    out.append(('all of them', 'm' + ''.join(ch for _, ch in HOSTILE_CHARS) + 'z'))
    for _ in range(ctx.pick(6, 200)):
        out.append(('random mix', ''.join(rng.choice([rng.choice(HOSTILE_CHARS)[1], rng.choice('abz 1{}:,[]')]) for _ in range(rng.randint(2, 12)))))
    out.append(('very long text', 'L' * 20000 + '\\' + '\n' + 'x' * 20000))
    out.append(('very long text', ('long "q" \\ \t' * 4000)))
    out.append(('very long text', 'y' * 200000))
    return out


def pct(t, keep=''):
    from urllib.parse import quote
    return quote(t.encode('utf-8', 'surrogatepass'), safe=keep)


def xml_attr(t):
    """attribute value that denotes t: character references for everything XML would normalise or that is markup"""
    return ''.join(ch if (ch.isalnum() and ord(ch) < 128) or ch in ' .-_' else '&#%d;' % ord(ch) for ch in t)


def json_forms(obj, rng):
    """two well-formed JSON texts of the same document: ASCII with \\u escapes (surrogate pairs), and raw UTF-8 with short escapes"""
    return [json.dumps(obj), json.dumps(obj, ensure_ascii=False)]


def mangled(t):
    """what a JSON reader makes of t copied between quotation marks with only the quotation marks escaped (None: not well-formed)"""
    try:
        v = strict_parse('"' + t.replace('"', '\\"') + '"')
    except (Bad, RecursionError):
        return None
    return v[1] if v[1] != t else None


def hostile_model(ns, name, logic='1'):
    return ('<?xml version="1.0" encoding="UTF-8"?><definitions namespace="%s" name="%s" id="dh" %s><decision name="dec" id="kh"><variable name="dec"/>'
            '<literalExpression><text>%s</text></literalExpression></decision></definitions>' % (ns, name, XMLNS, logic))


def hostile_requests_for(label, t, rng, full=True):
    """[(placement, method, path, body, ctype, expect)] expect: 'errors' (the request cannot succeed) | 'any'.  No setup needed."""
    R = []
    short = len(t) <= 3000
    tq = pct(t)
    if not short:
        # long texts: only where the text is echoed or decoded as a whole
        if len(tq) <= 30000:
            R.append(('evaluate: model name in the path', 'POST', '/evaluate/%s/dec' % tq, '{}', 'text/plain', 'errors'))
        R.append(('evaluate: malformed body (unclosed context ending in the text)', 'POST', '/evaluate/m11/dec', '{x: ' + t, 'text/plain', 'errors'))
        R.append(('evaluate: body is the text', 'POST', '/evaluate/m11/dec', t, 'text/plain', 'errors'))
        R.append(('tck: model name', 'POST', '/tck/evaluate', jd({'model': t, 'invocable': 'dec', 'input': []}), 'application/json', 'errors'))
        R.append(('tck: lexical form of xsd:date', 'POST', '/tck/evaluate', jd({'model': 'm11', 'invocable': 'dec', 'input': [{'name': 'x', 'value': {'simple': {'type': 'xsd:date', 'text': t, 'isNil': False}}}]}), 'application/json', 'any'))
        R.append(('add: content decodes to the text (not XML)', 'POST', '/definitions/add', jd({'content': b64(t)}), 'application/json', 'errors'))
        R.append(('replace: content is the text (not Base64 of a model)', 'POST', '/definitions/replace', jd({'content': t}), 'application/json', 'errors'))
        R.append(('remove: name missing', 'POST', '/definitions/remove', jd({'namespace': t}), 'application/json', 'errors'))
        return R
    if len(tq) <= 30000:           # the request head is limited by the HTTP layer (32 KiB in actix-http), see the assumptions
        R.append(('evaluate: model name in the path', 'POST', '/evaluate/%s/dec' % tq, '{}', 'text/plain', 'errors'))
        R.append(('evaluate: invocable name in the path', 'POST', '/evaluate/m11/%s' % tq, '{x: 1}', 'text/plain', 'any'))
        R.append(('evaluate: both names in the path, body spanning lines', 'POST', '/evaluate/%s/%s' % (tq, tq) if len(tq) < 30000 else '/evaluate/%s/d' % tq, '{\n\tx: 1\n}', 'text/plain', 'errors'))
        R.append(('no such endpoint', rng.choice(['GET', 'POST']), '/%s' % tq, None, None, 'errors'))
        R.append(('no such endpoint under /definitions', 'POST', '/definitions/%s' % tq, '{}', 'application/json', 'errors'))
    R.append(('evaluate: malformed body (unclosed context ending in the text)', 'POST', '/evaluate/m11/dec', '{x: ' + t, 'text/plain', 'errors' if '}' not in t else 'any'))
    R.append(('evaluate: body is the text', 'POST', '/evaluate/m11/dec', t, 'text/plain', 'any' if t.strip().startswith('{') else 'errors'))
    R.append(('evaluate: text raw inside a string of the body', 'POST', '/evaluate/m11/dec', '{x: "' + t + '"}', 'text/plain', 'any'))
    R.append(('evaluate: malformed body spanning lines', 'POST', '/evaluate/m11/dec', '{\n  x: 1,\n\ty: ' + t + '\n  z: \n', 'text/plain', 'any'))
    R.append(('evaluate: text as FEEL string, unknown model', 'POST', '/evaluate/nomodel/dec', '{x: %s}' % feel_string(t), 'text/plain', 'errors'))
    val = lambda ty, tx: {'simple': {'type': ty, 'text': tx, 'isNil': False}}
    tck = [('tck: model name', {'model': t, 'invocable': 'dec', 'input': []}, 'errors'),
           ('tck: invocable name', {'model': 'm11', 'invocable': t, 'input': []}, 'any'),
           ('tck: input name', {'model': 'm11', 'invocable': 'dec', 'input': [{'name': t, 'value': val('xsd:decimal', '1')}]}, 'any'),
           ('tck: type name', {'model': 'm11', 'invocable': 'dec', 'input': [{'name': 'x', 'value': val(t, '1')}]}, 'errors'),
           ('tck: component name', {'model': 'm11', 'invocable': 'dec', 'input': [{'name': 'x', 'value': {'components': [{'name': t, 'value': val('xsd:string', t), 'isNil': False}]}}]}, 'any')]
    for ty in ('xsd:decimal', 'xsd:date', 'xsd:time', 'xsd:dateTime', 'xsd:duration', 'xsd:boolean', 'xsd:double'):
        tck.append(('tck: lexical form of %s' % ty, {'model': 'm11', 'invocable': 'dec', 'input': [{'name': 'x', 'value': val(ty, t)}]}, 'any'))
    for pl, obj, exp in tck:
        for body in (json_forms(obj, rng) if full else [rng.choice(json_forms(obj, rng))]):
            R.append((pl, 'POST', '/tck/evaluate', body, 'application/json', exp))
    for ep in ('add', 'replace'):
        R.append(('%s: content decodes to the text (not XML)' % ep, 'POST', '/definitions/' + ep, jd({'content': b64(t)}), 'application/json', 'errors'))
        R.append(('%s: content is the text (not Base64 of a model)' % ep, 'POST', '/definitions/' + ep, rng.choice(json_forms({'content': t}, rng)), 'application/json', 'errors'))
        R.append(('%s: XML with the text in an attribute, not a model' % ep, 'POST', '/definitions/' + ep, jd({'content': b64('<a b="%s">%s</a>' % (xml_attr(t), xml_attr(t)))}), 'application/json', 'errors'))
        R.append(('%s: model with the raw text between the tags' % ep, 'POST', '/definitions/' + ep, jd({'content': b64(hostile_model('nsh', 'mh') + t)}), 'application/json', 'any'))
        R.append(('%s: body is not JSON, contains the raw text' % ep, 'POST', '/definitions/' + ep, '{"content": "' + t, 'application/json', 'errors'))
        R.append(('%s: unknown member named by the text, content missing' % ep, 'POST', '/definitions/' + ep, jd({t: t}), 'application/json', 'errors' if t != 'content' else 'any'))
        R.append(('%s: content of the wrong type next to the text' % ep, 'POST', '/definitions/' + ep, jd({'content': [t]}), 'application/json', 'errors'))
    R.append(('remove: namespace and name', 'POST', '/definitions/remove', rng.choice(json_forms({'namespace': t, 'name': t}, rng)), 'application/json', 'any'))
    R.append(('remove: name missing', 'POST', '/definitions/remove', jd({'namespace': t}), 'application/json', 'errors'))
    R.append(('remove: body is not JSON', 'POST', '/definitions/remove', '{"namespace": "' + t + '}', 'application/json', 'any' if mangled(t + '}') is not None or '"' in t else 'errors'))
    return R


LONE_SURROGATE_BODIES = [
    ('tck: lone surrogate escape in the model name', '/tck/evaluate', '{"model": "a\\ud800b", "invocable": "dec", "input": []}'),
    ('tck: lone low surrogate escape in the invocable name', '/tck/evaluate', '{"model": "m11", "invocable": "\\udc00", "input": []}'),
    ('tck: lone surrogate escape in a lexical form', '/tck/evaluate', '{"model": "m11", "invocable": "dec", "input": [{"name": "x", "value": {"simple": {"type": "xsd:string", "text": "\\ud83d", "isNil": false}}}]}'),
    ('tck: surrogate pair escape in a lexical form', '/tck/evaluate', '{"model": "m11", "invocable": "dec", "input": [{"name": "x", "value": {"simple": {"type": "xsd:decimal", "text": "\\ud83d\\ude00\\\\", "isNil": false}}}]}'),
    ('add: lone surrogate escape in the content', '/definitions/add', '{"content": "QUJD\\udfff"}'),
    ('replace: lone surrogate escape in the content', '/definitions/replace', '{"content": "\\ud800\\ud800"}'),
    ('remove: lone surrogate escape in the namespace', '/definitions/remove', '{"namespace": "\\ud800", "name": "m"}'),
    ('remove: reversed surrogate pair escape', '/definitions/remove', '{"namespace": "\\udc00\\ud800", "name": "m"}'),
    ('add: member name with a lone surrogate escape', '/definitions/add', '{"\\ud800": 1}'),
    ('add: raw control characters in a JSON string', '/definitions/add', '{"content": "a\tb\nc\x00d"}'),
    ('tck: raw control characters in a JSON string', '/tck/evaluate', '{"model": "a\x1f\\", "invocable": "dec", "input": []}'),
]
BAD_PATHS = ['%', '%zz', '%5', '%FF', '%C0%AF', '%ED%A0%80', '%F4%90%80%80', '%00', '%2F', '%252F', '..%2F..', '%E2%80%A8%5C', 'a%0D%0Ab', '%5C%22%0A']


def hostile_verdict(resp, got, t, expect):
    """None, or what is wrong with the answer `resp` (classified as `got`) to a request carrying the text t"""
    if got[0] in ('malformed', 'transport'):
        return ': the answer is not a well-formed JSON result document: %s' % (got[1],)
    if expect == 'errors' and got[0] != 'errors':
        return 'cannot succeed but the failure is not reported in the errors member: %s' % jd(plain_json(got[1][1]))[:300]
    # texts of the answer: a text echoed must not be "the same characters read as JSON escapes"
    m = mangled(t) if len(t) <= 400 else None
    if m:
        strings = []

        def walk(d):
            if d is None or isinstance(d, bool):
                return
            if d[0] == 's':
                strings.append(d[1])
            elif d[0] == 'l':
                for x in d[1]:
                    walk(x)
            elif d[0] == 'c':
                for _, x in d[1]:
                    walk(x)
        walk(got[1][1])
        if any(m in x and t not in x for x in strings):
            return ': the answer is well-formed but carries %r where the text sent is %r: the body was written without escaping' % (m, t)
    return None


def hostile_phase(ctx, svc):
    """-> (number of requests, histogram placement -> count, histogram class of text -> count)"""
    rng = ctx.rng
    n_req, hp, hc = 0, {}, {}
    texts = hostile_texts(ctx)

    def judge(setup, placement, label, t, method, path, body, ctype, expect):
        nonlocal n_req
        resp = svc.req(method, path, body, ctype)
        n_req += 1
        ctx.evaluations += 1
        ctx.corr_checked += 1
        hp[placement] = hp.get(placement, 0) + 1
        hc[label] = hc.get(label, 0) + 1
        got = classify(resp)
        case = {'hostile': placement, 'text_class': label, 'expect': expect, 'text': [ord(c) for c in t] if len(t) <= 400 else {'length': len(t), 'head': [ord(c) for c in t[:60]]}, 'setup': setup,
                'request': {'method': method, 'path': path if len(path) < 5000 else path[:200] + '...', 'content_type': ctype,
                            'body': (body[:600] if body is not None else None)},
                'replay_request': {'method': method, 'path': path, 'content_type': ctype, 'body_b64': base64.b64encode(body.encode('utf-8')).decode() if body is not None else None}}
        shown = '%s %s%s' % (method, path[:160], (' body %r' % body[:160]) if body is not None else '')
        # (a TCK number text holding U+0000 used to get no response at all: fixed in /repo 290959d, now an ordinary case)
        bad = hostile_verdict(resp, got, t, expect)
        if bad:
            ctx.violation('%s (text: %s) - request %s %s' % (placement, label, shown, bad), case, impl=str(resp)[:600])
            return None
        if got[0] == 'errors' and any(ord(c) < 32 or c in '"\\' for c in t):
            ctx.nontrivial.add((placement, t[:40]))
        return got

    # (1) requests that need no particular state: against the empty workspace and against a workspace with a deployed model m11
    for state in ('empty', 'deployed'):
        svc.req('POST', '/definitions/clear')
        setup = [['POST', '/definitions/clear', None]]
        if state == 'deployed':
            svc.req('POST', '/definitions/add', jd({'content': b64(c17.XMLS[0])}))
            svc.req('POST', '/definitions/deploy')
            setup += [['POST', '/definitions/add', jd({'content': b64(c17.XMLS[0])})], ['POST', '/definitions/deploy', None]]
        for label, t in texts:
            if state == 'deployed' and ctx.tier == 'quick' and (len(t) > 3000 or (label != 'all of them' and rng.random() < 0.6)):
                continue
            for placement, method, path, body, ctype, expect in hostile_requests_for(label, t, rng, full=ctx.tier != 'quick'):
                judge(setup, placement + ' [' + state + ' workspace]', label, t, method, path, body, ctype, expect)
            if not svc.alive():
                ctx.violation('after failing requests carrying %s the service no longer answers GET /system/info' % label, {'hostile': 'liveness', 'text': [ord(c) for c in t[:400]]})
                return n_req, hp, hc
        for placement, path, body in LONE_SURROGATE_BODIES:
            judge(setup, placement + ' [' + state + ' workspace]', 'surrogate escape / raw control in JSON', '', 'POST', path, body, 'application/json', 'errors' if 'pair' not in placement else 'any')
        for bp in BAD_PATHS:
            judge(setup, 'evaluate: malformed or unusual percent-encoding in the path [' + state + ' workspace]', 'percent-encoding', '', 'POST', '/evaluate/%s/%s' % (bp, bp), '{}', 'text/plain', 'errors')
            judge(setup, 'no such endpoint: percent-encoding [' + state + ' workspace]', 'percent-encoding', '', 'GET', '/system/%s' % bp, None, None, 'errors')
    # (2) the text as namespace / name / decision logic of a submitted model: add, add again, deploy, evaluate by that name, replace, remove
    for label, t in texts:
        if len(t) > 3000:
            continue
        ok_xml = all(XML_OK(ord(c)) for c in t)
        nsname = (xml_attr(t), xml_attr(t)) if ok_xml else (xml_escape(t), xml_escape(t))       # characters XML excludes go in raw: the document is refused
        docs = [('model named by the text', hostile_model(nsname[0], nsname[1])),
                ('model whose decision logic is the text', hostile_model('nsl', 'ml', xml_escape(t) if ok_xml else t)),
                ('model whose decision logic is a string literal with the text', hostile_model('nss', 'ms', xml_escape(feel_string(t)) + ' + 1 +'))]
        for what, doc in docs:
            svc.req('POST', '/definitions/clear')
            setup = [['POST', '/definitions/clear', None]]
            content = jd({'content': b64(doc)})
            ok_xml = all(XML_OK(ord(c)) for c in doc)
            steps = [('add', 'POST', '/definitions/add', content, 'application/json', 'any' if ok_xml else 'errors'),
                     ('add again', 'POST', '/definitions/add', content, 'application/json', 'errors'),
                     ('deploy', 'POST', '/definitions/deploy', None, None, 'any'),
                     ('evaluate by that model name', 'POST', '/evaluate/%s/dec' % (pct(t) if what.startswith('model named') else 'ml' if 'is the text' in what else 'ms'), '{}', 'text/plain', 'any'),
                     ('tck evaluate by that model name', 'POST', '/tck/evaluate', jd({'model': t if what.startswith('model named') else 'ml', 'invocable': 'dec', 'input': []}), 'application/json', 'any'),
                     ('replace', 'POST', '/definitions/replace', content, 'application/json', 'any' if ok_xml else 'errors'),
                     ('remove', 'POST', '/definitions/remove', jd({'namespace': t, 'name': t}), 'application/json', 'any')]
            for step, method, path, body, ctype, expect in steps:
                judge(list(setup), '%s: %s' % (what, step), label, t, method, path, body, ctype, expect)
                setup.append([method, path, body])
    # (3) a request head above the limit of the HTTP layer (32 KiB in actix-http) never reaches a handler: whatever the HTTP layer answers
    # (observed: 408 with an empty body) is recorded, not judged - the property speaks of the answers of the service's handlers
    resp = svc.req('POST', '/evaluate/%s/dec' % ('h' * 40000), '{}', 'text/plain')
    n_req += 1
    ctx.cov['request_head_over_http_layer_limit'] = 'status %s, body %r' % (resp[0], resp[2][:80]) if resp[0] != 'transport' else 'no response: %s' % resp[1][:80]
    if not svc.alive():
        ctx.violation('after the failing requests with hostile text the service no longer answers GET /system/info', {'hostile': 'liveness'})
    svc.req('POST', '/definitions/clear')
    return n_req, hp, hc


# ------------------------------------------------------------------ rendering correspondence
def check_render_case(ctx, v_real, impl_cps, model_cps, decoded, case, where):
    """v_real: the value rendered; impl_cps: code points written by the implementation; model_cps: coq jsonify v;
    decoded: coq json_decode of the implementation's text (coqterm)."""
    text = ''.join(chr(c) for c in impl_cps)
    want = strip(v_real)
    doc, why = (None, None)
    try:
        doc = strict_parse(text)
    except Bad as e:
        why = str(e)
    law_ok = why is None and doc == want
    coq_ok = isinstance(decoded, App) and decoded.name == 'Some' and of_coq_value(decoded.args[0]) == want
    if law_ok != coq_ok:
        ctx.corr_broken('strict parser of the driver disagrees with coq json_decode', case, text[:200], str(decoded)[:200])
    if not (law_ok and coq_ok):
        ctx.violation('%s: the rendered text %r %s' % (where, text[:160], ('is not well-formed JSON: ' + why) if why else 'does not decode to the evaluated value'),
                      case, impl=text[:600], model=''.join(chr(c) for c in model_cps)[:600])
        return False
    if impl_cps != model_cps:
        ctx.corr_broken('jsonify text', case, text[:200], ''.join(chr(c) for c in model_cps)[:200])
        return False
    return True


def is_number_print_defect(v, text):
    return False


def value_kinds(v, acc):
    if v is None:
        acc.add('null')
    elif isinstance(v, bool):
        acc.add('bool')
    elif v[0] in ('n', 's', 'o'):
        acc.add({'n': 'number', 's': 'string', 'o': 'other'}[v[0]])
        if v[0] == 's':
            for ch in v[1]:
                c = ord(ch)
                acc.add('quote' if c == 34 else 'backslash' if c == 92 else 'control' if c < 32 else 'astral' if c > 0xFFFF else 'non-ascii' if c > 126 else 'ascii')
    elif v[0] == 'l':
        acc.add('list')
        for x in v[1]:
            value_kinds(x, acc)
    else:
        acc.add('context')
        for k, x in v[1]:
            if any(ord(ch) in (34, 92) or ord(ch) < 32 for ch in k):
                acc.add('key-needs-escape')
            value_kinds(x, acc)


def run(ctx):
    t0 = time.time()
    ctx.proof_gate()
    t1 = time.time()
    exe = ctx.build_harness()
    t2 = time.time()
    kinds = set()
    # ---- (a) Jsonify in process
    vals = [('s', 'Hello Jo"hn'), ('l', [('s', 'a", "b')]), ('c', [('a": 1, "b', None)]), ('o', 1, 'date("2021-01-01")'),
            ('s', '\\'), ('s', '\x00\x1f\x7f'), ('c', [('', ('s', ''))]), ('n', True, '0', '00000015'), ('n', False, '1' + '0' * 30, '')]
    for _ in range(ctx.pick(1800, 40000)):
        vals.append(gen_value(ctx.rng))
    impl = ctx.run_impl('json', [{'v': to_req(v)} for v in vals])
    real, keep = [], []
    for v, r in zip(vals, impl):
        if 'json' not in r:
            ctx.violation('rendering a value crashed or was refused: %s' % jd(r)[:200], {'value': to_req(v)}, impl=r)
            continue
        vr = from_canon(r['canon'], v)
        real.append(vr)
        keep.append((v, r))
    terms = ['(jsonify (%s), json_decode [%s])' % (coq_value(vr), '; '.join(str(c) for c in r['json'])) for vr, (v, r) in zip(real, keep)]
    model = ctx.run_model(HEADER, terms, shard_size=200, tag='json')
    for vr, (v, r), (mj, md) in zip(real, keep, model):
        ctx.evaluations += 1
        ctx.corr_checked += 1
        value_kinds(vr, kinds)
        case = {'value': to_req(v), 'feel': feel_value(v)[:300]}
        nm = num_mismatch(v, vr)
        if nm:
            ctx.violation('the number %s is printed as %s (plain text of a number denotes exactly its value)' % nm, case, impl=nm[1], model=nm[0])
            continue
        if not has_other(v) and vr != v and len(ctx.notes) < 3:
            ctx.notes.append('value built differently from the request: %s' % jd(case)[:200])
        ok = check_render_case(ctx, vr, r['json'], mj, md, case, 'Value::jsonify')
        if ok:
            ks = set()
            value_kinds(vr, ks)
            if ks & {'quote', 'backslash', 'control', 'key-needs-escape', 'other'}:
                ctx.nontrivial.add(jd(to_req(v)))
        if len(ctx.samples) < 2 and ok and vr is not None and not isinstance(vr, bool) and vr[0] == 'c' and len(vr[1]) >= 2:
            ctx.sample({'value': feel_value(v)[:200], 'rendered': ''.join(chr(c) for c in r['json'])[:200]})
    # ---- (b) the live service
    t3 = time.time()
    hist = {}
    svc = Service(exe)
    n_http = 0
    try:
        alphabet = request_alphabet()
        seqs = gen_sequences(ctx, alphabet)
        hist = run_sequences(ctx, svc, seqs, alphabet)
        n_http += sum(len(s) for s in seqs)
        n_http += live_values(ctx, svc, kinds)
        t4 = time.time()
        hn, hplace, hclass = hostile_phase(ctx, svc)
        n_http += hn
        ctx.cov['hostile_failing_requests'] = {'requests': hn, 'seconds': round(time.time() - t4, 1), 'by_text_class': hclass, 'placements': len(hplace)}
        ctx.cov['hostile_placements'] = hplace
    finally:
        svc.stop()
    ctx.cov['phase_seconds'] = {'proof_gate_incl_lock_wait': round(t1 - t0, 1), 'harness_build_incl_lock_wait': round(t2 - t1, 1),
                                'jsonify_in_process': round(t3 - t2, 1), 'live_service': round(time.time() - t3, 1)}
    return ctx.finish(
        rule='(a) %d generated values (strings and keys over quotation mark, reverse solidus, control, non-ASCII and astral characters; numbers; nested lists and '
             'contexts; dates, times, durations, ranges, functions) rendered by Value::jsonify in process; (b) live service: %d request sequences over the C17 '
             'alphabet of six DMN documents x add/replace/remove/clear/deploy/evaluate/tck-evaluate mixed with malformed requests (bad JSON, type, content type, '
             'base64, UTF-8, XML, missing parameters, unknown endpoints, oversized bodies), constant and echo decisions returning generated values through '
             '/evaluate and /tck/evaluate; (c) failing requests with hostile text: for every endpoint that can fail (evaluate, tck/evaluate, definitions add / replace / remove / deploy, unknown '
             'endpoints) requests that fail or may fail whose client-controlled parts - percent-encoded path segments (model, invocable, endpoint), the /evaluate body (malformed, spanning lines, '
             'raw text inside a string), JSON string members in ASCII-escaped and raw UTF-8 form (model, invocable, input and component names, type names, lexical forms of 7 xsd types, content, '
             'namespace, name, unknown members), Base64 content decoding to the text / to XML holding it, namespace / name / decision logic of a submitted model (add, add again, deploy, '
             'evaluate by that name, replace, remove) - hold each of: quotation mark, reverse solidus, solidus, U+0000, U+0001, backspace, tab, LF, FF, CR, ESC, U+001F, U+007F, U+0085, '
             'U+2028, U+2029, U+FFFF, two non-BMP characters, apostrophe, percent sign (alone, inside, at the end, doubled), 16 texts that are JSON escape sequences when copied unescaped '
             '(dev\\bin, a\\nb, \\u0041, trailing reverse solidus ...), all of them at once, random mixes, texts of 40 k - 200 k characters; lone / reversed surrogate escapes and raw control '
             'characters in JSON bodies; 14 malformed or unusual percent-encodings; against an empty workspace and one with a deployed model; every answer must parse strictly, hold exactly one of '
             'data / errors (errors where the request cannot succeed) and must not echo the text as "the same characters read as JSON escapes"; '
             'non-trivial = value needing an escape or of a non-JSON kind / sequence with >= 2 faults and a replace or remove / failing request whose text needs an escape' % (len(vals), len(seqs)),
        extra_cov={'exhaustive': False, 'http_requests': n_http, 'request_classes': hist, 'value_features': sorted(kinds)},
        assumptions=['the six DMN documents of the C17 alphabet stand for all models (the handlers look at namespace, name and buildability only)',
                     'error texts are not compared (only: errors member present, list of {details: text}, HTTP status 400 for bodies refused by the JSON extractor)',
                     'the lexical forms of numbers and temporal values are the subject of C07 / C14; here they are leaves that must survive the transport unchanged',
                     'a request head above the limit of the HTTP layer (32 KiB in actix-http; e.g. a 40 k path segment) never reaches a handler; the answer of the HTTP layer '
                     '(observed: status 408, empty body) is recorded in coverage.request_head_over_http_layer_limit and not judged; path segments of up to 30 k characters are judged'],
        trusted=['actix-web, serde_json, base64, TCP: exercised by the live correspondence, not modelled (level: partial for the transport)',
                 'the strict RFC 8259 parser of the Python driver is cross-checked against coq json_decode on every in-process case'])


def has_other(v):
    if v is None or isinstance(v, bool):
        return False
    if v[0] == 'o':
        return True
    if v[0] == 'l':
        return any(has_other(x) for x in v[1])
    if v[0] == 'c':
        return any(has_other(x) for _, x in v[1])
    return False


def live_values(ctx, svc, kinds):
    """constant decisions (generated FEEL literals inside a deployed model), echo decisions over typed inputs, TCK round trips"""
    n_req = 0
    rng = ctx.rng
    batches = ctx.pick(8, 150)
    per = 25
    for b in range(batches):
        vals = [gen_value(rng) for _ in range(per)]
        if b == 0:
            vals[:4] = [('s', 'Hello Jo"hn'), ('c', [('a": 1, "b', ('l', [('s', '\\"')]))]), ('o', 1, 'date("2021-01-01")'), ('s', ' \x01é\U0001F600')]
        exprs = [feel_value(v, rng) for v in vals]
        # what these literals denote for the evaluator (FEEL lexing is not the subject here)
        real = ctx.run_impl('json', [{'feel': '{x: %s}' % e, 'key': 'x'} for e in exprs])
        svc.req('POST', '/definitions/clear')
        r1 = classify(svc.req('POST', '/definitions/add', jd({'content': b64(const_model(exprs))})))
        r2 = classify(svc.req('POST', '/definitions/deploy'))
        n_req += 3
        if r1[0] != 'data' or r2[0] != 'data':
            ctx.corr_broken('constant model not accepted', {'exprs': exprs[:3]}, str(r1)[:200], 'data')
            continue
        todo = []
        for i, (v, e, rr) in enumerate(zip(vals, exprs, real)):
            if 'canon' not in rr:
                continue
            vr = from_canon(rr['canon'], v)
            resp = svc.req('POST', '/evaluate/consts/k%d' % i, '{}', 'text/plain')
            n_req += 1
            todo.append((v, e, vr, resp))
        terms = ['jsonify (%s)' % coq_value(vr) for _, _, vr, _ in todo]
        model = ctx.run_model(HEADER, terms, shard_size=200, tag='live')
        for (v, e, vr, resp), mj in zip(todo, model):
            ctx.evaluations += 1
            ctx.corr_checked += 1
            value_kinds(vr, kinds)
            case = {'decision_logic': e[:400], 'request': 'POST /evaluate/consts/kN'}
            nm = num_mismatch(v, vr)
            if nm:
                ctx.violation('the number %s written in a decision\'s logic is printed as %s' % nm, case, impl=nm[1], model=nm[0])
                continue
            if resp[0] == 'transport':
                ctx.violation('no answer to an evaluation: %s' % resp[1], case)
                continue
            got = classify(resp)
            want_body = '{"data":' + ''.join(chr(c) for c in mj) + '}'
            if got[0] != 'data' or got[1][1] != strip(vr):
                ctx.violation('/evaluate of a decision returning %s: the body %r %s' % (e[:120], resp[2][:160], 'is not a well-formed result document: ' + str(got[1])[:200]
                              if got[0] in ('malformed',) else 'does not decode to the evaluated value'), case, impl=repr(resp[2][:600]), model=want_body[:600])
                continue
            if resp[2].decode('utf-8') != want_body:
                ctx.corr_broken('/evaluate body text', case, repr(resp[2][:200]), want_body[:200])
    # echo decisions over typed inputs, FEEL input and TCK input
    svc.req('POST', '/definitions/clear')
    r1 = classify(svc.req('POST', '/definitions/add', jd({'content': b64(echo_model())})))
    r2 = classify(svc.req('POST', '/definitions/deploy'))
    if r1[0] != 'data' or r2[0] != 'data':
        ctx.corr_broken('echo model not accepted', {}, str(r1)[:300], 'data')
        return n_req
    tck_cases = []
    temporal = {'xd': (1, 'date', ['2021-01-31', '1999-12-31']), 'xt': (2, 'time', ['10:20:30', '23:59:59Z']),
                'xdt': (3, 'date and time', ['2021-01-31T10:20:30', '2000-02-29T00:00:00Z']),
                'xym': (4, 'duration', ['P1Y2M', '-P3M']), 'xdd': (5, 'duration', ['P1DT2H', '-PT0.5S', 'PT0S'])}
    for _ in range(ctx.pick(160, 3000)):
        which = rng.choice(['xs', 'xs', 'xs', 'xn', 'xb', 'xl', 'xr', 'mix', 'mix'] + list(temporal))
        s_val = ('s', gen_text(rng, 10))
        n_val = gen_num(rng)
        b_val = rng.random() < 0.5
        if which == 'xs':
            inputs, dec, want = {'xs': s_val}, 'e_xs', s_val
        elif which == 'xn':
            inputs, dec, want = {'xn': n_val}, 'e_xn', n_val
        elif which == 'xb':
            inputs, dec, want = {'xb': b_val}, 'e_xb', b_val
        elif which == 'xl':
            l = ('l', [('s', gen_text(rng, 6)) for _ in range(rng.choice([0, 1, 2, 4]))])
            inputs, dec, want = {'xl': l}, 'e_xl', l
        elif which == 'xr':
            r = ('c', [('a', ('s', gen_text(rng, 6))), ('b b', gen_num(rng))])
            inputs, dec, want = {'xr': r}, 'e_xr', r
        elif which == 'mix':
            inputs, dec = {'xs': s_val, 'xn': n_val, 'xb': b_val}, 'mix'
            want = ('c', [('list', ('l', [s_val, n_val, b_val, None, ('l', [s_val])])), ('nested', ('c', [('n', n_val), ('q"k', s_val)])), ('s t r', s_val)])
        else:
            k, ctor, texts = temporal[which]
            t = rng.choice(texts)
            inputs, dec, want = {which: ('o', k, '%s("%s")' % (ctor, t))}, 'e_' + which, ('o', k, t)
        value_kinds(want, kinds)
        # FEEL input through /evaluate
        body = '{' + ', '.join('%s: %s' % (k, feel_value(v, rng)) for k, v in inputs.items()) + '}'
        resp = svc.req('POST', '/evaluate/echo/' + dec, body, 'text/plain')
        n_req += 1
        ctx.evaluations += 1
        ctx.corr_checked += 1
        case = {'request': 'POST /evaluate/echo/' + dec, 'body': body[:500]}
        got = classify(resp) if resp[0] != 'transport' else ('transport', resp[1])
        if got[0] != 'data' or got[1][1] != strip(want):
            # is the input read differently by the FEEL lexer?  then the echo is of another value: not the subject here
            rr = ctx.run_impl('json', [{'feel': '{x: %s}' % body, 'key': 'x'}])[0]
            seen = from_canon(rr['canon'], ('c', sorted(inputs.items()))) if 'canon' in rr else None
            if seen is not None and strip(seen) != strip(('c', sorted(inputs.items()))):
                if len(ctx.notes) < 5:
                    ctx.notes.append('input read differently by the FEEL lexer (not compared): %s' % body[:120])
            else:
                ctx.violation('/evaluate echo of %s: %s' % (body[:160], 'answer %r does not decode to the value sent' % (resp[2][:200] if resp[0] != 'transport' else resp[1],)),
                              case, impl=repr(resp[2][:600]) if resp[0] != 'transport' else resp[1], model=jd(to_req(strip(want)))[:600])
        # TCK input through /tck/evaluate: typed values sent and received round-trip unchanged
        tin = {}
        for k, v in inputs.items():
            tin[k] = ('o', v[1], v[2][v[2].index('"') + 1:-2]) if (not isinstance(v, bool) and v is not None and v[0] == 'o') else v
        req = {'model': 'echo', 'invocable': dec, 'input': [{'name': k, 'value': {kk: vv for kk, vv in to_dto(v).items() if vv is not None}} for k, v in tin.items()]}
        resp = svc.req('POST', '/tck/evaluate', jd(req))
        n_req += 1
        ctx.evaluations += 1
        ctx.corr_checked += 1
        case = {'request': 'POST /tck/evaluate', 'body': jd(req)[:700]}
        got = classify(resp) if resp[0] != 'transport' else ('transport', resp[1])
        want_dto = {'value': to_dto(want)}
        if got[0] != 'data' or plain_json(got[1][1]) != want_dto:
            ctx.violation('/tck/evaluate: the typed value sent is not the typed value received: sent %s' % jd(req['input'])[:200], case,
                          impl=repr(resp[2][:700]) if resp[0] != 'transport' else resp[1], model=jd({'data': want_dto})[:700])
        else:
            tck_cases.append((want, resp[2], plain_json(got[1][1]), case))
            if want is not None and not isinstance(want, bool) and want[0] in ('c', 'o'):
                ctx.nontrivial.add(jd(req)[:300])
    # the Coq DTO model against the same answers: value -> to_dto0 -> JSON tree -> compact text must be the body received,
    # and the DTO received, read by from_dto0, must be the value sent (C18_tck_roundtrip_concrete is about these functions)
    terms = ['(tck_body (%s), from_dto0 %s)' % (coq_value(w), coq_dto(pj.get('value'))) for w, _, pj, _ in tck_cases]
    model = ctx.run_model(HEADER, terms, shard_size=60, tag='tck')
    for (w, raw, pj, case), (mbody, mback) in zip(tck_cases, model):
        ctx.corr_checked += 1
        body_model = ''.join(chr(c) for c in mbody)
        back = of_coq_value(mback.args[0]) if isinstance(mback, App) and mback.name == 'Some' else 'None'
        if back != w:
            ctx.corr_broken('TCK: coq from_dto0 of the DTO received is not the value sent', case, str(back)[:300], jd(to_req(w))[:300])
        elif raw.decode('utf-8') != body_model:
            ctx.corr_broken('TCK: /tck/evaluate body differs from coq tck_body (same document)', case, repr(raw[:300]), body_model[:300])
    ctx.cov['tck_round_trips_through_coq_model'] = len(tck_cases)
    return n_req


def replay(ctx, path):
    obj = json.load(open(path))
    case = obj.get('case', {})
    exe = ctx.build_harness()
    print('what:', obj.get('what'))
    if 'value' in case:
        r = ctx.run_impl('json', [{'v': case['value']}])[0]
        text = ''.join(chr(c) for c in r.get('json', []))
        print('value       :', jd(case['value']))
        print('jsonify     :', text)
        try:
            doc = strict_parse(text)
            vr = from_canon(r['canon'])
            same = doc == strip(vr)
            print('strict parse: ok; decodes to the value: %s' % same)
            fail = not same
        except Bad as e:
            print('strict parse: REJECTED: %s' % e)
            fail = True
        print('REPRODUCED' if fail else 'not reproduced')
        return 1 if fail else 0
    svc = Service(exe)
    try:
        if 'hostile' in case:
            for method, path, body in case.get('setup', []):
                print('%-5s %-40s -> %s' % (method, path[:40], str(svc.req(method, path, body, 'application/json' if body is not None else None))[:160]))
            rq = case['replay_request']
            body = base64.b64decode(rq['body_b64']).decode('utf-8') if rq.get('body_b64') is not None else None
            resp = svc.req(rq['method'], rq['path'], body, rq['content_type'])
            print('request :', rq['method'], rq['path'][:300], repr(body[:300]) if body is not None else '')
            print('answer  :', str(resp)[:800])
            t = ''.join(chr(c) for c in case['text']) if isinstance(case.get('text'), list) else ''
            bad = hostile_verdict(resp, classify(resp), t, case.get('expect', 'any'))
            print('alive   :', svc.alive())
            print('REPRODUCED %s' % bad if bad else 'not reproduced (a well-formed result document with the expected member)')
            return 1 if bad else 0
        if 'sequence' in case:
            alphabet = {a[0]: a for a in request_alphabet()}
            svc.req('POST', '/definitions/clear')
            last = None
            for n in case['sequence']:
                a = alphabet[n]
                last = svc.req(a[2], a[3], a[4], a[5])
                print('%-22s -> %s' % (n, str(last)[:200]))
            tr = ctx.run_model(HEADER, ['serve_trace [%s]' % '; '.join(alphabet[n][1] for n in case['sequence'])])[0]
            print('model replies:', [str(r) for r, _ in tr])
            print('alive:', svc.alive())
            print('(compare the last answer with the last model reply)')
            got = classify(last)
            rep = tr[-1][0]
            bad = got[0] in ('malformed', 'transport') or (rep.name == 'RErr') != (got[0] == 'errors')
            print('REPRODUCED' if bad else 'not reproduced (answer class agrees with the model; value comparison: rerun the check)')
            return 1 if bad else 0
        if 'decision_logic' in case:
            svc.req('POST', '/definitions/clear')
            print(svc.req('POST', '/definitions/add', jd({'content': b64(const_model([case['decision_logic']]))})))
            print(svc.req('POST', '/definitions/deploy'))
            resp = svc.req('POST', '/evaluate/consts/k0', '{}', 'text/plain')
            print('answer:', resp)
            got = classify(resp)
            print('REPRODUCED' if got[0] != 'data' else 'answer is a well-formed data document: %s' % jd(plain_json(got[1][1]))[:300])
            return 1 if got[0] != 'data' else 0
        if 'body' in case:
            svc.req('POST', '/definitions/clear')
            svc.req('POST', '/definitions/add', jd({'content': b64(echo_model())}))
            svc.req('POST', '/definitions/deploy')
            method, path = case['request'].split(' ')
            resp = svc.req(method, path, case['body'], 'application/json' if path.startswith('/tck') else 'text/plain')
            print('answer:', resp)
            print('expected:', obj.get('model'))
            got = classify(resp)
            try:
                want = json.loads(obj.get('model') or 'null')
            except ValueError:
                want = None
            same = got[0] == 'data' and isinstance(want, dict) and 'data' in want and plain_json(got[1][1]) == want['data']
            if not path.startswith('/tck'):
                same = got[0] == 'data' and want is not None and jd(to_req(got[1][1])) == jd(want)
            print('not reproduced' if same else 'REPRODUCED')
            return 0 if same else 1
    finally:
        svc.stop()
    return 1


MANIFEST = dict(
    technique='Coq proof (JSON rendering round trip through a strict RFC 8259 parser by induction over values; the handler model refines a specification stated as a relation over the abstract workspace of C17 and response classes; TCK round trip on the wire) with correspondence against the live HTTP service',
    text='Theorems (coq/Props/C18.v, closed under the global context): for every value built from null/boolean/number/string/list/context the rendered text is accepted by a strict RFC 8259 parser and decodes to the value (every string and key: quotation marks, reverse solidus, control and non-ASCII characters), other kinds are rendered as JSON strings; the SPECIFICATION of the service (coq/C18/Spec.v) is a relation between a request, the abstract workspace of C17 (a set of stored documents and a served relation, given by predicates) before and after it, and the CLASS of the answer (which member is present: data or errors; what the data denotes: the namespace and name of the stored document, a status, the value computed by the document that is served) - written without the handler model; C18_serve_refines_spec: for every request sequence the answers of the handler model have the classes, and its workspace read through the abstraction function is the abstract workspace, that the specification prescribes (by induction over the sequence with the refinement of C17), and the specification is deterministic (C18_serve_refines_spec_unique); from the specification: errors leave the workspace unchanged, errors are answered exactly to a request that asks for no operation, an add whose namespace or name is taken, an evaluation of a name that is not served (C18_spec_errors_iff), such requests do not disturb the requests that follow (C18_spec_faults_do_not_disturb), replace substitutes every stored document of that namespace or name and always succeeds; C18_answers_reflect_workspace: every answer body to every request sequence parses strictly to an object with exactly the member its class prescribes and the data of an evaluation decodes to the value of the SERVED document. The earlier statement C18_service_refines_workspace (handler model = C17 implementation-model state machine; serve_by_op is the handler table in three pieces) and the fault theorems over it are kept as lemmas about the handler model. TCK: C18_tck_roundtrip is stated with its two premises visible (the lexical forms of the leaves read back; component names are FEEL names); C18_tck_roundtrip_concrete discharges them for the leaf readers of the model: strings as they are, numbers through the strict number reader (C18_tck_number_leaf_c07: the text C07 proves Display writes for a decimal128 datum is such a number text, it is read back to the same digits and by the C07 reader to an equal number), booleans; temporal leaves are kept as their TEXT and names are kept as they are (not transliterations: dates / durations are the subject of C14, the FEEL name parser is not modelled); C18_tck_success_body: the success body of /tck/evaluate is a well-formed document {data:{value:ValueDto}} with all three members of every ValueDto written; C18_tck_wire_roundtrip: that body parsed strictly, read back as a DTO and converted as the service converts its inputs is the value (strings through the JSON escapes). The models are tied to the code by running Value::jsonify in process and the real service (start_server of the working tree, loopback) on generated values, request sequences and faults; every body is parsed strictly and compared with the model answer; failing requests to every endpoint carry hostile text (quotation mark, reverse solidus, control characters, U+2028, non-BMP, escape look-alikes, very long text) in every client-controlled part and must still be answered by a well-formed document with an errors member.',
    note='Partial for the transport: actix-web, serde_json, TCP and worker threads are exercised (liveness probe after every fault), not modelled. Trusted: Coq kernel + vm_compute, hand-written models of values.rs/context.rs/strings.rs/server.rs/dto.rs (correspondence-checked), the Python HTTP client and strict parser (cross-checked against the Coq parser). Number and temporal lexical forms are leaves here (C07/C14).',
    category='proof')
