(* C05 -- the checked driver model of C05.LrDriver (tables as lists, every access checked) terminates and never finds its state stack
   shorter than the right-hand side it pops: its state stack moves exactly like the loop of C05.LrTermModel (tables as tries), for which
   C05.LrTermination proves the bound.  With lr_parse_never_out_of_bounds: on every sequence of tokens of the lexer the run ends, within
   fuel_bound (number of tokens) turns, with accept or a syntax error.  (owner: builder-total) *)
From Coq Require Import List NArith ZArith Bool Arith String Lia FMapPositive.
From DV Require Import Gen.LalrTables Gen.LalrTokens C06.Lr C06.Actions C06.ActionsAutomaton C06.ActionsGlobal.
From DV Require Import C05.LrBounds C05.LrDriver C05.LrTermModel C05.LrTermination.
Import ListNotations.
Local Open Scope Z_scope.

(* ------------------------------------------------------------------ a trie built from a list answers like the list *)
Definition tstep (acc : PositiveMap.t Z * positive) (x : Z) : PositiveMap.t Z * positive :=
  (PositiveMap.add (snd acc) x (fst acc), Pos.succ (snd acc)).

Lemma trie_fold : forall l m p, (forall q, (p <= q)%positive -> PositiveMap.find q m = None) ->
  forall q, PositiveMap.find q (fst (fold_left tstep l (m, p))) =
            if (q <? p)%positive then PositiveMap.find q m else nth_error l (Pos.to_nat q - Pos.to_nat p).
Proof.
  induction l as [|x l IH]; intros m p Hm q.
  - cbn [fold_left fst]. destruct (q <? p)%positive eqn:E; [reflexivity|]. apply Pos.ltb_ge in E. rewrite (Hm q E).
    destruct (Pos.to_nat q - Pos.to_nat p)%nat; reflexivity.
  - cbn [fold_left]. unfold tstep at 2. cbn [fst snd]. rewrite IH.
    + destruct (q <? Pos.succ p)%positive eqn:E1; destruct (q <? p)%positive eqn:E2.
      * apply Pos.ltb_lt in E2. apply PositiveMap.gso. intro Hq. subst q. exact (Pos.lt_irrefl _ E2).
      * apply Pos.ltb_lt in E1. apply Pos.ltb_ge in E2. apply Pos.lt_succ_r in E1. pose proof (Pos.le_antisym _ _ E1 E2) as Hq. subst q.
        rewrite PositiveMap.gss, Nat.sub_diag. reflexivity.
      * exfalso. apply Pos.ltb_lt in E2. apply Pos.ltb_ge in E1. apply Pos.le_succ_l in E1. exact (Pos.lt_irrefl _ (Pos.lt_trans _ _ _ E1 E2)).
      * apply Pos.ltb_ge in E1. apply Pos.le_succ_l in E1. apply Pos2Nat.inj_lt in E1.
        replace (Pos.to_nat q - Pos.to_nat p)%nat with (S (Pos.to_nat q - Pos.to_nat (Pos.succ p)))%nat by (rewrite Pos2Nat.inj_succ; lia).
        reflexivity.
    + intros q' Hq'. apply Pos.le_succ_l in Hq'. rewrite PositiveMap.gso.
      * apply Hm. apply Pos.lt_le_incl. exact Hq'.
      * intro Hq. subst q'. exact (Pos.lt_irrefl _ Hq').
Qed.

Lemma nth_error_nth0 : forall (l : list Z) n, match nth_error l n with Some x => x | None => 0 end = nth n l 0.
Proof. induction l as [|x l IH]; intros [|n]; cbn [nth_error nth]; try reflexivity. apply IH. Qed.

Lemma zn_trie_of : forall l i, 0 <= i -> Lr.zn (trie_of l) i = nth (Z.to_nat i) l 0.
Proof.
  intros l i Hi. unfold Lr.zn. destruct (i <? 0) eqn:E; [apply Z.ltb_lt in E; lia|]. unfold trie_of.
  change (fun (acc : PositiveMap.t Z * positive) (x : Z) => (PositiveMap.add (snd acc) x (fst acc), Pos.succ (snd acc))) with tstep.
  rewrite trie_fold by (intros q _; apply PositiveMap.gempty).
  destruct (Z.to_pos (i + 1) <? 1)%positive eqn:E1; [apply Pos.ltb_lt in E1; exfalso; exact (Pos.nlt_1_r _ E1)|].
  replace (Pos.to_nat (Z.to_pos (i + 1)) - Pos.to_nat 1)%nat with (Z.to_nat i) by (rewrite <- Z2Nat.inj_pos, Z2Pos.id by lia; lia).
  apply nth_error_nth0.
Qed.

(* the tries of C06.Lr are the tries of the lists (they were computed from them) *)
Lemma t_pact_eq : t_pact = trie_of yy_pact. Proof. vm_cast_no_check (eq_refl t_pact). Qed.
Lemma t_def_act_eq : t_def_act = trie_of yy_def_act. Proof. vm_cast_no_check (eq_refl t_def_act). Qed.
Lemma t_translate_eq : t_translate = trie_of yy_translate. Proof. vm_cast_no_check (eq_refl t_translate). Qed.
Lemma t_check_eq : t_check = trie_of yy_check. Proof. vm_cast_no_check (eq_refl t_check). Qed.
Lemma t_table_eq : t_table = trie_of yy_table. Proof. vm_cast_no_check (eq_refl t_table). Qed.
Lemma t_r1_eq : t_r1 = trie_of yy_r1. Proof. vm_cast_no_check (eq_refl t_r1). Qed.
Lemma t_r2_eq : t_r2 = trie_of yy_r2. Proof. vm_cast_no_check (eq_refl t_r2). Qed.
Lemma t_p_goto_eq : t_p_goto = trie_of yy_p_goto. Proof. vm_cast_no_check (eq_refl t_p_goto). Qed.
Lemma t_def_goto_eq : t_def_goto = trie_of yy_def_goto. Proof. vm_cast_no_check (eq_refl t_def_goto). Qed.

Lemma get_some : forall l i v, get l i = Some v -> v = Lr.zn (trie_of l) i.
Proof.
  intros l i v H. unfold get in H. destruct (idx_ok l i) eqn:E; [|discriminate H]. injection H as <-.
  unfold idx_ok in E. apply andb_true_iff in E. destruct E as [E _]. apply Z.leb_le in E.
  rewrite zn_trie_of by exact E. reflexivity.
Qed.

(* ------------------------------------------------------------------ the decision of the checked driver is the decision of the loop *)
Definition agrees (h : head) (m : move) : Prop :=
  match h with
  | HShift a => m = MShift a
  | HReduce r => m = MReduce r
  | HAccept => m = MAccept
  | HError => m = MError
  | HOob => True
  end.

(* the part of NewState that looks at the action table, for the symbol `code` *)
Definition hbody (n0 da code : Z) : head :=
  let dflt := if da =? 0 then HError else HReduce da in
  let n := n0 + code in
  if negb (in_i16 n) then HOob else
  if (n <? 0) || (yy_last <? n) then dflt else
  match get yy_check n with
  | None => HOob
  | Some ck =>
    if negb (ck =? code) then dflt else
    match get yy_table n with
    | None => HOob
    | Some a => if a <=? 0 then (if a =? yy_table_n_inf then HError else HReduce (- a)) else HShift a
    end
  end.

Lemma hbody_decide : forall st code, (st =? yy_final) = false -> (Lr.zn t_pact st =? yy_pact_n_inf) = false ->
  agrees (hbody (Lr.zn t_pact st) (Lr.zn t_def_act st) code) (decide_sym st code).
Proof.
  intros st code Hf Hp. unfold hbody, decide_sym. rewrite Hf, Hp.
  set (n := Lr.zn t_pact st + code).
  destruct (negb (in_i16 n)); [exact I|].
  destruct ((n <? 0) || (yy_last <? n)) eqn:En; cbn [orb].
  - destruct (Lr.zn t_def_act st =? 0); reflexivity.
  - destruct (get yy_check n) as [ck|] eqn:Ec; [|exact I]. apply get_some in Ec. rewrite <- t_check_eq in Ec. subst ck.
    destruct (Lr.zn t_check n =? code); cbn [negb].
    + destruct (get yy_table n) as [a|] eqn:Et; [|exact I]. apply get_some in Et. rewrite <- t_table_eq in Et. subst a.
      destruct (Lr.zn t_table n <=? 0); [destruct (Lr.zn t_table n =? yy_table_n_inf)|]; reflexivity.
    + destruct (Lr.zn t_def_act st =? 0); reflexivity.
Qed.

Lemma step_head_unfold : forall st c, step_head st c =
  if st =? yy_final then HAccept else
  match get yy_pact st, get yy_def_act st with
  | Some n0, Some da =>
    if n0 =? yy_pact_n_inf then (if da =? 0 then HError else HReduce da) else
    if c <=? tok_YyEof then hbody n0 da 0
    else if c =? tok_YyError then HError
    else match get yy_translate c with None => HOob | Some code => hbody n0 da code end
  | _, _ => HOob
  end.
Proof. reflexivity. Qed.

Lemma step_head_decide : forall st c, agrees (step_head st c) (decide_l st (look_of c)).
Proof.
  intros st c. rewrite step_head_unfold. unfold decide_l. destruct (st =? yy_final) eqn:Ef; [reflexivity|].
  destruct (get yy_pact st) as [n0|] eqn:Ep; [|exact I]. destruct (get yy_def_act st) as [da|] eqn:Ed; [|exact I].
  apply get_some in Ep. rewrite <- t_pact_eq in Ep. apply get_some in Ed. rewrite <- t_def_act_eq in Ed. subst n0 da.
  destruct (Lr.zn t_pact st =? yy_pact_n_inf) eqn:Epi.
  - unfold decide_sym. rewrite Ef, Epi. destruct (Lr.zn t_def_act st =? 0); reflexivity.
  - unfold look_of, sym_of. change tok_YyEof with 0.
    destruct (c <=? 0) eqn:E0.
    + assert (E1 : (c =? tok_YyError) = false).
      { apply Z.leb_le in E0. apply Z.eqb_neq. intro H. subst c. revert E0. vm_compute. intro H. apply H. reflexivity. }
      rewrite E1. exact (hbody_decide st 0 Ef Epi).
    + destruct (c =? tok_YyError); [reflexivity|].
      destruct (get yy_translate c) as [code|] eqn:Et; [|exact I]. apply get_some in Et. rewrite <- t_translate_eq in Et. subst code.
      exact (hbody_decide st _ Ef Epi).
Qed.

Lemma reduce_core_goto : forall r top, match reduce_core r top with Goto ns => ns = goto_of r top | GOob => True end.
Proof.
  intros r top. unfold reduce_core, goto_of.
  destruct (get yy_r1 r) as [r1|] eqn:E1; [|exact I]. apply get_some in E1. rewrite <- t_r1_eq in E1. subst r1.
  destruct (Lr.zn t_r1 r <? yy_n_tokens); [exact I|].
  set (lhs := Lr.zn t_r1 r - yy_n_tokens).
  destruct (get yy_p_goto lhs) as [pg|] eqn:Eg; [|exact I]. apply get_some in Eg. rewrite <- t_p_goto_eq in Eg. subst pg.
  destruct (get yy_def_goto lhs) as [dg|] eqn:Ed; [|exact I]. apply get_some in Ed. rewrite <- t_def_goto_eq in Ed. subst dg.
  set (i := Lr.zn t_p_goto lhs + top).
  destruct (negb (in_i16 i)); [exact I|].
  destruct ((0 <=? i) && (i <=? yy_last)); cbn [andb]; [|reflexivity].
  destruct (get yy_check i) as [ck|] eqn:Ec; [|exact I]. apply get_some in Ec. rewrite <- t_check_eq in Ec. subst ck.
  destruct (Lr.zn t_check i =? top); [|reflexivity].
  destruct (get yy_table i) as [t|] eqn:Et; [|exact I]. apply get_some in Et. rewrite <- t_table_eq in Et. subst t. reflexivity.
Qed.

Lemma rule_len_rlen : forall r len, rule_len r = Some len -> Z.to_nat len = rlen r.
Proof.
  intros r len H. unfold rule_len in H. destruct (get yy_r2 r) as [l2|] eqn:E; [|discriminate H]. apply get_some in E. rewrite <- t_r2_eq in E.
  destruct (l2 <? 0); [discriminate H|]. injection H as <-. subst l2. reflexivity.
Qed.

(* one turn: the same state stack, and "stack too short" in the one is "stack too short" in the other *)
Lemma step_kstep : forall ss c,
  match LrDriver.step ss c with
  | Cont ss' b => kstep ss (look_of c) = KCont ss' b
  | SUnderflow => kstep ss (look_of c) = KStuck
  | _ => True
  end.
Proof.
  intros [|st rest] c; [reflexivity|]. cbn [LrDriver.step kstep].
  pose proof (step_head_decide st c) as Hh. destruct (step_head st c) as [a|r| | |]; cbn [agrees] in Hh; try exact I.
  - rewrite Hh. reflexivity.
  - rewrite Hh. unfold LrDriver.reduce. destruct (rule_len r) as [len|] eqn:El; [|exact I].
    rewrite (rule_len_rlen r len El). destruct (skipn (rlen r) (st :: rest)) as [|top rest']; [reflexivity|].
    pose proof (reduce_core_goto r top) as Hg. destruct (reduce_core r top) as [ns|]; [|exact I]. subst ns. reflexivity.
Qed.

Lemma head_map_look : forall toks, head_look (map look_of toks) = look_of (match toks with [] => tok_YyEof | t :: _ => t end).
Proof. intros [|t toks]; [vm_compute; reflexivity | reflexivity]. Qed.

Lemma run_krun : forall fuel ss toks,
  match LrDriver.run fuel ss toks with
  | RFuel => krun fuel ss (map look_of toks) = KRFuel
  | RUnderflow => krun fuel ss (map look_of toks) = KRStuck
  | _ => True
  end.
Proof.
  induction fuel as [|f IH]; intros ss toks; [reflexivity|]. cbn [LrDriver.run krun]. rewrite head_map_look.
  set (c := match toks with [] => tok_YyEof | t :: _ => t end).
  pose proof (step_kstep ss c) as Hs. destruct (LrDriver.step ss c) as [ss' b| | | |]; try exact I.
  - rewrite Hs. specialize (IH ss' (if b then tl toks else toks)).
    replace (if b then tl (map look_of toks) else map look_of toks) with (map look_of (if b then tl toks else toks))
      by (destruct b; [destruct toks; reflexivity | reflexivity]).
    exact IH.
  - rewrite Hs. reflexivity.
Qed.

(* ------------------------------------------------------------------ the tokens of the lexer are terminals of the grammar *)
Lemma ck_token_syms : forallb (fun c => let s := sym_of c in (0 <=? s) && (s <? yy_n_tokens)) all_token_values = true.
Proof. vm_cast_no_check (eq_refl true). Qed.

Lemma token_lok : forall c, In c all_token_values -> lok (look_of c).
Proof.
  intros c H. unfold look_of. destruct (c =? tok_YyError); [exact I|]. cbn [lok].
  pose proof ck_token_syms as Hc. rewrite forallb_forall in Hc. specialize (Hc c H). cbv beta zeta in Hc.
  apply andb_true_iff in Hc. destruct Hc as [H0 H1]. apply Z.leb_le in H0. apply Z.ltb_lt in H1. apply in_all_syms. split; assumption.
Qed.

(* TERMINATION AND STACK DEPTH OF THE CHECKED DRIVER.  For every sequence of tokens of the lexer, with fuel_bound (number of tokens) turns or
   more, the run from the start state ends with accept or a syntax error: not out of fuel, never a state stack shorter than the right-hand
   side being reduced, never a table access out of bounds. *)
Theorem lr_driver_terminates : forall toks fuel, Forall (fun c => In c all_token_values) toks -> (fuel_bound (List.length toks) <= fuel)%nat ->
  LrDriver.run fuel [0] toks = RAccept \/ LrDriver.run fuel [0] toks = RError.
Proof.
  intros toks fuel Ht Hf.
  assert (Hl : Forall lok (map look_of toks)).
  { clear Hf. induction Ht as [|c toks Hc _ IH]; [constructor|]. cbn [map]. constructor; [exact (token_lok c Hc) | exact IH]. }
  assert (Hf' : (fuel_bound (List.length (map look_of toks)) <= fuel)%nat) by (rewrite map_length; exact Hf).
  destruct (krun_parse_terminates _ fuel Hl Hf') as [H1 H2].
  pose proof (run_krun fuel [0] toks) as Hs. pose proof (lr_parse_never_out_of_bounds fuel toks Ht) as Ho.
  destruct (LrDriver.run fuel [0] toks).
  - left; reflexivity.
  - right; reflexivity.
  - exfalso. apply Ho. reflexivity.
  - exfalso. exact (H2 Hs).
  - exfalso. exact (H1 Hs).
Qed.

(* not vacuous: a run of 30 turns on 8 tokens, inside the bound of 246; the same run one turn short of what it needs is out of fuel *)
Lemma lr_driver_terminates_example :
  let toks := [tok_StartExpression; tok_LeftBracket; tok_Numeric; tok_Comma; tok_Numeric; tok_Comma; tok_Numeric; tok_RightBracket] in
  fuel_bound (List.length toks) = 246%nat /\ LrDriver.run 246 [0] toks = RAccept /\
  LrDriver.run 30 [0] toks = RAccept /\ LrDriver.run 29 [0] toks = RFuel.
Proof. vm_compute. repeat split; reflexivity. Qed.
