(* C06 -- the LR automaton as the tables define it: the transitions that can lie on the state stack, computed from the tables
   alone and closed under the moves of the driver.  Owner: ext-actions.  No proofs here. *)
From Coq Require Import List NArith ZArith Bool Arith String FMapPositive.
From DV Require Import Gen.LalrTables C06.Lr C06.Actions C06.ActionsKinds.
Import ListNotations.
Local Open Scope Z_scope.

(* ------------------------------------------------------------------ the decision of Parser::parse in state s on a lookahead *)
Inductive move := MAccept | MShift (s2 : Z) | MReduce (r : Z) | MError.

Definition sym_of (tok : Z) : Z := if tok <=? 0 then 0 else zn t_translate tok.

(* on the grammar symbol of the lookahead *)
Definition decide_sym (s sym : Z) : move :=
  if s =? yy_final then MAccept else
  let dflt := let r := zn t_def_act s in if r =? 0 then MError else MReduce r in
  let n0 := zn t_pact s in
  if n0 =? yy_pact_n_inf then dflt else
  let n := n0 + sym in
  if (n <? 0) || (yy_last <? n) || negb (zn t_check n =? sym) then dflt else
  let a := zn t_table n in
  if a <=? 0 then if a =? yy_table_n_inf then MError else MReduce (- a) else MShift a.

(* on the token: the error token of the lexer stops the parse where a lookahead is needed *)
Definition decide (s tok : Z) : move :=
  if s =? yy_final then MAccept else
  if zn t_pact s =? yy_pact_n_inf then decide_sym s 0 else
  if tok =? tok_YyError then MError else decide_sym s (sym_of tok).

(* ------------------------------------------------------------------ symbols: numbers of the tables <-> names of feel.y *)
Definition n_syms : Z := Z.of_nat (List.length yy_p_goto) + yy_n_tokens.     (* terminals 0 .. yy_n_tokens-1, then nonterminals *)

Definition lhs_num (r : Z) : Z := zn t_r1 r.

Definition sym_num (x : string) : option Z :=
  match find (fun p => String.eqb (fst p) x) terminal_tokens with
  | Some (_, tok) => Some (sym_of tok)
  | None => match find (fun r => String.eqb (fst (snd r)) x) grammar_rules with Some (r, _) => Some (lhs_num r) | None => None end
  end.

Definition rule_at (r : Z) : option (string * list string) :=
  match find (fun p => fst p =? r) grammar_rules with Some (_, x) => Some x | None => None end.

Fixpoint nums (l : list string) : option (list Z) :=
  match l with
  | [] => Some []
  | x :: r => match sym_num x, nums r with Some n, Some ns => Some (n :: ns) | _, _ => None end
  end.

(* name of a symbol number (first name found) *)
Definition sym_names : PositiveMap.t string :=
  Eval vm_compute in
    fold_left (fun m p => match sym_num p with Some n => PositiveMap.add (Z.to_pos (n + 1)) p m | None => m end)
      (rev (map fst terminal_tokens ++ map (fun r => fst (snd r)) grammar_rules)) (PositiveMap.empty string).
Definition name_of (n : Z) : string :=
  if n <? 0 then EmptyString else match PositiveMap.find (Z.to_pos (n + 1)) sym_names with Some x => x | None => EmptyString end.

(* ------------------------------------------------------------------ transitions (s, X, s2): in state s, symbol X leads to s2 *)
Definition trans_t : Type := (Z * Z * Z)%type.

(* incoming transitions per target state *)
Definition inc_t := PositiveMap.t (list (Z * Z)).      (* s2 |-> [(s, X)] *)
Definition inc_of (m : inc_t) (s2 : Z) : list (Z * Z) :=
  if s2 <? 0 then [] else match PositiveMap.find (Z.to_pos (s2 + 1)) m with Some l => l | None => [] end.
Definition pair_eqb (a b : Z * Z) : bool := (fst a =? fst b) && (snd a =? snd b).
Definition inc_mem (m : inc_t) (s x s2 : Z) : bool := existsb (pair_eqb (s, x)) (inc_of m s2).
Definition inc_add (m : inc_t) (s x s2 : Z) : inc_t :=
  if inc_mem m s x s2 then m else PositiveMap.add (Z.to_pos (s2 + 1)) ((s, x) :: inc_of m s2) m.

Fixpoint dedupe (l : list Z) : list Z :=
  match l with [] => [] | x :: r => if existsb (Z.eqb x) r then dedupe r else x :: dedupe r end.

(* going back over the symbols syms (topmost first) from the states of the frontier: the states exposed, or None when some
   transition into the frontier carries another symbol *)
Fixpoint back_ok (m : inc_t) (syms : list Z) (frontier : list Z) : option (list Z) :=
  match syms with
  | [] => Some frontier
  | x :: rest =>
    let inc := flat_map (inc_of m) frontier in
    if forallb (fun s => match inc_of m s with [] => false | _ => true end) frontier && forallb (fun p => snd p =? x) inc
    then back_ok m rest (dedupe (map fst inc)) else None
  end.

Definition all_syms : list Z := map Z.of_nat (seq 0 (Z.to_nat yy_n_tokens)).
Definition all_states : list Z := map Z.of_nat (seq 0 (List.length yy_pact)).

Definition reachable (m : inc_t) (s : Z) : bool := (s =? 0) || negb (match inc_of m s with [] => true | _ => false end).

(* the rules state s may reduce (on some lookahead or by default) *)
Definition reductions (s : Z) : list Z :=
  dedupe (flat_map (fun sym => match decide_sym s sym with MReduce r => [r] | _ => [] end) all_syms).

Definition rhs_nums_rev (r : Z) : option (list Z) :=
  match rule_at r with Some (_, rhs) => match nums rhs with Some l => Some (rev l) | None => None end | None => None end.

(* one round: every move of every reachable state adds its transition *)
Definition grow (m : inc_t) : inc_t :=
  fold_left (fun m s =>
    if reachable m s then
      let m1 := fold_left (fun m sym => match decide_sym s sym with MShift s2 => inc_add m s sym s2 | _ => m end) all_syms m in
      fold_left (fun m r =>
        match rhs_nums_rev r with
        | Some syms => match back_ok m syms [s] with
                       | Some fr => fold_left (fun m s' => inc_add m s' (lhs_num r) (goto_of r s')) fr m
                       | None => m
                       end
        | None => m
        end) (reductions s) m1
    else m) all_states m.

Fixpoint iter {A} (n : nat) (f : A -> A) (x : A) : A := match n with O => x | S k => iter k f (f x) end.

Definition inc_size (m : inc_t) : nat := fold_left (fun n s => (n + List.length (inc_of m s))%nat) all_states O.

(* ------------------------------------------------------------------ the transitions of the regenerated tables (least set closed under grow) *)
Definition auto : inc_t := Eval vm_compute in iter 12 grow (PositiveMap.empty _).

(* closure: every shift of a reachable state is a transition; every reduction of a reachable state finds its right-hand side on top of
   the stack whatever the path (back_ok: the LR invariant), and the goto from every state it can expose is a transition *)
Definition closed_state (m : inc_t) (s : Z) : bool :=
  forallb (fun sym => match decide_sym s sym with MShift s2 => inc_mem m s sym s2 | _ => true end) all_syms &&
  forallb (fun r =>
    match rhs_nums_rev r with
    | Some syms => match back_ok m syms [s] with
                   | Some fr => forallb (fun s' => inc_mem m s' (lhs_num r) (goto_of r s')) fr
                   | None => false
                   end
    | None => false
    end) (reductions s).

Definition closed (m : inc_t) : bool := forallb (fun s => implb (reachable m s) (closed_state m s)) all_states.

(* the symbols in front of a mid-rule action (of any symbol that occurs in one rule only) lie under its right-hand side when it is reduced *)
Definition ctx_state (m : inc_t) (s : Z) : bool :=
  forallb (fun r =>
    match rule_at r with
    | Some (lhs, rhs) => match nums (ctx_of lhs ++ rhs) with Some l => match back_ok m (rev l) [s] with Some _ => true | None => false end | None => false end
    | None => false
    end) (reductions s).
Definition ctx_closed (m : inc_t) : bool := forallb (fun s => implb (reachable m s) (ctx_state m s)) all_states.

(* states and symbols in range *)
Definition in_range_t (m : inc_t) : bool :=
  forallb (fun kv => (Zpos (fst kv) - 1 <? Z.of_nat (List.length yy_pact))) (PositiveMap.elements m).

(* the final state lies on top of [feel; $end] over state 0 *)
Definition final_ok (m : inc_t) : bool :=
  match sym_num "feel", sym_num "$end" with
  | Some f, Some e => match back_ok m [e; f] [yy_final] with Some [0] => true | _ => false end
                      && String.eqb (name_of f) "feel" && String.eqb (name_of e) "$end" && (e =? 0)
  | _, _ => false
  end.

(* all results, or None as soon as one is missing *)
Fixpoint collect {A B} (f : A -> option (list B)) (l : list A) : option (list B) :=
  match l with
  | [] => Some []
  | a :: r => match f a, collect f r with Some x, Some y => Some (x ++ y) | _, _ => None end
  end.

(* the possible top k kinds of the node stack in state s, read off the transitions that lead to s (None: not determined) *)
Fixpoint tops (m : inc_t) (fuel : nat) (k : nat) (s : Z) : option (list (list kind)) :=
  match k with
  | O => Some [[]]
  | _ =>
    match fuel with
    | O => None
    | S f =>
      match inc_of m s with
      | [] => None
      | inc =>
        collect (fun p : Z * Z =>
          collect (fun e : eff =>
            let q := snd e in
            if (k <=? List.length q)%nat then Some [firstn k q]
            else match fst e with
                 | [] => match tops m f (k - List.length q) (fst p) with
                         | Some l => Some (map (fun t => q ++ t) l)
                         | None => None
                         end
                 | _ => None
                 end) (sig_of (name_of (snd p)))) inc
      end
    end
  end.

(* wherever a symbol that consumes nodes from below is about to be recognised, those nodes are there *)
Definition pre_ok (m : inc_t) : bool :=
  forallb (fun s2 => forallb (fun p =>
    let a := name_of (snd p) in
    match preconds a with
    | [] => false
    | p0 :: _ =>
      match List.length p0 with
      | O => true
      | k => match tops m 6 k (fst p) with
             | Some l => forallb (fun t => existsb (kinds_eqb t) (preconds a)) l
             | None => false
             end
      end
    end) (inc_of m s2)) all_states.

(* every terminal has the one effect ([], []); every symbol number has its name; translate stays inside the terminals *)
Definition terminals_plain : bool :=
  forallb (fun sym => match sig_of (name_of sym) with [([], [])] => true | _ => false end) all_syms.
Definition translate_ok : bool := forallb (fun x => (0 <=? x) && (x <? yy_n_tokens)) yy_translate.
(* the names of the symbols of every rule, through the numbers of the tables and back *)
Fixpoint strs_eqb (a b : list string) : bool :=
  match a, b with [], [] => true | x :: a', y :: b' => String.eqb x y && strs_eqb a' b' | _, _ => false end.
Definition rules_named : bool :=
  forallb (fun r =>
    String.eqb (name_of (lhs_num (fst r))) (fst (snd r)) && (yy_n_tokens <=? lhs_num (fst r)) &&
    match aval_of (fst (snd r)) with AVAny => true | _ => false end &&
    match nums (ctx_of (fst (snd r)) ++ snd (snd r)) with Some l => strs_eqb (map name_of l) (ctx_of (fst (snd r)) ++ snd (snd r)) | None => false end)
    grammar_rules.

(* nothing leads back to the start state; the start symbol leaves exactly one node; the end marker carries no payload *)
Definition ends_ok : bool :=
  match inc_of auto 0 with [] => true | _ => false end &&
  forallb (fun e => match fst e, snd e with [], [_] => true | _, _ => false end) (sig_of "feel") &&
  String.eqb (name_of 0) "$end" && match aval_of "$end" with AVAny => true | _ => false end.

Definition automaton_ok : bool :=
  closed auto && ctx_closed auto && in_range_t auto && final_ok auto && pre_ok auto && terminals_plain && translate_ok && rules_named && ends_ok
  && sigs_uniform.

(* ------------------------------------------------------------------ tokens as the lexer delivers them, decidably: the token type is a
   terminal of the grammar and the token value is the one of that terminal (TokenValue::Name for NAME, ...) *)
Definition vmatchb (a : aval) (v : tval) : bool :=
  match a, v with
  | AVName, VName _ | AVNameDateTime, VNameDateTime _ | AVBuiltIn, VBuiltInTypeName _ | AVNumeric, VNumeric _ _
  | AVString, VString _ | AVBoolean, VBoolean _ => true
  | AVNull, VTok t => t =? tok_Null
  | AVAny, _ => true
  | _, _ => false
  end.

Definition tok_okb (t : ftok) : bool :=
  let sym := sym_of (fst t) in
  (0 <=? sym) && (sym <? yy_n_tokens) && vmatchb (aval_of (name_of sym)) (snd t).
