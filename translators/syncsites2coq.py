#!/usr/bin/env python3
"""C20: regenerates coq/Gen/SyncSites.v from the working tree of $VERIF_REPO (default /repo).

Inventory of synchronisation-relevant sites of the evaluation path:
  * every `.read()` / `.write()` / `.lock()` (and try_ variants) acquisition in EVERY source file of the evaluation-path crates
    (model-evaluator, feel, feel-number, feel-evaluator, feel-parser, common, model), with the enclosing function, whether it sits in a
    closure, and its phase: build (function new / build* / add_invocable* / default / from / try_from, outside closures) or
    evaluation (everything else, in particular every evaluator closure and every evaluate* function);
  * every static of the evaluation-path crates (lazy_static entries, plain statics, static mut, thread_local!) with a flag
    saying whether its type mentions interior mutability (Mutex, RwLock, RefCell, Cell, UnsafeCell, Atomic*, Once*);
  * every struct field of type Mutex / Atomic* / UnsafeCell / Once* (RwLock fields are covered by their acquisitions: a write
    acquisition outside the build functions is a violation wherever the lock lives);
  * every `unsafe impl Send/Sync`;
  * every use of DEFAULT_CONTEXT in feel-number/src/dec.rs with a flag saying whether it is `.clone()`d (private context copy
    per FFI call), and every extern call that receives a context argument that is not such a copy.
Test modules (`#[cfg(test)]` to end of file) are not scanned.  The scanner is a brace matcher over comment- and
string-stripped text; it is part of the trusted base (DESIGN.md section 4)."""
import os
import re
import sys

ROOT = os.path.dirname(os.path.dirname(os.path.abspath(__file__)))
REPO = os.path.abspath(os.environ.get('VERIF_REPO', '/repo'))

LOCK_FILES = ['model-evaluator/src/model_evaluator.rs', 'model-evaluator/src/builders/decision.rs',
              'model-evaluator/src/builders/decision_service.rs', 'feel/src/evaluator.rs', 'feel/src/scope.rs',
              'feel-number/src/dec.rs', 'feel/src/temporal/mod.rs']
EVAL_CRATES = ['model-evaluator', 'feel', 'feel-number', 'feel-evaluator', 'feel-parser', 'common', 'model']
BUILD_FN = re.compile(r'^(new|build.*|add_invocable.*|default|from|try_from)$')
MUTABLE = re.compile(r'\b(Mutex|RwLock|RefCell|Cell|UnsafeCell|Atomic[A-Za-z0-9]*|OnceCell|Once|Lazy)\b')


def strip(src):
    """comments and string/char literals -> spaces (newlines kept)"""
    out = []
    i, n = 0, len(src)
    while i < n:
        c = src[i]
        if src.startswith('//', i):
            while i < n and src[i] != '\n':
                out.append(' ')
                i += 1
        elif src.startswith('/*', i):
            depth = 0
            while i < n:
                if src.startswith('/*', i):
                    depth += 1
                    out.append('  ')
                    i += 2
                elif src.startswith('*/', i):
                    depth -= 1
                    out.append('  ')
                    i += 2
                    if depth == 0:
                        break
                else:
                    out.append('\n' if src[i] == '\n' else ' ')
                    i += 1
        elif c == '"' or (c == 'r' and re.match(r'r#*"', src[i:])):
            if c == 'r':
                m = re.match(r'r(#*)"', src[i:])
                end = '"' + m.group(1)
                j = src.find(end, i + len(m.group(0)))
                j = n if j < 0 else j + len(end)
            else:
                j = i + 1
                while j < n and src[j] != '"':
                    j += 2 if src[j] == '\\' else 1
                j += 1
            out.append(''.join('\n' if ch == '\n' else ' ' for ch in src[i:j]))
            i = j
        elif c == "'" and re.match(r"'(\\.[^']*|[^'\\])'", src[i:]):
            m = re.match(r"'(\\.[^']*|[^'\\])'", src[i:])
            out.append(' ' * len(m.group(0)))
            i += len(m.group(0))
        else:
            out.append(c)
            i += 1
    return ''.join(out)


def no_tests(text):
    k = text.find('#[cfg(test)]')
    return text if k < 0 else text[:k]


def scopes(text):
    """yields (position, fn name, in_closure) for every position of interest via a scope stack"""
    stack = []       # entries: ('fn', name) | ('closure',) | ('block',)
    pending = None
    info = {}
    tok = re.compile(r'\bfn\s+([A-Za-z_][A-Za-z0-9_]*)|\bmove\s*\||\|[^|\n]*\|\s*(?=\{)|[{};]|\.(read|write|lock|try_read|try_write|try_lock)\(\)')
    for m in tok.finditer(text):
        t = m.group(0)
        if m.group(1):
            pending = ('fn', m.group(1))
        elif t.startswith('move') or (t.startswith('|') and t.rstrip().endswith('|')):
            pending = ('closure',)
        elif t == '{':
            stack.append(pending or ('block',))
            pending = None
        elif t == '}':
            if stack:
                stack.pop()
        elif t == ';':
            if pending and pending[0] == 'fn':
                pending = None        # a declaration without body
        else:
            fn = next((s[1] for s in reversed(stack) if s[0] == 'fn'), '')
            clo = any(s[0] == 'closure' for s in stack) or (pending is not None and pending[0] == 'closure')
            info[m.start()] = (fn, clo, m.group(2))
    return info


def line_of(text, pos):
    return text.count('\n', 0, pos) + 1


def receiver(text, pos):
    m = re.search(r'([A-Za-z_][A-Za-z0-9_]*)\s*$', text[:pos])
    return m.group(1) if m else '?'


def collect():
    sites = []
    locks = {}
    for rel in LOCK_FILES:
        if not os.path.exists(os.path.join(REPO, rel)):
            sites.append((rel, 0, 'SMissingFile', True, ''))
    lock_files = []
    for crate in EVAL_CRATES:
        for d, _, fs in sorted(os.walk(os.path.join(REPO, crate, 'src'))):
            for f in sorted(fs):
                if f.endswith('.rs'):
                    lock_files.append(os.path.relpath(os.path.join(d, f), REPO))
    # the anchored files first (stable lock numbering), then every other source file of the evaluation-path crates
    lock_files = [r for r in LOCK_FILES if r in lock_files] + [r for r in lock_files if r not in LOCK_FILES]
    # a function with a build-phase NAME (build* / add_invocable*) that is called from an evaluation-phase function is evaluation phase itself
    # (seeded change C20_h: evaluate_invocable called a new helper add_invocable_alias that takes a write lock): call sites are attributed
    # to the nearest preceding `fn`; callers named evaluate* / eval_* / invoke* are evaluation entry points
    texts = {rel: no_tests(strip(open(os.path.join(REPO, rel), errors='replace').read())) for rel in lock_files}
    defined = set()
    for text in texts.values():
        defined.update(m.group(1) for m in re.finditer(r'\bfn\s+([A-Za-z_][A-Za-z0-9_]*)', text) if re.match(r'^(build.*|add_invocable.*)$', m.group(1)))
    demoted = set()
    for name in sorted(defined):
        for text in texts.values():
            for m in re.finditer(r'(?<![A-Za-z0-9_])%s\s*\(' % re.escape(name), text):
                if re.search(r'\bfn\s+$', text[max(0, m.start() - 4):m.start()]):
                    continue
                fns = re.findall(r'\bfn\s+([A-Za-z_][A-Za-z0-9_]*)', text[:m.start()])
                caller = fns[-1] if fns else ''
                if re.match(r'^(evaluate|eval_|invoke)', caller):      # called from an evaluation entry point: evaluation phase whatever its name
                    demoted.add(name)
    for rel in lock_files:
        p = os.path.join(REPO, rel)
        text = texts[rel]
        for pos, (fn, clo, kind) in sorted(scopes(text).items()):
            recv = receiver(text, pos)
            lid = locks.setdefault(recv, len(locks))
            evalp = clo or not BUILD_FN.match(fn or '') or fn in demoted
            is_write = kind in ('write', 'lock', 'try_write', 'try_lock')
            sites.append((rel, line_of(text, pos), 'SLock %s %d' % ('true' if is_write else 'false', lid), evalp, fn))
        # shared mutable state held in a struct: a field whose type allows mutation through a shared reference from several threads
        for m in re.finditer(r'^\s*(?:pub(?:\([a-z]+\))?\s+)?([a-z_][A-Za-z0-9_]*)\s*:\s*([^,\n{}]*\b(?:Mutex|Atomic[A-Za-z0-9]*|UnsafeCell|OnceCell|Once)\b[^,\n{}]*),?\s*$', text, re.M):
            sites.append((rel, line_of(text, m.start(1)), 'SField true', True, m.group(1)))
    for crate in EVAL_CRATES:
        base = os.path.join(REPO, crate, 'src')
        for d, _, fs in sorted(os.walk(base)):
            for f in sorted(fs):
                if not f.endswith('.rs'):
                    continue
                p = os.path.join(d, f)
                rel = os.path.relpath(p, REPO)
                text = no_tests(strip(open(p, errors='replace').read()))
                for m in re.finditer(r'\bstatic\s+(ref\s+|mut\s+)?([A-Za-z_][A-Za-z0-9_]*)\s*:\s*([^=;]+)[=;]', text):
                    if text[max(0, m.start() - 1):m.start()] == "'":
                        continue
                    if m.group(1) and m.group(1).startswith('mut'):
                        sites.append((rel, line_of(text, m.start()), 'SStaticMut', True, m.group(2)))
                    else:
                        sites.append((rel, line_of(text, m.start()), 'SStatic %s' % ('true' if MUTABLE.search(m.group(3)) else 'false'), True, m.group(2)))
                for m in re.finditer(r'\bthread_local\s*!', text):
                    sites.append((rel, line_of(text, m.start()), 'SThreadLocal', True, ''))
                # shared mutable state behind a type alias or in a tuple struct (a field without a name: seeded change C20_k kept an AtomicUsize in the
                # tuple that describes a decision's evaluator)
                for m in re.finditer(r'\b(?:type|struct)\s+([A-Za-z_][A-Za-z0-9_]*)\s*(?:<[^>=;{]*>)?\s*(?:=\s*|\()([^;{]*\b(?:Mutex|Atomic[A-Za-z0-9]*|UnsafeCell|OnceCell|Once)\b[^;{]*);', text):
                    sites.append((rel, line_of(text, m.start()), 'SField true', True, m.group(1)))
                for m in re.finditer(r'\bunsafe\s+impl\b[^{;]*\b(Send|Sync)\b', text):
                    sites.append((rel, line_of(text, m.start()), 'SUnsafeSendSync', True, m.group(1)))
                if rel == 'feel-number/src/dec.rs':
                    # every static of type DecContext (DEFAULT_CONTEXT and any other): each use must be a `.clone()` (a private copy per call)
                    ctx_statics = set(re.findall(r'\bstatic\s+(?:ref\s+|mut\s+)?([A-Za-z_][A-Za-z0-9_]*)\s*:\s*DecContext\b', text)) | {'DEFAULT_CONTEXT'}
                    for m in re.finditer(r'\b(%s)\b' % '|'.join(sorted(re.escape(x) for x in ctx_statics)), text):
                        before = text[max(0, m.start() - 12):m.start()]
                        if re.search(r'static\s+(?:ref\s+|mut\s+)?$', before):
                            continue
                        cloned = text[m.end():m.end() + 8].startswith('.clone()')
                        sites.append((rel, line_of(text, m.start()), 'SCtxUse %s' % ('true' if cloned else 'false'), True, ''))
                    # extern functions taking a context (by *mut or *const pointer: the C library writes through either): every call must pass a fresh copy
                    ctx_fns = set(re.findall(r'\bfn\s+(dec[A-Za-z0-9]+)\s*\([^)]*\*(?:mut|const)\s+DecContext[^)]*\)', text))
                    for m in re.finditer(r'\b(dec[A-Z][A-Za-z0-9]+)\s*\(', text):
                        if m.group(1) not in ctx_fns or re.search(r'\bfn\s+$', text[max(0, m.start() - 4):m.start()]):
                            continue
                        depth, j = 1, m.end()
                        while j < len(text) and depth:
                            depth += {'(': 1, ')': -1}.get(text[j], 0)
                            j += 1
                        args = text[m.end():j - 1]
                        ok = any((x + '.clone()') in args.replace(' ', '') for x in ctx_statics) or re.search(r'&mut\s+c\b', args) is not None
                        sites.append((rel, line_of(text, m.start()), 'SFfiCtx %s' % ('true' if ok else 'false'), True, m.group(1)))
    return sites, locks


def fn_body(text, name):
    """text of the body of `fn name` (first definition), or ''"""
    m = re.search(r'\bfn\s+%s\b' % re.escape(name), text)
    if not m:
        return ''
    i = text.find('{', m.end())
    if i < 0:
        return ''
    depth, j = 0, i
    while j < len(text):
        if text[j] == '{':
            depth += 1
        elif text[j] == '}':
            depth -= 1
            if depth == 0:
                break
        j += 1
    return text[i:j + 1]


def call_path(sites, locks):
    """the lock acquisitions of one evaluation of a decision that requires another decision, in call order:
    evaluate_invocable (its own acquisitions), evaluate_decision (accessors it calls), then twice the accessors the
    decision evaluator closure calls (the outer decision and the required decision evaluated while the outer guards are held).
    Accessor = a function of model_evaluator.rs whose body acquires a lock; its kind (read / write) is what the body says."""
    p = os.path.join(REPO, 'model-evaluator/src/model_evaluator.rs')
    q = os.path.join(REPO, 'model-evaluator/src/builders/decision.rs')
    if not (os.path.exists(p) and os.path.exists(q)):
        return []
    me = no_tests(strip(open(p, errors='replace').read()))
    dec = no_tests(strip(open(q, errors='replace').read()))
    acc = {}
    for rel, line, kind, evalp, fn in sites:
        if rel == 'model-evaluator/src/model_evaluator.rs' and kind.startswith('SLock') and evalp and fn not in ('evaluate_invocable',):
            w, lid = kind.split()[1] == 'true', int(kind.split()[2])
            acc.setdefault(fn, []).append((w, lid))
    path = []
    for rel, line, kind, evalp, fn in sites:
        if rel == 'model-evaluator/src/model_evaluator.rs' and kind.startswith('SLock') and fn == 'evaluate_invocable':
            path.append((kind.split()[1] == 'true', int(kind.split()[2])))
    for m in re.finditer(r'self\s*\.\s*([a-z_]+)\s*\(\s*\)', fn_body(me, 'evaluate_decision')):
        path.extend(acc.get(m.group(1), []))
    closure = []
    k = dec.find('move |')
    body = dec[k:] if k >= 0 else ''
    for m in re.finditer(r'model_evaluator\s*\.\s*([a-z_]+)\s*\(\s*\)', body):
        closure.extend(acc.get(m.group(1), []))
    return path + closure + closure


def block_end(text, i):
    """position of the `}` matching the `{` at position i (len(text) when unmatched)"""
    depth, j = 0, i
    while j < len(text):
        if text[j] == '{':
            depth += 1
        elif text[j] == '}':
            depth -= 1
            if depth == 0:
                return j
        j += 1
    return len(text)


def guard_end(text, p):
    """where the guard acquired at position p of `text` is dropped, by the binding form of the statement it stands in:
    `if let` / `while let` / `match` head -> the `}` closing the block that follows; `let` -> the `}` closing the innermost enclosing
    block; anything else (a temporary) -> the end of the statement (`;`), or the end of the enclosing block for a tail expression"""
    k = p
    depth = 0
    while k > 0:
        k -= 1
        c = text[k]
        if c == ')':
            depth += 1
        elif c == '(':
            if depth == 0:
                break
            depth -= 1
        elif c in ';{}' and depth == 0:
            break
    head = text[k + 1:p]
    hands_guard_on = False
    if re.search(r'\b(if|while)\s+let\b|\bmatch\b', head):
        i = text.find('{', p)
        end = block_end(text, i) if i >= 0 else len(text)
        # `let x = match ACQ { Ok(g) => g, ... };`: an arm hands the guard itself on to the binding, it lives as long as x does
        m = re.search(r'\blet\b[^=;]*=\s*match\b[^{;]*$', head)
        if m and i >= 0 and re.search(r'\bOk\s*\(\s*(?:mut\s+)?([A-Za-z_][A-Za-z0-9_]*)\s*\)\s*=>\s*\1\s*[,}]', text[i:end + 1]):
            hands_guard_on = True
        else:
            return end
    # innermost enclosing block
    depth, j, enclosing = 0, p, len(text)
    while j < len(text):
        if text[j] == '{':
            depth += 1
        elif text[j] == '}':
            if depth == 0:
                enclosing = j
                break
            depth -= 1
        j += 1
    if hands_guard_on:
        return enclosing
    if re.search(r'\blet\b', head):
        # `let g = ACQ;` / `let g = ACQ?;` / `.unwrap()` / `.expect(..)` / `.map_err(..)?` bind the guard; any other method called on it
        # consumes a temporary that dies at the end of the statement
        rest = text[p:]
        m = re.match(r'(?:\s*\.\s*(?:read|write|lock|try_read|try_write|try_lock)\s*\(\s*\)|\s*\.?\s*[A-Za-z_][A-Za-z0-9_]*\s*\(\s*\))?'
                     r'(?:\s*\?|\s*\.\s*(?:unwrap|expect|map_err|unwrap_or_else)\s*\((?:[^()]|\([^()]*\))*\))*\s*([;.])', rest)
        if m is None or m.group(1) == ';':
            return enclosing
    depth, j = 0, p
    while j < enclosing:
        if text[j] in '({':
            depth += 1
        elif text[j] in ')}':
            depth -= 1
        elif text[j] == ';' and depth <= 0:
            return j
        j += 1
    return enclosing


def region_ops(text, acc, locks, call_re, step_re=None):
    """lock operations of one region of the evaluation path, in execution order, split at the nested call:
    (operations before the call, operations after it).  Operation = ('A'|'R', is_write, lock) or ('S',).
    Acquisitions: direct `.read()` / `.write()` / `.lock()` and calls of accessors (functions of model_evaluator.rs that hand out a guard);
    the release of each guard is placed where the brace structure drops it (guard_end)."""
    events = []
    n = 0
    for m in re.finditer(r'\.(read|write|lock|try_read|try_write|try_lock)\(\)', text):
        recv = receiver(text, m.start())
        if recv in locks:
            w = m.group(1) in ('write', 'lock', 'try_write', 'try_lock')
            n += 1
            events.append((m.start(), 0, n, ('A', w, locks[recv])))
            events.append((guard_end(text, m.start()), 1, -n, ('R', w, locks[recv])))
    for m in re.finditer(r'(?:self|model_evaluator)\s*\.\s*([a-z_]+)\s*\(\s*\)', text):
        for w, lid in acc.get(m.group(1), []):
            n += 1
            events.append((m.start(), 0, n, ('A', w, lid)))
            events.append((guard_end(text, m.start()), 1, -n, ('R', w, lid)))
    cm = re.search(call_re, text)
    if not cm:
        return None
    events.append((cm.start(), 2, 0, ('C',)))
    if step_re:
        sm = re.search(step_re, text)
        if not sm:
            return None
        events.append((sm.start(), 2, 0, ('S',)))
    events.sort(key=lambda e: (e[0], e[1], e[2]))
    ops = [e[3] for e in events]
    k = ops.index(('C',))
    return ops[:k], ops[k + 1:]


def regions(sites, locks):
    """the three code regions one nested decision evaluation runs through: evaluate_invocable (up to / after the call of
    evaluate_decision), evaluate_decision (up to / after DecisionEvaluator::evaluate) and the decision evaluator closure of
    builders/decision.rs (up to / after the evaluation of the required decisions; the call of the decision's own logic is the step)"""
    empty = {'inv': ([], []), 'dec': ([], []), 'clo': ([], [])}
    p = os.path.join(REPO, 'model-evaluator/src/model_evaluator.rs')
    q = os.path.join(REPO, 'model-evaluator/src/builders/decision.rs')
    if not (os.path.exists(p) and os.path.exists(q)):
        return empty
    me = no_tests(strip(open(p, errors='replace').read()))
    dec = no_tests(strip(open(q, errors='replace').read()))
    acc = {}
    for rel, line, kind, evalp, fn in sites:
        if rel == 'model-evaluator/src/model_evaluator.rs' and kind.startswith('SLock') and evalp and fn not in ('evaluate_invocable',):
            acc.setdefault(fn, []).append((kind.split()[1] == 'true', int(kind.split()[2])))
    k = dec.find('move |')
    body = ''
    if k >= 0:
        i = dec.find('{', dec.find('|', k + 6))
        body = dec[i:block_end(dec, i) + 1] if i >= 0 else ''
    out = {'inv': region_ops(fn_body(me, 'evaluate_invocable'), acc, locks, r'self\s*\.\s*evaluate_decision\s*\('),
           'dec': region_ops(fn_body(me, 'evaluate_decision'), acc, locks, r'decision_evaluator\s*\.\s*evaluate\s*\('),
           'clo': region_ops(body, acc, locks, r'decision_evaluator\s*\.\s*evaluate\s*\(', r'\bevaluator\s*\(\s*&\s*scope\s*\)')}
    return {k: (v if v else ([], [])) for k, v in out.items()}


def type_tokens(text):
    """identifiers of a type text that end a path: `std::collections::HashMap<alloc::string::String, x::InvocableType>` -> [HashMap, String, InvocableType]"""
    return [t.split('::')[-1] for t in re.findall(r'[A-Za-z_][A-Za-z0-9_]*(?:\s*::\s*[A-Za-z_][A-Za-z0-9_]*)*', text.replace(' ', ''))]


def lock_types(locks):
    """receiver name -> type tokens of the value its RwLock / Mutex protects, read off the struct fields of the evaluation-path crates"""
    out = {}
    for crate in EVAL_CRATES:
        for d, _, fs in sorted(os.walk(os.path.join(REPO, crate, 'src'))):
            for f in sorted(fs):
                if not f.endswith('.rs'):
                    continue
                text = no_tests(strip(open(os.path.join(d, f), errors='replace').read()))
                for m in re.finditer(r'^\s*(?:pub(?:\([a-z]+\))?\s+)?([a-z_][A-Za-z0-9_]*)\s*:\s*(?:Arc\s*<\s*)?(?:RwLock|Mutex)\s*<(.*)>\s*,?\s*$', text, re.M):
                    if m.group(1) in locks:
                        inner = m.group(2)
                        inner = inner[:-1] if inner.count('>') > inner.count('<') else inner
                        out.setdefault(m.group(1), type_tokens(inner))
    return out


def coq_ops(ops):
    def one(o):
        if o[0] == 'S':
            return 'LStep'
        return '%s %s %d' % ('LAcq' if o[0] == 'A' else 'LRel', 'true' if o[1] else 'false', o[2])
    return '[%s]' % '; '.join(one(o) for o in ops)


def render(sites, locks):
    out = ['(* GENERATED by translators/syncsites2coq.py from %s — do not edit, not in git *)' % REPO,
           'From Coq Require Import List NArith Bool String.', 'From DV Require Import C20.Sites.', 'Import ListNotations.',
           'Open Scope string_scope.', '',
           '(* lock ids: %s *)' % ', '.join('%d = %s' % (i, n) for n, i in sorted(locks.items(), key=lambda kv: kv[1])), '',
           'Definition sites : list site := [']
    rows = []
    for rel, line, kind, evalp, fn in sites:
        rows.append('  {| sfile := "%s"; sline := %d%%N; skind := %s; seval := %s; sfn := "%s" |}' % (rel, line, kind, 'true' if evalp else 'false', fn))
    out.append(';\n'.join(rows))
    out.append('].')
    out.append('')
    out.append('(* lock acquisitions of one nested decision evaluation, in call order (is_write, lock) *)')
    out.append('Definition call_path : list (bool * nat) := [%s].' % '; '.join('(%s, %d)' % ('true' if w else 'false', l) for w, l in call_path(sites, locks)))
    out.append('')
    out.append('(* lock operations of the three code regions of a nested decision evaluation, acquisitions AND releases, nesting as the brace')
    out.append('   structure of the source gives it (a guard bound by `if let` lives to the end of that block, by `let` to the end of the enclosing')
    out.append('   block, a temporary to the end of its statement); each region is split at the call of the next one; LStep = the decision logic *)')
    rg = regions(sites, locks)
    for key, name in (('inv', 'invocable'), ('dec', 'decision'), ('clo', 'closure')):
        out.append('Definition %s_open : list lockop := %s.' % (name, coq_ops(rg[key][0])))
        out.append('Definition %s_close : list lockop := %s.' % (name, coq_ops(rg[key][1])))
    return '\n'.join(out) + '\n'


def main():
    sites, locks = collect()
    gen = os.path.join(ROOT, 'coq', 'Gen')
    os.makedirs(gen, exist_ok=True)
    text = render(sites, locks)
    p = os.path.join(gen, 'SyncSites.v')
    if not os.path.exists(p) or open(p).read() != text:
        open(p, 'w').write(text)
    return sites, locks


if __name__ == '__main__':
    s, l = main()
    print('syncsites2coq: %d sites, %d lock receivers' % (len(s), len(l)))
