(* C03/LinkC01.v — the unary-test evaluator of the decision-table model (C03/Model.v: in_test, in_list_gen,
   in_neg_list_gen, entry_true) IS the FEEL `in` operator of the evaluator model (C01/Syntax.v: in_tests_eval,
   in_eval, in_list, in_range, in_unary, in_equal; C01/Spec.v: eval on EIn).
   The two models were written independently from feel-evaluator/src/builders.rs; the real code evaluates an
   input entry as  AstNode::In(input expression, parse_unary_tests(entry))  (decision_table.rs), and
   parse_unary_tests yields Irrelevant, ExpressionList(items) — also for ONE item — or NegatedList(items).
   C01 has no value for Irrelevant and no negated list, so the three arms of build_in that an entry can
   reach are transliterated here (feel_in) on top of C01's in_tests_eval:
       Value::Irrelevant            => true
       Value::ExpressionList(items) => eval_in_list          (= C01 in_tests_eval)
       Value::NegatedCommaList(items) => eval_in_negated_list (Boolean(b) => Boolean(!b), anything else null)
   Translation: C03 numbers are integers z  |->  VNum (nenc z), strings are codes s |-> VStr (senc s), for ANY
   order embeddings nenc, senc (instances: of_Z z 0 and the one-code-point string [s]); booleans and null as they are.
   Proved for every input value (null and ill-kinded ones included) and every entry, three-valued:
   TT/TF/TN of C03 = true/false/null of C01.  Owner of this file: prover (link C03-C01). *)
From Coq Require Import List ZArith NArith Bool Lia.
From DV Require Import Base.Dec.
From DV Require C01.Syntax C01.Spec.
From DV Require Import C03.Model.
Import ListNotations.

Module F := DV.C01.Syntax.
Module FS := DV.C01.Spec.

(* ------------------------------------------------------------------ the arms of build_in reached by an input entry *)
Inductive tests_value :=
| RIrrelevant                          (* Value::Irrelevant *)
| RExprList (ts : list F.value)        (* Value::ExpressionList *)
| RNegated (ts : list F.value).        (* Value::NegatedCommaList *)

(* eval_in_negated_list (after fix 4fb4737): the negation of eval_in_list *)
Definition in_negated_list (x : F.value) (ts : list F.value) : F.value :=
  match F.in_tests_eval x ts with
  | F.VBool b => F.VBool (negb b)
  | F.VPoison => F.VPoison
  | _ => F.VNull
  end.

Definition feel_in (x : F.value) (r : tests_value) : F.value :=
  match r with
  | RIrrelevant => F.VBool true
  | RExprList ts => F.in_tests_eval x ts
  | RNegated ts => in_negated_list x ts
  end.

(* ------------------------------------------------------------------ translation *)
Definition num_embedding (nenc : Z -> dec) : Prop := forall a b, dcmp (nenc a) (nenc b) = Z.compare a b.
Definition str_embedding (senc : N -> list N) : Prop := forall a b, F.str_cmp (senc a) (senc b) = N.compare a b.

Definition tr_op (o : cmpop) : F.cmpop :=
  match o with CLt => F.CLt | CLe => F.CLe | CGt => F.CGt | CGe => F.CGe end.

Definition tv_val (t : tv) : F.value :=
  match t with TT => F.VBool true | TF => F.VBool false | TN => F.VNull end.

Section Translation.
Variable nenc : Z -> dec.
Variable senc : N -> list N.

Definition tr_atom (a : atom) : F.value :=
  match a with ANull => F.VNull | ANum z => F.VNum (nenc z) | AStr s => F.VStr (senc s) | ABool b => F.VBool b end.

Definition tr_lit (a : atom) : F.expr :=
  match a with ANull => F.ENull | ANum z => F.ENum (nenc z) | AStr s => F.EStr (senc s) | ABool b => F.EBool b end.

(* an item as a C01 test (syntax) and as the value the test evaluates to *)
Definition tr_item (i : item) : F.test :=
  match i with
  | ILit a => F.TVal (tr_lit a)
  | ICmp o a => F.TCmp (tr_op o) (tr_lit a)
  | IRange lo lc hi hc => F.TRange (tr_lit lo) lc (tr_lit hi) hc
  end.

Definition tr_item_v (i : item) : F.value :=
  match i with
  | ILit a => tr_atom a
  | ICmp o a => F.VUnary (tr_op o) (tr_atom a)
  | IRange lo lc hi hc => F.VRange (tr_atom lo) lc (tr_atom hi) hc
  end.

Definition tr_utest (u : utest) : tests_value :=
  match u with
  | UAny => RIrrelevant
  | UPos l => RExprList (map tr_item_v l)
  | UNeg l => RNegated (map tr_item_v l)
  end.

(* And(In(x, allowed values), In(x, entry)) of decision_table.rs, on values *)
Definition feel_entry (x : atom) (ic : iclause) (e : utest) : F.value :=
  match i_values ic with
  | None => feel_in (tr_atom x) (tr_utest e)
  | Some vs => F.and3 (feel_in (tr_atom x) (RExprList (map tr_item_v vs))) (feel_in (tr_atom x) (tr_utest e))
  end.

(* ---------------------------------------------------------------- the translation evaluates to itself *)
Lemma test_eval_tr : forall (ev : F.expr -> F.value), (forall a, ev (tr_lit a) = tr_atom a) ->
  forall i, FS.test_eval ev (tr_item i) = tr_item_v i.
Proof.
  intros ev Hev i. destruct i as [a|o a|lo lc hi hc]; cbn [tr_item tr_item_v FS.test_eval]; rewrite ?Hev; reflexivity.
Qed.

Lemma eval_lit : forall cartf f St a, FS.eval cartf (S f) St (tr_lit a) = tr_atom a.
Proof. intros cartf f St a. destruct a; reflexivity. Qed.

(* ---------------------------------------------------------------- no poison, enough fuel *)
Lemma poison_atom : forall a, F.poison (tr_atom a) = false.
Proof. intros a. destruct a; reflexivity. Qed.

Lemma poison_item : forall i, F.poison (tr_item_v i) = false.
Proof.
  intros i. destruct i as [a|o a|lo lc hi hc].
  - apply poison_atom.
  - destruct a; reflexivity.
  - destruct lo, hi; reflexivity.
Qed.

Lemma poison_items : forall l, existsb F.poison (map tr_item_v l) = false.
Proof. induction l as [|i l IH]; [reflexivity|]. cbn [map existsb]. rewrite poison_item, IH. reflexivity. Qed.

Lemma vsize_pos : forall v, (1 <= F.vsize v)%nat.
Proof. intros v. destruct v; cbn [F.vsize]; lia. Qed.

Lemma fuel_enough : forall l : list F.value, (length l <= fold_right (fun v n => F.vsize v + n) O l)%nat.
Proof. induction l as [|v l IH]; cbn [length fold_right]; [lia|]. pose proof (vsize_pos v). lia. Qed.

(* ---------------------------------------------------------------- comparisons agree under the embeddings *)
Hypothesis Hn : num_embedding nenc.
Hypothesis Hs : str_embedding senc.

Lemma num_eqb_link : forall a b, F.num_eqb (nenc a) (nenc b) = Z.eqb a b.
Proof. intros a b. unfold F.num_eqb. rewrite Hn, Z.eqb_compare. reflexivity. Qed.
Lemma num_ltb_link : forall a b, F.num_ltb (nenc a) (nenc b) = Z.ltb a b.
Proof. intros a b. unfold F.num_ltb, Z.ltb. rewrite Hn. reflexivity. Qed.
Lemma num_leb_link : forall a b, F.num_leb (nenc a) (nenc b) = Z.leb a b.
Proof. intros a b. unfold F.num_leb, Z.leb. rewrite Hn. reflexivity. Qed.
Lemma str_eqb_link : forall a b, F.str_eqb (senc a) (senc b) = N.eqb a b.
Proof. intros a b. unfold F.str_eqb. rewrite Hs, N.eqb_compare. reflexivity. Qed.
Lemma str_ltb_link : forall a b, F.str_ltb (senc a) (senc b) = N.ltb a b.
Proof. intros a b. unfold F.str_ltb, N.ltb. rewrite Hs. reflexivity. Qed.
Lemma str_leb_link : forall a b, F.str_leb (senc a) (senc b) = N.leb a b.
Proof. intros a b. unfold F.str_leb. rewrite str_ltb_link. symmetry. apply N.leb_antisym. Qed.

(* eval_in_equal *)
Lemma in_equal_link : forall x a, F.in_equal (tr_atom x) (tr_atom a) = is_tt (in_equal x a).
Proof.
  intros x a. destruct x as [|xv|xs|xb], a as [|av|as_|ab]; try reflexivity.
  - unfold F.in_equal, F.veq. cbn [tr_atom F.vsize Nat.add F.teq in_equal teq]. rewrite num_eqb_link. destruct (Z.eqb xv av); reflexivity.
  - unfold F.in_equal, F.veq. cbn [tr_atom F.vsize Nat.add F.teq in_equal teq]. rewrite str_eqb_link. destruct (N.eqb xs as_); reflexivity.
  - unfold F.in_equal, F.veq. cbn [tr_atom F.vsize Nat.add F.teq in_equal teq]. destruct (Bool.eqb xb ab); reflexivity.
Qed.

Lemma cmp_c_lt : forall a b, cmp_c CLt (Z.compare a b) = Z.ltb a b.
Proof. intros. unfold Z.ltb. destruct (Z.compare a b); reflexivity. Qed.
Lemma cmp_c_le : forall a b, cmp_c CLe (Z.compare a b) = Z.leb a b.
Proof. intros. unfold Z.leb. destruct (Z.compare a b); reflexivity. Qed.
Lemma cmp_c_gt : forall a b, cmp_c CGt (Z.compare a b) = Z.ltb b a.
Proof. intros. unfold Z.ltb. rewrite (Z.compare_antisym a b). destruct (Z.compare a b); reflexivity. Qed.
Lemma cmp_c_ge : forall a b, cmp_c CGe (Z.compare a b) = Z.leb b a.
Proof. intros. unfold Z.leb. rewrite (Z.compare_antisym a b). destruct (Z.compare a b); reflexivity. Qed.
Lemma cmp_c_ltN : forall a b, cmp_c CLt (N.compare a b) = N.ltb a b.
Proof. intros. unfold N.ltb. destruct (N.compare a b); reflexivity. Qed.
Lemma cmp_c_leN : forall a b, cmp_c CLe (N.compare a b) = N.leb a b.
Proof. intros. unfold N.leb. destruct (N.compare a b); reflexivity. Qed.
Lemma cmp_c_gtN : forall a b, cmp_c CGt (N.compare a b) = N.ltb b a.
Proof. intros. unfold N.ltb. rewrite (N.compare_antisym a b). destruct (N.compare a b); reflexivity. Qed.
Lemma cmp_c_geN : forall a b, cmp_c CGe (N.compare a b) = N.leb b a.
Proof. intros. unfold N.leb. rewrite (N.compare_antisym a b). destruct (N.compare a b); reflexivity. Qed.

Lemma tv_val_of_bool : forall b, tv_val (of_bool b) = F.VBool b.
Proof. intros b. destruct b; reflexivity. Qed.

(* eval_in_unary_less / _less_or_equal / _greater / _greater_or_equal: the same three-valued answer *)
Lemma in_unary_link : forall o x a, F.in_unary (tr_op o) (tr_atom x) (tr_atom a) = tv_val (in_cmp o x a).
Proof.
  intros o x a.
  destruct x as [|xv|xs|xb], a as [|av|as_|ab]; try (destruct o; reflexivity).
  - destruct o; cbn [tr_op tr_atom F.in_unary F.cmp_lt F.cmp_le in_cmp]; rewrite tv_val_of_bool;
      rewrite ?num_ltb_link, ?num_leb_link, ?cmp_c_lt, ?cmp_c_le, ?cmp_c_gt, ?cmp_c_ge; reflexivity.
  - destruct o; cbn [tr_op tr_atom F.in_unary F.cmp_lt F.cmp_le in_cmp]; rewrite tv_val_of_bool;
      rewrite ?str_ltb_link, ?str_leb_link, ?cmp_c_ltN, ?cmp_c_leN, ?cmp_c_gtN, ?cmp_c_geN; reflexivity.
Qed.

(* eval_in_range *)
Lemma in_range_link : forall x lo lc hi hc,
  F.in_range (tr_atom x) (tr_atom lo) lc (tr_atom hi) hc = tv_val (in_range x lo lc hi hc).
Proof.
  intros x lo lc hi hc.
  destruct x as [|xv|xs|xb], lo as [|lv|ls|lb], hi as [|hv|hs|hb]; try reflexivity.
  - cbn [tr_atom F.in_range in_range]. rewrite tv_val_of_bool, !num_leb_link, !num_ltb_link. reflexivity.
  - cbn [tr_atom F.in_range in_range]. rewrite tv_val_of_bool, !str_leb_link, !str_ltb_link. reflexivity.
Qed.

(* eval_in_list: the loop, for any fuel above the number of items *)
Lemma in_list_link : forall x l f, (length l < f)%nat ->
  F.in_list f (tr_atom x) (map tr_item_v l) = tv_val (in_list_gen false x l).
Proof.
  intros x l. induction l as [|i l IH]; intros f Hf; (destruct f as [|f]; [cbn [length] in Hf; lia|]).
  - reflexivity.
  - cbn [length] in Hf. assert (Hf' : (length l < f)%nat) by lia. specialize (IH f Hf').
    cbn [map F.in_list in_list_gen]. destruct i as [a|o a|lo lc hi hc]; cbn [tr_item_v item_tv_gen].
    + destruct a as [|av|as_|ab]; [reflexivity| | |].
      * change (F.VNum (nenc av)) with (tr_atom (ANum av)). rewrite in_equal_link. destruct (in_equal x (ANum av)) eqn:E; cbn [is_tt]; try exact IH; try reflexivity.
      * change (F.VStr (senc as_)) with (tr_atom (AStr as_)). rewrite in_equal_link. destruct (in_equal x (AStr as_)) eqn:E; cbn [is_tt]; try exact IH; try reflexivity.
      * change (F.VBool ab) with (tr_atom (ABool ab)). rewrite in_equal_link. destruct (in_equal x (ABool ab)) eqn:E; cbn [is_tt]; try exact IH; try reflexivity.
    + rewrite in_unary_link. destruct (in_cmp o x a); cbn [tv_val F.is_true]; try exact IH; reflexivity.
    + rewrite in_range_link. destruct (in_range x lo lc hi hc); cbn [tv_val F.is_true]; try exact IH; reflexivity.
Qed.

(* Value::ExpressionList(items) => eval_in_list *)
Lemma in_tests_link : forall x l, F.in_tests_eval (tr_atom x) (map tr_item_v l) = tv_val (in_list_gen false x l).
Proof.
  intros x l. unfold F.in_tests_eval. rewrite poison_atom, poison_items. cbn [orb].
  apply in_list_link. pose proof (fuel_enough (map tr_item_v l)) as H. rewrite map_length in H. lia.
Qed.

(* Value::NegatedCommaList(items) => eval_in_negated_list *)
Lemma in_negated_link : forall x l, in_negated_list (tr_atom x) (map tr_item_v l) = tv_val (in_neg_list_gen false x l).
Proof.
  intros x l. unfold in_negated_list, in_neg_list_gen. rewrite in_tests_link. destruct (in_list_gen false x l); reflexivity.
Qed.

(* ================================================================== the link, three-valued *)
(* every entry (`-`, a list of tests, a negated list) and every input value, null and ill-kinded included:
   the decision-table model's in_test (the code now: `-` matches null, null literal not handled) is FEEL `in` *)
Theorem in_test_is_feel_in : forall x u,
  feel_in (tr_atom x) (tr_utest u) = tv_val (in_test false false (in_neg_list_gen false) x u).
Proof.
  intros x u. destruct u as [|l|l]; cbn [tr_utest feel_in in_test].
  - destruct x; reflexivity.
  - apply in_tests_link.
  - apply in_negated_link.
Qed.

Lemma is_true_tv_val : forall t, F.is_true (tv_val t) = is_tt t.
Proof. intros t. destruct t; reflexivity. Qed.

Corollary entry_satisfied_is_feel_in : forall x u,
  is_tt (in_test false false (in_neg_list_gen false) x u) = F.is_true (feel_in (tr_atom x) (tr_utest u)).
Proof. intros x u. rewrite in_test_is_feel_in, is_true_tv_val. reflexivity. Qed.

Lemma is_true_and3 : forall a b, F.is_true (F.and3 a b) = F.is_true a && F.is_true b.
Proof. intros a b. destruct a as [| [|] | | | | | | | |], b as [| [|] | | | | | | | |]; reflexivity. Qed.

(* the entry of a rule as decision_table.rs builds it: And(In(x, allowed values), In(x, entry)) *)
Theorem entry_true_is_feel : forall x ic e,
  entry_true false false x ic e = F.is_true (feel_entry x ic e).
Proof.
  intros x ic e. unfold entry_true, feel_entry, neg. destruct (i_values ic) as [vs|].
  - rewrite is_true_and3. cbn [feel_in]. rewrite in_tests_link, is_true_tv_val, <- entry_satisfied_is_feel_in. reflexivity.
  - apply entry_satisfied_is_feel_in.
Qed.

(* a rule: every entry evaluator must give Boolean(true) *)
Fixpoint feel_rule (xs : list atom) (ics : list iclause) (es : list utest) : bool :=
  match ics, xs, es with
  | [], _, _ => true
  | ic :: ics', x :: xs', e :: es' => F.is_true (feel_entry x ic e) && feel_rule xs' ics' es'
  | _, _, _ => false
  end.

Theorem rule_matches_is_feel : forall ics xs es, rule_matches false false xs ics es = feel_rule xs ics es.
Proof.
  induction ics as [|ic ics IH]; intros xs es; [destruct xs; reflexivity|].
  destruct xs as [|x xs], es as [|e es]; try reflexivity.
  cbn [rule_matches feel_rule]. rewrite entry_true_is_feel, IH. reflexivity.
Qed.

Corollary matches_is_feel : forall t xs r,
  matches (eval_rule false false t xs r) = feel_rule xs (t_inputs t) (r_in r).
Proof. intros t xs r. cbn [matches eval_rule]. apply rule_matches_is_feel. Qed.

(* ================================================================== through C01's evaluator of expressions *)
(* FEEL text `x in (t1, …, tn)`: C01's EIn evaluates ONE test with build_in's scalar arms (in_eval), where a
   comparison or interval against a null / ill-kinded value is null, while the ExpressionList of one item a
   decision table builds gives false: the three-valued answers differ there, satisfaction does not. *)
Lemma in_eval_single : forall x i,
  F.is_true (F.in_eval (tr_atom x) (tr_item_v i)) = is_tt (in_list_gen false x [i]).
Proof.
  intros x i. unfold F.in_eval. rewrite poison_atom, poison_item. cbn [orb in_list_gen].
  destruct i as [a|o a|lo lc hi hc]; cbn [tr_item_v item_tv_gen].
  - destruct a as [|av|as_|ab]; [reflexivity| | |]; cbn [tr_atom].
    + change (F.VNum (nenc av)) with (tr_atom (ANum av)). rewrite in_equal_link. destruct (in_equal x (ANum av)); reflexivity.
    + change (F.VStr (senc as_)) with (tr_atom (AStr as_)). rewrite in_equal_link. destruct (in_equal x (AStr as_)); reflexivity.
    + change (F.VBool ab) with (tr_atom (ABool ab)). rewrite in_equal_link. destruct (in_equal x (ABool ab)); reflexivity.
  - rewrite in_unary_link. destruct (in_cmp o x a); reflexivity.
  - rewrite in_range_link. destruct (in_range x lo lc hi hc); reflexivity.
Qed.

Theorem eval_in_is_in_list : forall cartf f St n x l,
  F.lookup n St = Some (tr_atom x) ->
  F.is_true (FS.eval cartf (S (S f)) St (F.EIn (F.EName n) (map tr_item l))) = is_tt (in_list_gen false x l).
Proof.
  intros cartf f St n x l Hx.
  assert (Hev : forall a, FS.eval cartf (S f) St (tr_lit a) = tr_atom a) by (intros a; apply eval_lit).
  assert (Hname : FS.eval cartf (S f) St (F.EName n) = tr_atom x) by (cbn [FS.eval]; rewrite Hx; reflexivity).
  change (FS.eval cartf (S (S f)) St (F.EIn (F.EName n) (map tr_item l)))
    with (match map tr_item l with
          | [t] => F.in_eval (FS.eval cartf (S f) St (F.EName n)) (FS.test_eval (FS.eval cartf (S f) St) t)
          | _ => F.in_tests_eval (FS.eval cartf (S f) St (F.EName n)) (map (FS.test_eval (FS.eval cartf (S f) St)) (map tr_item l))
          end).
  rewrite Hname.
  destruct l as [|i [|j r]].
  - cbn [map]. change (@nil F.value) with (map tr_item_v []). rewrite in_tests_link, is_true_tv_val. reflexivity.
  - cbn [map]. rewrite (test_eval_tr _ Hev). apply in_eval_single.
  - set (l := i :: j :: r).
    assert (Hm : map (FS.test_eval (FS.eval cartf (S f) St)) (map tr_item l) = map tr_item_v l).
    { rewrite map_map. apply map_ext. intros t. apply test_eval_tr. exact Hev. }
    change (match map tr_item l with
            | [t] => F.in_eval (tr_atom x) (FS.test_eval (FS.eval cartf (S f) St) t)
            | _ => F.in_tests_eval (tr_atom x) (map (FS.test_eval (FS.eval cartf (S f) St)) (map tr_item l))
            end) with (F.in_tests_eval (tr_atom x) (map (FS.test_eval (FS.eval cartf (S f) St)) (map tr_item l))).
    rewrite Hm, in_tests_link, is_true_tv_val. reflexivity.
Qed.

End Translation.

(* ================================================================== the concrete embeddings *)
Definition nenc0 (z : Z) : dec := of_Z z 0.
Definition senc0 (s : N) : list N := [s].

Lemma sval_of_Z : forall a e, sval (of_Z a e) = a.
Proof.
  intros a e. unfold sval, of_Z. cbn [Dec.neg coef]. rewrite N2Z.inj_abs_N.
  destruct (Z.ltb_spec a 0); lia.
Qed.

Lemma nenc0_embedding : num_embedding nenc0.
Proof.
  intros a b. unfold nenc0, dcmp, emin2, scaled. rewrite !sval_of_Z. cbn [of_Z expo].
  change (Z.min 0 0) with 0%Z. change (0 - 0)%Z with 0%Z. change (10 ^ 0)%Z with 1%Z. rewrite !Z.mul_1_r. reflexivity.
Qed.

Lemma senc0_embedding : str_embedding senc0.
Proof. intros a b. unfold senc0. cbn [F.str_cmp]. destruct (N.compare a b); reflexivity. Qed.

(* a table of strings in increasing order (the check's STRS) is an embedding on its indices: stated for the
   singleton embedding only; any strictly increasing senc works by the Section's hypotheses *)

(* where the scalar arm of build_in and the one-item ExpressionList differ (three-valued), and where they agree *)
Lemma single_test_null_differs :
  F.in_eval (tr_atom nenc0 senc0 ANull) (tr_item_v nenc0 senc0 (ICmp CLt (ANum 5))) = F.VNull /\
  feel_in (tr_atom nenc0 senc0 ANull) (tr_utest nenc0 senc0 (UPos [ICmp CLt (ANum 5)])) = F.VBool false /\
  in_test false false (in_neg_list_gen false) ANull (UPos [ICmp CLt (ANum 5)]) = TF /\
  feel_in (tr_atom nenc0 senc0 ANull) (tr_utest nenc0 senc0 (UNeg [ICmp CLt (ANum 5)])) = F.VBool true.
Proof. repeat split; vm_compute; reflexivity. Qed.

Lemma link_nonvacuous :
  feel_in (tr_atom nenc0 senc0 (ANum 7)) (tr_utest nenc0 senc0 (UPos [ILit (ANum 3); IRange (ANum 5) true (ANum 9) false])) = F.VBool true /\
  feel_in (tr_atom nenc0 senc0 (ANum 9)) (tr_utest nenc0 senc0 (UPos [ILit (ANum 3); IRange (ANum 5) true (ANum 9) false])) = F.VBool false /\
  feel_in (tr_atom nenc0 senc0 (ANum (-4))) (tr_utest nenc0 senc0 (UNeg [ICmp CGe (ANum (-3)); ILit (ANum 0)])) = F.VBool true /\
  feel_in (tr_atom nenc0 senc0 (AStr 4)) (tr_utest nenc0 senc0 (UPos [ICmp CGt (AStr 4); ILit (AStr 4)])) = F.VBool true /\
  feel_in (tr_atom nenc0 senc0 (AStr 4)) (tr_utest nenc0 senc0 (UPos [ILit ANull; ILit (AStr 4)])) = F.VNull /\
  feel_in (tr_atom nenc0 senc0 ANull) (tr_utest nenc0 senc0 UAny) = F.VBool true /\
  feel_in (tr_atom nenc0 senc0 ANull) (tr_utest nenc0 senc0 (UPos [ICmp CLt (ANum 5); ILit (ANum 1)])) = F.VBool false /\
  feel_in (tr_atom nenc0 senc0 (ABool true)) (tr_utest nenc0 senc0 (UNeg [ILit (ABool false)])) = F.VBool true /\
  F.is_true (FS.eval_spec 5 [[(1%N, F.VNum (of_Z 7 0))]]
     (F.EIn (F.EName 1%N) (map (tr_item nenc0 senc0) [ILit (ANum 3); IRange (ANum 5) true (ANum 9) false]))) = true.
Proof. repeat split; vm_compute; reflexivity. Qed.
