(* C06 — extended expression language at the text level: the tokens of C06.ModelExt written as tokens of the lexer model
   (C06.Lexer) and read back, and the text-level parser = lexer model, reading of its tokens, extended Spec parser.
   Owner: prover-C06.  No proofs here.

   Outside (as for the operator fragment, C06.Lexer `tok_ok`): For / Some / Every (till_in flag) and Function (look-ahead
   terminator) are not among the printable token lists of the lexer theorem, so XFor, XSome, XEvery, XFun and the tokens that
   only occur with them (XBind, XPar, XReturn, XSatisfies) are not written here: `etok_wf` is false on them. *)
From Coq Require Import List NArith Bool Arith.
From DV Require Import C06.Model C06.ModelExt C06.Lexer.
Import ListNotations.

Definition econc (keys : list str) (enc : N -> ltoken) (t : etok) : list ltoken :=
  match t with
  | XAtom a => [enc a]
  | XOp o => [op_tok o]
  | XLp => [LSym SLp] | XRp => [LSym SRp] | XLb => [LSym SLb] | XRb => [LSym SRb]
  | XLc => [LSym SLbrace] | XRc => [LSym SRbrace]
  | XBetween => [LKw KBetween] | XBand => [LKw KBetweenAnd]
  | XInst ty => [LKw KInstance; LKw KOf; LType (nth_str type_words ty)]
  | XDot n => [LSym SDot; LName (nth_str keys n)]
  | XComma => [LSym SComma] | XEll => [LSym SEllipsis]
  | XKey n => [LName (nth_str keys n); LSym SColon]
  | XBind n => [LName (nth_str keys n); LKw KIn]
  | XPar n None => [LName (nth_str keys n)]
  | XPar n (Some ty) => [LName (nth_str keys n); LSym SColon; LType (nth_str type_words ty)]
  | XIf => [LKw KIf] | XThen => [LKw KThen] | XElse => [LKw KElse]
  | XFor => [LKw KFor] | XReturn => [LKw KReturn] | XSome => [LKw KSome] | XEvery => [LKw KEvery]
  | XSatisfies => [LKw KSatisfies] | XFun => [LKw KFunction]
  end.

Definition econc_all (keys : list str) (enc : N -> ltoken) (ts : list etok) : list ltoken := flat_map (econc keys enc) ts.

(* a name followed by a colon is a key; any other name is an atom *)
Fixpoint eabs (keys : list str) (dec : ltoken -> option N) (ls : list ltoken) : option (list etok) :=
  match ls with
  | [] => Some []
  | l :: r =>
    let cons1 (t : etok) := match eabs keys dec r with Some ts => Some (t :: ts) | None => None end in
    match l with
    | LKw KInstance =>
      match r with
      | LKw KOf :: LType n :: r2 =>
        match pos_of n type_words 0, eabs keys dec r2 with
        | Some ty, Some ts => Some (XInst ty :: ts)
        | _, _ => None
        end
      | _ => None
      end
    | LSym SDot =>
      match r with
      | LName n :: r2 =>
        match pos_of n keys 0, eabs keys dec r2 with
        | Some i, Some ts => Some (XDot i :: ts)
        | _, _ => None
        end
      | _ => None
      end
    | LName n =>
      match r with
      | LSym SColon :: r2 =>
        match pos_of n keys 0, eabs keys dec r2 with
        | Some i, Some ts => Some (XKey i :: ts)
        | _, _ => None
        end
      | _ => match dec l with Some a => cons1 (XAtom a) | None => None end
      end
    | LSym SLp => cons1 XLp | LSym SRp => cons1 XRp | LSym SLb => cons1 XLb | LSym SRb => cons1 XRb
    | LSym SLbrace => cons1 XLc | LSym SRbrace => cons1 XRc
    | LSym SComma => cons1 XComma | LSym SEllipsis => cons1 XEll
    | LKw KBetween => cons1 XBetween | LKw KBetweenAnd => cons1 XBand
    | LKw KIf => cons1 XIf | LKw KThen => cons1 XThen | LKw KElse => cons1 XElse
    | _ =>
      match tok_op l with
      | Some o => cons1 (XOp o)
      | None => if is_atom_tok l then match dec l with Some a => cons1 (XAtom a) | None => None end else None
      end
    end
  end.

(* the text-level parser: the lexer, the reading of its tokens as tokens of the extended Spec, the extended Spec parser *)
Definition parse_text_ext (keys : list str) (dec : ltoken -> option N) (cs : str) : option etree :=
  match lex keys cs with
  | Some ls => match eabs keys dec ls with Some ts => eparse_tokens ts | None => None end
  | None => None
  end.

(* type numbers are positions in type_words, member names and keys positions in the scope keys; no binder tokens *)
Definition etok_wf (keys : list str) (t : etok) : bool :=
  match t with
  | XInst ty => (ty <? 6)%N
  | XDot n | XKey n => (n <? N.of_nat (length keys))%N
  | XFor | XSome | XEvery | XFun | XBind _ | XPar _ _ | XReturn | XSatisfies => false
  | _ => true
  end.

(* the between flag of the lexer along the token list (C06.LexerText.flag_ok for the extended tokens) *)
Fixpoint eflag_ok (b : bool) (ts : list etok) : bool :=
  match ts with
  | [] => true
  | XBetween :: r => eflag_ok true r
  | XBand :: r => b && eflag_ok false r
  | XOp And :: r => negb b && eflag_ok b r
  | _ :: r => eflag_ok b r
  end.

(* trees without for / some / every / function: the ones whose renderings can be well-formed in the sense above *)
Fixpoint binder_free (t : etree) {struct t} : bool :=
  let kv := fun (q : N * etree) => match q with (_, e) => binder_free e end in
  match t with
  | EAtom _ | ERange _ _ _ _ => true
  | EBin _ l r => binder_free l && binder_free r
  | ENeg x | EInst x _ | EPath x _ => binder_free x
  | EBtw x lo hi => binder_free x && binder_free lo && binder_free hi
  | EFilt x i => binder_free x && binder_free i
  | ECall g args => binder_free g && forallb binder_free args
  | ECallN g a args => binder_free g && kv a && forallb kv args
  | EIf c a b => binder_free c && binder_free a && binder_free b
  | EFor _ _ _ | EQuant _ _ _ _ | EFun _ _ => false
  | EList l => forallb binder_free l
  | ECtx l => forallb kv l
  end.
