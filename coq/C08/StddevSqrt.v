(* C08 — the square root of stddev instantiated with Base/DecRound.v dsqrt (proved the correctly rounded decimal128 square root
   in C02/Sqrt.v): stddev as a closed function, used by the correspondence check.  Owner: prover-C08.  No proofs here. *)
From Coq Require Import List NArith ZArith Bool.
From DV Require Import Base.Dec Base.DecRound.
From DV Require Import C09.Values C08.Model C08.Model2.
Import ListNotations.
Open Scope Z_scope.

Definition sqrt_dec (a : Z * Z) : option (Z * Z) :=
  match dsqrt (mkdec (fst a <? 0) (Z.to_N (Z.abs (fst a))) (snd a)) with
  | Some r => Some ((if neg r then - Z.of_N (coef r) else Z.of_N (coef r)), expo r)
  | None => None
  end.
Definition b_stddev_dec : list value -> value := b_stddev sqrt_dec.
Definition pos_stddev_dec : list value -> value := pos_stddev sqrt_dec.
