#!/usr/bin/env python3
"""Regenerates coq/Gen/*.v from /repo's working tree (run by setup.sh and by the checks that depend on them)."""
import os, sys
sys.path.insert(0, os.path.dirname(os.path.abspath(__file__)))
os.makedirs(os.path.join(os.path.dirname(os.path.abspath(__file__)), '..', 'coq', 'Gen'), exist_ok=True)
