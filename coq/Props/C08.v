(* C08 — property theorems only.  Proofs are in C08/Proofs.v. *)
From Coq Require Import List NArith ZArith Bool.
From DV Require Import C09.Values C09.Model C08.Model.
Import ListNotations.
Open Scope Z_scope.

Example C08_nonvacuous : pos Sublist [VList [VNum 1 0; VNum 2 0; VNum 3 0]; VNum (-2) 0; VNum 10 (-1)] = Some (VList [VNum 2 0]).
Proof. vm_compute. reflexivity. Qed.
Print Assumptions C08_nonvacuous.
