//! `dv num`: the FeelNumber Rust API on operands given as strings (owner: C07/C02).
//! Request: {"op": name, "a": text, "b": text}.  Operands are built with FeelNumber::from_string, so that
//! coefficient and exponent are controlled exactly ("-123.4500E+3").
//! Answer: {"r": num | bool | int | text | null} | {"err": "parse"|"op"} | {"panic": text}
//! num = {"n": Debug text (reduced, scientific), "p": Display text, "j": jsonify text, "rb": Display text read back with from_str compares equal}
use crate::canon::panic_text;
use dmntk_common::Jsonify;
use dmntk_feel::values::Value;
use dmntk_feel_number::dec::{dec_from_string, dec_to_string};
use dmntk_feel_number::FeelNumber;
use serde_json::{json, Value as J};
use std::cmp::Ordering;
use std::io::{BufRead, Write};

fn num(n: FeelNumber) -> J {
  let p = format!("{}", n);
  let rb = match p.parse::<FeelNumber>() {
    Ok(x) => J::Bool(x == n),
    Err(_) => J::Null,
  };
  json!({"n": format!("{:?}", n), "p": p, "j": n.jsonify(), "rb": rb})
}

fn opt(n: Option<FeelNumber>) -> J {
  match n {
    Some(n) => num(n),
    None => J::Null,
  }
}

fn one(req: &J) -> J {
  let op = req["op"].as_str().unwrap_or("");
  let sa = req["a"].as_str().unwrap_or("0");
  let sb = req["b"].as_str().unwrap_or("0");
  let a = FeelNumber::from_string(sa);
  let b = FeelNumber::from_string(sb);
  let r = match op {
    "parse" => match sa.parse::<FeelNumber>() {
      Ok(n) => num(n),
      Err(_) => return json!({"err": "parse"}),
    },
    "from_string" => num(a),
    "xsd_decimal" | "xsd_integer" | "xsd_double" => {
      let r = match op {
        "xsd_decimal" => Value::try_from_xsd_decimal(sa),
        "xsd_integer" => Value::try_from_xsd_integer(sa),
        _ => Value::try_from_xsd_double(sa),
      };
      match r {
        Ok(Value::Number(n)) => num(n),
        _ => return json!({"err": "parse"}),
      }
    }
    "sci" => J::String(dec_to_string(&dec_from_string(sa))),
    "add" => num(a + b),
    "sub" => num(a - b),
    "mul" => num(a * b),
    "div" => num(a / b),
    "rem" => num(a % b),
    "neg" => num(-a),
    "abs" => num(a.abs()),
    "floor" => num(a.floor()),
    "ceiling" => num(a.ceiling()),
    "trunc" => num(a.trunc()),
    "fract" => num(a.fract()),
    "round" => num(a.round(&b)),
    "exp" => num(a.exp()),
    "sqrt" => opt(a.sqrt()),
    "ln" => opt(a.ln()),
    "pow" => opt(a.pow(&b)),
    "square" => opt(a.square()),
    "even" => J::Bool(a.even()),
    "odd" => J::Bool(a.odd()),
    "is_integer" => J::Bool(a.is_integer()),
    "is_negative" => J::Bool(a.is_negative()),
    "is_positive" => J::Bool(a.is_positive()),
    "cmp" => match a.partial_cmp(&b) {
      Some(Ordering::Less) => json!(-1),
      Some(Ordering::Equal) => json!(0),
      Some(Ordering::Greater) => json!(1),
      None => J::Null,
    },
    "eq" => J::Bool(a == b),
    "lt" => J::Bool(a < b),
    "le" => J::Bool(a <= b),
    "gt" => J::Bool(a > b),
    "ge" => J::Bool(a >= b),
    _ => return json!({"err": "op"}),
  };
  json!({ "r": r })
}

pub fn main() {
  let stdin = std::io::stdin();
  let stdout = std::io::stdout();
  let mut out = std::io::BufWriter::new(stdout.lock());
  for line in stdin.lock().lines() {
    let line = line.unwrap();
    if line.trim().is_empty() {
      continue;
    }
    let req: J = serde_json::from_str(&line).unwrap_or(J::Null);
    let r = std::panic::catch_unwind(|| one(&req)).unwrap_or_else(|e| json!({"panic": panic_text(e)}));
    writeln!(out, "{}", r).unwrap();
  }
  out.flush().unwrap();
}
