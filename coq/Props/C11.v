(* C11 — property theorems only.  Proofs are in C11/Proofs.v; models in C11/Model.v (on C16's values, types, coerced).
   f = fuel for following type references, D = the item definitions of the model, T = an item definition tree.
   wf_defs / wf_idef: component names are key-ascending (a BTreeMap in the code).
   eval_item / var_eval = the code after the two fix: commits; eval_item_orig = the pinned commit (refuted below).
   clean / plain_refs: no collection type / no referenced type carries allowed values (where the pinned commit was right). *)
From Coq Require Import List NArith Bool Arith.
From DV Require Import C16.Model C16.Proofs C16.Rel C11.Model C11.Proofs C11.ConfModel C11.ConfProofs C11.NullAlt C11.Order.
From Coq Require Import Permutation.
Import ListNotations.

(* the copy-pasted closures all compute the one generic function of their simple type *)
Theorem C11_copies_uniform_simple : forall p av v, simple_copy p av v = if is_atom p v then check_av av v else VNull.
Proof. exact simple_copy_uniform. Qed.
Theorem C11_copies_uniform_collection : forall p ci av v,
  coll_copy p ci av v = match v with
                        | VList vs => if forallb (is_atom p) vs then coll_av ci av vs else VNull
                        | _ => VNull end.
Proof. exact coll_copy_uniform. Qed.
Theorem C11_copies_uniform_variable : forall p v, var_copy p v = if is_atom p v then v else VNull.
Proof. exact var_copy_uniform. Qed.
Theorem C11_copies_uniform_types : forall p,
  type_simple_copy p = Some (TS (prim_simple p)) /\ type_coll_copy p = Some (TList (TS (prim_simple p))).
Proof. intro p. split; [apply type_simple_copy_uniform | apply type_coll_copy_uniform]. Qed.
Theorem C11_copies_uniform : forall ra ci f D T v, eval_item_gen ra ci f D T v = gcheck ra ci f D T v.
Proof. exact eval_item_generic. Qed.

(* the code's algorithm is the Spec, for every type tree and every value *)
Theorem C11_impl_refines : forall f D T v, eval_item f D T v = check f D T v.
Proof. exact impl_refines. Qed.
Theorem C11_input_refines : forall f D name r input, var_eval f D name r input = input_spec f D name r input.
Proof. exact var_eval_refines. Qed.

(* conforming values pass unchanged; anything else becomes null, component-wise for component types *)
Theorem C11_pass_unchanged : forall f D T v, wf_defs D = true -> wf_idef T = true -> conforms f D T v = true -> check f D T v = v.
Proof. exact pass_unchanged. Qed.
Theorem C11_result_conforms_or_null : forall f D T v, check f D T v = VNull \/ wconforms f D T (check f D T v) = true.
Proof. exact result_conforms_or_null. Qed.
Theorem C11_idempotent : forall f D T v, wf_defs D = true -> wf_idef T = true -> check f D T (check f D T v) = check f D T v.
Proof. exact idempotent. Qed.
Theorem C11_component_local : forall f D fs es,
  (forall k, In k (map fst fs) -> vlookup k es <> None) ->
  check (S f) D (IComp fs None) (VCtx es) = VCtx (map (fun e => (fst e, check f D (snd e) (vget (fst e) es))) fs).
Proof. exact component_local. Qed.
Theorem C11_component_missing : forall f D fs av es k, In k (map fst fs) -> vlookup k es = None ->
  check (S f) D (IComp fs av) (VCtx es) = VNull.
Proof. exact component_missing. Qed.

(* fuel: once the fuel covers the type tree (components and reference chains), more fuel changes nothing *)
Theorem C11_fuel_sufficient : forall f g D T v, enough f D T = true -> f <= g -> check g D T v = check f D T v.
Proof. exact fuel_sufficient. Qed.

(* output side: the result coerced to the declared type (C16) *)
Theorem C11_output_coercion : forall f D r v, wf_defs D = true -> wfv v = true ->
  output_value f D r v = VNull \/ conformant (type_of (output_value f D r v)) (var_type f D r) = true.
Proof. exact output_conforms_or_null. Qed.
Theorem C11_output_unchanged : forall f D r v, conformant (type_of v) (var_type f D r) = true -> output_value f D r v = v.
Proof. exact output_unchanged. Qed.
Theorem C11_output_wrap : forall f D r item v, var_type f D r = TList item ->
  conformant (type_of v) (TList item) = false -> conformant (type_of v) item = true -> output_value f D r v = VList [v].
Proof. exact output_wrap. Qed.
Theorem C11_output_unwrap : forall f D r x,
  conformant (type_of (VList [x])) (var_type f D r) = false -> conformant (type_of x) (var_type f D r) = true ->
  (forall item, var_type f D r = TList item -> conformant (type_of (VList [x])) item = false) -> output_value f D r (VList [x]) = x.
Proof. exact output_unwrap. Qed.
Theorem C11_output_idempotent : forall f D r v, wf_defs D = true -> wfv v = true ->
  output_value f D r (output_value f D r v) = output_value f D r v.
Proof. exact output_idempotent. Qed.

(* the pinned commit: a referenced type ignored its own allowed values (tSmall = typeRef tBase + `< 10`, input 50) *)
Theorem C11_referenced_orig_refuted :
  conforms 5 D_small (IRef 1%N (Some [ULt 10%N])) (VAtom SNumber 50%N) = false /\
  check 5 D_small (IRef 1%N (Some [ULt 10%N])) (VAtom SNumber 50%N) = VNull /\
  eval_item 5 D_small (IRef 1%N (Some [ULt 10%N])) (VAtom SNumber 50%N) = VNull /\
  eval_item_orig 5 D_small (IRef 1%N (Some [ULt 10%N])) (VAtom SNumber 50%N) = VAtom SNumber 50%N.
Proof. exact referenced_orig_refuted. Qed.
(* the pinned commit: the allowed values of a collection were tested on the whole list, so [5] was null for `< 10` *)
Theorem C11_collection_orig_refuted :
  let T := ICollSimple PNumber (Some [ULt 10%N]) in
  let v := VList [VAtom SNumber 5%N] in
  clean T = false /\ conforms 5 [] T v = true /\ check 5 [] T v = v /\ eval_item 5 [] T v = v /\ eval_item_orig 5 [] T v = VNull /\
  eval_item 5 [] T (VList [VAtom SNumber 5%N; VAtom SNumber 50%N]) = VNull.
Proof. exact collection_orig_refuted. Qed.
(* ... and these were its only deviations *)
Theorem C11_orig_agrees_outside_findings : forall f D T v,
  clean_defs D = true -> clean T = true -> forallb (fun e => plain_refs (snd e)) D = true -> plain_refs T = true ->
  eval_item_orig f D T v = check f D T v.
Proof. exact orig_agrees_outside_findings. Qed.

Example C11_nonvacuous :
  wf_defs D_ex = true /\ clean_defs D_ex = true /\
  let good := VList [VCtx [(1%N, VAtom SNumber 25%N); (2%N, VAtom SString 1%N)]] in
  let bad := VList [VCtx [(1%N, VAtom SNumber 30%N); (2%N, VAtom SString 1%N)]; VAtom SNumber 1%N] in
  conforms 9 D_ex (ICollRef 2%N None) good = true /\
  eval_item 9 D_ex (ICollRef 2%N None) good = good /\
  eval_item 9 D_ex (ICollRef 2%N None) bad = VList [VCtx [(1%N, VNull); (2%N, VAtom SString 1%N)]; VNull].
Proof. exact nonvacuous. Qed.

(* =====================================================================================================================
   Against an INDEPENDENT specification (coq/C11/ConfModel.v; audit problems 5 and 12).  None of resolve / conforms_to / spec /
   whole / rtype mentions eval_item, check or gcheck.
     resolve f D T = Some t   the fuel f covers the tree of T (iff enough f D T); t = T with its type references followed;
     conforms_to t v          by recursion on the TYPE t: simple = the FEEL type of v (C16 type_of) is the simple type and v is
                              allowed; reference = conforms to the referenced type and is allowed; components = a context with
                              exactly the declared components, each conforming; collection = a list of conforming items;
     whole t                  t is judged as a whole: simple, collection of simple, references to such;
     spec t v                 v if conforms_to t v; else component-wise (component type), item-wise (collection of a
                              referenced type), item- and component-wise (collection of a component type); else null.
   What the real code does (observed through `dv model` before stating, and the same in the model): a context with undeclared
   entries loses them; a context lacking a declared component is null as a whole; null conforms to nothing and stays null;
   a non-conforming component / item of a referenced type is nulled on its own, so "v if it conforms else null" holds for
   the whole-judged types only (C11_eval_item_spec) and is refuted for component types (C11_plain_equation_refuted).
   ===================================================================================================================== *)
Theorem C11_enough_iff_resolves : forall f D T, enough f D T = true <-> exists t, resolve f D T = Some t.
Proof. exact enough_iff_resolves. Qed.
Theorem C11_resolve_fuel_independent : forall f g D T t, resolve f D T = Some t -> f <= g -> resolve g D T = Some t.
Proof. exact resolve_fuel. Qed.
(* the fuelled conformance of Model.v (the `conforms` of the theorems above) is the fuel-free one *)
Theorem C11_conforms_fuel_free : forall f D T t v, resolve f D T = Some t -> C11.Model.conforms f D T v = conforms_to t v.
Proof. exact conforms_link. Qed.

(* a conforming value reaches the decision unchanged: every type tree, every value *)
Theorem C11_eval_item_conforming_unchanged : forall f D T t v, wf_defs D = true -> wf_idef T = true -> resolve f D T = Some t ->
  conforms_to t v = true -> eval_item f D T v = v.
Proof. exact conforming_unchanged. Qed.
(* whole-judged types: the conforming value unchanged, EVERYTHING ELSE null *)
Theorem C11_eval_item_spec : forall f D T t v, wf_defs D = true -> wf_idef T = true -> resolve f D T = Some t -> whole t = true ->
  eval_item f D T v = if conforms_to t v then v else VNull.
Proof. exact eval_item_whole. Qed.
(* every type: the code computes the specification (conforming -> unchanged, else component- / item-wise, else null) *)
Theorem C11_eval_item_spec_general : forall f D T t v, wf_defs D = true -> wf_idef T = true -> resolve f D T = Some t ->
  eval_item f D T v = spec t v.
Proof. exact eval_item_spec. Qed.
Theorem C11_spec_whole : forall t v, whole t = true -> spec t v = if conforms_to t v then v else VNull.
Proof. exact spec_whole. Qed.
(* the plain equation is false for a component type: {a: "s7", b: "s1"} against {a: number, b: string} is {a: null, b: "s1"} *)
Theorem C11_plain_equation_refuted :
  let T := IComp [(1%N, ISimple PNumber None); (2%N, ISimple PString None)] None in
  let v := VCtx [(1%N, VAtom SString 7%N); (2%N, VAtom SString 1%N)] in
  exists t, resolve 2 [] T = Some t /\ conforms_to t v = false /\
  eval_item 2 [] T v = VCtx [(1%N, VNull); (2%N, VAtom SString 1%N)].
Proof. exact plain_equation_refuted. Qed.

(* extra entries, missing components, null *)
Theorem C11_extra_entries_dropped : forall f D fs av es, has_all fs es = true ->
  eval_item f D (IComp fs av) (VCtx es) = eval_item f D (IComp fs av) (VCtx (restrict fs es)).
Proof. exact extra_entries_dropped. Qed.
Theorem C11_extra_entries_result : forall f D fs av t es, wf_defs D = true -> wf_idef (IComp fs av) = true ->
  resolve f D (IComp fs av) = Some t -> has_all fs es = true -> conforms_to t (VCtx (restrict fs es)) = true ->
  eval_item f D (IComp fs av) (VCtx es) = VCtx (restrict fs es).
Proof. exact extra_entries_result. Qed.
Theorem C11_missing_component_null : forall f D fs av es, has_all fs es = false -> eval_item f D (IComp fs av) (VCtx es) = VNull.
Proof. exact missing_component_null. Qed.
Theorem C11_null_not_conforming : forall t, conforms_to t VNull = false.
Proof. exact null_not_conforming. Qed.
Theorem C11_null_stays_null : forall f D T, eval_item f D T VNull = VNull.
Proof. exact null_stays_null. Qed.

(* the declared FEEL type (item_definition_type.rs, Variable::feel_type): with enough fuel it is fuel-independent and it is the
   type read off the resolved tree; the Any fallback is taken only when the chain of type references ends in an undefined name.
   C11_var_type_low_fuel: below that fuel the declared type silently becomes Any, so the hypothesis is needed. *)
Theorem C11_idef_type_declared : forall f D T t, resolve f D T = Some t -> idef_type f D T = rtype t.
Proof. exact idef_type_declared. Qed.
Theorem C11_var_type_fuel_sufficient : forall f g D r, enough_ref f D r = true -> f <= g -> var_type g D r = var_type f D r.
Proof. exact var_type_fuel_sufficient. Qed.
Theorem C11_var_type_declared : forall f D n T t, dlookup n D = Some T -> resolve f D T = Some t ->
  var_type f D (RNamed n) = match rtype t with Some u => u | None => TS SAny end /\
  (rtype t = None -> ends_dangling t = true).
Proof. exact var_type_declared. Qed.
Example C11_var_type_low_fuel :
  let D := [(1%N, ISimple PNumber None); (2%N, IRef 1%N None)] in
  var_type 1 D (RNamed 2%N) = TS SAny /\ enough_ref 1 D (RNamed 2%N) = false /\
  enough_ref 2 D (RNamed 2%N) = true /\ var_type 2 D (RNamed 2%N) = TS SNumber.
Proof. exact var_type_low_fuel. Qed.

(* output side as one equation: the first of  v, [v], (x when v = [x])  whose type conforms to the declared type, else null
   (coerced_spec of coq/C16/Rel.v); fuel-independent once the fuel covers the declared type *)
Theorem C11_output_spec : forall f D r v, wf_defs D = true -> wfv v = true ->
  output_value f D r v = coerced_spec (var_type f D r) v.
Proof. exact output_spec. Qed.
Theorem C11_output_fuel_sufficient : forall f g D r v, enough_ref f D r = true -> f <= g ->
  output_value g D r v = output_value f D r v.
Proof. exact output_fuel_sufficient. Qed.

(* non-vacuity: nested components, a collection of a referenced component type, allowed values on a simple type, on a
   collection and on a reference; the values agree with the answers of the real code (dv model) *)
Example C11_nonvacuous_spec :
  let T := IRef 4%N None in
  let row a b := VCtx [(1%N, VAtom SNumber a); (2%N, VAtom SString b)] in
  let good := VCtx [(3%N, VList [row 25%N 1%N; row 3%N 1%N]); (4%N, VCtx [(1%N, VList [VAtom SNumber 5%N])])] in
  let bad := VCtx [(3%N, VList [row 25%N 1%N; row 15%N 2%N; VAtom SNumber 1%N]);
                   (4%N, VCtx [(1%N, VList [VAtom SNumber 5%N; VAtom SNumber 6%N])]); (9%N, VNull)] in
  wf_defs D_nest = true /\ enough 6 D_nest T = false /\ enough 7 D_nest T = true /\
  exists t, resolve 7 D_nest T = Some t /\ whole t = false /\
    conforms_to t good = true /\ eval_item 7 D_nest T good = good /\
    conforms_to t bad = false /\
    eval_item 7 D_nest T bad =
      VCtx [(3%N, VList [row 25%N 1%N; VCtx [(1%N, VNull); (2%N, VNull)]; VNull]); (4%N, VCtx [(1%N, VNull)])] /\
    spec t bad = eval_item 7 D_nest T bad.
Proof. exact nonvacuous_spec. Qed.
Example C11_nonvacuous_whole :
  let T := IRef 1%N (Some [UGe 25%N]) in
  exists t, resolve 3 D_nest T = Some t /\ whole t = true /\
    conforms_to t (VAtom SNumber 27%N) = true /\ eval_item 3 D_nest T (VAtom SNumber 27%N) = VAtom SNumber 27%N /\
    conforms_to t (VAtom SNumber 22%N) = false /\ eval_item 3 D_nest T (VAtom SNumber 22%N) = VNull /\
    conforms_to t (VAtom SNumber 31%N) = false /\ eval_item 3 D_nest T (VAtom SNumber 31%N) = VNull /\
    conforms_to t (VAtom SString 27%N) = false /\ eval_item 3 D_nest T (VAtom SString 27%N) = VNull.
Proof. exact nonvacuous_whole. Qed.

(* The literal null among allowed values.  Spec (av_ok, used by every theorem above): a value is allowed when some alternative is satisfied, so a
   null alternative is inert wherever it stands.  Code (av_ok_code: eval_in_list stops at a null alternative): it never admits what the Spec rejects,
   it is the Spec when there is no null alternative or the null stands last (the lists the check generates), and it differs exactly when the value
   satisfies no alternative in front of the first null but one behind it - the listed finding null-alternative-first, with its witness. *)
Theorem C11_null_alternative_inert : forall ts1 ts2 v, av_ok (Some (ts1 ++ UNull :: ts2)) v = av_ok (Some (ts1 ++ ts2)) v.
Proof. exact null_inert. Qed.
Theorem C11_null_alternative_code_sound : forall ts v, av_ok_code (Some ts) v = true -> av_ok (Some ts) v = true.
Proof. exact code_le_spec. Qed.
Theorem C11_null_alternative_last_agrees : forall ts v, has_null ts = false ->
  av_ok_code (Some ts) v = av_ok (Some ts) v /\ av_ok_code (Some (ts ++ [UNull])) v = av_ok (Some (ts ++ [UNull])) v.
Proof. intros ts v H. split; [apply code_is_spec_without_null | apply code_is_spec_null_last]; exact H. Qed.
Theorem C11_null_alternative_code_vs_spec : forall ts v,
  av_ok_code (Some ts) v = av_ok (Some ts) v \/
  (av_ok_code (Some ts) v = false /\ av_ok (Some ts) v = true /\ has_null ts = true /\ existsb (sat v) (before_null ts) = false).
Proof. exact code_vs_spec. Qed.
Theorem C11_null_alternative_first_refuted :
  av_ok (Some [UNull; ULit SNumber 5%N]) (VAtom SNumber 5%N) = true /\ av_ok_code (Some [UNull; ULit SNumber 5%N]) (VAtom SNumber 5%N) = false /\
  av_ok_code (Some [ULit SNumber 5%N; UNull]) (VAtom SNumber 5%N) = true /\ av_ok_code (Some [ULit SNumber 5%N; UNull]) (VAtom SNumber 6%N) = false.
Proof. exact null_first_witness. Qed.

(* The document order of the item definitions is irrelevant (C11/Order.v): a list of definitions with distinct names and any permutation of it
   give the same checked input, the same FEEL type of a typed variable and the same coerced result - also for references that point forwards. *)
Theorem C11_definition_order_irrelevant : forall D D', NoDup (map fst D) -> Permutation D D' ->
  forall f T v r res,
    eval_item f D T v = eval_item f D' T v /\ check f D T v = check f D' T v /\
    var_type f D r = var_type f D' r /\ output_value f D r res = output_value f D' r res.
Proof.
  intros D D' ND P f T v r res.
  pose proof (perm_same_lookup D D' ND P) as S.
  assert (C : check f D T v = check f D' T v) by (unfold check; apply gcheck_order; exact S).
  repeat split.
  - rewrite !impl_refines. exact C.
  - exact C.
  - apply var_type_order. exact S.
  - unfold output_value. rewrite (var_type_order D D' S). reflexivity.
Qed.
Example C11_definition_order_nonvacuous :
  let D := [(1%N, IComp [(1%N, IRef 2%N None)] None); (2%N, ISimple PNumber None)] in
  NoDup (map fst D) /\ Permutation D (rev D) /\
  var_type 5 D (RNamed 1%N) = TCtx [(1%N, TS SNumber)] /\ var_type 5 (rev D) (RNamed 1%N) = TCtx [(1%N, TS SNumber)].
Proof.
  cbn zeta. repeat split.
  - cbn. constructor; [intros [H|[]]; discriminate | constructor; [intros [] | constructor]].
  - apply Permutation_rev.
Qed.

Print Assumptions C11_copies_uniform_simple.
Print Assumptions C11_copies_uniform_collection.
Print Assumptions C11_copies_uniform_variable.
Print Assumptions C11_copies_uniform_types.
Print Assumptions C11_copies_uniform.
Print Assumptions C11_impl_refines.
Print Assumptions C11_input_refines.
Print Assumptions C11_pass_unchanged.
Print Assumptions C11_result_conforms_or_null.
Print Assumptions C11_idempotent.
Print Assumptions C11_component_local.
Print Assumptions C11_component_missing.
Print Assumptions C11_fuel_sufficient.
Print Assumptions C11_output_coercion.
Print Assumptions C11_output_unchanged.
Print Assumptions C11_output_wrap.
Print Assumptions C11_output_unwrap.
Print Assumptions C11_output_idempotent.
Print Assumptions C11_referenced_orig_refuted.
Print Assumptions C11_collection_orig_refuted.
Print Assumptions C11_orig_agrees_outside_findings.
Print Assumptions C11_nonvacuous.
Print Assumptions C11_enough_iff_resolves.
Print Assumptions C11_resolve_fuel_independent.
Print Assumptions C11_conforms_fuel_free.
Print Assumptions C11_eval_item_conforming_unchanged.
Print Assumptions C11_eval_item_spec.
Print Assumptions C11_eval_item_spec_general.
Print Assumptions C11_spec_whole.
Print Assumptions C11_plain_equation_refuted.
Print Assumptions C11_extra_entries_dropped.
Print Assumptions C11_extra_entries_result.
Print Assumptions C11_missing_component_null.
Print Assumptions C11_null_not_conforming.
Print Assumptions C11_null_stays_null.
Print Assumptions C11_idef_type_declared.
Print Assumptions C11_var_type_fuel_sufficient.
Print Assumptions C11_var_type_declared.
Print Assumptions C11_var_type_low_fuel.
Print Assumptions C11_output_spec.
Print Assumptions C11_output_fuel_sufficient.
Print Assumptions C11_nonvacuous_spec.
Print Assumptions C11_nonvacuous_whole.
Print Assumptions C11_null_alternative_inert.
Print Assumptions C11_null_alternative_code_sound.
Print Assumptions C11_null_alternative_last_agrees.
Print Assumptions C11_null_alternative_code_vs_spec.
Print Assumptions C11_null_alternative_first_refuted.
Print Assumptions C11_definition_order_irrelevant.
Print Assumptions C11_definition_order_nonvacuous.
