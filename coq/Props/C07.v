(* C07 — property theorems only.  Proofs are in C07/Proofs.v. *)
From Coq Require Import String ZArith NArith Bool List Ascii.
From DV Require Import Base.Dec C07.Model C07.Proofs.
Import ListNotations.
Open Scope Z_scope.

Theorem C07_print_orig_refuted :
  (exists d s, print_orig d = Some s /\ is_plain s = false) /\
  (exists d s, print_orig d = Some s /\ is_plain s = true /\ is_json s = false).
Proof. exact print_orig_refuted. Qed.

Example C07_nonvacuous :
  print (mkdec true 15 (-8)) = Some (rd "-0.00000015"%string) /\
  print (mkdec false 1230 2) = Some (rd "123000"%string) /\
  print (mkdec true 12345 (-2)) = Some (rd "-123.45"%string) /\
  print (mkdec false 0 3) = Some (rd "0"%string).
Proof. exact print_nontrivial. Qed.

Print Assumptions C07_print_orig_refuted.
Print Assumptions C07_nonvacuous.
