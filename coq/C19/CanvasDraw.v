(* C19 — drawing of a decision table as box text in the REGULAR style: every cell is its own frame (no merged cells),
   every cell has one line of text, the columns have any widths.  (owner: ext-canvas)
   A regular drawing is given by the column widths, the lines of cell texts (each text already padded to the width of its column:
   the padding and the alignment are free), and the positions of the double vertical lines; the double horizontal line is below
   the first line of cells.  `draw` makes the text; `expected_plane` is the plane the recogniser must build from it.
   `table_drawing` instantiates this for a decision table with rules as rows without the optional header lines.
   No proofs in this file. *)
From Coq Require Import List NArith Bool Arith.
From DV Require Import C19.Model C19.Canvas.
Import ListNotations.

Record rdraw := {
  rd_ws : list nat;                  (* inner width of every column *)
  rd_rows : list (list (list N));    (* lines of cells, each cell one line of characters *)
  rd_v1 : nat;                       (* index of the column that begins with the main double line *)
  rd_v2 : option nat }.              (* index of the column that begins with the annotation double line *)

Definition ncols (d : rdraw) : nat := length (rd_ws d).
Definition nrows (d : rdraw) : nat := length (rd_rows d).
(* x coordinate of the vertical line in front of column j *)
Fixpoint X (ws : list nat) (j : nat) : nat :=
  match j, ws with
  | S j', w :: ws' => S (w + X ws' j')
  | _, _ => O
  end.
Definition Wd (d : rdraw) : nat := S (X (rd_ws d) (ncols d)).
Definition Hd (d : rdraw) : nat := S (2 * nrows d).

Inductive pos := PSep (j : nat) | PIn (j off : nat).
Fixpoint locate (ws : list nat) (x : nat) : pos :=
  match x with
  | O => PSep 0
  | S x' =>
      match ws with
      | [] => PIn 0 x'
      | w :: ws' =>
          if x' <? w then PIn 0 x'
          else match locate ws' (x' - w) with PSep j => PSep (S j) | PIn j o => PIn (S j) o end
      end
  end.

Definition is_dbl (d : rdraw) (j : nat) : bool := (j =? rd_v1 d) || match rd_v2 d with Some k => j =? k | None => false end.

(* the character of a crossing: line i (0 = top, nrows = bottom, 1 = the double line), vertical line j (0 = left, ncols = right) *)
Definition junction (d : rdraw) (i j : nat) : N :=
  let dv := is_dbl d j in
  if i =? 0 then (if j =? 0 then cTL else if j =? ncols d then cTR else if dv then dTv else cT)
  else if i =? nrows d then (if j =? 0 then cBL else if j =? ncols d then cBR else if dv then dBv else cB)
  else if i =? 1 then (if j =? 0 then dLh else if j =? ncols d then dRh else if dv then dXX else dXh)
  else (if j =? 0 then cL else if j =? ncols d then cR else if dv then dXv else cX).

Definition cell_text (d : rdraw) (i j : nat) : list N := nth j (nth i (rd_rows d) []) [].

Definition char_at (d : rdraw) (y x : nat) : N :=
  let i := Nat.div2 y in
  match locate (rd_ws d) x with
  | PSep j => if Nat.even y then junction d i j else if is_dbl d j then dV else cV
  | PIn j o => if Nat.even y then (if i =? 1 then dH else cH) else nth o (cell_text d i j) cWhite
  end.

Definition tab (h w : nat) (f : nat -> nat -> N) : layer := map (fun y => map (f y) (seq 0 w)) (seq 0 h).
Definition draw_grid (d : rdraw) : layer := tab (Hd d) (Wd d) (char_at d).
(* the text: every line ends with a line feed *)
Definition draw (d : rdraw) : list N := flat_map (fun row => row ++ [cNL]) (draw_grid d).

(* ---------------- the plane this drawing denotes ---------------- *)
Definition cell_rect (d : rdraw) (i j : nat) : rect :=
  (X (rd_ws d) j, 2 * i, S (X (rd_ws d) (S j)), 2 * i + 3).
Definition lead (d : rdraw) (j : nat) : list ccell :=
  (if j =? rd_v1 d then [CVOut] else []) ++ (match rd_v2 d with Some k => if j =? k then [CVAnn] else [] | None => [] end).
Definition plane_row (d : rdraw) (i : nat) : list ccell :=
  flat_map (fun j => lead d j ++ [CRegion (i * ncols d + j) (cell_rect d i j) (cell_text d i j)]) (seq 0 (ncols d)).
Definition plane_width (d : rdraw) : nat := ncols d + 1 + match rd_v2 d with Some _ => 1 | None => 0 end.
Definition cross_line (d : rdraw) : list ccell :=
  map (fun c => if c =? rd_v1 d then CMain
                else match rd_v2 d with Some k => if c =? S k then CHCross else CHOut | None => CHOut end) (seq 0 (plane_width d)).
Definition expected_plane (d : rdraw) : list (list ccell) :=
  match seq 0 (nrows d) with
  | [] => []
  | i0 :: rest => plane_row d i0 :: cross_line d :: map (plane_row d) rest
  end.

(* ---------------- well-formed regular drawings ---------------- *)
Definition box_chars : list N :=
  [cH; cV; cTL; cTR; cBL; cBR; cL; cR; cT; cB; cX; dH; dV; dLh; dLv; dRh; dRv; dTh; dTv; dBh; dBv; dXh; dXv; dXX; cOuter; cNL].
Definition plain (t : list N) : bool := forallb (fun c => negb (mem c box_chars)) t.

Definition wf_rdraw (d : rdraw) : bool :=
  (2 <=? nrows d) &&
  (1 <=? rd_v1 d) && (rd_v1 d <? ncols d) &&
  match rd_v2 d with Some k => (rd_v1 d <? k) && (k <? ncols d) | None => true end &&
  forallb (fun row => (length row =? ncols d) &&
                      forallb (fun tw => (length (fst tw) =? snd tw) && plain (fst tw)) (combine row (rd_ws d))) (rd_rows d).

(* ---------------- a decision table (rules as rows, one header line) as a regular drawing ---------------- *)
Record stable := {
  s_hp : list N;                      (* hit policy cell *)
  s_ins : list (list N);              (* input expressions *)
  s_outs : list (list N);             (* output label (one output) or output component names (several) *)
  s_anns : list (list N);             (* annotation names *)
  s_rules : list (list N * list (list N) * list (list N) * list (list N)) }.   (* number cell, input / output / annotation entries *)

Definition table_drawing (s : stable) : rdraw :=
  let hdr := s_hp s :: s_ins s ++ s_outs s ++ s_anns s in
  {| rd_ws := map (@length N) hdr;
     rd_rows := hdr :: map (fun r => let '(n, i, o, a) := r in n :: i ++ o ++ a) (s_rules s);
     rd_v1 := 1 + length (s_ins s);
     rd_v2 := match s_anns s with [] => None | _ => Some (1 + length (s_ins s) + length (s_outs s)) end |}.

Section Abs.
Variable code : list N -> N.
(* the table of Model.v this drawing shows: texts through `code` *)
Definition abs_table (s : stable) : table :=
  {| t_inputs := map (fun e => (code e, 0%N)) (s_ins s);
     t_outputs := map (fun e => (code e, 0%N)) (s_outs s);
     t_label := match s_outs s with [l] => Some (code l) | _ => None end;
     t_values := false;
     t_annotations := map code (s_anns s);
     t_rules := map (fun r => let '(_, i, o, a) := r in {| r_in := map code i; r_out := map code o; r_ann := map code a |}) (s_rules s) |}.
End Abs.
