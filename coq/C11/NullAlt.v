(* The literal null among allowed values (C11, known finding null-alternative-first).
   Spec: a value is allowed when SOME alternative is satisfied (av_ok); the alternative null is satisfied by no non-null value, so it neither
   admits nor rejects anything, wherever it stands.  Code: the scan stops at the alternative null (alts_code).  The two agree exactly when no
   alternative BEHIND the first null is the only one the value satisfies; in particular when the null stands last. *)
From Coq Require Import List NArith Bool.
From DV Require Import C16.Model C11.Model.
Import ListNotations.

Definition sat (v : value) (t : utest) : bool := utest_ok t v.

Lemma utest_null_false : forall v, utest_ok UNull v = false.
Proof. intro v; destruct v; reflexivity. Qed.

(* the alternatives in front of the first null *)
Fixpoint before_null (ts : list utest) : list utest :=
  match ts with
  | [] => []
  | UNull :: _ => []
  | t :: r => t :: before_null r
  end.

Fixpoint has_null (ts : list utest) : bool :=
  match ts with [] => false | UNull :: _ => true | _ :: r => has_null r end.

Lemma alts_code_prefix : forall ts v, alts_code ts v = existsb (sat v) (before_null ts).
Proof.
  induction ts as [|t r IH]; intro v; [reflexivity|].
  destruct t; cbn [alts_code before_null existsb]; unfold sat; fold (sat v); try (rewrite IH; reflexivity); reflexivity.
Qed.

(* Spec: the null alternative is inert, wherever it stands *)
Lemma null_inert : forall ts1 ts2 v, av_ok (Some (ts1 ++ UNull :: ts2)) v = av_ok (Some (ts1 ++ ts2)) v.
Proof.
  intros ts1 ts2 v. cbn [av_ok]. rewrite !existsb_app. cbn [existsb]. rewrite utest_null_false. reflexivity.
Qed.

(* the code never admits a value the Spec rejects *)
Lemma code_le_spec : forall ts v, alts_code ts v = true -> av_ok (Some ts) v = true.
Proof.
  induction ts as [|t r IH]; intros v H; [discriminate|].
  cbn [av_ok existsb]. destruct t; cbn [alts_code] in H; try discriminate;
    apply orb_true_iff in H; destruct H as [H|H]; try (rewrite H; reflexivity);
    (apply IH in H; cbn [av_ok] in H; rewrite H; apply orb_true_r).
Qed.

(* without a null alternative the code is the Spec *)
Lemma code_is_spec_without_null : forall ts v, has_null ts = false -> alts_code ts v = av_ok (Some ts) v.
Proof.
  induction ts as [|t r IH]; intros v H; [reflexivity|].
  cbn [av_ok existsb]. destruct t; cbn [has_null] in H; try discriminate; cbn [alts_code];
    (rewrite (IH v H); reflexivity).
Qed.

(* with the null LAST the code is the Spec (the lists the check generates) *)
Lemma code_is_spec_null_last : forall ts v, has_null ts = false -> alts_code (ts ++ [UNull]) v = av_ok (Some (ts ++ [UNull])) v.
Proof.
  intros ts v H. rewrite (null_inert ts [] v), app_nil_r, <- (code_is_spec_without_null ts v H).
  rewrite !alts_code_prefix. f_equal.
  clear v. induction ts as [|t r IH]; [reflexivity|].
  destruct t; cbn [has_null] in H; try discriminate; cbn [app before_null]; (rewrite (IH H); reflexivity).
Qed.

(* exactly where they differ: the value satisfies no alternative in front of the first null but one behind it *)
Lemma code_vs_spec : forall ts v,
  alts_code ts v = av_ok (Some ts) v \/ (alts_code ts v = false /\ av_ok (Some ts) v = true /\ has_null ts = true /\ existsb (sat v) (before_null ts) = false).
Proof.
  intros ts v. destruct (has_null ts) eqn:Hn.
  - destruct (alts_code ts v) eqn:Hc.
    + left. symmetry. apply code_le_spec. exact Hc.
    + destruct (av_ok (Some ts) v) eqn:Hs; [right|left; reflexivity].
      repeat split. rewrite <- alts_code_prefix. exact Hc.
  - left. apply code_is_spec_without_null. exact Hn.
Qed.

(* the listed finding: allowed values `null, 5` and the value 5 *)
Lemma null_first_witness :
  av_ok (Some [UNull; ULit SNumber 5%N]) (VAtom SNumber 5%N) = true /\ av_ok_code (Some [UNull; ULit SNumber 5%N]) (VAtom SNumber 5%N) = false /\
  av_ok_code (Some [ULit SNumber 5%N; UNull]) (VAtom SNumber 5%N) = true /\ av_ok_code (Some [ULit SNumber 5%N; UNull]) (VAtom SNumber 6%N) = false.
Proof. repeat split; vm_compute; reflexivity. Qed.
