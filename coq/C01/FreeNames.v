(* C01 — "the result depends only on the expression text and on the values bound to its free names".
   names e     = every name the expression refers to (all EName occurrences, also inside tests, domains,
                 arguments and function bodies).  Binder names that are never referred to need not be
                 counted: the theorems are monotone in the set A, so adding them only weakens the statement.
   aclosed A v = every function value inside v has names body ⊆ A;
   lclosed A S = the values S binds to names of A are aclosed (sclosed A S, every bound value is, implies it).
   Function bodies run in the CALLER's stack (dynamic scoping, listed known finding), so the function
   values reachable from the stack matter: the closedness hypothesis is necessary (dynamic_scope_witness).
   Main results: eval_closed (an expression over A computes closed values from an lclosed stack) and eval_agree
   (two lclosed stacks that agree on A give the same value), both by induction on the fuel, for every
   enumeration cartf that only re-arranges values (cart and cart_impl do).
   The statement is about occurring names, not free names: a bound variable can be looked up outside when the
   code's enumeration skips an empty domain (bound_name_leak_witness; listed known finding empty-domain).
   Owner: prover (lead's C01 files untouched). *)
From Coq Require Import List ZArith NArith Bool Lia.
From DV Require Import C01.Syntax C01.Spec C01.Impl C01.Proofs.
Import ListNotations.
Open Scope Z_scope.

Fixpoint names (e : expr) : list N :=
  match e with
  | ENull | EBool _ | ENum _ | EStr _ => []
  | EName n => [n]
  | EBin _ a b => names a ++ names b
  | ENeg a => names a
  | EIf c t e' => names c ++ names t ++ names e'
  | EBetween x lo hi => names x ++ names lo ++ names hi
  | EIn x ts => names x ++ flat_map tnames ts
  | EInList x l => names x ++ names l
  | EList es => flat_map names es
  | ECtx es => flat_map (fun ke => names (snd ke)) es
  | EPath e' _ => names e'
  | EFilter e' fe => names e' ++ names fe
  | EFor ds body => flat_map (fun nd => dnames (snd nd)) ds ++ names body
  | ESome ds body => flat_map (fun nd => names (snd nd)) ds ++ names body
  | EEvery ds body => flat_map (fun nd => names (snd nd)) ds ++ names body
  | EFun _ body => names body
  | ECall fe args => names fe ++ flat_map names args
  | ECallN fe nargs => names fe ++ flat_map (fun ne => names (snd ne)) nargs
  end
with tnames (t : test) : list N :=
  match t with
  | TVal e => names e | TCmp _ e => names e | TRange lo _ hi _ => names lo ++ names hi end
with dnames (d : dom) : list N :=
  match d with DList e => names e | DRange lo hi => names lo ++ names hi end.

Definition covers (A : N -> bool) (e : expr) : bool := forallb A (names e).

Fixpoint aclosed (A : N -> bool) (v : value) : bool :=
  match v with
  | VList l => forallb (aclosed A) l
  | VCtx es => forallb (fun kv => aclosed A (snd kv)) es
  | VRange lo _ hi _ => aclosed A lo && aclosed A hi
  | VUnary _ v => aclosed A v
  | VFun _ body => covers A body
  | _ => true
  end.
Definition cclosed (A : N -> bool) (c : ctx) : bool := forallb (fun kv => aclosed A (snd kv)) c.
Definition sclosed (A : N -> bool) (S : stack) : bool := forallb (cclosed A) S.
(* what evaluation needs of a stack: the values it can reach through names of A are closed (implied by sclosed) *)
Definition lclosed (A : N -> bool) (S : stack) : Prop := forall n v, A n = true -> lookup n S = Some v -> aclosed A v = true.
Definition agree (A : N -> bool) (S S' : stack) : Prop := forall n, A n = true -> lookup n S = lookup n S'.

(* the enumeration of iteration tuples only re-arranges the domain values into contexts *)
Definition rearranges (A : N -> bool) (cartf : list (N * list value) -> list ctx) : Prop :=
  forall ds, forallb (fun d => forallb (aclosed A) (snd d)) ds = true -> forallb (cclosed A) (cartf ds) = true.

(* ---------- forallb helpers ---------- *)
Lemma fa_in {X} (p : X -> bool) l x : forallb p l = true -> In x l -> p x = true.
Proof. intros H. apply (proj1 (forallb_forall p l) H). Qed.
Lemma fa_intro {X} (p : X -> bool) l : (forall x, In x l -> p x = true) -> forallb p l = true.
Proof. apply forallb_forall. Qed.
Lemma fa_flat_map {X Y} (p : Y -> bool) (g : X -> list Y) l x : forallb p (flat_map g l) = true -> In x l -> forallb p (g x) = true.
Proof. intros H Hx. apply fa_intro. intros y Hy. apply (fa_in _ _ _ H). apply in_flat_map. exists x. split; assumption. Qed.
Lemma fa_snoc {X} (p : X -> bool) l x : forallb p l = true -> p x = true -> forallb p (l ++ [x]) = true.
Proof. intros H1 H2. rewrite forallb_app, H1. cbn [forallb]. rewrite H2. reflexivity. Qed.

Ltac split_cov H := unfold covers in H; cbn [names tnames dnames forallb] in H; repeat rewrite ?forallb_app, ?andb_true_iff in H.
Ltac ifs := repeat match goal with |- context [if ?c then _ else _] => destruct c end.

(* ---------- operators whose result contains no function value ---------- *)
Definition scalar (v : value) : bool :=
  match v with VNull | VBool _ | VNum _ | VStr _ | VPoison => true | _ => false end.
Lemma scalar_closed A v : scalar v = true -> aclosed A v = true.
Proof. destruct v; cbn [scalar aclosed]; congruence. Qed.

Lemma scalar_cmp_lt a b : scalar (cmp_lt a b) = true.
Proof. destruct a, b; reflexivity. Qed.
Lemma scalar_cmp_le a b : scalar (cmp_le a b) = true.
Proof. destruct a, b; reflexivity. Qed.

Lemma scalar_of_num o : scalar (of_num o) = true.
Proof. destruct o; reflexivity. Qed.

Lemma scalar_binop o a b : scalar (binop_eval o a b) = true.
Proof. unfold binop_eval. destruct (poisoned a b); [reflexivity|].
  destruct o; try apply scalar_cmp_lt; try apply scalar_cmp_le.
  - destruct a, b; try reflexivity; apply scalar_of_num.
  - destruct a, b; try reflexivity; apply scalar_of_num.
  - destruct a, b; try reflexivity; apply scalar_of_num.
  - destruct a, b; try reflexivity. unfold num_div. ifs; try reflexivity; apply scalar_of_num.
  - destruct a, b; try reflexivity. unfold num_pow. ifs; try reflexivity; apply scalar_of_num.
  - destruct (veq a b) as [[|]|]; reflexivity.
  - destruct (veq a b) as [[|]|]; reflexivity.
  - unfold and3. destruct a, b; ifs; reflexivity.
  - unfold or3. destruct a, b; ifs; reflexivity. Qed.

Lemma scalar_neg a : scalar (neg_eval a) = true.
Proof. destruct a; reflexivity. Qed.
Lemma scalar_between x lo hi : scalar (between_eval x lo hi) = true.
Proof. destruct x, lo, hi; reflexivity. Qed.
Lemma scalar_in_unary o x r : scalar (in_unary o x r) = true.
Proof. destruct o; cbn [in_unary]; first [apply scalar_cmp_lt | apply scalar_cmp_le]. Qed.
Lemma scalar_in_range x lo lc hi hc : scalar (in_range x lo lc hi hc) = true.
Proof. destruct x, lo, hi; reflexivity. Qed.
Lemma scalar_in_list f : forall x items, scalar (in_list f x items) = true.
Proof. induction f as [|f IH]; intros x items; cbn [in_list]; [reflexivity|].
  destruct items as [|it r]; [reflexivity|]. destruct it; try reflexivity; ifs; try reflexivity; apply IH. Qed.
Lemma scalar_in_eval x r : scalar (in_eval x r) = true.
Proof. unfold in_eval. destruct (poison x || poison r); [reflexivity|].
  destruct r; try reflexivity.
  - destruct x; try apply scalar_in_list. unfold in_list_in_list. destruct (find _ _) as [[]|]; reflexivity.
  - apply scalar_in_range.
  - apply scalar_in_unary. Qed.
Lemma scalar_in_tests x ts : scalar (in_tests_eval x ts) = true.
Proof. unfold in_tests_eval. destruct (poison x || existsb poison ts); [reflexivity|]. apply scalar_in_list. Qed.
Lemma scalar_quant_some rs : scalar (quant_some rs) = true.
Proof. unfold quant_some. ifs; reflexivity. Qed.
Lemma scalar_quant_every rs : scalar (quant_every rs) = true.
Proof. unfold quant_every. ifs; reflexivity. Qed.

Section Closed.
Variable A : N -> bool.

(* ---------- contexts and stacks ---------- *)
Lemma ctx_get_closed k c v : cclosed A c = true -> ctx_get k c = Some v -> aclosed A v = true.
Proof. induction c as [|[k' v'] c IH]; cbn [ctx_get]; [discriminate|]. unfold cclosed. cbn [forallb snd].
  intros H. apply andb_true_iff in H as [H1 H2]. destruct (N.eqb k k'); [intros [= <-]; exact H1|]. apply IH. exact H2. Qed.

Lemma ctx_set_closed k v c : aclosed A v = true -> cclosed A c = true -> cclosed A (ctx_set k v c) = true.
Proof. intros Hv. unfold cclosed. induction c as [|[k' v'] c IH]; cbn [ctx_set forallb snd].
  - intros _. rewrite Hv. reflexivity.
  - intros H. apply andb_true_iff in H as [H1 H2]. destruct (N.eqb k k'); [|destruct (N.ltb k k')]; cbn [forallb snd].
    + rewrite Hv. exact H2.
    + rewrite Hv, H1. exact H2.
    + rewrite H1. apply IH. exact H2. Qed.

Lemma lookup_closed n S v : sclosed A S = true -> lookup n S = Some v -> aclosed A v = true.
Proof. unfold sclosed. induction S as [|c S IH]; cbn [lookup forallb]; [discriminate|].
  intros H. apply andb_true_iff in H as [H1 H2]. destruct (ctx_get n c) as [w|] eqn:E.
  - intros [= <-]. exact (ctx_get_closed _ _ _ H1 E).
  - apply IH. exact H2. Qed.

Lemma sclosed_cons c S : cclosed A c = true -> sclosed A S = true -> sclosed A (c :: S) = true.
Proof. unfold sclosed. intros H1 H2. cbn [forallb]. rewrite H1. exact H2. Qed.
Lemma sclosed_app E S : sclosed A E = true -> sclosed A S = true -> sclosed A (E ++ S) = true.
Proof. unfold sclosed. intros H1 H2. rewrite forallb_app, H1. exact H2. Qed.

Lemma sclosed_lclosed S : sclosed A S = true -> lclosed A S.
Proof. intros H n v _ E. exact (lookup_closed n S v H E). Qed.
Lemma lclosed_cons c S : cclosed A c = true -> lclosed A S -> lclosed A (c :: S).
Proof. intros H1 H2 n v Hn. cbn [lookup]. destruct (ctx_get n c) as [w|] eqn:E.
  - intros [= <-]. exact (ctx_get_closed _ _ _ H1 E).
  - apply H2. exact Hn. Qed.
Lemma lclosed_app E S : sclosed A E = true -> lclosed A S -> lclosed A (E ++ S).
Proof. unfold sclosed. induction E as [|c E IH]; cbn [forallb app]; intros H1 H2; [exact H2|].
  apply andb_true_iff in H1 as [Hc HE]. apply lclosed_cons; [exact Hc|]. apply IH; assumption. Qed.

Lemma agree_cons c S S' : agree A S S' -> agree A (c :: S) (c :: S').
Proof. intros H n Hn. cbn [lookup]. destruct (ctx_get n c); [reflexivity|]. apply H. exact Hn. Qed.
Lemma agree_app E S S' : agree A S S' -> agree A (E ++ S) (E ++ S').
Proof. intros H. induction E as [|c E IH]; [exact H|]. cbn [app]. apply agree_cons. exact IH. Qed.

(* ---------- operators that re-arrange sub-values ---------- *)
Lemma path_eval_closed v k : aclosed A v = true -> aclosed A (path_eval v k) = true.
Proof. destruct v; cbn [path_eval]; try reflexivity.
  - cbn [aclosed]. intros H.
    assert (G : forall l acc, forallb (aclosed A) l = true -> forallb (aclosed A) acc = true ->
      aclosed A ((fix go (l : list value) (acc : list value) : value :=
         match l with
         | [] => VList (rev acc)
         | VCtx c :: r => go r (match ctx_get k c with Some x => x :: acc | None => acc end)
         | _ :: _ => VNull
         end) l acc) = true).
    { clear. induction l as [|x l IH]; intros acc Hl Ha.
      - cbn [aclosed]. apply fa_intro. intros y Hy. apply in_rev in Hy. exact (fa_in _ _ _ Ha Hy).
      - cbn [forallb] in Hl. apply andb_true_iff in Hl as [Hx Hl]. destruct x; try reflexivity.
        apply IH; [exact Hl|]. destruct (ctx_get k es) as [w|] eqn:E; [|exact Ha].
        cbn [forallb]. rewrite Ha, andb_true_r. exact (ctx_get_closed _ _ _ Hx E). }
    apply G; [exact H|reflexivity].
  - intros H. destruct (ctx_get k es) as [w|] eqn:E; [|reflexivity]. exact (ctx_get_closed _ _ _ H E). Qed.

Lemma nth_closed n l : forallb (aclosed A) l = true -> aclosed A (nth n l VNull) = true.
Proof. intros H. destruct (nth_in_or_default n l VNull) as [Hi | -> ]; [exact (fa_in _ _ _ H Hi)|reflexivity]. Qed.
Lemma nth1_closed l i : forallb (aclosed A) l = true -> aclosed A (nth1 l i) = true.
Proof. intros H. unfold nth1. ifs; try reflexivity; apply nth_closed; exact H. Qed.

Lemma kept_in_items (items rs : list value) x :
  In x (map fst (filter (fun vr : value * value => is_true (snd vr)) (combine items rs))) -> In x items.
Proof. intros H. apply in_map_iff in H as ([a b] & <- & H). apply filter_In in H as [H _]. exact (in_combine_l _ _ _ _ H). Qed.

Lemma filter_finish_closed items kept outer :
  forallb (aclosed A) items = true -> (forall x, In x kept -> In x items) -> aclosed A (filter_finish items kept outer) = true.
Proof. intros Hi Hk.
  assert (G : aclosed A (match kept with [x] => x | _ => VList kept end) = true).
  { assert (Hkc : forallb (aclosed A) kept = true) by (apply fa_intro; intros x Hx; exact (fa_in _ _ _ Hi (Hk x Hx))).
    destruct kept as [|x [|y r]]; [reflexivity| |exact Hkc]. cbn [forallb] in Hkc. rewrite andb_true_r in Hkc. exact Hkc. }
  destruct outer; cbn [filter_finish]; try exact G; [destruct (num_int d); [apply nth1_closed; exact Hi|reflexivity]|reflexivity]. Qed.

Lemma filter_scalar_closed v outer : aclosed A v = true -> aclosed A (filter_scalar v outer) = true.
Proof. intros H. destruct outer as [|[|]| | | | | | | |]; cbn [filter_scalar]; try reflexivity.
  - cbn [aclosed forallb]. rewrite H. reflexivity.
  - ifs; [exact H|reflexivity]. Qed.

Lemma filter_env_closed v : aclosed A v = true -> sclosed A (filter_env v) = true.
Proof. intros H. unfold filter_env, sclosed, cclosed.
  destruct v; cbn [forallb snd]; rewrite ?H; try reflexivity.
  destruct (ctx_get n_item es); cbn [forallb snd]; cbn [aclosed] in H |- *; rewrite H; reflexivity. Qed.

Lemma dom_values_closed v : aclosed A v = true -> forallb (aclosed A) (dom_values v) = true.
Proof. intros H. destruct v; cbn [dom_values forallb]; rewrite ?andb_true_r; exact H. Qed.

Lemma range_values_closed a b : forallb (aclosed A) (range_values a b) = true.
Proof. unfold range_values. ifs; [reflexivity| |]; apply fa_intro; intros x Hx; apply in_map_iff in Hx as (i & <- & _); reflexivity. Qed.

Lemma coerced1_closed t v : aclosed A v = true -> aclosed A (coerced1 t v) = true.
Proof. intros H. unfold coerced1. destruct (poison v); [reflexivity|]. destruct (T.conformant (type_of1 v) t); [exact H|].
  assert (G : aclosed A (match v with VList [x] => if T.conformant (type_of1 x) t then x else VNull | _ => VNull end) = true).
  { destruct v as [| | | |[|x [|y l]]| | | | |]; try reflexivity. destruct (T.conformant _ _); [|reflexivity].
    cbn [aclosed forallb] in H. rewrite andb_true_r in H. exact H. }
  destruct t; try exact G. destruct (T.conformant (type_of1 v) t); [|exact G]. cbn [aclosed forallb]. rewrite H. reflexivity. Qed.

Lemma mk_args_closed ps vs c : forallb (aclosed A) vs = true -> mk_args ps vs = Some c -> cclosed A c = true.
Proof. intros Hv. unfold mk_args. destruct (Nat.ltb _ _); [discriminate|]. intros [= <-].
  assert (G : forall l acc, (forall pv, In pv l -> aclosed A (snd pv) = true) -> cclosed A acc = true ->
     cclosed A (fold_left (fun (c : ctx) (pv : N * C16.Model.ftype * value) => ctx_set (fst (fst pv)) (coerced1 (snd (fst pv)) (snd pv)) c) l acc) = true).
  { induction l as [|pv l IH]; intros acc Hl Ha; [exact Ha|]. cbn [fold_left]. apply IH.
    - intros q Hq. apply Hl. right. exact Hq.
    - apply ctx_set_closed; [|exact Ha]. apply coerced1_closed. apply Hl. left. reflexivity. }
  apply G; [|reflexivity]. intros [p v] Hpv. cbn [snd]. apply in_combine_r in Hpv. exact (fa_in _ _ _ Hv Hpv). Qed.

Lemma assoc_closed k (l : list (N * value)) v : forallb (fun kv => aclosed A (snd kv)) l = true -> assoc k l = Some v -> aclosed A v = true.
Proof. induction l as [|[k' v'] l IH]; cbn [assoc forallb snd]; [discriminate|].
  intros H. apply andb_true_iff in H as [H1 H2]. destruct (N.eqb k k'); [intros [= <-]; exact H1|]. apply IH. exact H2. Qed.

Lemma mk_named_closed ps nvs : forallb (fun kv => aclosed A (snd kv)) nvs = true ->
  forall acc c, cclosed A acc = true -> mk_named ps nvs acc = Some c -> cclosed A c = true.
Proof. intros Hn. induction ps as [|[p t] ps IH]; intros acc c Ha; cbn [mk_named].
  - intros [= <-]. exact Ha.
  - destruct (assoc p nvs) as [v|] eqn:E; [|discriminate]. apply IH. apply ctx_set_closed; [|exact Ha].
    apply coerced1_closed. exact (assoc_closed _ _ _ Hn E). Qed.

(* ---------- both enumerations only re-arrange ---------- *)
Lemma cart_rearranges : rearranges A cart.
Proof. intros ds. induction ds as [|[x vs] ds IH]; cbn [cart forallb snd]; intros H; [reflexivity|].
  apply andb_true_iff in H as [H1 H2]. apply fa_intro. intros c Hc.
  apply in_flat_map in Hc as (v & Hv & Hc). apply in_map_iff in Hc as (c' & <- & Hc').
  apply ctx_set_closed; [exact (fa_in _ _ _ H1 Hv)|]. exact (fa_in _ _ _ (IH H2) Hc'). Qed.

Lemma cart_impl_rearranges : rearranges A cart_impl.
Proof. intros ds H. unfold cart_impl.
  set (ne := filter _ ds).
  assert (Hne : forallb (fun d : N * list value => forallb (aclosed A) (snd d)) ne = true).
  { apply fa_intro. intros d Hd. apply filter_In in Hd as [Hd _]. exact (fa_in _ _ _ H Hd). }
  destruct ne; [reflexivity|]. apply cart_rearranges. exact Hne. Qed.

(* ---------- evaluation ---------- *)
Section Eval.
Variable cartf : list (N * list value) -> list ctx.
Hypothesis Hcart : rearranges A cartf.

Lemma doms_eval_closed f S ds
  (IH : forall S e, covers A e = true -> lclosed A S -> aclosed A (eval cartf f S e) = true) :
  forallb A (flat_map (fun nd : N * dom => dnames (snd nd)) ds) = true -> lclosed A S ->
  forallb (fun d : N * list value => forallb (aclosed A) (snd d)) (doms_eval (eval cartf f S) ds) = true.
Proof. intros Hc HS. apply fa_intro. intros d Hd. unfold doms_eval in Hd.
  apply in_flat_map in Hd as ([x dm] & Hnd & Hd). pose proof (fa_flat_map _ _ _ _ Hc Hnd) as Hcd. cbn [fst snd] in *.
  destruct dm as [e|lo hi]; cbn [dom_eval dnames] in *.
  - destruct Hd as [<-|[]]. cbn [snd]. apply dom_values_closed. apply IH; assumption.
  - destruct (eval cartf f S lo) as [| |dlo| | | | | | |]; try (destruct Hd; fail). destruct (eval cartf f S hi) as [| |dhi| | | | | | |]; try (destruct Hd; fail).
    destruct (num_int dlo); try (destruct Hd; fail). destruct (num_int dhi); try (destruct Hd; fail).
    destruct Hd as [<-|[]]. cbn [snd]. apply range_values_closed. Qed.

Lemma quant_doms_closed f S (ds : list (N * expr))
  (IH : forall S e, covers A e = true -> lclosed A S -> aclosed A (eval cartf f S e) = true) :
  forallb A (flat_map (fun nd : N * expr => names (snd nd)) ds) = true -> lclosed A S ->
  forallb (fun d : N * list value => forallb (aclosed A) (snd d)) (map (fun nd => (fst nd, dom_values (eval cartf f S (snd nd)))) ds) = true.
Proof. intros Hc HS. apply fa_intro. intros d Hd. apply in_map_iff in Hd as (nd & <- & Hnd). cbn [snd].
  apply dom_values_closed. apply IH; [|exact HS]. exact (fa_flat_map _ _ _ _ Hc Hnd). Qed.

Lemma ctx_fold_closed f S
  (IH : forall S e, covers A e = true -> lclosed A S -> aclosed A (eval cartf f S e) = true) :
  lclosed A S -> forall (es : list (N * expr)) acc,
  (forall ke, In ke es -> covers A (snd ke) = true) -> cclosed A acc = true ->
  cclosed A (fold_left (fun acc ke => ctx_set (fst ke) (eval cartf f (acc :: S) (snd ke)) acc) es acc) = true.
Proof. intros HS. induction es as [|ke es IHes]; intros acc Hes Ha; [exact Ha|]. cbn [fold_left]. apply IHes.
  - intros q Hq. apply Hes. right. exact Hq.
  - apply ctx_set_closed; [|exact Ha]. apply IH; [apply Hes; left; reflexivity|]. apply lclosed_cons; assumption. Qed.

Lemma for_fold_closed f S body
  (IH : forall S e, covers A e = true -> lclosed A S -> aclosed A (eval cartf f S e) = true) :
  covers A body = true -> lclosed A S -> forall ts acc,
  forallb (cclosed A) ts = true -> forallb (aclosed A) acc = true ->
  forallb (aclosed A) (fold_left (fun acc t => acc ++ [eval cartf f (ctx_set n_partial (VList acc) t :: S) body]) ts acc) = true.
Proof. intros Hb HS. induction ts as [|t ts IHts]; intros acc Ht Ha; [exact Ha|]. cbn [fold_left forallb] in *.
  apply andb_true_iff in Ht as [Ht1 Ht2]. apply IHts; [exact Ht2|]. apply fa_snoc; [exact Ha|].
  apply IH; [exact Hb|]. apply lclosed_cons; [|exact HS]. apply ctx_set_closed; [exact Ha|exact Ht1]. Qed.

(* values computed from a closed stack by an expression over A are closed *)
Theorem eval_closed : forall f S e, covers A e = true -> lclosed A S -> aclosed A (eval cartf f S e) = true.
Proof.
  induction f as [|f IH]; intros S e Hc HS; [reflexivity|].
  destruct e; cbn [eval]; try reflexivity.
  - (* EName *) split_cov Hc. destruct Hc as [Hc _]. destruct (lookup n S) as [v|] eqn:E; [|reflexivity]. exact (HS n v Hc E).
  - apply scalar_closed, scalar_binop.
  - apply scalar_closed, scalar_neg.
  - (* EIf *) split_cov Hc. destruct Hc as (H1 & H2 & H3).
    destruct (eval cartf f S e1) as [|[|]| | | | | | | |]; try reflexivity; apply IH; assumption.
  - apply scalar_closed, scalar_between.
  - (* EIn *) apply scalar_closed. destruct ts as [|t [|t' ts]]; [apply scalar_in_tests|apply scalar_in_eval|apply scalar_in_tests].
  - apply scalar_closed, scalar_in_eval.
  - (* EList *) cbn [aclosed]. apply fa_intro. intros v Hv. apply in_map_iff in Hv as (e' & <- & He').
    apply IH; [|exact HS]. split_cov Hc. exact (fa_flat_map _ _ _ _ Hc He').
  - (* ECtx *) cbn [aclosed]. apply (ctx_fold_closed f S IH HS); [|reflexivity].
    intros ke Hke. split_cov Hc. exact (fa_flat_map _ _ _ _ Hc Hke).
  - (* EPath *) apply path_eval_closed. apply IH; assumption.
  - (* EFilter *) split_cov Hc. destruct Hc as [H1 H2]. pose proof (IH S e1 H1 HS) as Hv.
    destruct (eval cartf f S e1) as [| | | |items| | | | |]; try reflexivity; try (apply filter_scalar_closed; exact Hv).
    destruct (existsb poison _); [reflexivity|]. apply filter_finish_closed; [exact Hv|apply kept_in_items].
  - (* EFor *) split_cov Hc. destruct Hc as [H1 H2].
    destruct (existsb _ ds); [reflexivity|].
    pose proof (doms_eval_closed f S ds IH H1 HS) as Hd.
    destruct (doms_eval (eval cartf f S) ds) as [|d0 doms]; [reflexivity|].
    cbn [aclosed]. apply (for_fold_closed f S e IH H2 HS); [|reflexivity]. apply Hcart. exact Hd.
  - apply scalar_closed, scalar_quant_some.
  - apply scalar_closed, scalar_quant_every.
  - (* EFun *) exact Hc.
  - (* ECall *) split_cov Hc. destruct Hc as [H1 H2]. pose proof (IH S e H1 HS) as Hv.
    destruct (eval cartf f S e) as [| | | | | | | |ps body|]; try reflexivity.
    destruct (mk_args ps _) as [c|] eqn:Em; [|reflexivity].
    apply IH; [exact Hv|]. apply lclosed_cons; [|exact HS]. eapply mk_args_closed; [|exact Em].
    apply fa_intro. intros v Hv'. apply in_map_iff in Hv' as (a & <- & Ha). apply IH; [|exact HS]. exact (fa_flat_map _ _ _ _ H2 Ha).
  - (* ECallN *) split_cov Hc. destruct Hc as [H1 H2]. pose proof (IH S e H1 HS) as Hv.
    destruct (eval cartf f S e) as [| | | | | | | |ps body|]; try reflexivity.
    destruct (mk_named ps _ _) as [c|] eqn:Em; [|reflexivity].
    apply IH; [exact Hv|]. apply lclosed_cons; [|exact HS].
    refine (mk_named_closed ps _ _ [] c eq_refl Em).
    apply fa_intro. intros kv Hkv. apply in_map_iff in Hkv as (ne & <- & Hne). cbn [snd]. apply IH; [|exact HS]. exact (fa_flat_map _ _ _ _ H2 Hne).
Qed.
(* ---------- two closed stacks that agree on A ---------- *)
Lemma existsb_ext_in' {X} (p q : X -> bool) l : (forall x, In x l -> p x = q x) -> existsb p l = existsb q l.
Proof. induction l as [|x l IHl]; intros H; [reflexivity|]. cbn [existsb]. rewrite (H x (or_introl eq_refl)), IHl; [reflexivity|].
  intros y Hy. apply H. right. exact Hy. Qed.
Lemma flat_map_ext_in' {X Y} (g h : X -> list Y) l : (forall x, In x l -> g x = h x) -> flat_map g l = flat_map h l.
Proof. induction l as [|x l IHl]; intros H; [reflexivity|]. cbn [flat_map]. rewrite (H x (or_introl eq_refl)), IHl; [reflexivity|].
  intros y Hy. apply H. right. exact Hy. Qed.

Definition agrees (f : nat) : Prop := forall S S' e, covers A e = true -> lclosed A S -> lclosed A S' ->
  agree A S S' -> eval cartf f S e = eval cartf f S' e.

Lemma ctx_fold_agree f S S' (IH : agrees f) : lclosed A S -> lclosed A S' -> agree A S S' ->
  forall (es : list (N * expr)) acc, (forall ke, In ke es -> covers A (snd ke) = true) -> cclosed A acc = true ->
  fold_left (fun acc ke => ctx_set (fst ke) (eval cartf f (acc :: S) (snd ke)) acc) es acc =
  fold_left (fun acc ke => ctx_set (fst ke) (eval cartf f (acc :: S') (snd ke)) acc) es acc.
Proof. intros HS HS' Hag. induction es as [|ke es IHes]; intros acc Hes Ha; [reflexivity|]. cbn [fold_left].
  pose proof (Hes ke (or_introl eq_refl)) as Hke.
  rewrite (IH (acc :: S) (acc :: S') (snd ke) Hke (lclosed_cons _ _ Ha HS) (lclosed_cons _ _ Ha HS') (agree_cons _ _ _ Hag)).
  apply IHes.
  - intros q Hq. apply Hes. right. exact Hq.
  - apply ctx_set_closed; [|exact Ha]. apply eval_closed; [exact Hke|]. apply lclosed_cons; assumption. Qed.

Lemma for_fold_agree f S S' body (IH : agrees f) : covers A body = true -> lclosed A S -> lclosed A S' -> agree A S S' ->
  forall ts acc, forallb (cclosed A) ts = true -> forallb (aclosed A) acc = true ->
  fold_left (fun acc t => acc ++ [eval cartf f (ctx_set n_partial (VList acc) t :: S) body]) ts acc =
  fold_left (fun acc t => acc ++ [eval cartf f (ctx_set n_partial (VList acc) t :: S') body]) ts acc.
Proof. intros Hb HS HS' Hag. induction ts as [|t ts IHts]; intros acc Ht Ha; [reflexivity|]. cbn [fold_left forallb] in *.
  apply andb_true_iff in Ht as [Ht1 Ht2].
  assert (Hc : cclosed A (ctx_set n_partial (VList acc) t) = true) by (apply ctx_set_closed; [exact Ha|exact Ht1]).
  rewrite (IH (_ :: S) (_ :: S') body Hb (lclosed_cons _ _ Hc HS) (lclosed_cons _ _ Hc HS') (agree_cons _ _ _ Hag)).
  apply IHts; [exact Ht2|]. apply fa_snoc; [exact Ha|]. apply eval_closed; [exact Hb|]. apply lclosed_cons; assumption. Qed.

Theorem eval_agree : forall f, agrees f.
Proof.
  induction f as [|f IH]; intros S S' e Hc HS HS' Hag; [reflexivity|].
  destruct e; cbn [eval]; try reflexivity.
  - (* EName *) split_cov Hc. destruct Hc as [Hc _]. rewrite (Hag n Hc). reflexivity.
  - (* EBin *) split_cov Hc. destruct Hc as [H1 H2]. rewrite (IH S S' e1), (IH S S' e2) by assumption. reflexivity.
  - (* ENeg *) split_cov Hc. rewrite (IH S S' e) by assumption. reflexivity.
  - (* EIf *) split_cov Hc. destruct Hc as (H1 & H2 & H3). rewrite (IH S S' e1) by assumption.
    destruct (eval cartf f S' e1) as [|[|]| | | | | | | |]; try reflexivity; apply IH; assumption.
  - (* EBetween *) split_cov Hc. destruct Hc as (H1 & H2 & H3).
    rewrite (IH S S' e1), (IH S S' e2), (IH S S' e3) by assumption. reflexivity.
  - (* EIn *) split_cov Hc. destruct Hc as [H1 H2]. rewrite (IH S S' e) by assumption.
    assert (Ht : forall t, In t ts -> test_eval (eval cartf f S) t = test_eval (eval cartf f S') t).
    { intros t Hin. pose proof (fa_flat_map _ _ _ _ H2 Hin) as Hct.
      destruct t; cbn [test_eval tnames] in *; rewrite ?forallb_app, ?andb_true_iff in Hct.
      - apply IH; assumption.
      - rewrite (IH S S' e0) by assumption. reflexivity.
      - destruct Hct as [Ha Hb]. rewrite (IH S S' lo), (IH S S' hi) by assumption. reflexivity. }
    destruct ts as [|t [|t' ts]].
    + reflexivity.
    + rewrite (Ht t (or_introl eq_refl)). reflexivity.
    + rewrite (map_ext_in _ _ _ Ht). reflexivity.
  - (* EInList *) split_cov Hc. destruct Hc as [H1 H2]. rewrite (IH S S' e1), (IH S S' e2) by assumption. reflexivity.
  - (* EList *) split_cov Hc. f_equal. apply map_ext_in. intros a Ha. apply IH; try assumption. exact (fa_flat_map _ _ _ _ Hc Ha).
  - (* ECtx *) split_cov Hc. f_equal. apply (ctx_fold_agree f S S' IH HS HS' Hag); [|reflexivity].
    intros ke Hke. exact (fa_flat_map _ _ _ _ Hc Hke).
  - (* EPath *) split_cov Hc. rewrite (IH S S' e) by assumption. reflexivity.
  - (* EFilter *) split_cov Hc. destruct Hc as [H1 H2]. rewrite (IH S S' e1), (IH S S' e2) by assumption.
    pose proof (eval_closed f S' e1 H1 HS') as Hv.
    destruct (eval cartf f S' e1) as [| | | |items| | | | |]; try reflexivity.
    assert (Hrs : map (fun v => eval cartf f (filter_env v ++ S) e2) items = map (fun v => eval cartf f (filter_env v ++ S') e2) items).
    { apply map_ext_in. intros v Hin. pose proof (filter_env_closed v (fa_in _ _ _ Hv Hin)) as Hfe.
      apply IH; [exact H2|apply lclosed_app; assumption|apply lclosed_app; assumption|apply agree_app; exact Hag]. }
    rewrite Hrs. reflexivity.
  - (* EFor *) split_cov Hc. destruct Hc as [H1 H2].
    assert (Hdm : forall nd, In nd ds -> dom_eval (eval cartf f S) (snd nd) = dom_eval (eval cartf f S') (snd nd) /\
                                         dom_poison (eval cartf f S) (snd nd) = dom_poison (eval cartf f S') (snd nd)).
    { intros [x dm] Hin. pose proof (fa_flat_map _ _ _ _ H1 Hin) as Hcd. cbn [snd] in *.
      destruct dm as [a|lo hi]; cbn [dom_eval dom_poison dnames] in *.
      - rewrite (IH S S' a) by assumption. split; reflexivity.
      - rewrite forallb_app, andb_true_iff in Hcd. destruct Hcd as [Ha Hb].
        rewrite (IH S S' lo), (IH S S' hi) by assumption. split; reflexivity. }
    rewrite (existsb_ext_in' _ (fun nd => dom_poison (eval cartf f S') (snd nd)) ds) by (intros nd Hin; apply (Hdm nd Hin)).
    destruct (existsb _ ds); [reflexivity|].
    assert (Hde : doms_eval (eval cartf f S) ds = doms_eval (eval cartf f S') ds).
    { unfold doms_eval. apply flat_map_ext_in'. intros nd Hin. rewrite (proj1 (Hdm nd Hin)). reflexivity. }
    rewrite Hde. pose proof (doms_eval_closed f S' ds (eval_closed f) H1 HS') as Hd.
    destruct (doms_eval (eval cartf f S') ds) as [|d0 doms]; [reflexivity|].
    f_equal. apply (for_fold_agree f S S' e IH H2 HS HS' Hag); [|reflexivity]. apply Hcart. exact Hd.
  - (* ESome *) split_cov Hc. destruct Hc as [H1 H2].
    rewrite (map_ext_in (fun nd => (fst nd, dom_values (eval cartf f S (snd nd)))) (fun nd => (fst nd, dom_values (eval cartf f S' (snd nd)))) ds)
      by (intros nd Hin; rewrite (IH S S' (snd nd) (fa_flat_map _ _ _ _ H1 Hin) HS HS' Hag); reflexivity).
    pose proof (Hcart _ (quant_doms_closed f S' ds (eval_closed f) H1 HS')) as Ht.
    f_equal. apply map_ext_in. intros t Hin. pose proof (fa_in _ _ _ Ht Hin) as Htc.
    apply IH; [exact H2|apply lclosed_cons; assumption|apply lclosed_cons; assumption|apply agree_cons; exact Hag].
  - (* EEvery *) split_cov Hc. destruct Hc as [H1 H2].
    rewrite (map_ext_in (fun nd => (fst nd, dom_values (eval cartf f S (snd nd)))) (fun nd => (fst nd, dom_values (eval cartf f S' (snd nd)))) ds)
      by (intros nd Hin; rewrite (IH S S' (snd nd) (fa_flat_map _ _ _ _ H1 Hin) HS HS' Hag); reflexivity).
    pose proof (Hcart _ (quant_doms_closed f S' ds (eval_closed f) H1 HS')) as Ht.
    f_equal. apply map_ext_in. intros t Hin. pose proof (fa_in _ _ _ Ht Hin) as Htc.
    apply IH; [exact H2|apply lclosed_cons; assumption|apply lclosed_cons; assumption|apply agree_cons; exact Hag].
  - (* ECall *) split_cov Hc. destruct Hc as [H1 H2]. rewrite (IH S S' e) by assumption.
    rewrite (map_ext_in (eval cartf f S) (eval cartf f S') args) by (intros a Hin; apply IH; try assumption; exact (fa_flat_map _ _ _ _ H2 Hin)).
    pose proof (eval_closed f S' e H1 HS') as Hv.
    destruct (eval cartf f S' e) as [| | | | | | | |ps body|]; try reflexivity.
    destruct (mk_args ps _) as [c|] eqn:Em; [|reflexivity].
    assert (Hcc : cclosed A c = true).
    { eapply mk_args_closed; [|exact Em]. apply fa_intro. intros v Hv'. apply in_map_iff in Hv' as (a & <- & Ha).
      apply eval_closed; [|exact HS']. exact (fa_flat_map _ _ _ _ H2 Ha). }
    apply IH; [exact Hv|apply lclosed_cons; assumption|apply lclosed_cons; assumption|apply agree_cons; exact Hag].
  - (* ECallN *) split_cov Hc. destruct Hc as [H1 H2]. rewrite (IH S S' e) by assumption.
    rewrite (map_ext_in (fun ne => (fst ne, eval cartf f S (snd ne))) (fun ne => (fst ne, eval cartf f S' (snd ne))) args)
      by (intros ne Hin; rewrite (IH S S' (snd ne) (fa_flat_map _ _ _ _ H2 Hin) HS HS' Hag); reflexivity).
    pose proof (eval_closed f S' e H1 HS') as Hv.
    destruct (eval cartf f S' e) as [| | | | | | | |ps body|]; try reflexivity.
    destruct (mk_named ps _ _) as [c|] eqn:Em; [|reflexivity].
    assert (Hcc : cclosed A c = true).
    { refine (mk_named_closed ps _ _ [] c eq_refl Em).
      apply fa_intro. intros kv Hkv. apply in_map_iff in Hkv as (ne & <- & Hne). cbn [snd].
      apply eval_closed; [|exact HS']. exact (fa_flat_map _ _ _ _ H2 Hne). }
    apply IH; [exact Hv|apply lclosed_cons; assumption|apply lclosed_cons; assumption|apply agree_cons; exact Hag].
Qed.
End Eval.
End Closed.

(* ---------- corollaries ---------- *)
Lemma covers_of_names A e : (forall n, In n (names e) -> A n = true) -> covers A e = true.
Proof. apply fa_intro. Qed.

Lemma lclosed_agree A S S' : agree A S S' -> lclosed A S' -> lclosed A S.
Proof. intros Hag H n v Hn E. rewrite (Hag n Hn) in E. exact (H n v Hn E). Qed.

(* for every enumeration that only re-arranges; the Spec and the code are the two instances *)
Theorem depends_only_on_names cartf (Hcart : forall A, rearranges A cartf) A f e S S' :
  (forall n, In n (names e) -> A n = true) -> lclosed A S ->
  (forall n, A n = true -> lookup n S = lookup n S') -> eval cartf f S e = eval cartf f S' e.
Proof. intros Hn HS Hag. apply (eval_agree A cartf (Hcart A) f S S' e (covers_of_names A e Hn) HS); [|exact Hag].
  apply (lclosed_agree A S' S); [|exact HS]. intros n Ha. symmetry. apply Hag. exact Ha. Qed.

Theorem depends_only_on_occurring_names A f e S S' :
  (forall n, In n (names e) -> A n = true) ->
  (forall n v, A n = true -> lookup n S = Some v -> aclosed A v = true) ->
  (forall n, A n = true -> lookup n S = lookup n S') ->
  eval_spec f S e = eval_spec f S' e /\ fst (run_impl f S e) = fst (run_impl f S' e).
Proof. intros Hn HS Hag. unfold run_impl. rewrite !run_refines. cbn [fst]. split.
  - apply (depends_only_on_names cart cart_rearranges A); assumption.
  - apply (depends_only_on_names cart_impl cart_impl_rearranges A); assumption. Qed.

Theorem closed_values_preserved A cartf (Hcart : rearranges A cartf) f S e :
  (forall n, In n (names e) -> A n = true) ->
  (forall n v, A n = true -> lookup n S = Some v -> aclosed A v = true) -> aclosed A (eval cartf f S e) = true.
Proof. intros Hn HS. apply (eval_closed A cartf Hcart f S e (covers_of_names A e Hn) HS). Qed.

(* values without function values are closed for every A *)
Fixpoint nofun (v : value) : bool :=
  match v with
  | VList l => forallb nofun l
  | VCtx es => forallb (fun kv => nofun (snd kv)) es
  | VRange lo _ hi _ => nofun lo && nofun hi
  | VUnary _ v => nofun v
  | VFun _ _ => false
  | _ => true
  end.

Fixpoint nofun_closed A (v : value) {struct v} : nofun v = true -> aclosed A v = true.
Proof. destruct v; cbn [nofun aclosed]; try (intros _; reflexivity).
  - induction l as [|x l IHl]; cbn [forallb]; [reflexivity|]. intros H. apply andb_true_iff in H as [H1 H2].
    rewrite (nofun_closed A x H1). exact (IHl H2).
  - induction es as [|[k x] es IHl]; cbn [forallb snd]; [reflexivity|]. intros H. apply andb_true_iff in H as [H1 H2].
    rewrite (nofun_closed A x H1). exact (IHl H2).
  - intros H. apply andb_true_iff in H as [H1 H2]. rewrite (nofun_closed A v1 H1), (nofun_closed A v2 H2). reflexivity.
  - apply nofun_closed.
  - discriminate.
Qed.

Definition in_names (e : expr) (n : N) : bool := existsb (N.eqb n) (names e).
Lemma in_names_spec e n : in_names e n = true <-> In n (names e).
Proof. unfold in_names. rewrite existsb_exists. split.
  - intros (m & Hm & E). apply N.eqb_eq in E. subst m. exact Hm.
  - intros H. exists n. split; [exact H|apply N.eqb_refl]. Qed.

(* when the names of e are bound to values without function values, their bindings alone decide the value
   (whatever else the two stacks bind, functions included) *)
Theorem depends_only_on_names_nofun f e S S' :
  (forall n v, In n (names e) -> lookup n S = Some v -> nofun v = true) ->
  (forall n, In n (names e) -> lookup n S = lookup n S') ->
  eval_spec f S e = eval_spec f S' e /\ fst (run_impl f S e) = fst (run_impl f S' e).
Proof. intros HS Hag. apply (depends_only_on_occurring_names (in_names e)).
  - intros n. apply in_names_spec.
  - intros n v Hi E. apply nofun_closed. apply (HS n v); [apply in_names_spec; exact Hi|exact E].
  - intros n Hi. apply Hag, in_names_spec, Hi. Qed.

(* bindings of names outside A are irrelevant, whatever their values: pushing a context of such names, or setting one on the top context *)
Lemma ctx_get_set n k v c : ctx_get n (ctx_set k v c) = if N.eqb n k then Some v else ctx_get n c.
Proof. induction c as [|[k' v'] c IH]; cbn [ctx_set ctx_get].
  - reflexivity.
  - destruct (N.eqb k k') eqn:E1; [|destruct (N.ltb k k')]; cbn [ctx_get].
    + apply N.eqb_eq in E1. subst k'. destruct (N.eqb n k); reflexivity.
    + reflexivity.
    + rewrite IH. destruct (N.eqb n k) eqn:E2; [|reflexivity]. apply N.eqb_eq in E2. subst n. rewrite E1. reflexivity. Qed.

Lemma agree_push A c S : (forall n, A n = true -> ctx_get n c = None) -> agree A S (c :: S).
Proof. intros Hk n Ha. cbn [lookup]. rewrite (Hk n Ha). reflexivity. Qed.
Lemma agree_set A k v S : A k = false -> agree A S (set_top k v S).
Proof. intros Hk n Ha. destruct S as [|c S]; [reflexivity|]. cbn [set_top lookup]. rewrite ctx_get_set.
  destruct (N.eqb n k) eqn:E; [|reflexivity]. apply N.eqb_eq in E. subst n. congruence. Qed.

Theorem unrelated_bindings_irrelevant A f e S :
  (forall n, In n (names e) -> A n = true) ->
  (forall n v, A n = true -> lookup n S = Some v -> aclosed A v = true) ->
  (forall c, (forall n, A n = true -> ctx_get n c = None) ->
     eval_spec f S e = eval_spec f (c :: S) e /\ fst (run_impl f S e) = fst (run_impl f (c :: S) e)) /\
  (forall k v, A k = false ->
     eval_spec f S e = eval_spec f (set_top k v S) e /\ fst (run_impl f S e) = fst (run_impl f (set_top k v S) e)).
Proof. intros Hn HS. split.
  - intros c Hk. apply (depends_only_on_occurring_names A); [exact Hn|exact HS|apply agree_push; exact Hk].
  - intros k v Hk. apply (depends_only_on_occurring_names A); [exact Hn|exact HS|apply agree_set; exact Hk]. Qed.

(* ---------- the closedness hypothesis is necessary: dynamic scoping (listed known finding) ----------
   e = vf()  with  vf = function() vb :  names e = [vf]; the two stacks agree on vf but differ on vb *)
Definition w_f : N := 101%N.
Definition w_b : N := 102%N.
Definition w_e : expr := ECall (EName w_f) [].
Definition w_S (z : Z) : stack := [[(w_f, VFun [] (EName w_b)); (w_b, vnum z)]].
Theorem dynamic_scope_witness :
  names w_e = [w_f] /\ (forall n, In n (names w_e) -> lookup n (w_S 1) = lookup n (w_S 2)) /\
  eval_spec 5 (w_S 1) w_e = vnum 1 /\ eval_spec 5 (w_S 2) w_e = vnum 2 /\
  fst (run_impl 5 (w_S 1) w_e) = vnum 1 /\ fst (run_impl 5 (w_S 2) w_e) = vnum 2.
Proof. split; [reflexivity|]. split; [|vm_compute; repeat split; reflexivity].
  intros n [<-|[]]. reflexivity. Qed.

(* why the statement is about the names that OCCUR and not about the free names only: in the code's
   enumeration an empty list domain binds nothing (listed known finding empty-domain), so the bound
   variable of  for vx in [], vy in [1] return vx  is looked up outside; the Spec's product gives [] *)
Definition l_x : N := 101%N.
Definition l_y : N := 102%N.
Definition l_e : expr := EFor [(l_x, DList (EList [])); (l_y, DList (EList [enum 1]))] (EName l_x).
Theorem bound_name_leak_witness :
  fst (run_impl 5 [[(l_x, vnum 1)]] l_e) = VList [vnum 1] /\ fst (run_impl 5 [[(l_x, vnum 2)]] l_e) = VList [vnum 2] /\
  eval_spec 5 [[(l_x, vnum 1)]] l_e = VList [] /\ eval_spec 5 [[(l_x, vnum 2)]] l_e = VList [].
Proof. vm_compute. repeat split; reflexivity. Qed.

(* non-vacuity: an expression with a filter, a for, a function literal called in place and a function from the
   stack; stacks with different unrelated bindings (also a function value whose body is over A) *)
Definition x_e : expr :=
  EFor [(103%N, DList (EFilter (EList [enum 1; enum 2; enum 3]) (EBin Gt (EName n_item) (EName 101%N))))]
       (EBin Add (ECall (EName 102%N) [EName 103%N]) (ECall (EFun [(104%N, T.TS T.SAny)] (EBin Mul (EName 104%N) (EName 101%N))) [EName 103%N])).
Definition x_S : stack := [[(101%N, vnum 1); (102%N, VFun [(104%N, T.TS T.SAny)] (EBin Sub (EName 104%N) (EName 101%N)))]].
Definition x_S' : stack := [(200%N, VFun [] (EName 201%N))] :: [(101%N, vnum 1); (201%N, VStr [65%N])] :: [(102%N, VFun [(104%N, T.TS T.SAny)] (EBin Sub (EName 104%N) (EName 101%N)))] :: [[(101%N, vnum 9)]].
Example nonvacuous :
  (forall n, In n (names x_e) -> in_names x_e n = true) /\
  (forall n v, in_names x_e n = true -> lookup n x_S = Some v -> aclosed (in_names x_e) v = true) /\
  (forall n, in_names x_e n = true -> lookup n x_S = lookup n x_S') /\ x_S <> x_S' /\
  fst (run_impl 20 x_S x_e) = VList [vnum 3; vnum 5] /\ fst (run_impl 20 x_S' x_e) = VList [vnum 3; vnum 5].
Proof. split; [intros n; apply in_names_spec|]. split; [apply sclosed_lclosed; reflexivity|]. split.
  - intros n Hn. apply in_names_spec in Hn.
    assert (F : Forall (fun n => lookup n x_S = lookup n x_S') (names x_e)) by (repeat constructor).
    exact (proj1 (Forall_forall _ _) F n Hn).
  - split; [discriminate|]. vm_compute. split; reflexivity. Qed.
