(* C20 — proofs about C20/Conc.v *)
From Coq Require Import List Arith Bool Lia.
From DV Require Import C20.Conc.
Import ListNotations.

(* ---------------- generic helpers ---------------- *)
Lemma nth_error_upd {A} (l : list A) : forall n m x,
  nth_error (upd n x l) m =
  if n =? m then match nth_error l n with Some _ => Some x | None => None end else nth_error l m.
Proof.
  induction l as [|a l IH]; intros n m x.
  - cbn [upd]. destruct (n =? m); destruct n, m; reflexivity.
  - destruct n as [|n], m as [|m]; cbn [upd nth_error Nat.eqb]; try reflexivity. apply IH.
Qed.

Lemma length_upd {A} (l : list A) : forall n x, length (upd n x l) = length l.
Proof. induction l as [|a l IH]; intros [|n] x; cbn [upd length]; try reflexivity. rewrite IH. reflexivity. Qed.

Lemma forallb_upd {A} (p : A -> bool) (l : list A) : forall n x,
  forallb p l = true -> p x = true -> forallb p (upd n x l) = true.
Proof.
  induction l as [|a l IH]; intros n x Hl Hx; cbn [upd forallb] in *; [reflexivity|].
  apply andb_true_iff in Hl. destruct Hl as [Ha Hl].
  destruct n as [|n]; cbn [forallb]; apply andb_true_iff; split; auto.
Qed.

Lemma lget_filter l l' (lt : ltab) : l =? l' = false ->
  lget l' (filter (fun e => negb (fst e =? l)) lt) = lget l' lt.
Proof.
  intros Hne. induction lt as [|[k v] lt IH]; [reflexivity|].
  cbn [filter fst]. destruct (k =? l) eqn:E; cbn [negb].
  - cbn [lget fst]. apply Nat.eqb_eq in E. rewrite E, Hne. exact IH.
  - cbn [lget fst snd]. destruct (k =? l'); [reflexivity | exact IH].
Qed.

Lemma lget_lset l l' v (lt : ltab) : lget l' (lset l v lt) = if l =? l' then v else lget l' lt.
Proof.
  unfold lset. cbn [lget fst snd]. destruct (l =? l') eqn:E; [reflexivity|]. apply lget_filter. exact E.
Qed.

Lemma iter_S {A} (f : A -> A) n x : Nat.iter (S n) f x = f (Nat.iter n f x).
Proof. reflexivity. Qed.

Lemma iter_swap {A} (f : A -> A) n x : Nat.iter n f (f x) = f (Nat.iter n f x).
Proof. induction n as [|n IH]; [reflexivity | rewrite !iter_S, IH; reflexivity]. Qed.

Lemma iter_plus {A} (f : A -> A) n m x : Nat.iter (n + m) f x = Nat.iter n f (Nat.iter m f x).
Proof. induction n as [|n IH]; cbn [plus]; [reflexivity | rewrite !iter_S, IH; reflexivity]. Qed.

Lemma count_filter t sched : count t (filter (fun u => u =? t) sched) = count t sched.
Proof.
  induction sched as [|u r IH]; [reflexivity|]. cbn [filter count].
  destruct (u =? t) eqn:E; cbn [count]; rewrite ?E, IH; reflexivity.
Qed.

Lemma count_repeat t n : count t (repeat t n) = n.
Proof. induction n as [|n IH]; cbn [repeat count]; [reflexivity|]. rewrite Nat.eqb_refl, IH. reflexivity. Qed.

Section Proofs.
Context {Sg Pv : Type}.
Notation thread := (thread Sg Pv).
Notation state := (state Sg Pv).
Notation instr := (instr Sg Pv).

(* ---------------- one thread on its own ---------------- *)
Lemma prog_tstep (sg : Sg) (th : thread) : prog (tstep sg th) = tl (prog th).
Proof. unfold tstep. destruct (prog th) as [|i r] eqn:E; [rewrite E; reflexivity|]. destruct i; reflexivity. Qed.

Lemma tstep_fin (sg : Sg) (th : thread) : prog th = [] -> tstep sg th = th.
Proof. intros H. unfold tstep. rewrite H. reflexivity. Qed.

Lemma iter_tstep_fin (sg : Sg) (th : thread) n : prog th = [] -> Nat.iter n (tstep sg) th = th.
Proof. intros H. induction n as [|n IH]; [reflexivity|]. rewrite iter_S, IH. apply tstep_fin, H. Qed.

Lemma length_iter_tstep (sg : Sg) n : forall th : thread,
  length (prog (Nat.iter n (tstep sg) th)) = length (prog th) - n.
Proof.
  induction n as [|n IH]; intros th; [cbn; lia|].
  rewrite iter_S, prog_tstep. pose proof (IH th) as H.
  destruct (prog (Nat.iter n (tstep sg) th)); cbn [tl length] in *; lia.
Qed.

Lemma iter_tstep_ge (sg : Sg) (th : thread) n : length (prog th) <= n ->
  Nat.iter n (tstep sg) th = Nat.iter (length (prog th)) (tstep sg) th.
Proof.
  intros H. replace n with ((n - length (prog th)) + length (prog th)) by lia.
  rewrite iter_plus. apply iter_tstep_fin.
  apply length_zero_iff_nil. rewrite length_iter_tstep. lia.
Qed.

Lemma ro_tstep (sg : Sg) (th : thread) : read_only (prog th) = true -> read_only (prog (tstep sg th)) = true.
Proof.
  rewrite prog_tstep. unfold read_only. destruct (prog th) as [|i r]; cbn [tl forallb]; [auto|].
  intros H. apply andb_true_iff in H. tauto.
Qed.

(* ---------------- the invariant: nobody writes ---------------- *)
Definition Inv (s : state) : Prop := no_writers s /\ all_read_only (threads s) = true.

Lemma all_ro_nth (ths : list thread) t th :
  all_read_only ths = true -> nth_error ths t = Some th -> read_only (prog th) = true.
Proof.
  intros H Hn. unfold all_read_only in H. rewrite forallb_forall in H. apply H.
  eapply nth_error_In. exact Hn.
Qed.

Lemma Inv_init (sg : Sg) (ths : list thread) : all_read_only ths = true -> Inv (init sg ths).
Proof. intros H. split; [|exact H]. intros l. cbn. split; reflexivity. Qed.

Lemma try_step_ro t (s : state) th i rest :
  Inv s -> nth_error (threads s) t = Some th -> prog th = i :: rest ->
  exists lt', try_step t s = Adv (with_thread s t lt' (tstep (sigma s) th)) /\
              (forall l, writer (lget l lt') = None /\ wwait (lget l lt') = []).
Proof.
  intros [Hw Hro] Hn Hp.
  pose proof (all_ro_nth _ _ _ Hro Hn) as Hr. rewrite Hp in Hr. unfold read_only in Hr. cbn [forallb] in Hr.
  apply andb_true_iff in Hr. destruct Hr as [Hi Hr].
  unfold try_step. rewrite Hn, Hp. unfold tstep. rewrite Hp. cbv zeta.
  destruct i as [l|l|l|l|f]; cbn [is_ro] in Hi; try discriminate Hi.
  - destruct (Hw l) as [H1 H2]. rewrite H1, H2. cbn [is_none is_nil andb].
    eexists. split; [reflexivity|].
    intros l0. rewrite lget_lset. destruct (l =? l0); cbn [writer wwait]; [split; reflexivity | apply Hw].
  - destruct (Hw l) as [H1 H2]. rewrite H1, H2.
    eexists. split; [reflexivity|].
    intros l0. rewrite lget_lset. destruct (l =? l0); cbn [writer wwait]; [split; reflexivity | apply Hw].
  - eexists. split; [reflexivity|]. exact Hw.
Qed.

(* scheduling t in a state satisfying the invariant: either t is finished and nothing changes,
   or t advances by exactly tstep and nobody else is touched *)
Lemma sched1_cases t (s : state) : Inv s ->
  (finishedb t s = true /\ try_step t s = Fin) \/
  (exists th lt', nth_error (threads s) t = Some th /\ finishedb t s = false /\
                  try_step t s = Adv (with_thread s t lt' (tstep (sigma s) th)) /\
                  (forall l, writer (lget l lt') = None /\ wwait (lget l lt') = [])).
Proof.
  intros HI. unfold finishedb, remaining.
  destruct (nth_error (threads s) t) as [th|] eqn:Hn.
  - destruct (prog th) as [|i rest] eqn:Hp.
    + left. split; [reflexivity|]. unfold try_step. rewrite Hn, Hp. reflexivity.
    + right. destruct (try_step_ro t s th i rest HI Hn Hp) as [lt' [H1 H2]].
      exists th, lt'. repeat split; try assumption; apply H2.
  - left. split; [reflexivity|]. unfold try_step. rewrite Hn. reflexivity.
Qed.

Lemma sched1_Inv t (s : state) : Inv s -> Inv (sched1 t s).
Proof.
  intros HI. destruct (sched1_cases t s HI) as [[_ Hf] | (th & lt' & Hn & _ & Hs & Hl)]; unfold sched1.
  - rewrite Hf. exact HI.
  - rewrite Hs. split; [exact Hl|]. cbn [with_thread threads]. destruct HI as [_ Hro].
    apply forallb_upd; [exact Hro|]. apply ro_tstep. eapply all_ro_nth; eassumption.
Qed.

Lemma sched1_sigma t (s : state) : Inv s -> sigma (sched1 t s) = sigma s.
Proof.
  intros HI. destruct (sched1_cases t s HI) as [[_ Hf] | (th & lt' & _ & _ & Hs & _)]; unfold sched1.
  - rewrite Hf. reflexivity.
  - rewrite Hs. reflexivity.
Qed.

Lemma sched1_nth t u (s : state) : Inv s ->
  nth_error (threads (sched1 t s)) u =
  if t =? u then option_map (tstep (sigma s)) (nth_error (threads s) t) else nth_error (threads s) u.
Proof.
  intros HI. destruct (sched1_cases t s HI) as [[Hfin Hf] | (th & lt' & Hn & _ & Hs & _)]; unfold sched1.
  - rewrite Hf. destruct (t =? u) eqn:E; [|reflexivity]. apply Nat.eqb_eq in E. subst u.
    unfold finishedb, remaining in Hfin. destruct (nth_error (threads s) t) as [th|]; [|reflexivity].
    cbn [option_map]. rewrite tstep_fin; [reflexivity|]. destruct (prog th); [reflexivity | discriminate Hfin].
  - rewrite Hs. cbn [with_thread threads]. rewrite nth_error_upd, Hn. reflexivity.
Qed.

Lemma run_Inv sched : forall s : state, Inv s -> Inv (run sched s).
Proof. induction sched as [|t r IH]; intros s HI; cbn [run]; [exact HI|]. apply IH, sched1_Inv, HI. Qed.

Lemma run_sigma sched : forall s : state, Inv s -> sigma (run sched s) = sigma s.
Proof.
  induction sched as [|t r IH]; intros s HI; cbn [run]; [reflexivity|].
  rewrite IH by (apply sched1_Inv, HI). apply sched1_sigma, HI.
Qed.

(* what thread t looks like after any schedule depends only on how often t was scheduled *)
Lemma thread_after sched t : forall s : state, Inv s ->
  nth_error (threads (run sched s)) t =
  option_map (Nat.iter (count t sched) (tstep (sigma s))) (nth_error (threads s) t).
Proof.
  induction sched as [|u r IH]; intros s HI; cbn [run count].
  - destruct (nth_error (threads s) t); reflexivity.
  - rewrite IH by (apply sched1_Inv, HI). rewrite sched1_sigma by exact HI. rewrite sched1_nth by exact HI.
    destruct (u =? t) eqn:E; [|reflexivity]. apply Nat.eqb_eq in E. subst u.
    destruct (nth_error (threads s) t) as [th|]; [|reflexivity].
    cbn [option_map]. rewrite iter_swap. reflexivity.
Qed.

(* ---------------- 1. no thread ever blocks; no deadlock ---------------- *)
Lemma no_block_Inv t (s : state) : Inv s -> finishedb t s = false ->
  exists s', step t s = Some s' /\ remaining t s' = tl (remaining t s).
Proof.
  intros HI Hnf. destruct (sched1_cases t s HI) as [[Hfin _] | (th & lt' & Hn & _ & Hs & _)].
  - rewrite Hfin in Hnf. discriminate Hnf.
  - unfold step. rewrite Hs. eexists. split; [reflexivity|].
    unfold remaining. cbn [with_thread threads]. rewrite nth_error_upd, Nat.eqb_refl, Hn.
    apply prog_tstep.
Qed.

Theorem no_block (sg : Sg) (ths : list thread) (sched : list tid) (t : tid) :
  all_read_only ths = true ->
  finishedb t (run sched (init sg ths)) = false ->
  exists s', step t (run sched (init sg ths)) = Some s' /\
             remaining t s' = tl (remaining t (run sched (init sg ths))).
Proof. intros Hro. apply no_block_Inv, run_Inv, Inv_init, Hro. Qed.

Theorem no_deadlock (sg : Sg) (ths : list thread) (sched : list tid) :
  all_read_only ths = true -> ~ stuck (run sched (init sg ths)).
Proof.
  intros Hro [[t Hnf] Hall].
  destruct (no_block sg ths sched t Hro Hnf) as [s' [Hs _]].
  rewrite (Hall t Hnf) in Hs. discriminate Hs.
Qed.

(* ---------------- 2. fair schedules terminate ---------------- *)
Lemma remaining_after sched t (s : state) : Inv s ->
  length (remaining t (run sched s)) = length (remaining t s) - count t sched.
Proof.
  intros HI. unfold remaining. rewrite thread_after by exact HI.
  destruct (nth_error (threads s) t) as [th|]; cbn [option_map length]; [|reflexivity].
  apply length_iter_tstep.
Qed.

Lemma finishedb_length t (s : state) : finishedb t s = true <-> length (remaining t s) = 0.
Proof. unfold finishedb. destruct (remaining t s); cbn; split; intros H; try reflexivity; discriminate H. Qed.

Theorem finish_one (sg : Sg) (ths : list thread) (sched : list tid) (t : tid) :
  all_read_only ths = true ->
  length (remaining t (init sg ths)) <= count t sched ->
  finishedb t (run sched (init sg ths)) = true.
Proof.
  intros Hro Hc. apply finishedb_length. rewrite remaining_after by (apply Inv_init, Hro). lia.
Qed.

Theorem all_finish (sg : Sg) (ths : list thread) (sched : list tid) :
  all_read_only ths = true ->
  (forall t, t < length ths -> length (remaining t (init sg ths)) <= count t sched) ->
  forall t, finishedb t (run sched (init sg ths)) = true.
Proof.
  intros Hro Hc t. apply finish_one; [exact Hro|].
  destruct (Nat.lt_ge_cases t (length ths)) as [Hlt|Hge]; [apply Hc, Hlt|].
  unfold remaining. cbn [init threads]. apply nth_error_None in Hge. rewrite Hge. cbn. lia.
Qed.

(* ---------------- 3. isolation, non-interference ---------------- *)
Theorem isolation (sg : Sg) (ths : list thread) (sched : list tid) (t : tid) :
  all_read_only ths = true ->
  result t (run sched (init sg ths)) = result t (run (filter (fun u => u =? t) sched) (init sg ths)).
Proof.
  intros Hro. unfold result. rewrite !thread_after by (apply Inv_init, Hro).
  rewrite count_filter. reflexivity.
Qed.

Lemma result_finished (s : state) sched t : Inv s ->
  finishedb t (run sched s) = true ->
  nth_error (threads (run sched s)) t =
  option_map (fun th => Nat.iter (length (prog th)) (tstep (sigma s)) th) (nth_error (threads s) t).
Proof.
  intros HI Hfin. apply finishedb_length in Hfin. rewrite remaining_after in Hfin by exact HI.
  rewrite thread_after by exact HI. unfold remaining in Hfin.
  destruct (nth_error (threads s) t) as [th|]; [|reflexivity]. cbn [option_map].
  rewrite iter_tstep_ge by lia. reflexivity.
Qed.

Lemma solo_finished (s : state) t : Inv s -> finishedb t (solo t s) = true.
Proof.
  intros HI. unfold solo. apply finishedb_length. rewrite remaining_after by exact HI.
  rewrite count_repeat. lia.
Qed.

Theorem isolation_solo (sg : Sg) (ths : list thread) (sched : list tid) (t : tid) :
  all_read_only ths = true ->
  finishedb t (run sched (init sg ths)) = true ->
  result t (run sched (init sg ths)) = result t (solo t (init sg ths)).
Proof.
  intros Hro Hfin. pose proof (Inv_init sg ths Hro) as HI. unfold result.
  rewrite (result_finished _ _ _ HI Hfin).
  unfold solo. rewrite (result_finished _ _ _ HI (solo_finished _ t HI)). reflexivity.
Qed.

(* two systems sharing sigma; thread t1 of the first and t2 of the second start alike *)
Theorem non_interference (sg : Sg) (ths1 ths2 : list thread) (sched1 sched2 : list tid) (t1 t2 : tid) :
  all_read_only ths1 = true -> all_read_only ths2 = true ->
  nth_error ths1 t1 = nth_error ths2 t2 ->
  finishedb t1 (run sched1 (init sg ths1)) = true ->
  finishedb t2 (run sched2 (init sg ths2)) = true ->
  result t1 (run sched1 (init sg ths1)) = result t2 (run sched2 (init sg ths2)).
Proof.
  intros Hro1 Hro2 Heq Hf1 Hf2. unfold result.
  rewrite (result_finished _ _ _ (Inv_init sg ths1 Hro1) Hf1).
  rewrite (result_finished _ _ _ (Inv_init sg ths2 Hro2) Hf2).
  cbn [init threads sigma]. rewrite Heq. reflexivity.
Qed.

(* ---------------- 4. stuck states; writers can deadlock ---------------- *)
Lemma stuckb_spec (ts : list tid) (s : state) :
  (forall t, finishedb t s = false -> In t ts) -> (stuckb ts s = true <-> stuck s).
Proof.
  intros Hcov. unfold stuckb, stuck. rewrite andb_true_iff, existsb_exists, forallb_forall. split.
  - intros [[t [Hin Hnf]] Hall]. split.
    + exists t. apply negb_true_iff in Hnf. exact Hnf.
    + intros u Hu. specialize (Hall u (Hcov u Hu)). rewrite Hu in Hall. cbn [orb] in Hall.
      destruct (step u s); [discriminate Hall | reflexivity].
  - intros [[t Hnf] Hall]. split.
    + exists t. split; [apply Hcov, Hnf | rewrite Hnf; reflexivity].
    + intros u _. destruct (finishedb u s) eqn:E; [reflexivity|]. rewrite (Hall u E). reflexivity.
Qed.

Lemma unfinished_tid t (s : state) : finishedb t s = false -> In t (tids s).
Proof.
  intros H. unfold tids. apply in_seq. split; [lia|]. cbn [plus]. apply nth_error_Some.
  unfold finishedb, remaining in H. destruct (nth_error (threads s) t); [discriminate | discriminate H].
Qed.

Lemma stuckb_tids (s : state) : stuckb (tids s) s = true <-> stuck s.
Proof. apply stuckb_spec. intros t. apply unfinished_tid. Qed.

(* a stuck state stays stuck whatever is scheduled: scheduling a blocked thread only adds waiting
   writers, and more waiting writers enable nothing *)
Definition le_wait (s s' : state) : Prop :=
  threads s' = threads s /\
  forall l, readers (lget l (locks s')) = readers (lget l (locks s)) /\
            writer (lget l (locks s')) = writer (lget l (locks s)) /\
            (wwait (lget l (locks s')) = [] -> wwait (lget l (locks s)) = []).

Lemma step_None_mono (s s' : state) u : le_wait s s' -> step u s = None -> step u s' = None.
Proof.
  intros [Hth Hl] H. unfold step, try_step in *. rewrite Hth.
  destruct (nth_error (threads s) u) as [th|]; [|reflexivity].
  destruct (prog th) as [|i rest]; [reflexivity|]. cbv zeta in *.
  destruct i as [l|l|l|l|f].
  - destruct (Hl l) as (Hr & Hw & Hww). rewrite Hw.
    destruct (writer (lget l (locks s))); cbn [is_none andb] in *; [reflexivity|].
    destruct (wwait (lget l (locks s'))) eqn:E; cbn [is_nil] in *; [|reflexivity].
    rewrite (Hww eq_refl) in H. cbn [is_nil] in H. discriminate H.
  - discriminate H.
  - destruct (Hl l) as (Hr & Hw & Hww). rewrite Hw, Hr.
    destruct (is_none (writer (lget l (locks s))) && is_nil (readers (lget l (locks s))));
      [discriminate H | reflexivity].
  - destruct (writer (lget l (locks s))) as [w|]; [destruct (w =? u)|]; discriminate H.
  - discriminate H.
Qed.

Lemma le_wait_refl (s : state) : le_wait s s.
Proof. split; [reflexivity|]. intros l. auto. Qed.

Lemma sched1_le_wait t (s : state) : step t s = None -> le_wait s (sched1 t s).
Proof.
  unfold step, sched1, try_step.
  destruct (nth_error (threads s) t) as [th|]; [|intros _; apply le_wait_refl].
  destruct (prog th) as [|i rest]; [intros _; apply le_wait_refl|]. cbv zeta.
  destruct i as [l|l|l|l|f].
  - destruct (is_none (writer (lget l (locks s))) && is_nil (wwait (lget l (locks s))));
      [intro H; discriminate H | intros _; apply le_wait_refl].
  - intro H; discriminate H.
  - destruct (is_none (writer (lget l (locks s))) && is_nil (readers (lget l (locks s))));
      [intro H; discriminate H | intros _].
    split; [reflexivity|]. intros l0. cbn [locks]. rewrite lget_lset.
    destruct (l =? l0) eqn:El; [|auto]. apply Nat.eqb_eq in El. subst l0. cbn [readers writer wwait].
    repeat split. destruct (memb t (wwait (lget l (locks s)))); [auto|].
    intros H. apply app_eq_nil in H. destruct H as [_ H]. discriminate H.
  - destruct (writer (lget l (locks s))) as [w|]; [destruct (w =? t)|]; intro H; discriminate H.
  - intro H; discriminate H.
Qed.

Lemma finished_step_None t (s : state) : finishedb t s = true -> step t s = None.
Proof.
  unfold finishedb, remaining, step, try_step. destruct (nth_error (threads s) t) as [th|]; [|reflexivity].
  destruct (prog th); [reflexivity | intro H; discriminate H].
Qed.

Lemma stuck_sched1 t (s : state) : stuck s -> stuck (sched1 t s).
Proof.
  intros [[u Hu] Hall].
  assert (Ht : step t s = None).
  { destruct (finishedb t s) eqn:E; [apply finished_step_None, E | apply Hall, E]. }
  pose proof (sched1_le_wait t s Ht) as Hle.
  assert (Hfin : forall v, finishedb v (sched1 t s) = finishedb v s).
  { intros v. unfold finishedb, remaining. destruct Hle as [Hth _]. rewrite Hth. reflexivity. }
  split.
  - exists u. rewrite Hfin. exact Hu.
  - intros v Hv. rewrite Hfin in Hv. apply (step_None_mono s _ v Hle). apply Hall, Hv.
Qed.

Theorem stuck_forever (sched : list tid) : forall s : state, stuck s -> stuck (run sched s).
Proof. induction sched as [|t r IH]; intros s H; cbn [run]; [exact H|]. apply IH, stuck_sched1, H. Qed.

(* ---------------- 5. all locks are free at the end ---------------- *)
Lemma count_remove1_same t l : count t (remove1 t l) = pred (count t l).
Proof.
  induction l as [|u r IH]; [reflexivity|]. cbn [remove1 count].
  destruct (u =? t) eqn:E; [reflexivity|]. cbn [count]. rewrite E. exact IH.
Qed.

Lemma count_remove1_other t u l : t =? u = false -> count u (remove1 t l) = count u l.
Proof.
  intros Hne. induction l as [|v r IH]; [reflexivity|]. cbn [remove1 count].
  destruct (v =? t) eqn:E.
  - apply Nat.eqb_eq in E. subst v. rewrite Hne. reflexivity.
  - cbn [count]. rewrite IH. reflexivity.
Qed.

Lemma count_all_zero l : (forall t, count t l = 0) -> l = [].
Proof.
  intros H. destruct l as [|a r]; [reflexivity|]. specialize (H a). cbn [count] in H.
  rewrite Nat.eqb_refl in H. discriminate H.
Qed.

Lemma bal_notin w l (p : list instr) : forall n, ~ In l (locks_of p) -> bal w l n p = (n =? 0).
Proof.
  induction p as [|i r IH]; intros n Hni; [reflexivity|].
  cbn [bal]. cbn [locks_of flat_map] in Hni. fold (locks_of r) in Hni.
  destruct (kind i) as [[[w' k] acq]|]; [|apply IH, Hni].
  assert (Hk : k =? l = false).
  { apply Nat.eqb_neq. intro Hk. apply Hni. apply in_or_app. left. left. exact Hk. }
  rewrite Hk, andb_false_r. apply IH. intro Hin. apply Hni. apply in_or_app. right. exact Hin.
Qed.

Lemma well_bracketed_bal (p : list instr) w l : well_bracketed p = true -> bal w l 0 p = true.
Proof.
  intros H. destruct (in_dec Nat.eq_dec l (locks_of p)) as [Hin|Hni].
  - unfold well_bracketed in H. rewrite forallb_forall in H. specialize (H l Hin).
    apply andb_true_iff in H. destruct w; tauto.
  - rewrite bal_notin by exact Hni. reflexivity.
Qed.

(* every thread's remaining program is balanced w.r.t. the read guards it currently holds *)
Definition Bal (s : state) : Prop :=
  forall l t, bal false l (count t (readers (lget l (locks s)))) (remaining t s) = true.

Lemma Bal_init (sg : Sg) (ths : list thread) : all_well_bracketed ths = true -> Bal (init sg ths).
Proof.
  intros H l t. cbn [init locks lget free_lock readers count]. unfold remaining. cbn [init threads].
  destruct (nth_error ths t) as [th|] eqn:Hn; [|reflexivity].
  apply well_bracketed_bal. unfold all_well_bracketed in H. rewrite forallb_forall in H.
  apply H. eapply nth_error_In. exact Hn.
Qed.

Lemma Bal_with_thread (s : state) t lt' (th th' : thread) :
  nth_error (threads s) t = Some th ->
  (forall l u, t =? u = false ->
     count u (readers (lget l lt')) = count u (readers (lget l (locks s)))) ->
  (forall l, bal false l (count t (readers (lget l (locks s)))) (prog th) = true ->
             bal false l (count t (readers (lget l lt'))) (prog th') = true) ->
  Bal s -> Bal (with_thread s t lt' th').
Proof.
  intros Hn Hother Hself HB l u. specialize (HB l u). unfold remaining in *.
  cbn [with_thread threads locks]. rewrite nth_error_upd.
  destruct (t =? u) eqn:E.
  - apply Nat.eqb_eq in E. subst u. rewrite Hn in *. apply Hself. exact HB.
  - rewrite Hother by exact E. exact HB.
Qed.

Lemma sched1_Bal t (s : state) : Inv s -> Bal s -> Bal (sched1 t s).
Proof.
  intros [Hw Hro] HB. unfold sched1, try_step.
  destruct (nth_error (threads s) t) as [th|] eqn:Hn; [|exact HB].
  destruct (prog th) as [|i rest] eqn:Hp; [exact HB|].
  pose proof (all_ro_nth _ _ _ Hro Hn) as Hr. rewrite Hp in Hr. unfold read_only in Hr. cbn [forallb] in Hr.
  apply andb_true_iff in Hr. destruct Hr as [Hi Hr]. cbv zeta.
  destruct i as [l|l|l|l|f]; cbn [is_ro] in Hi; try discriminate Hi.
  - destruct (Hw l) as [H1 H2]. rewrite H1, H2. cbn [is_none is_nil andb].
    apply (Bal_with_thread s t _ th _ Hn); [| |exact HB].
    + intros l0 u Hne. rewrite lget_lset. destruct (l =? l0) eqn:El; [|reflexivity].
      apply Nat.eqb_eq in El. subst l0. cbn [readers count]. rewrite Hne. reflexivity.
    + intros l0. rewrite Hp, lget_lset. cbn [prog bal kind Bool.eqb andb].
      destruct (l =? l0) eqn:El; [|auto].
      apply Nat.eqb_eq in El. subst l0. cbn [readers count]. rewrite Nat.eqb_refl. auto.
  - apply (Bal_with_thread s t _ th _ Hn); [| |exact HB].
    + intros l0 u Hne. rewrite lget_lset. destruct (l =? l0) eqn:El; [|reflexivity].
      apply Nat.eqb_eq in El. subst l0. cbn [readers]. apply count_remove1_other. exact Hne.
    + intros l0. rewrite Hp, lget_lset. cbn [prog bal kind Bool.eqb andb].
      destruct (l =? l0) eqn:El; [|auto].
      apply Nat.eqb_eq in El. subst l0. cbn [readers]. rewrite count_remove1_same.
      destruct (count t (readers (lget l (locks s)))); [intro Hf; discriminate Hf | cbn [pred]; auto].
  - apply (Bal_with_thread s t _ th _ Hn); [| |exact HB].
    + reflexivity.
    + intros l0. rewrite Hp. cbn [prog bal kind]. auto.
Qed.

Lemma run_Bal sched : forall s : state, Inv s -> Bal s -> Bal (run sched s).
Proof.
  induction sched as [|t r IH]; intros s HI HB; cbn [run]; [exact HB|].
  apply IH; [apply sched1_Inv, HI | apply sched1_Bal; assumption].
Qed.

Theorem lock_poison_free (sg : Sg) (ths : list thread) (sched : list tid) :
  all_read_only ths = true -> all_well_bracketed ths = true ->
  (forall t, finishedb t (run sched (init sg ths)) = true) ->
  all_free (run sched (init sg ths)).
Proof.
  intros Hro Hwb Hfin l.
  pose proof (run_Inv sched _ (Inv_init sg ths Hro)) as [Hw _].
  pose proof (run_Bal sched _ (Inv_init sg ths Hro) (Bal_init sg ths Hwb)) as HB.
  destruct (Hw l) as [H1 H2].
  assert (H3 : readers (lget l (locks (run sched (init sg ths)))) = []).
  { apply count_all_zero. intros t. specialize (HB l t). specialize (Hfin t).
    unfold finishedb in Hfin. destruct (remaining t (run sched (init sg ths))); [|discriminate Hfin].
    cbn [bal] in HB. apply Nat.eqb_eq in HB. exact HB. }
  destruct (lget l (locks (run sched (init sg ths)))) as [rs w ww]. cbn [readers writer wwait] in *.
  subst. reflexivity.
Qed.

(* ---------------- programs built from lock acquisition sites ---------------- *)
Lemma forallb_rev {A} (p : A -> bool) l : forallb p (rev l) = forallb p l.
Proof.
  induction l as [|a l IH]; [reflexivity|]. cbn [rev]. rewrite forallb_app, IH. cbn [forallb].
  rewrite andb_true_r. apply andb_comm.
Qed.

Theorem read_only_prog_of_sites (f : Sg -> Pv -> Pv) (sites : list (bool * lockid)) :
  read_only (prog_of_sites f sites) = forallb (fun x => negb (fst x)) sites.
Proof.
  unfold read_only, prog_of_sites. rewrite forallb_app. cbn [forallb is_ro]. rewrite forallb_rev.
  assert (Ha : forallb (@is_ro Sg Pv) (map acq_of sites) = forallb (fun x => negb (fst x)) sites).
  { induction sites as [|[w l] r IH]; [reflexivity|]. cbn [map forallb fst]. rewrite IH. destruct w; reflexivity. }
  assert (Hr : forallb (@is_ro Sg Pv) (map rel_of sites) = forallb (fun x => negb (fst x)) sites).
  { clear Ha. induction sites as [|[w l] r IH]; [reflexivity|]. cbn [map forallb fst]. rewrite IH. destruct w; reflexivity. }
  rewrite Ha, Hr. destruct (forallb (fun x => negb (fst x)) sites); reflexivity.
Qed.

Lemma bal_snoc_rel w l (i : instr) (p : list instr) : kind i = Some (w, l, false) ->
  forall n, bal w l n p = true -> bal w l (S n) (p ++ [i]) = true.
Proof.
  intros Hk. induction p as [|a p IH]; intros n H.
  - cbn [bal] in H. apply Nat.eqb_eq in H. subst n. cbn [app bal]. rewrite Hk, eqb_reflx, Nat.eqb_refl. reflexivity.
  - cbn [app bal] in *. destruct (kind a) as [[[w' k] acq]|]; [|apply IH, H].
    destruct (Bool.eqb w' w && (k =? l)); [|apply IH, H].
    destruct acq; [apply IH, H|]. destruct n as [|n]; [discriminate H | apply IH, H].
Qed.

Lemma bal_snoc_other w l (i : instr) (p : list instr) w' k acq :
  kind i = Some (w', k, acq) -> Bool.eqb w' w && (k =? l) = false ->
  forall n, bal w l n (p ++ [i]) = bal w l n p.
Proof.
  intros Hk Hne. induction p as [|a p IH]; intros n.
  - cbn [app bal]. rewrite Hk, Hne. reflexivity.
  - cbn [app bal]. destruct (kind a) as [[[w'' k'] acq']|]; [|apply IH].
    destruct (Bool.eqb w'' w && (k' =? l)); [|apply IH].
    destruct acq'; [apply IH|]. destruct n as [|n]; [reflexivity | apply IH].
Qed.

Lemma bal_wrap w l (x : bool * lockid) (p : list instr) n :
  bal w l n p = true -> bal w l n (acq_of x :: p ++ [rel_of x]) = true.
Proof.
  intros H. destruct x as [wx lx].
  assert (Ka : kind (acq_of (wx, lx) : instr) = Some (wx, lx, true)) by (destruct wx; reflexivity).
  assert (Kr : kind (rel_of (wx, lx) : instr) = Some (wx, lx, false)) by (destruct wx; reflexivity).
  cbn [bal]. rewrite Ka. destruct (Bool.eqb wx w && (lx =? l)) eqn:E.
  - apply andb_true_iff in E. destruct E as [E1 E2]. apply eqb_prop in E1. apply Nat.eqb_eq in E2. subst wx lx.
    apply bal_snoc_rel; assumption.
  - rewrite (bal_snoc_other w l _ p _ _ _ Kr E). exact H.
Qed.

Lemma bal_prog_of_sites (f : Sg -> Pv -> Pv) w l (sites : list (bool * lockid)) :
  bal w l 0 (prog_of_sites f sites) = true.
Proof.
  induction sites as [|x r IH]; [reflexivity|].
  replace (prog_of_sites f (x :: r)) with (acq_of x :: prog_of_sites f r ++ [rel_of x]).
  - apply bal_wrap. exact IH.
  - unfold prog_of_sites. cbn [map rev app]. rewrite <- app_assoc. reflexivity.
Qed.

Theorem well_bracketed_prog_of_sites (f : Sg -> Pv -> Pv) (sites : list (bool * lockid)) :
  well_bracketed (prog_of_sites f sites) = true.
Proof.
  unfold well_bracketed. apply forallb_forall. intros l _. rewrite !bal_prog_of_sites. reflexivity.
Qed.

End Proofs.

(* the read_only hypothesis is necessary: a lock upgrade, and a nested read acquisition next to a writer *)
Theorem writer_deadlocks :
  (exists (p : list (instr unit nat)) (sched : list tid),
     well_bracketed p = true /\
     stuck (run sched (init tt [ {| prog := p; priv := 0 |} ]))) /\
  (exists (p0 p1 : list (instr unit nat)) (sched : list tid),
     read_only p0 = true /\ well_bracketed p0 = true /\ well_bracketed p1 = true /\
     stuck (run sched (init tt [ {| prog := p0; priv := 0 |}; {| prog := p1; priv := 0 |} ]))).
Proof.
  split.
  - exists upgrade_prog, [0]. split; [reflexivity|]. apply stuckb_tids. vm_compute. reflexivity.
  - exists nested_reader, a_writer, [0; 1].
    split; [reflexivity|]. split; [reflexivity|]. split; [reflexivity|].
    apply stuckb_tids. vm_compute. reflexivity.
Qed.
