(* C10 — the `str::trim` of Name::new: what it removes in general and what it removes from the parts the collector returns.
   The white space of `str::trim` (Unicode White_Space) is a subset of the white space of the lexer, and no white space character of
   the lexer is a name character (since the repair of is_name_start_char; before it U+1680 was both).  So on collected parts the trim
   is the identity, for every input, and Name::new is the plain joining loop.
   Owner: builder-parse. *)
From Coq Require Import List NArith Bool Arith Lia.
From DV Require Import C10.Model C10.Layout C10.Shape.
Import ListNotations.

(* ------------------------------------------------------------------ character classes *)

Ltac cls H :=
  unfold is_white_space, is_name_part_orig, is_name_start_orig, is_digit, is_ws, is_vspace, is_add_sym, between in H;
  repeat rewrite ?orb_true_iff, ?andb_true_iff, ?N.leb_le, ?N.eqb_eq in H.

Lemma white_space_is_ws : forall c, is_white_space c = true -> is_ws c = true.
Proof.
  intros c H. destruct (is_ws c) eqn:E; [reflexivity|]. exfalso.
  assert (E' : is_ws c <> true) by (rewrite E; discriminate). apply E'. clear E E'.
  cls H. unfold is_ws, is_vspace, between. repeat rewrite ?orb_true_iff, ?andb_true_iff, ?N.leb_le, ?N.eqb_eq. lia.
Qed.

(* white space for the lexer that str::trim leaves alone *)
Lemma ws_not_white_space : forall c, is_ws c = true -> is_white_space c = false -> c = 6158%N \/ c = 8203%N \/ c = 65279%N.
Proof.
  intros c H1 H2. destruct (N.eq_dec c 6158) as [->|N1]; [auto|]. destruct (N.eq_dec c 8203) as [->|N2]; [auto|].
  destruct (N.eq_dec c 65279) as [->|N3]; [auto|]. exfalso.
  assert (E : is_white_space c = true); [|rewrite E in H2; discriminate H2].
  cls H1. unfold is_white_space, between. repeat rewrite ?orb_true_iff, ?andb_true_iff, ?N.leb_le, ?N.eqb_eq. lia.
Qed.

(* before the repair of is_name_start_char one name character had the property White_Space *)
Lemma name_part_white_space_orig : forall c, is_name_part_orig c = true -> is_white_space c = true -> c = 5760%N.
Proof. intros c H1 H2. cls H1. cls H2. lia. Qed.

(* now no name character has it: str::trim leaves a word alone *)
Lemma name_part_not_white_space : forall c, is_name_part c = true -> is_white_space c = false.
Proof.
  intros c H. destruct (is_white_space c) eqn:E; [|reflexivity].
  pose proof (white_space_is_ws c E) as Hw. rewrite (name_part_not_ws c H) in Hw. discriminate Hw.
Qed.

Lemma name_part_white_space : forall c, is_name_part c = true -> is_white_space c = true -> c = 5760%N.
Proof. intros c H1 H2. rewrite (name_part_not_white_space c H1) in H2. discriminate H2. Qed.

Lemma add_sym_not_white_space : forall c, is_add_sym c = true -> is_white_space c = false.
Proof. intros c H1. apply not_true_is_false. intro H2. cls H1. cls H2. lia. Qed.

Lemma overlap_trimmed : is_white_space 5760 = true /\ is_white_space 6158 = false /\ is_white_space 65279 = false /\ is_white_space 8203 = false.
Proof. repeat split. Qed.

(* ------------------------------------------------------------------ trim *)

Definition wsp (c : N) : Prop := is_white_space c = true.
Definition nws (c : N) : Prop := is_white_space c = false.
Definition head_ws (p : str) : bool := match p with c :: _ => is_white_space c | [] => false end.

Lemma trim_start_split : forall p, exists l, p = l ++ trim_start p /\ Forall wsp l /\ head_ws (trim_start p) = false.
Proof.
  induction p as [|c r IH].
  - exists []. repeat split. constructor.
  - cbn [trim_start]. destruct (is_white_space c) eqn:E.
    + destruct IH as (l & Hp & Hl & Hh). exists (c :: l). split; [cbn [app]; f_equal; exact Hp|]. split; [constructor; [exact E|exact Hl]|exact Hh].
    + exists []. split; [reflexivity|]. split; [constructor|exact E].
Qed.

Lemma trim_start_fix : forall p, head_ws p = false -> trim_start p = p.
Proof. intros [|c r] H; [reflexivity|]. cbn [head_ws] in H. cbn [trim_start]. rewrite H. reflexivity. Qed.

Lemma head_ws_app : forall a b, a <> [] -> head_ws (a ++ b) = head_ws a.
Proof. intros [|c a] b H; [contradiction|reflexivity]. Qed.

(* what trim does: a run of White_Space characters goes at each end, and what is left neither begins nor ends with one *)
Lemma trim_split : forall p, exists l r, p = l ++ trim p ++ r /\ Forall wsp l /\ Forall wsp r /\
  head_ws (trim p) = false /\ head_ws (rev (trim p)) = false.
Proof.
  intros p. destruct (trim_start_split p) as (l & Hp & Hl & Hh).
  destruct (trim_start_split (rev (trim_start p))) as (r' & Hq & Hr & Hh2).
  unfold trim. set (q := trim_start p) in *. set (t := trim_start (rev q)) in *.
  assert (Eq : q = rev t ++ rev r').
  { rewrite <- (rev_involutive q). rewrite Hq. apply rev_app_distr. }
  exists l, (rev r'). split; [rewrite Hp at 1; rewrite Eq; reflexivity|]. split; [exact Hl|]. split; [apply Forall_rev; exact Hr|].
  split.
  - destruct (rev t) as [|c u] eqn:Et; [reflexivity|].
    rewrite Eq in Hh. rewrite head_ws_app in Hh by discriminate. exact Hh.
  - rewrite rev_involutive. exact Hh2.
Qed.

Lemma trim_id_edges : forall p, head_ws p = false -> head_ws (rev p) = false -> trim p = p.
Proof. intros p H1 H2. unfold trim. rewrite (trim_start_fix p H1). rewrite (trim_start_fix _ H2). apply rev_involutive. Qed.

Lemma trim_idem : forall p, trim (trim p) = trim p.
Proof. intros p. destruct (trim_split p) as (_ & _ & _ & _ & _ & H1 & H2). apply trim_id_edges; assumption. Qed.

Lemma head_nws : forall p, Forall nws p -> head_ws p = false.
Proof. intros [|c r] H; [reflexivity|]. inversion H; subst. assumption. Qed.

Lemma trim_id : forall p, Forall nws p -> trim p = p.
Proof. intros p H. apply trim_id_edges; apply head_nws; [exact H|apply Forall_rev; exact H]. Qed.

Lemma map_trim_id : forall ps, Forall (Forall nws) ps -> map trim ps = ps.
Proof. induction ps as [|p ps IH]; intros H; [reflexivity|]. inversion H; subst. cbn [map]. rewrite trim_id by assumption. rewrite IH by assumption. reflexivity. Qed.

(* ------------------------------------------------------------------ Name::new *)

(* trimming the parts beforehand changes nothing: Name::new sees trimmed parts only *)
Lemma name_new_trimmed : forall ps, name_new (map trim ps) = name_new ps.
Proof.
  intros ps. unfold name_new. f_equal. rewrite map_map. apply map_ext. intro p. apply trim_idem.
Qed.

(* parts without White_Space characters: Name::new is the joining loop *)
Lemma name_new_join : forall ps, Forall (Forall nws) ps -> name_new ps = name_join ps.
Proof. intros ps H. unfold name_new. rewrite map_trim_id by exact H. reflexivity. Qed.

Lemma name_join_one : forall w, name_join [w] = w.
Proof. intros w. unfold name_join. cbn [name_new_go negb andb app]. apply app_nil_r. Qed.

Lemma name_new_one : forall w, name_new [w] = trim w.
Proof. intros w. unfold name_new. cbn [map]. apply name_join_one. Qed.

(* the unit test of names.rs (test_from_string_vector): "   x   ", " y      \t", "  \n  z  \t  " is the name `x y z`;
   "x", "    +    ", "y" is `x+y` *)
Lemma name_new_unit_test :
  name_new [[32; 32; 32; 120; 32; 32; 32]; [32; 121; 32; 32; 32; 32; 32; 32; 9]; [32; 32; 10; 32; 32; 122; 32; 32; 9; 32; 32]]%N = [120; 32; 121; 32; 122]%N /\
  name_new [[120]; [32; 32; 32; 32; 43; 32; 32; 32; 32]; [121]]%N = [120; 43; 121]%N /\
  name_new [[]; []; []] = [] /\
  name_of_text [32; 97; 32; 98; 9]%N = [97; 32; 98]%N.
Proof. repeat split. Qed.

(* ------------------------------------------------------------------ the parts the collector returns *)

Lemma Forall_weave_parts : forall (P : N -> Prop) gs ps, length gs = length ps -> Forall P (weave gs ps) -> Forall (Forall P) ps.
Proof.
  intros P. induction gs as [|g gs IH]; intros ps Hl H; destruct ps as [|p ps]; try discriminate Hl; [constructor|].
  cbn [weave] in H. apply Forall_app in H. destruct H as [_ H]. apply Forall_app in H. destruct H as [Hp H].
  constructor; [exact Hp|]. apply IH; [cbn in Hl; lia|exact H].
Qed.

Lemma Forall_firstn_str : forall (P : N -> Prop) n (l : str), Forall P l -> Forall P (firstn n l).
Proof. intros P n l H. rewrite <- (firstn_skipn n l) in H. apply Forall_app in H. tauto. Qed.

(* every character of a collected part is a character of the input *)
Lemma collect_chars : forall (P : N -> Prop) inp pos parts cps endpos,
  pos < length inp -> collect inp pos = (parts, cps, endpos) -> Forall P inp -> Forall (Forall P) parts.
Proof.
  intros P inp pos parts cps endpos Hpos Hc HP.
  destruct (collect_layout _ _ _ _ _ Hpos Hc) as (gaps & tail & HL & _ & _ & _ & Hcov).
  pose proof (Forall_firstn_str P endpos inp HP) as H. rewrite Hcov in H.
  apply Forall_app in H. destruct H as [_ H]. apply Forall_app in H. destruct H as [H _].
  exact (Forall_weave_parts P gaps parts (lo_gaps _ _ _ _ _ HL) H).
Qed.

(* of a word or an additional symbol the trim removes U+1680 only *)
Lemma part_trim_ogham : forall p, word p \/ symp p ->
  exists l r, p = l ++ trim p ++ r /\ Forall (fun c => c = 5760%N) l /\ Forall (fun c => c = 5760%N) r.
Proof.
  intros p Hp. destruct (trim_split p) as (l & r & E & Hl & Hr & _ & _). exists l, r. split; [exact E|].
  assert (Hall : Forall (fun c => is_white_space c = true -> c = 5760%N) p).
  { destruct Hp as [[_ Hw]|(c & -> & Hc)].
    - eapply Forall_impl; [|exact Hw]. intros c H1 H2. exact (name_part_white_space c H1 H2).
    - constructor; [|constructor]. intro H. rewrite (add_sym_not_white_space c Hc) in H. discriminate H. }
  rewrite E in Hall. apply Forall_app in Hall. destruct Hall as [Hal Hall]. apply Forall_app in Hall. destruct Hall as [_ Har].
  split; rewrite Forall_forall in *; intros c Hin.
  - apply Hal; [exact Hin|apply Hl; exact Hin].
  - apply Har; [exact Hin|apply Hr; exact Hin].
Qed.

Lemma part_nws : forall p, word p \/ symp p -> Forall (fun c => c <> 5760%N) p -> Forall nws p.
Proof.
  intros p Hp Hc. destruct Hp as [[_ Hw]|(c & -> & Hs)].
  - rewrite Forall_forall in *. intros c Hin. unfold nws. destruct (is_white_space c) eqn:E; [|reflexivity].
    exfalso. apply (Hc c Hin). apply name_part_white_space; [apply Hw; exact Hin|exact E].
  - constructor; [apply add_sym_not_white_space; exact Hs|constructor].
Qed.

(* a word or an additional symbol has no White_Space character: the trim leaves it alone *)
Lemma part_nws_all : forall p, word p \/ symp p -> Forall nws p.
Proof.
  intros p [[_ Hw]|(c & -> & Hs)].
  - eapply Forall_impl; [|exact Hw]. intros c Hc. apply name_part_not_white_space. exact Hc.
  - constructor; [apply add_sym_not_white_space; exact Hs|constructor].
Qed.

Lemma part_trim_id : forall p, word p \/ symp p -> trim p = p.
Proof. intros p Hp. apply trim_id. apply part_nws_all. exact Hp. Qed.

Lemma shape_of_parts : forall inp parts cps, Forall2 (part_ok inp) parts cps -> Forall (fun p => word p \/ symp p) parts.
Proof. intros inp parts cps H. induction H as [|p e ps es Hp _ IH]; constructor; [|exact IH]. destruct Hp as [[H _]|H]; [left|right]; exact H. Qed.

(* for every input: from each collected part Name::new trims a run of U+1680 at each end, nothing else *)
Theorem collect_trim_ogham : forall inp pos parts cps endpos,
  pos < length inp -> is_name_start (ch inp pos) = true -> collect inp pos = (parts, cps, endpos) ->
  Forall (fun p => exists l r, p = l ++ trim p ++ r /\ Forall (fun c => c = 5760%N) l /\ Forall (fun c => c = 5760%N) r) parts.
Proof.
  intros inp pos parts cps endpos Hpos Hstart Hc.
  destruct (collect_shape _ _ _ _ _ Hpos Hstart Hc) as (Hsh & _).
  eapply Forall_impl; [|exact (shape_of_parts _ _ _ Hsh)]. intros p Hp. apply part_trim_ogham. exact Hp.
Qed.

(* on an input without U+1680 the trim is the identity on the collected parts: the name of every prefix is the plain joining loop *)
Theorem collect_trim_id : forall inp pos parts cps endpos,
  pos < length inp -> is_name_start (ch inp pos) = true -> Forall (fun c => c <> 5760%N) inp -> collect inp pos = (parts, cps, endpos) ->
  map trim parts = parts /\ forall k, name_new (firstn k parts) = name_join (firstn k parts).
Proof.
  intros inp pos parts cps endpos Hpos Hstart Hclean Hc.
  destruct (collect_shape _ _ _ _ _ Hpos Hstart Hc) as (Hsh & _).
  pose proof (shape_of_parts _ _ _ Hsh) as Hs. pose proof (collect_chars _ _ _ _ _ _ Hpos Hc Hclean) as Hch.
  assert (Hn : Forall (Forall nws) parts).
  { rewrite Forall_forall in *. intros p Hin. apply part_nws; [apply Hs; exact Hin|apply Hch; exact Hin]. }
  split; [apply map_trim_id; exact Hn|]. intro k. apply name_new_join.
  rewrite <- (firstn_skipn k parts) in Hn. apply Forall_app in Hn. tauto.
Qed.

(* for every input the trim is the identity on the collected parts (no name character is White_Space since the repair of
   is_name_start_char): the name of every prefix is the plain joining loop *)
Theorem collect_trim_all : forall inp pos parts cps endpos,
  pos < length inp -> is_name_start (ch inp pos) = true -> collect inp pos = (parts, cps, endpos) ->
  map trim parts = parts /\ forall k, name_new (firstn k parts) = name_join (firstn k parts).
Proof.
  intros inp pos parts cps endpos Hpos Hstart Hc.
  destruct (collect_shape _ _ _ _ _ Hpos Hstart Hc) as (Hsh & _).
  pose proof (shape_of_parts _ _ _ Hsh) as Hs.
  assert (Hn : Forall (Forall nws) parts).
  { eapply Forall_impl; [|exact Hs]. intros p Hp. apply part_nws_all. exact Hp. }
  split; [apply map_trim_id; exact Hn|]. intro k. apply name_new_join.
  rewrite <- (firstn_skipn k parts) in Hn. apply Forall_app in Hn. tauto.
Qed.

(* Name::new on parts that hold U+1680 (the collector returned such parts before the repair: `a+<U+1680> b` gave a, +, <U+1680>, b): the part
   that is U+1680 alone is trimmed to nothing, but it still separates: the name is `a+ b`, not `a+b`;
   a part that ends in U+1680 loses it: `a<U+1680>` is the name `a`.  U+180E and U+FEFF are not trimmed *)
Lemma trim_witness :
  name_new [[97]; [43]; [5760]; [98]]%N = [97; 43; 32; 98]%N /\
  name_new [[97]; [43]; [98]]%N = [97; 43; 98]%N /\
  name_new [[97; 5760]]%N = [97]%N /\ name_new [[5760; 97; 5760; 98; 5760]]%N = [97; 5760; 98]%N /\
  name_new [[97; 6158]]%N = [97; 6158]%N /\ name_new [[97; 65279]]%N = [97; 65279]%N.
Proof. repeat split. Qed.

(* ------------------------------------------------------------------ the statements of Props/C10.v *)

Lemma name_new_trim_facts : forall ps,
  name_new (map trim ps) = name_new ps /\ (Forall (Forall (fun c => is_white_space c = false)) ps -> name_new ps = name_join ps).
Proof. intro ps. split; [exact (name_new_trimmed ps)|exact (name_new_join ps)]. Qed.

Lemma white_space_classes : forall c,
  (is_white_space c = true -> is_ws c = true) /\
  (is_ws c = true -> is_white_space c = false -> c = 6158%N \/ c = 8203%N \/ c = 65279%N) /\
  (is_name_part c = true -> is_white_space c = false) /\
  (is_name_part_orig c = true -> is_white_space c = true -> c = 5760%N) /\
  (is_add_sym c = true -> is_white_space c = false).
Proof.
  intro c. exact (conj (white_space_is_ws c) (conj (ws_not_white_space c) (conj (name_part_not_white_space c)
    (conj (name_part_white_space_orig c) (add_sym_not_white_space c))))).
Qed.

Lemma trim_collected : forall inp pos parts cps endpos,
  pos < length inp -> is_name_start (ch inp pos) = true -> collect inp pos = (parts, cps, endpos) ->
  map trim parts = parts /\ forall k, name_new (firstn k parts) = name_join (firstn k parts).
Proof. exact collect_trim_all. Qed.

Lemma name_new_witnesses :
  (name_new [[32; 32; 32; 120; 32; 32; 32]; [32; 121; 32; 32; 32; 32; 32; 32; 9]; [32; 32; 10; 32; 32; 122; 32; 32; 9; 32; 32]]%N = [120; 32; 121; 32; 122]%N /\
   name_new [[120]; [32; 32; 32; 32; 43; 32; 32; 32; 32]; [121]]%N = [120; 43; 121]%N /\
   name_new [[]; []; []] = [] /\
   name_of_text [32; 97; 32; 98; 9]%N = [97; 32; 98]%N) /\
  (name_new [[97]; [43]; [5760]; [98]]%N = [97; 43; 32; 98]%N /\
   name_new [[97]; [43]; [98]]%N = [97; 43; 98]%N /\
   name_new [[97; 5760]]%N = [97]%N /\ name_new [[5760; 97; 5760; 98; 5760]]%N = [97; 5760; 98]%N /\
   name_new [[97; 6158]]%N = [97; 6158]%N /\ name_new [[97; 65279]]%N = [97; 65279]%N).
Proof. exact (conj name_new_unit_test trim_witness). Qed.
