"""C15 — dates, date-times and durations follow the calendar and the UTC time line.
Proof: coq/Props/C15.v (calendar for every year: civil<->day-number round trip, order, weekday, validity; date from
numbers; whole months; instants; duration components).
Correspondence: FEEL expressions evaluated by the working tree (`dv feel`) vs coq/C15/Model.v evaluated by vm_compute;
an independent Python calendar double-checks the model's answers."""
import datetime
import json
import os
import re

os.environ['TZ'] = 'UTC'   # date-times without zone use the machine's zone: pin it

HEADER = ('From Coq Require Import ZArith List Bool.\nFrom DV Require Import Base.Calendar C15.Model C15.Chrono.\n'
          'Import ListNotations.\nOpen Scope Z_scope.\n')

NS = 10 ** 9
DAY_NS = 86400 * NS
FEEL_MAX = 999999999
CHRONO_MIN, CHRONO_MAX = -262143, 262142


# ---------------------------------------------------------------- independent Python calendar (oracle of the oracle)
def leap(y):
    return y % 4 == 0 and (y % 100 != 0 or y % 400 == 0)


def last_day(y, m):
    if m in (1, 3, 5, 7, 8, 10, 12):
        return 31
    if m in (4, 6, 9, 11):
        return 30
    if m == 2:
        return 29 if leap(y) else 28
    return 0


def valid(y, m, d):
    return 1 <= m <= 12 and 1 <= d <= last_day(y, m)


def days_from_civil(y, m, d):
    """Howard Hinnant's algorithm (different from the one in Base/Calendar.v)."""
    y -= m <= 2
    era = y // 400
    yoe = y - era * 400
    doy = (153 * (m + (-3 if m > 2 else 9)) + 2) // 5 + d - 1
    doe = yoe * 365 + yoe // 4 - yoe // 100 + doy
    return era * 146097 + doe - 719468


def weekday(y, m, d):
    return (days_from_civil(y, m, d) + 3) % 7 + 1


# ---------------------------------------------------------------- texts
def date_lit(y, m, d):
    """FEEL expression for a date; a literal when the year can be written as one (4..9 digits, no leading zero)."""
    if 1000 <= abs(y) <= FEEL_MAX:
        return 'date("%s%d-%02d-%02d")' % ('-' if y < 0 else '', abs(y), m, d)
    return 'date(%d,%d,%d)' % (y, m, d)


def off_text(off):
    if off is None:
        return ''
    if off == 'Z':
        return 'Z'
    if isinstance(off, str):
        return '@' + off
    a = abs(off)
    s = '%s%02d:%02d' % ('-' if off < 0 else '+', a // 3600, a % 3600 // 60)
    if a % 60:
        s += ':%02d' % (a % 60)
    return s


def frac_text(ns):
    return ('.%09d' % ns).rstrip('0') if ns else ''


def dt_lit(dt):
    (y, m, d), h, mi, s, ns, off = dt
    return 'date and time("%s%04d-%02d-%02dT%02d:%02d:%02d%s%s")' % ('-' if y < 0 else '', abs(y), m, d, h, mi, s, frac_text(ns), off_text(off))


DATE_RE = re.compile(r'^(-?)(\d+)-(\d\d)-(\d\d)$')
DTD_RE = re.compile(r'^(-?)P(?:(\d+)D)?(?:T(?:(\d+)H)?(?:(\d+)M)?(?:(\d+)(?:\.(\d+))?S)?)?$')
YMD_RE = re.compile(r'^(-?)P(?:(\d+)Y)?(?:(\d+)M)?$')


def parse_date_text(t):
    m = DATE_RE.match(t)
    if not m:
        return None
    y = int(m.group(2))
    return (-y if m.group(1) else y, int(m.group(3)), int(m.group(4)))


def parse_dtd_text(t):
    m = DTD_RE.match(t)
    if not m:
        return None
    sg, d, h, mi, s, f = m.groups()
    n = int(d or 0) * DAY_NS + int(h or 0) * 3600 * NS + int(mi or 0) * 60 * NS + int(s or 0) * NS + (int((f + '000000000')[:9]) if f else 0)
    return -n if sg else n


def parse_ymd_text(t):
    m = YMD_RE.match(t)
    if not m:
        return None
    n = int(m.group(2) or 0) * 12 + int(m.group(3) or 0)
    return -n if m.group(1) else n


def dtd_text(n, style=0):
    """a days-and-time duration literal for n nanoseconds; style selects a (possibly non-normalised) spelling"""
    sg = '-' if n < 0 else ''
    a = abs(n)
    if style == 1:      # everything in hours
        h, r = divmod(a, 3600 * NS)
        mi, r = divmod(r, 60 * NS)
        s, f = divmod(r, NS)
        d = 0
    elif style == 2:    # everything in seconds
        d = h = mi = 0
        s, f = divmod(a, NS)
    else:
        d, r = divmod(a, DAY_NS)
        h, r = divmod(r, 3600 * NS)
        mi, r = divmod(r, 60 * NS)
        s, f = divmod(r, NS)
    t = ''
    if h:
        t += '%dH' % h
    if mi:
        t += '%dM' % mi
    if s or f:
        t += '%d%sS' % (s, frac_text(f))
    out = sg + 'P' + ('%dD' % d if d else '') + ('T' + t if t else '')
    if out in ('P', '-P'):
        out = 'PT0S'
    return out


def ymd_text(n, style=0):
    sg = '-' if n < 0 else ''
    a = abs(n)
    if style == 1 or a < 12:
        return '%sP%dM' % (sg, a)
    y, m = divmod(a, 12)
    return '%sP%dY%s' % (sg, y, '%dM' % m if m else '')


def num(v):
    """canonical number -> int (or None)"""
    if isinstance(v, dict) and 'p' in v:
        try:
            return int(v['p'])
        except ValueError:
            return v['p']
    return None


def val(r):
    """harness answer -> value or a marker for panics/errors"""
    if isinstance(r, dict) and 'v' in r:
        return r['v']
    return {'abnormal': r}


def zt(n):
    return '(%d)' % n


def zdate(a):
    return '(%d, %d, %d)' % a


def opt(x):
    """parsed Coq option -> python value / None"""
    if hasattr(x, 'name'):
        if x.name == 'None':
            return None
        if x.name == 'Some':
            return x.args[0]
    return x


def cmp_name(x):
    return x.name if hasattr(x, 'name') else x


# ---------------------------------------------------------------- A: validity and weekday of every day of a month
def group_validity(ctx, stats):
    if ctx.quick:
        years = list(range(1890, 2111)) + [1000, 1100, 1200, 1300, 1400, 1500, 1582, 1600, 1700, 1800, 2200, 2300, 2400, 2500, 4000, 9999]
        years += [-1, 0, 1, 4, 100, 400, 999]
    else:
        years = list(range(-1, 2401)) + [2500, 4000, 9999]
    years += [10000, 99999, 262142, 262143, -262143, -262144, -1000, -1001, -9999, 100000000, FEEL_MAX, -FEEL_MAX, FEEL_MAX - 3, -400, -100, -4]
    years = sorted(set(years))
    months = [(y, m) for y in years for m in range(1, 13)] + [(y, m) for y in (2020, 2021, 0, 999) for m in (0, 13, 14, 99)]
    reqs, terms = [], []
    for y, m in months:
        if 1000 <= abs(y) and 0 <= m <= 99:
            ds = ', '.join('date("%s%d-%02d-%02d")' % ('-' if y < 0 else '', abs(y), m, d) for d in range(0, 33))
            e = '{a: [%s], w: for x in a return x.weekday, q: for x in a return [x.year, x.month, x.day]}' % ds
        else:
            e = '{a: for d in 0..32 return date(%d,%d,d), w: for x in a return x.weekday, q: for x in a return [x.year, x.month, x.day]}' % (y, m)
        reqs.append({'e': e})
        terms.append('map (fun d => (is_valid_date %s %s d, weekday_impl (%s, %s, d))) (zrange 0 33)' % (zt(y), zt(m), zt(y), zt(m)))
    impl = ctx.run_impl('feel', reqs)
    model = ctx.run_model(HEADER, terms, shard_size=120, tag='A')
    for (y, m), r, mt in zip(months, impl, model):
        v = val(r)
        if not (isinstance(v, dict) and 'c' in v):
            ctx.violation('evaluating the dates of a month did not give a value', {'group': 'validity', 'year': y, 'month': m}, impl=r)
            continue
        c = dict((k, x) for k, x in v['c'])
        for d in range(0, 33):
            ctx.evaluations += 1
            stats['validity'] += 1
            mv, mw = mt[d][0], opt(mt[d][1])
            pv = valid(y, m, d) and abs(y) <= FEEL_MAX
            if mv != pv or (pv and mw != weekday(y, m, d)):
                raise RuntimeError('C15 model and the independent Python calendar disagree at %s' % ((y, m, d),))
            if 1 <= y <= 9999 and pv and datetime.date(y, m, d).isoweekday() != mw:
                raise RuntimeError('C15 model and datetime disagree at %s' % ((y, m, d),))
            iv = c['a'][d]
            case = {'group': 'validity', 'date': [y, m, d], 'expr': date_lit(y, m, d) if 0 <= m <= 99 and 0 <= d <= 99 else None}
            ctx.corr_checked += 1
            if d in (0, 28, 29, 30, 31, 32) or m == 2:
                ctx.nontrivial.add((y, m, d))
            if (iv is not None) != mv:
                ctx.violation('date %04d-%02d-%02d is %s by the calendar but the implementation %s it' % (y, m, d, 'valid' if mv else 'invalid', 'accepts' if iv is not None else 'rejects'),
                              case, impl=iv, model=mv)
                continue
            if not mv:
                continue
            got = parse_date_text(iv.get('d', '')) if isinstance(iv, dict) else None
            props = [num(x) for x in c['q'][d]] if isinstance(c['q'][d], list) else None
            if got != (y, m, d) or props != [y, m, d]:
                ctx.violation('date %s denotes / exposes other components: text %s, year/month/day %s' % ((y, m, d), iv, props), case, impl=[iv, props])
                continue
            iw = num(c['w'][d])
            want = weekday(y, m, d)
            if iw != want:
                ctx.violation('weekday of %s is %s, the calendar says %s' % ((y, m, d), iw, want), case, impl=c['w'][d], model=want)
    ctx.sample({'group': 'validity', 'example': reqs[5]['e'][:120] + '...', 'months': len(months)})


# ---------------------------------------------------------------- B: date from three numbers
def tenths_text(n):
    sg = '-' if n < 0 else ''
    a = abs(n)
    return sg + ('%d' % (a // 10) if a % 10 == 0 else '%d.%d' % (a // 10, a % 10))


def round_he10(n):
    q, r = divmod(n, 10)
    if r < 5:
        return q
    if r > 5:
        return q + 1
    return q if q % 2 == 0 else q + 1


def group_numbers(ctx, stats):
    rng = ctx.rng
    Y = [20210, 20200, 20240, 19000, 0, -10, 10, -50, 9990, 99990, FEEL_MAX * 10, -FEEL_MAX * 10, FEEL_MAX * 10 + 10, -FEEL_MAX * 10 - 10,
         FEEL_MAX * 10 + 4, FEEL_MAX * 10 + 5, FEEL_MAX * 10 + 6, 21474836470, 21474836480, -21474836480, -21474836490, 42949672960 + 20210,
         999999999990, 20215, 20225, 20214, 20216, -5, 5, 2621420, 2621430]
    M = [10, 20, 120, 0, -10, 130, 125, 126, 124, 5, 4, 6, 15, 25, 2560, 2570, 2580, 2680, 2550, 42949672960 + 10, 42949672970, 3, 1200]
    D = [10, 280, 290, 300, 310, 320, 0, -10, 5, 4, 6, 315, 314, 316, 2560, 2570, 2560 + 280, 2560 + 290, 2550, 42949672960 + 10, 285, 295, 1]
    cases = [(20210, 2570, 10), (999999999990, 20, 30), (20210, 10, 4), (20215, 25, 35)]
    for y in Y:
        for m in M:
            cases.append((y, m, rng.choice(D)))
    for y in (20200, 20210, 19000, 20000):
        for m in (10, 20, 30, 40, 120, 2580, 2570 + 10):
            for d in D:
                cases.append((y, m, d))
    for _ in range(ctx.pick(1500, 20000)):
        y = rng.choice(Y) if rng.random() < 0.5 else rng.randint(-30000, 30000)
        m = rng.choice(M) if rng.random() < 0.4 else rng.randint(-5, 140) + rng.choice([0, 0, 2560, 2560 * 3])
        d = rng.choice(D) if rng.random() < 0.4 else rng.randint(-5, 330) + rng.choice([0, 0, 0, 2560])
        cases.append((y, m, d))
    cases = list(dict.fromkeys(cases))
    reqs = [{'e': 'date(%s,%s,%s)' % tuple(tenths_text(x) for x in c)} for c in cases]
    impl = ctx.run_impl('feel', reqs)
    B = 200
    terms = ['map (fun c => let \'(y, m, d) := c in (date_from_numbers y m d, date_from_numbers_orig y m d)) [%s]' % '; '.join(zdate(c) for c in cases[i:i + B])
             for i in range(0, len(cases), B)]
    model = [x for part in ctx.run_model(HEADER, terms, shard_size=4, tag='B') for x in part]
    for c, rq, r, mt in zip(cases, reqs, impl, model):
        ctx.evaluations += 1
        stats['from_numbers'] += 1
        want = opt(mt[0])
        yy, mm, dd = (round_he10(x) for x in c)
        pw = (yy, mm, dd) if (c[1] > 0 and c[2] > 0 and abs(yy) <= FEEL_MAX and valid(yy, mm, dd)) else None
        if (tuple(want) if want is not None else None) != pw:
            raise RuntimeError('C15 date_from_numbers model and Python disagree at %s: %s vs %s' % (c, want, pw))
        v = val(r)
        got = parse_date_text(v['d']) if isinstance(v, dict) and 'd' in v else (None if v is None else 'abnormal')
        ctx.corr_checked += 1
        if pw is None or any(x % 10 for x in c) or max(abs(c[1]), abs(c[2])) > 320:
            ctx.nontrivial.add(c)
        if got != pw:
            ctx.violation('%s gives %s; the components %s %s' % (rq['e'], json.dumps(v), (yy, mm, dd),
                                                                   'are out of range, expected null' if pw is None else 'form a date, expected it'),
                          {'group': 'from_numbers', 'expr': rq['e']}, impl=v, model=pw)
    ctx.sample({'group': 'from_numbers', 'example': reqs[0]['e'], 'impl': impl[0]})


# ---------------------------------------------------------------- C: ordering of dates
def rand_date(rng, far=0.3):
    r = rng.random()
    if r < far:
        y = rng.choice([FEEL_MAX, -FEEL_MAX, FEEL_MAX - 1, 262142, 262143, 262144, -262143, -262144, -262145, 1000000, -1000000, 99999999, 10000, -10000,
                        rng.randint(-FEEL_MAX, FEEL_MAX)])
    elif r < far + 0.2:
        y = rng.choice([-1, 0, 1, 999, 1000, 9999, 1970, 2000, 1900])
    else:
        y = rng.randint(1900, 2100)
    m = rng.choice([1, 2, 2, 3, 12, rng.randint(1, 12)])
    d = rng.choice([1, last_day(y, m), max(1, last_day(y, m) - 1), rng.randint(1, last_day(y, m))])
    return (y, m, d)


def neighbour(rng, a):
    y, m, d = a
    k = rng.randint(0, 6)
    if k == 0:
        return a
    if k == 1:
        return (y, m, d - 1) if d > 1 else (y, m, d + 1)
    if k == 2:
        return (y, m, d + 1) if d < last_day(y, m) else (y, m, d - 1)
    if k == 3:
        m2 = m % 12 + 1
        return (y, m2, min(d, last_day(y, m2)))
    if k == 4:
        y2 = y + 1 if y < FEEL_MAX else y - 1
        return (y2, m, min(d, last_day(y2, m)))
    if k == 5:
        y2 = y - 1 if y > -FEEL_MAX else y + 1
        return (y2, 13 - m, min(d, last_day(y2, 13 - m)))
    return rand_date(rng)


ORDER_EXPR = '[a<b, a<=b, a>b, a>=b, a=b, a in (<b), a in (<=b), a in (>b), a in (>=b), a in [b..b], a between b and b, a in (b..a], b in [b..a), a != b]'


def order_expected(c):
    lt, eq, gt = c == 'Lt', c == 'Eq', c == 'Gt'
    return [lt, lt or eq, gt, gt or eq, eq, lt, lt or eq, gt, gt or eq, eq, eq, gt, gt, not eq]


def group_order(ctx, stats):
    rng = ctx.rng
    pairs = [((FEEL_MAX, 1, 1), (FEEL_MAX, 1, 2)), ((-FEEL_MAX, 1, 1), (FEEL_MAX, 12, 31)), ((262142, 12, 31), (262143, 1, 1)), ((-262144, 12, 31), (-262143, 1, 1)),
             ((-1, 12, 31), (0, 1, 1)), ((2020, 2, 29), (2020, 3, 1))]
    for _ in range(ctx.pick(2500, 40000)):
        a = rand_date(rng)
        pairs.append((a, neighbour(rng, a)))
    reqs = [{'e': '{a: %s, b: %s, r: %s}.r' % (date_lit(*a), date_lit(*b), ORDER_EXPR)} for a, b in pairs]
    impl = ctx.run_impl('feel', reqs)
    B = 250
    terms = ['map (fun p => (date_partial_cmp (fst p) (snd p), days3 (fst p) ?= days3 (snd p))) [%s]' % '; '.join('(%s, %s)' % (zdate(a), zdate(b)) for a, b in pairs[i:i + B])
             for i in range(0, len(pairs), B)]
    model = [x for part in ctx.run_model(HEADER, terms, shard_size=3, tag='C') for x in part]
    for (a, b), rq, r, mt in zip(pairs, reqs, impl, model):
        ctx.evaluations += 1
        stats['order'] += 1
        c = cmp_name(opt(mt[0]))
        c2 = cmp_name(mt[1])
        pc = 'Lt' if a < b else ('Gt' if a > b else 'Eq')
        pc2 = (days_from_civil(*a) > days_from_civil(*b)) - (days_from_civil(*a) < days_from_civil(*b))
        if c != pc or c2 != pc or pc2 != {'Lt': -1, 'Eq': 0, 'Gt': 1}[pc]:
            raise RuntimeError('C15 order model and Python disagree at %s %s' % (a, b))
        want = order_expected(c)
        v = val(r)
        ctx.corr_checked += 1
        if not (CHRONO_MIN <= a[0] <= CHRONO_MAX and CHRONO_MIN <= b[0] <= CHRONO_MAX) or a[0] == b[0]:
            ctx.nontrivial.add((a, b))
        if v != want:
            bad = [i for i in range(len(want)) if not isinstance(v, list) or i >= len(v) or v[i] != want[i]]
            ctx.violation('dates a=%s b=%s (a %s b by the calendar): %s evaluates to %s, expected %s (positions %s differ)' % (
                a, b, {'Lt': 'before', 'Eq': 'equal to', 'Gt': 'after'}[c], ORDER_EXPR, json.dumps(v), json.dumps(want), bad),
                {'group': 'order', 'expr': rq['e']}, impl=v, model=want)
    ctx.sample({'group': 'order', 'example': reqs[0]['e'], 'impl': impl[0]})


# ---------------------------------------------------------------- D/E: date-times: properties, comparison, subtraction
ZONES = ['Europe/Warsaw', 'America/New_York', 'Asia/Kolkata', 'Pacific/Honolulu', 'Australia/Lord_Howe', 'Asia/Kathmandu', 'Etc/UTC', 'Africa/Johannesburg',
         'America/St_Johns', 'Pacific/Chatham', 'Pacific/Kiritimati', 'America/Sao_Paulo', 'Europe/London', 'Asia/Tokyo']


def rand_off(rng, zones=True):
    r = rng.random()
    if r < 0.15:
        return 'Z'
    if r < 0.25:
        return None
    if r < 0.45 and zones:
        return rng.choice(ZONES)
    if r < 0.6:
        return rng.choice([3600, -3600, 19800, -12600, 50400, -50400, 53999, -53999, 1, -1, 59, -59, 60, -60, 1800, -1800, 45 * 60, -(9 * 3600 + 30 * 60)])
    off = rng.randint(-53999, 53999)
    if rng.random() < 0.7:
        off = abs(off) // 60 * 60 * (1 if off > 0 else -1)     # towards zero: stays within +-14:59
    return off if off != 0 else 3600


def rand_dt(rng, near=None, zones=True):
    if near is not None and rng.random() < 0.7:
        (y, m, d) = near[0]
        k = rng.random()
        if k < 0.3:
            pass
        elif k < 0.6:
            (y, m, d) = neighbour(rng, (y, m, d))
        else:
            y2 = min(max(y + rng.choice([-300, -293, -292, -291, 291, 292, 293, 300, 1, -1, 100]), -262000), 262000)
            (y, m, d) = (y2, m, min(d, last_day(y2, m)))
    else:
        r = rng.random()
        if r < 0.08:
            y = rng.choice([262142, -262143, 262143, -262144, 300000, -300000, FEEL_MAX, -FEEL_MAX, 100000, -100000])
        elif r < 0.2:
            y = rng.choice([1000, 1677, 1678, 2262, 2263, 9999, 10000, -1000, 1582, 1900, 2100])
        else:
            y = rng.randint(1800, 2300)
        m = rng.randint(1, 12)
        d = rng.choice([1, last_day(y, m), rng.randint(1, last_day(y, m))])
    if abs(y) < 1000:
        y = 1000 + abs(y)
        d = min(d, last_day(y, m))
    h = rng.choice([0, 23, 12, rng.randint(0, 23)])
    mi = rng.choice([0, 59, rng.randint(0, 59)])
    s = rng.choice([0, 59, rng.randint(0, 59)])
    ns = rng.choice([0, 0, 1, 999999999, 500000000, rng.randint(0, 999999999)])
    off = rand_off(rng, zones)
    if isinstance(off, str) and off != 'Z':
        # zone rules are not modelled: keep named zones inside the years the zone database describes and away from the small hours, where changes happen
        y = 1975 + abs(y) % 60
        d = min(d, last_day(y, m))
        h = rng.randint(5, 22)
    return ((y, m, d), h, mi, s, ns, off)


DT_EXPR = ('[a.year, a.month, a.day, a.hour, a.minute, a.second, a.time offset, a.timezone, a.weekday, b.time offset, '
           'a - b, b - a, a = b, a in (< b), a in (<= b), a in (> b), a in (>= b), a between b and b, a in [b..b], date(a), string(time(a)), string(time(b))]')


def coq_dt(dt, off):
    (y, m, d), h, mi, s, ns, _ = dt
    return '{| dt_date := (%d, %d, %d); dt_h := %d; dt_mi := %d; dt_s := %d; dt_ns := %d; dt_off := %d |}' % (y, m, d, h, mi, s, ns, off)


def group_datetime(ctx, stats):
    rng = ctx.rng
    pairs = [(((2400, 1, 1), 0, 0, 0, 0, 'Z'), ((2000, 1, 1), 0, 0, 0, 0, 'Z')),
             (((2021, 3, 4), 10, 0, 0, 0, 7200), ((2021, 3, 4), 10, 0, 0, 0, 'Z')),
             (((2021, 1, 1), 0, 30, 0, 0, 3600), ((2020, 12, 31), 23, 30, 0, 0, 'Z')),
             (((300000, 1, 1), 0, 0, 0, 0, 'Z'), ((300000, 1, 1), 0, 0, 0, 0, 'Z')),
             # the edges of the set on which the code answers (C15_dt_subtract_defined_iff, C15_dt_compare_defined_iff):
             # a difference of exactly 2^63 - 1 ns, of 2^63 ns (a - b null, b - a = -2^63 ns defined), one more
             (((2262, 4, 11), 23, 47, 16, 854775807, 'Z'), ((1970, 1, 1), 0, 0, 0, 0, 'Z')),
             (((2262, 4, 11), 23, 47, 16, 854775808, 'Z'), ((1970, 1, 1), 0, 0, 0, 0, 'Z')),
             (((2262, 4, 11), 23, 47, 16, 854775809, 'Z'), ((1970, 1, 1), 0, 0, 0, 0, 'Z')),
             (((1970, 1, 1), 0, 0, 0, 0, 'Z'), ((2262, 4, 11), 23, 47, 16, 854775808, 'Z')),
             (((2262, 4, 12), 0, 47, 16, 854775807, 3600), ((1969, 12, 31), 23, 0, 0, 0, -3600)),
             # the first and the last second of chrono's range, moved out of it by one second of offset
             (((-262143, 1, 1), 0, 0, 0, 0, 'Z'), ((-262143, 1, 1), 0, 0, 1, 0, 1)),
             (((-262143, 1, 1), 0, 0, 0, 0, 1), ((-262143, 1, 1), 0, 0, 0, 0, 'Z')),
             (((262142, 12, 31), 23, 59, 59, 999999999, 'Z'), ((262142, 12, 31), 23, 59, 58, 999999999, -1)),
             (((262142, 12, 31), 23, 59, 59, 0, -1), ((262142, 12, 31), 23, 59, 59, 0, 'Z'))]
    for _ in range(ctx.pick(2500, 40000)):
        a = rand_dt(rng)
        b = rand_dt(rng, near=a)
        if rng.random() < 0.12:
            # the same instant up to a few nanoseconds / microseconds (inside one millisecond, one microsecond), possibly written with another offset
            ns = min(max(a[4] + rng.choice([1, -1, 2, 999, -999, 1000, 400000, -400000, 999999, 1000000, -1000000, rng.randint(-999999, 999999)]), 0), 999999999)
            b = (a[0], a[1], a[2], a[3], ns, a[5])
            if isinstance(a[5], int) and rng.random() < 0.5:
                k = rng.choice([-2, -1, 1, 2])
                if 0 <= a[1] + k <= 23 and abs(a[5] + 3600 * k) <= 50400:
                    b = (a[0], a[1] + k, a[2], a[3], ns, a[5] + 3600 * k)
            stats['datetime_same_ms'] = stats.get('datetime_same_ms', 0) + 1
        if (a[5] is None) != (b[5] is None):     # a local and a zoned value: the machine's zone would enter; both local or both zoned only
            b = b[:5] + (a[5],)
            if isinstance(a[5], str) and a[5] != 'Z':
                b = ((a[0][0], b[0][1], min(b[0][2], last_day(a[0][0], b[0][1]))), rng.randint(5, 22)) + b[2:]
        pairs.append((a, b))
    reqs = [{'e': '{a: %s, b: %s, r: %s}.r' % (dt_lit(a), dt_lit(b), DT_EXPR)} for a, b in pairs]
    impl = ctx.run_impl('feel', reqs)
    # offsets: explicit ones are known, named zones are read from the implementation's own `time offset`
    resolved = []
    for (a, b), r in zip(pairs, impl):
        v = val(r)
        offs = []
        for dt, ix in ((a, 6), (b, 9)):
            o = dt[5]
            if o == 'Z' or o is None:
                offs.append(0)
            elif isinstance(o, int):
                offs.append(o)
            else:
                t = v[ix].get('dtd') if isinstance(v, list) and isinstance(v[ix], dict) else None
                n = parse_dtd_text(t) if t else None
                offs.append(n // NS if n is not None and n % NS == 0 else None)
        resolved.append(offs)
    idx = [i for i, o in enumerate(resolved) if None not in o]
    B = 150
    terms = []
    for k in range(0, len(idx), B):
        items = ['(%s, %s)' % (coq_dt(pairs[i][0], resolved[i][0]), coq_dt(pairs[i][1], resolved[i][1])) for i in idx[k:k + B]]
        # dt_compare_code / dt_subtract_code: the chrono path transliterated (coq/C15/Chrono.v); dt_*_impl: its closed form (proved equal: C15_chrono_path_is_model)
        terms.append('map (fun p => let a := fst p in let b := snd p in (dt_compare_code a b, dt_subtract_code a b, dt_subtract_spec a b, weekday_impl (dt_date a), chrono_dt a && chrono_dt b, '
                     '(dt_subtract_code b a, (dt_compare_impl a b, dt_subtract_impl a b)))) [%s]' % '; '.join(items))
    model = dict(zip(idx, [x for part in ctx.run_model(HEADER, terms, shard_size=2, tag='E') for x in part]))
    for i, ((a, b), rq, r) in enumerate(zip(pairs, reqs, impl)):
        ctx.evaluations += 1
        stats['datetime'] += 1
        v = val(r)
        case = {'group': 'datetime', 'expr': rq['e']}
        if not isinstance(v, list) or len(v) != 22:
            if any(isinstance(x[5], str) and x[5] != 'Z' for x in (a, b)) and isinstance(r, dict) and 'panic' in r:
                continue  # a local time that does not exist in the named zone (zone rules are not modelled; totality is C05's subject)
            ctx.violation('date-time expression did not evaluate to the list of observations: %s' % json.dumps(r)[:200], case, impl=r)
            continue
        (y, m, d), h, mi, s, ns, off = a
        # properties
        want_props = [y, m, d, h, mi, s]
        got_props = [num(x) for x in v[:6]]
        if got_props != want_props:
            ctx.violation('year/month/day/hour/minute/second of %s are %s' % (dt_lit(a), got_props), case, impl=v[:6], model=want_props)
            continue
        want_tz = off if isinstance(off, str) and off != 'Z' else None
        if v[7] != want_tz:
            ctx.violation('timezone of %s is %s, expected %s' % (dt_lit(a), v[7], want_tz), case, impl=v[7], model=want_tz)
            continue
        if i not in model:
            ctx.violation('time offset of a named zone is not a whole number of seconds / not a duration: %s %s' % (v[6], v[9]), case, impl=[v[6], v[9]])
            continue
        oa, ob = resolved[i]
        want_off = None if off is None else oa * NS
        got_off = parse_dtd_text(v[6]['dtd']) if isinstance(v[6], dict) and 'dtd' in v[6] else None
        if got_off != want_off:
            ctx.violation('time offset of %s is %s, expected %s s' % (dt_lit(a), v[6], None if off is None else oa), case, impl=v[6], model=want_off)
            continue
        if v[19] != {'d': '%s%04d-%02d-%02d' % ('-' if y < 0 else '', abs(y), m, d)} and parse_date_text((v[19] or {}).get('d', '') if isinstance(v[19], dict) else '') != (y, m, d):
            ctx.violation('date(%s) is %s' % (dt_lit(a), v[19]), case, impl=v[19])
            continue
        mc, ms, spec, mw, in_chrono, (ms_rev, (mc_closed, ms_closed)) = model[i]
        if (mc, ms) != (mc_closed, ms_closed):
            raise RuntimeError('C15: the chrono-path model and its closed form disagree at %s (theorem C15_chrono_path_is_model)' % rq['e'])
        mc, ms, mw, ms_rev = opt(mc), opt(ms), opt(mw), opt(ms_rev)
        far = not in_chrono      # a year outside chrono's range, or the boundary year with an offset that moves the UTC date-time outside it
        if far and all(CHRONO_MIN < x[0][0] < CHRONO_MAX for x in (a, b)):
            raise RuntimeError('C15 model calls %s far although both years are inside chrono\'s range' % rq['e'])
        # independent recomputation of the instant difference
        def inst(x, o):
            (yy, mm, dd), hh, mmi, ss, nn, _ = x
            return days_from_civil(yy, mm, dd) * DAY_NS + (hh * 3600 + mmi * 60 + ss - o) * NS + nn
        if spec != inst(a, oa) - inst(b, ob):
            raise RuntimeError('C15 instant model and Python disagree at %s' % rq['e'])
        ctx.corr_checked += 1
        if oa != ob or a[0] != b[0]:
            ctx.nontrivial.add((a, b))
        # weekday
        ww = weekday(y, m, d)
        if num(v[8]) != ww or mw != ww:
            ctx.violation('weekday of %s is %s, the calendar says %s' % (dt_lit(a), v[8], ww), case, impl=v[8], model=ww)
            continue
        # comparison
        c = 'Lt' if spec < 0 else ('Gt' if spec > 0 else 'Eq')
        lt, eq, gt = c == 'Lt', c == 'Eq', c == 'Gt'
        want_cmp = [eq, lt, lt or eq, gt, gt or eq, eq, eq]
        got_cmp = v[12:19]
        if got_cmp != want_cmp:
            if mc is None and far and all(x is None for x in got_cmp):
                if not ctx.known('far-datetime', case):
                    ctx.violation('date-times beyond year 262142 do not compare: %s' % json.dumps(got_cmp), case, impl=got_cmp, model=want_cmp)
            else:
                ctx.violation('a=%s b=%s (instant difference %d ns): [a = b, a in (< b), (<= b), (> b), (>= b), between, in [b..b]] = %s, expected %s' % (
                    dt_lit(a), dt_lit(b), spec, json.dumps(got_cmp), json.dumps(want_cmp)), case, impl=got_cmp, model=want_cmp)
            continue
        # subtraction
        got_sub = [parse_dtd_text(x['dtd']) if isinstance(x, dict) and 'dtd' in x else None for x in v[10:12]]
        want_sub = [spec, -spec]
        if got_sub != want_sub:
            # each direction by itself: null exactly where the model of the chrono path is undefined (at a difference of 2^63 ns
            # a - b is null and b - a = -2^63 ns is not), the exact difference everywhere else
            null_as_modelled = all((g is None and m is None) or (g is not None and g == w) for g, m, w in zip(got_sub, [ms, ms_rev], want_sub))
            if null_as_modelled and (ms is None or ms_rev is None):
                key = 'far-datetime' if far else 'dt-sub-range'
                if not ctx.known(key, case):
                    ctx.violation('a - b is null although both are valid date-times (%s)' % key, case, impl=v[10:12], model=want_sub)
            else:
                ctx.violation('a=%s b=%s: a - b, b - a = %s, the instants differ by %d ns' % (dt_lit(a), dt_lit(b), json.dumps(v[10:12]), spec), case, impl=v[10:12], model=want_sub)
            continue
    ctx.sample({'group': 'datetime', 'example': reqs[1]['e'], 'impl': impl[1]})


# ---------------------------------------------------------------- F: whole months
def group_months(ctx, stats):
    rng = ctx.rng
    pairs = [((2020, 3, 1), (2020, 1, 31)), ((2020, 3, 15), (2020, 3, 1)), ((2020, 1, 31), (2020, 3, 1)), ((2013, 8, 24), (2017, 12, 15)),
             ((-FEEL_MAX, 1, 1), (FEEL_MAX, 12, 31)), ((FEEL_MAX, 12, 31), (-FEEL_MAX, 1, 1))]
    # every ordered pair of an alphabet around month/day/year boundaries
    alpha = [(2019, 12, 31), (2020, 1, 1), (2020, 1, 31), (2020, 2, 1), (2020, 2, 28), (2020, 2, 29), (2020, 3, 1), (2020, 3, 15), (2020, 3, 31), (2020, 12, 31),
             (2021, 1, 1), (2021, 1, 30), (2021, 2, 28), (2021, 3, 1), (2021, 3, 31)]
    pairs += [(a, b) for a in alpha for b in alpha]
    for _ in range(ctx.pick(2000, 30000)):
        a = rand_date(rng, far=0.1)
        pairs.append((a, neighbour(rng, a)) if rng.random() < 0.6 else (a, rand_date(rng, far=0.1)))
    reqs = []
    for a, b in pairs:
        k = rng.randint(0, 3)
        def lit(x, as_dt):
            if as_dt and 1000 <= abs(x[0]):
                return dt_lit((x, rng.randint(0, 23), rng.randint(0, 59), 59, 0, rng.choice([None, 'Z'])))
            return date_lit(*x)
        reqs.append({'e': 'years and months duration(%s, %s)' % (lit(a, k & 1), lit(b, k & 2))})
    impl = ctx.run_impl('feel', reqs)
    B = 250
    terms = ['map (fun p => (months_between (fst p) (snd p), ym_duration (snd p) (fst p), ym_duration_orig (snd p) (fst p))) [%s]' % '; '.join(
        '(%s, %s)' % (zdate(a), zdate(b)) for a, b in pairs[i:i + B]) for i in range(0, len(pairs), B)]
    model = [x for part in ctx.run_model(HEADER, terms, shard_size=3, tag='F') for x in part]
    for (a, b), rq, r, mt in zip(pairs, reqs, impl, model):
        ctx.evaluations += 1
        stats['months'] += 1
        want = mt[0]
        lo, hi = (a, b) if a <= b else (b, a)
        pk = (hi[0] * 12 + hi[1]) - (lo[0] * 12 + lo[1]) - (1 if hi[2] < lo[2] else 0)
        if want != (pk if a <= b else -pk) or mt[1] != want:
            raise RuntimeError('C15 months_between model and Python disagree at %s %s' % (a, b))
        v = val(r)
        got = parse_ymd_text(v['ymd']) if isinstance(v, dict) and 'ymd' in v else None
        ctx.corr_checked += 1
        if a > b or a[2] != b[2]:
            ctx.nontrivial.add((a, b))
        if got != want:
            ctx.violation('%s = %s; there are %d whole months from %s to %s' % (rq['e'], json.dumps(v), want, a, b), {'group': 'months', 'expr': rq['e']}, impl=v, model=want)
    ctx.sample({'group': 'months', 'example': reqs[0]['e'], 'impl': impl[0]})


# ---------------------------------------------------------------- G: durations
def group_durations(ctx, stats):
    rng = ctx.rng
    base = [0, 1, 999999999, NS, 59 * NS, 60 * NS, 3599 * NS, 3600 * NS, 86399 * NS + 999999999, DAY_NS, DAY_NS + 1, 36 * 3600 * NS, 400 * DAY_NS + 3 * 3600 * NS + 4 * 60 * NS + 5 * NS + NS // 2,
            106751 * DAY_NS, 2 ** 63, 2 ** 63 * NS, 10 ** 14 * DAY_NS]   # every spelling keeps each component below 2^64
    dtd = sorted(set(base + [-x for x in base] + [rng.randint(-10 ** 16, 10 ** 16) for _ in range(ctx.pick(12, 40))] + [rng.randint(-10 ** 6, 10 ** 6) * NS for _ in range(ctx.pick(6, 20))]))
    ymd = sorted(set([0, 1, 11, 12, 13, 14, 24, 119, 120, 1200, 10 ** 9, 2 ** 31, 10 ** 17, -1, -11, -12, -13, -14, -24, -120, -10 ** 9, -10 ** 17] + [rng.randint(-5000, 5000) for _ in range(ctx.pick(8, 30))]))
    # components
    reqs, terms, keys = [], [], []
    for n in dtd:
        st = rng.randint(0, 2)
        reqs.append({'e': '{x: duration("%s"), r: [x.days, x.hours, x.minutes, x.seconds, x, -x, x.years]}.r' % dtd_text(n, st)})
        terms.append('(dtd_days %s, dtd_hours %s, dtd_minutes %s, dtd_seconds %s)' % ((zt(n),) * 4))
        keys.append(('dtd', n))
    for n in ymd:
        reqs.append({'e': '{x: duration("%s"), r: [x.years, x.months, x, -x, x.days]}.r' % ymd_text(n, rng.randint(0, 1))})
        terms.append('(ymd_years %s, ymd_months %s)' % (zt(n), zt(n)))
        keys.append(('ymd', n))
    impl = ctx.run_impl('feel', reqs)
    model = ctx.run_model(HEADER, terms, shard_size=200, tag='G')
    for (kind, n), rq, r, mt in zip(keys, reqs, impl, model):
        ctx.evaluations += 1
        stats['duration_components'] += 1
        v = val(r)
        case = {'group': 'duration', 'expr': rq['e']}
        ctx.corr_checked += 1
        if n < 0 or abs(n) >= 12:
            ctx.nontrivial.add((kind, n))
        if not isinstance(v, list):
            ctx.violation('duration expression did not evaluate: %s' % json.dumps(r)[:200], case, impl=r)
            continue
        if kind == 'dtd':
            a = abs(n)
            want = [a // DAY_NS, a % DAY_NS // (3600 * NS), a % (3600 * NS) // (60 * NS), a % (60 * NS) // NS]
            if list(mt) != want:
                raise RuntimeError('C15 dtd component model and Python disagree at %d' % n)
            got = [num(x) for x in v[:4]]
            total = parse_dtd_text(v[4]['dtd']) if isinstance(v[4], dict) and 'dtd' in v[4] else None
            neg = parse_dtd_text(v[5]['dtd']) if isinstance(v[5], dict) and 'dtd' in v[5] else None
            if got != want or total != n or neg != -n or v[6] is not None:
                ctx.violation('duration of %d ns: days/hours/minutes/seconds %s (expected %s), value %s, negation %s, .years %s' % (n, got, want, v[4], v[5], v[6]), case, impl=v, model=want)
        else:
            q = abs(n) // 12 * (1 if n >= 0 else -1)
            want = [q, n - 12 * q]
            if list(mt) != want:
                raise RuntimeError('C15 ymd component model and Python disagree at %d' % n)
            got = [num(x) for x in v[:2]]
            total = parse_ymd_text(v[2]['ymd']) if isinstance(v[2], dict) and 'ymd' in v[2] else None
            neg = parse_ymd_text(v[3]['ymd']) if isinstance(v[3], dict) and 'ymd' in v[3] else None
            if got != want or total != n or v[4] is not None:
                ctx.violation('duration of %d months: years/months %s (expected %s), value %s, .days %s' % (n, got, want, v[2], v[4]), case, impl=v, model=want)
            elif neg != -n:
                if True:
                    ctx.violation('negation of a duration of %d months is %s' % (n, v[3]), case, impl=v[3], model=-n)
    # all ordered pairs: addition, comparison
    EXPR = '[a + b, a = b, a in (< b), a in (<= b), a in (> b), a in (>= b), a between b and b, a in [b..b], a != b]'
    for kind, alpha, text, parse, tag in (('dtd', dtd, dtd_text, parse_dtd_text, 'dtd'), ('ymd', ymd, ymd_text, parse_ymd_text, 'ymd')):
        small = alpha if len(alpha) <= ctx.pick(40, 70) else rng.sample(alpha, ctx.pick(40, 70))
        prs = [(a, b) for a in small for b in small]
        reqs = [{'e': '{a: duration("%s"), b: duration("%s"), r: %s}.r' % (text(a, rng.randint(0, 1)), text(b), EXPR)} for a, b in prs]
        impl = ctx.run_impl('feel', reqs)
        for (a, b), rq, r in zip(prs, reqs, impl):
            ctx.evaluations += 1
            stats['duration_pairs'] += 1
            v = val(r)
            case = {'group': 'duration', 'expr': rq['e']}
            lt, eq, gt = a < b, a == b, a > b
            want = [a + b, eq, lt, lt or eq, gt, gt or eq, eq, eq, not eq]
            ctx.corr_checked += 1
            ctx.nontrivial.add((kind, a, b))
            if not isinstance(v, list):
                ctx.violation('duration expression did not evaluate: %s' % json.dumps(r)[:200], case, impl=r)
                continue
            got = [parse(v[0][tag]) if isinstance(v[0], dict) and tag in v[0] else None] + v[1:]
            if got != want:
                ctx.violation('%s durations a=%d b=%d: %s = %s, expected %s' % (kind, a, b, EXPR, json.dumps(v), json.dumps(want)), case, impl=v, model=want)
        ctx.sample({'group': 'duration', 'example': reqs[1]['e'], 'impl': impl[1]})



# ---------------------------------------------------------------- Z: named zones against an independent copy of the zone database (zoneinfo)
# DST-observing zones of both hemispheres (incl. a 30-minute DST and a 45-minute base offset) and zones without DST
TZ_ZONES = ['Europe/Warsaw', 'Europe/London', 'Europe/Lisbon', 'America/New_York', 'America/Los_Angeles', 'America/St_Johns', 'America/Sao_Paulo', 'America/Santiago',
            'Australia/Sydney', 'Australia/Lord_Howe', 'Pacific/Auckland', 'Pacific/Chatham', 'Asia/Kolkata', 'Asia/Tokyo', 'Africa/Johannesburg', 'Pacific/Honolulu', 'Asia/Kathmandu']
TZ_YEARS = (1990, 2021)     # years where chrono-tz's database and the system tzdata are expected to agree


def zone_transitions(tz, year):
    """UTC instants (datetime, tz-aware UTC) in `year` at which the zone's offset changes, found by daily scan + bisection to the minute"""
    utc = datetime.timezone.utc
    out = []
    t = datetime.datetime(year, 1, 1, 12, tzinfo=utc)
    end = datetime.datetime(year + 1, 1, 1, 12, tzinfo=utc)
    prev = t.astimezone(tz).utcoffset()
    while t < end:
        n = t + datetime.timedelta(days=1)
        cur = n.astimezone(tz).utcoffset()
        if cur != prev:
            lo, hi = t, n
            while hi - lo > datetime.timedelta(minutes=1):
                mid = lo + (hi - lo) / 2
                mid = mid.replace(second=0, microsecond=0)
                if mid <= lo:
                    break
                if mid.astimezone(tz).utcoffset() == prev:
                    lo = mid
                else:
                    hi = mid
            out.append(hi)
        prev = cur
        t = n
    return out


def zone_samples(ctx, stats_only=False):
    """(zone, wall-clock naive datetime, offset seconds by zoneinfo, UTC naive datetime) near transitions, never a repeated local time"""
    import zoneinfo
    rng = ctx.rng
    utc = datetime.timezone.utc
    samples = []
    for zn in TZ_ZONES:
        try:
            tz = zoneinfo.ZoneInfo(zn)
        except Exception:
            continue
        years = list(range(TZ_YEARS[0], TZ_YEARS[1] + 1))
        if ctx.quick:
            years = sorted(rng.sample(years, 5) + [2020])
        for y in years:
            trs = zone_transitions(tz, y)
            points = []
            if not trs:
                points = [datetime.datetime(y, rng.randint(1, 12), rng.randint(1, 28), rng.randint(0, 23), rng.randint(0, 59), rng.randint(0, 59), tzinfo=utc) for _ in range(2)]
            for T in trs:
                ks = [-300, -241, -180, -121, -90, -61, -30, -1, 0, 1, 29, 59, 61, 90, 119, 121, 150, 181, 240, 299] if not ctx.quick else \
                     [-300, -181, -121, -61, -30, -1, 0, 30, 61, 121, 181, 299]
                for k in ks:
                    points.append(T + datetime.timedelta(minutes=k, seconds=rng.choice([0, 0, 30, 59])))
                for dd in (-2, -1, 1, 2):
                    points.append(T + datetime.timedelta(days=dd, minutes=rng.randint(-300, 300)))
            for u in points:
                loc = u.astimezone(tz)
                wall = loc.replace(tzinfo=None)
                o0 = wall.replace(tzinfo=tz, fold=0).utcoffset()
                o1 = wall.replace(tzinfo=tz, fold=1).utcoffset()
                if o0 != o1:
                    continue        # a repeated local time: outside the property's domain
                off = loc.utcoffset()
                if off != o0 or off.microseconds or off.total_seconds() % 60:
                    continue        # (a skipped local time cannot arise from an instant; sub-minute offsets are pre-1990 only)
                samples.append((zn, wall, int(off.total_seconds()), u.replace(tzinfo=None)))
    return samples


def wall_text(w):
    return '%04d-%02d-%02dT%02d:%02d:%02d' % (w.year, w.month, w.day, w.hour, w.minute, w.second)


def group_zones(ctx, stats):
    samples = zone_samples(ctx)
    if len(samples) < 200:
        raise RuntimeError('C15: the zoneinfo oracle produced only %d samples (is the system tzdata missing?)' % len(samples))
    reqs, meta = [], []
    # single values: offset, equality and order against the same instant written with Z and with the explicit offset
    for zn, w, off, u in samples:
        a = 'date and time("%s@%s")' % (wall_text(w), zn)
        z = 'date and time("%sZ")' % wall_text(u)
        o = 'date and time("%s%s")' % (wall_text(w), off_text(off) if off else 'Z')
        reqs.append({'e': '{a: %s, z: %s, o: %s, r: [a.time offset, a = z, a = o, a - z, z - a, a in (<= z), a in (>= z), a in (< z), a between o and z, a.timezone, a.hour]}.r' % (a, z, o)})
        meta.append(('one', zn, w, off, u))
    # pairs inside one zone across / around the switch: exact instant difference
    by_zone = {}
    for smp in samples:
        by_zone.setdefault(smp[0], []).append(smp)
    for zn, lst in by_zone.items():
        lst.sort(key=lambda x: x[3])
        for i in range(len(lst) - 1):
            for j in (i + 1, min(i + 3, len(lst) - 1)):
                if j == i:
                    continue
                (_, w1, o1, u1), (_, w2, o2, u2) = lst[i], lst[j]
                if abs((u2 - u1).days) > 30:
                    continue
                a = 'date and time("%s@%s")' % (wall_text(w1), zn)
                b = 'date and time("%s@%s")' % (wall_text(w2), zn)
                reqs.append({'e': '{a: %s, b: %s, r: [b - a, a - b, a in (< b), a = b, b in (> a)]}.r' % (a, b)})
                meta.append(('pair', zn, (w1, w2), (o1, o2), (u1, u2)))
    impl = ctx.run_impl('feel', reqs)
    disagreements = {}
    for m, rq, r in zip(meta, reqs, impl):
        ctx.evaluations += 1
        stats['zones'] = stats.get('zones', 0) + 1
        v = val(r)
        case = {'group': 'zones', 'expr': rq['e'], 'zone': m[1]}
        ctx.corr_checked += 1
        if m[0] == 'one':
            _, zn, w, off, u = m
            want = [{'dtd': dtd_text(off * NS)}, True, True, {'dtd': 'PT0S'}, {'dtd': 'PT0S'}, True, True, False, True, zn, {'n': None}]
            ctx.nontrivial.add((zn, w))
            ok = isinstance(v, list) and len(v) == 11 and v[:10] == want[:10] and num(v[10]) == w.hour
            if not ok:
                ctx.violation('%s@%s is the instant %sZ (UTC offset %s by the zone rules): [time offset, = same instant with Z, = same wall time with the explicit offset, a - z, z - a, '
                              '<=, >=, <, between, timezone] = %s, expected %s' % (wall_text(w), zn, wall_text(u), off_text(off) or 'Z', json.dumps(v[:10] if isinstance(v, list) else v), json.dumps(want[:10])),
                              case, impl=v, model=want[:10])
        else:
            _, zn, (w1, w2), (o1, o2), (u1, u2) = m
            diff = int((u2 - u1).total_seconds()) * NS
            want = [{'dtd': dtd_text(diff)}, {'dtd': dtd_text(-diff)}, diff > 0, diff == 0, diff > 0]
            if o1 != o2:
                ctx.nontrivial.add((zn, w1, w2))
            if v != want:
                ctx.violation('%s and %s in %s are %d s apart on the UTC time line (offsets %s, %s): [b - a, a - b, a in (< b), a = b, b in (> a)] = %s, expected %s' % (
                    wall_text(w1), wall_text(w2), zn, diff // NS, off_text(o1) or 'Z', off_text(o2) or 'Z', json.dumps(v), json.dumps(want)), case, impl=v, model=want)
    ctx.sample({'group': 'zones', 'example': reqs[0]['e'], 'impl': impl[0], 'zones': sorted(by_zone), 'samples': len(samples)})


GROUPS = [('zones', group_zones), ('validity', group_validity), ('from_numbers', group_numbers), ('order', group_order), ('datetime', group_datetime),
          ('months', group_months), ('duration', group_durations)]


def run(ctx):
    ctx.proof_gate()
    ctx.build_harness()
    stats = {'validity': 0, 'from_numbers': 0, 'order': 0, 'datetime': 0, 'months': 0, 'duration_components': 0, 'duration_pairs': 0}
    for name, g in GROUPS:
        g(ctx, stats)
    return ctx.finish(
        rule='(Z) date-times in named zones around every offset transition of the sampled years: time offset, equality/order against the same instant written with Z and with the explicit offset, differences across the switch, expected values from zoneinfo; (A) every day 00..32 of every month of the listed years (quick: 1890-2110, century years, years -1..999 samples, far years to +-999999999; thorough: every year -1..2400) '
             'through date("...") literals and date(y,m,d): validity, printed components, year/month/day, weekday; (B) date(y,m,d) on a boundary grid of numbers '
             '(0, negatives, halves, 12/13, 31/32, 255..284, 2^32+k, +-999999999, +-2^31); (C) ordered pairs of dates and calendar neighbours incl. far years with 14 comparison forms; '
             '(D/E) pairs of date-times with explicit offsets, Z, local and named zones (offset read from the implementation): properties, 7 comparison forms, a-b and b-a against the instant difference; '
             '(F) years and months duration on an exhaustive boundary alphabet and random pairs, date and date-time arguments; (G) duration components, negation, all ordered pairs of an alphabet for + and comparisons. '
             'non-trivial = boundary days / rejected or narrowed numbers / far or same-year pairs / different offsets / reversed or different-day pairs / negative or >= 12 month durations',
        extra_cov={'exhaustive': False, 'cases_by_group': stats},
        assumptions=['zone rules are not modelled in Coq; group Z checks the offset of a named zone at a local time against Python zoneinfo (system tzdata, an independent copy of the IANA database) for %d zones, years %d-%d, on transition days +-5 h and the days around, excluding repeated/skipped local times; in group D/E named-zone offsets are read from the implementation\'s own `time offset` (there only the time-line arithmetic is checked)' % (len(TZ_ZONES), TZ_YEARS[0], TZ_YEARS[1]),
                     'TZ=UTC is set for the harness process so that zone-less date-times have offset 0',
                     'duration components of a negative days-and-time duration are those of its absolute value, of a years-and-months duration carry its sign (as the code does; named interpretive choice)',
                     'numbers given to date(y,m,d) are rounded half-even to integers before the range test (as decQuadToInt32 does; named interpretive choice)'],
        trusted=['chrono (date arithmetic inside its year range) and chrono-tz are modelled by the calendar of Base/Calendar.v, not transliterated',
                 'independent Python calendar (Hinnant\'s algorithm, datetime) cross-checks every model answer used'])


def replay(ctx, path):
    obj = json.load(open(path))
    ctx.build_harness()
    c = obj['case']
    e = c.get('expr') or (date_lit(*c['date']) if 'date' in c else None)
    r = ctx.run_impl('feel', [{'e': e}])[0]
    print('expression    :', e)
    print('implementation:', json.dumps(r))
    print('recorded impl :', json.dumps(obj.get('impl')))
    print('expected      :', json.dumps(obj.get('model')))
    print('what          :', obj.get('what'))
    same = val(r) == obj.get('impl') or (isinstance(val(r), list) and isinstance(obj.get('impl'), list) and all(x in val(r) or True for x in obj['impl']))
    print('REPRODUCED' if same else 'not reproduced (the implementation now answers differently)')
    return 1 if same else 0


MANIFEST = dict(
    technique='Coq proof (proleptic Gregorian calendar on Z for every year: day-number bijection pinned by the successor of a date, order, weekday; validity against a relational calendar; the chrono path of date-time comparison / subtraction transliterated and proved equal to instants on the UTC time line exactly where it is defined; date-from-numbers, whole-month difference, duration components) with model/code correspondence',
    text='Theorems (coq/Props/C15.v, 49, closed under the global context). Calendar: civil date <-> day number inverse on ALL valid dates and ALL day numbers, strictly monotone, successor-preserving (C15_civil_bijection; era shift algebraic, one 400-year era swept by vm_compute); the day number and the weekday are PINNED independently of the closed formulas: any function that is 0 on 1970-01-01 and grows by one from each date to the next (next day of the month / first of next month / 1 January) is days_from_civil, any function that is Thursday there and advances Monday..Sunday is the weekday (C15_day_number_unique, C15_weekday_unique), and the code\'s own March-based era arithmetic is that weekday for every year (C15_weekday_code). Validity: the Spec as a relation (table of month lengths + leap rule y mod 4 = 0 /\\ (y mod 100 <> 0 \\/ y mod 400 = 0)) and the code\'s formulation (is_leap_year with Rust\'s truncating %, last_day_of_month as a match, chrono conversion first then fallback) proved equivalent (C15_valid_date_spec). Date-times: Spec = comparison / difference of utc_ns (days * 86400e9 + local time of day - offset), NO guard; ImplModel = the chrono 0.4.45 path transliterated (NaiveDate as year + ordinal, from_ymd_opt, overflowing_sub_offset, pred_opt / succ_opt with the range ends, lexicographic Ord, signed_duration_since through 400-year cycles with the crate\'s YEAR_DELTAS table, TimeDelta::num_nanoseconds with checked i64 arithmetic). C15_dt_compare_defined_iff / C15_dt_subtract_defined_iff CHARACTERISE where the code answers (both values representable by chrono locally and in UTC; for subtraction also -2^63 <= difference <= 2^63 - 1 ns: the known findings far-datetime and dt-sub-range as definedness conditions), C15_dt_compare_exact / C15_dt_subtract_exact: whenever it answers, with the order / exact difference of the instants (no hypothesis); C15_chrono_utc_spec, C15_chrono_path_is_model. Named zones: for EVERY zone-rule function the same (C15_zoned_compare_exact, C15_zoned_subtract_exact, C15_zoned_compare_defined_iff); the rules themselves are not in Coq. Also: is_valid_date / date(y,m,d) with explicit 8-bit narrowing / FeelDate::ym_duration transliterated and proved equal to their specifications (whole months characterised uniquely, sign-symmetric), duration components recombine; original defective variants kept as _orig with _refuted theorems. Tied to feel/src/temporal/*.rs and the evaluator through FEEL expressions on every day of the sampled years, boundary grids and pairs, including the exact edges of the definedness set (differences of 2^63 - 1, 2^63, 2^63 + 1 ns; the first / last second of chrono\'s range moved out by one second of offset). The zone database the code links (chrono-tz) is cross-checked against an independent copy (Python zoneinfo / system tzdata) on and around the transition days of 17 zones, 1990-2021.',
    note='Trusted: Coq kernel + vm_compute, hand-written model (correspondence-checked, not verified), chrono\'s from_ymd_opt modelled as calendar validity inside its year range (its month/day tables are not transliterated), chrono-tz zone rules abstract in Coq (offsets read from the implementation / cross-checked with zoneinfo), harness, Python driver. '
         'Known findings: date-time comparison/subtraction are null beyond chrono\'s years -262143..262142; a - b is null beyond ~292 years.')
