(* C02 — the division of the model is correctly rounded (all finite decimals with non-zero coefficients; integers only, no reals).
   ddiv computes k extra digits of the integer quotient n / cb (n = ca * 10^k, at least 36 quotient digits), appends one sticky digit
   that says whether the division left a remainder, and rounds once.  div_sticky (C02/Proofs.v) says that rounding 10*q + sticky is
   rounding the exact rational n / cb as soon as two digits are dropped; ddiv_drops_at_least_3 says three are.  Here the two are
   linked to the actual ddiv:
     ddiv a b = Some r  ->  r has the value (-1)^s * c * 10^q, s = sign a xor sign b, where c * 10^q is a nearest multiple of 10^q to the
     exact quotient |a| / |b| (|c * 10^q - |a|/|b|| <= 10^q / 2, cross-multiplied by |b| and written at any common scale 10^B),
     a half-way case gives an even c, c <= 10^34, and the quantum 10^q is the 34-digit one (10^33 <= c) unless q is the
     smallest exponent -6176 (subnormal results). *)
From Coq Require Import ZArith NArith Bool List Lia.
From DV Require Import Base.Dec Base.DecFacts Base.DecRound C02.Model C02.Proofs C02.Sqrt.
Open Scope Z_scope.

(* what "c * 10^q is the correctly rounded quotient |a| / |b|" means, at a common scale 10^B (B <= expo a, B <= q + expo b):
   with X = |a| / 10^B and Y = |b| * 10^q / 10^B (both integers):  2 * |c * Y - X| <= Y, and c is even when equality holds *)
Definition div_nearest_even_at (a b : dec) (c : N) (q B : Z) : Prop :=
  let X := Z.of_N (coef a) * 10 ^ (expo a - B) in
  let Y := Z.of_N (coef b) * 10 ^ (q + expo b - B) in
  2 * Z.abs (Z.of_N c * Y - X) <= Y /\ (2 * Z.abs (Z.of_N c * Y - X) = Y -> N.even c = true).

(* the statement does not depend on the scale *)
Lemma div_nearest_even_rescale : forall a b c q B1 B2, B1 <= B2 -> B2 <= expo a -> B2 <= q + expo b ->
  (div_nearest_even_at a b c q B1 <-> div_nearest_even_at a b c q B2).
Proof.
  intros a b c q B1 B2 H12 Ha Hb. unfold div_nearest_even_at. cbv zeta.
  set (T := 10 ^ (B2 - B1)). assert (HT : 0 < T) by (apply Z.pow_pos_nonneg; lia).
  assert (E1 : 10 ^ (expo a - B1) = 10 ^ (expo a - B2) * T).
  { unfold T. rewrite <- Z.pow_add_r by lia. f_equal. lia. }
  assert (E2 : 10 ^ (q + expo b - B1) = 10 ^ (q + expo b - B2) * T).
  { unfold T. rewrite <- Z.pow_add_r by lia. f_equal. lia. }
  pose (X := Z.of_N (coef a) * 10 ^ (expo a - B2)). pose (Y := Z.of_N (coef b) * 10 ^ (q + expo b - B2)).
  assert (EX : Z.of_N (coef a) * 10 ^ (expo a - B1) = X * T) by (unfold X; rewrite E1; ring).
  assert (EY : Z.of_N (coef b) * 10 ^ (q + expo b - B1) = Y * T) by (unfold Y; rewrite E2; ring).
  rewrite EX, EY. fold X Y.
  assert (EF : Z.of_N c * (Y * T) - X * T = (Z.of_N c * Y - X) * T) by ring.
  rewrite EF, Z.abs_mul, (Z.abs_eq T), Z.mul_assoc by lia.
  set (V := 2 * Z.abs (Z.of_N c * Y - X)). clearbody V X Y T.
  assert (L : V * T <= Y * T <-> V <= Y) by (symmetry; apply Z.mul_le_mono_pos_r; exact HT).
  assert (Q : V * T = Y * T <-> V = Y).
  { split; [intros H; apply (Z.mul_cancel_r _ _ T); [lia|exact H] | intros ->; reflexivity]. }
  rewrite L, Q. reflexivity.
Qed.

Theorem ddiv_correctly_rounded : forall a b r, (0 < coef a)%N -> (0 < coef b)%N -> ddiv a b = Some r ->
  exists (c : N) (q : Z),
    in_format r = true /\ neg r = xorb (neg a) (neg b) /\ veq r (mkdec (xorb (neg a) (neg b)) c q) /\
    (c <= 10 ^ 34)%N /\ ETINY <= q /\ (ETINY < q -> (10 ^ 33 <= c)%N) /\
    forall B, B <= expo a -> B <= q + expo b -> div_nearest_even_at a b c q B.
Proof.
  intros a b r Ha Hb H. unfold ddiv in H.
  assert (dis_zero b = false) as Ezb by (unfold dis_zero; apply N.eqb_neq; lia).
  assert (dis_zero a = false) as Eza by (unfold dis_zero; apply N.eqb_neq; lia).
  rewrite Ezb, Eza in H. cbv zeta in H.
  set (sg := xorb (neg a) (neg b)) in *.
  set (k := Z.to_N (Z.max 0 (36 + Z.of_N (ndigits (coef b)) - Z.of_N (ndigits (coef a))))) in *.
  set (n := (coef a * 10 ^ k)%N) in *.
  set (qq := (n / coef b)%N) in *. set (rr := (n mod coef b)%N) in *.
  set (t := (if (rr =? 0)%N then 0 else 1)%N) in *.
  assert (Ht : (t <= 1)%N) by (unfold t; destruct (rr =? 0)%N; lia).
  set (E := expo a - expo b - Z.of_N k - 1) in *.
  pose proof (ddiv_quotient_digits (coef a) (coef b) Ha Hb) as Hq35. cbv zeta in Hq35. fold k n qq in Hq35.
  pose proof (ddiv_drops_at_least_3 (coef a) (coef b) E Ha Hb) as Hdrop. cbv zeta in Hdrop. fold k n qq in Hdrop. specialize (Hdrop t Ht).
  assert (Hm34 : (10 ^ 34 <= 10 * qq + t)%N).
  { assert (10 ^ 34 <= 10 ^ 35)%N by (apply N.pow_le_mono_r; lia). lia. }
  assert (Hm : (0 < 10 * qq + t)%N). { assert (10 ^ 34 <> 0)%N by (apply N.pow_nonzero; lia). lia. }
  destruct (round34_value sg _ E r Hm H) as (V1 & V2 & V3). cbv zeta in V3.
  destruct (target_coefficient_digits _ E Hm34) as [C1 C2]. cbv zeta in C1, C2.
  destruct (target_exp_ge (10 * qq + t) E) as [T1 T2].
  set (q := target_exp (10 * qq + t) E) in *.
  set (c := round_half_even (10 * qq + t) (Z.to_N (q - E))) in *.
  exists c, q.
  split; [exact (round34_in_format _ _ _ _ H)|]. split; [exact V1|].
  split.
  { (* the value of r is (-1)^sg * c * 10^q *)
    unfold veq, scaled, sval, emin2. cbn [neg coef expo]. rewrite V1.
    set (bb := Z.min E ETINY) in *. set (mn := Z.min (expo r) q).
    assert (Hbb : bb <= mn /\ mn <= expo r /\ mn <= q) by (unfold bb, mn; lia).
    assert (S1 : 10 ^ (expo r - bb) = 10 ^ (expo r - mn) * 10 ^ (mn - bb)) by (rewrite <- Z.pow_add_r by lia; f_equal; lia).
    assert (S2 : 10 ^ (q - bb) = 10 ^ (q - mn) * 10 ^ (mn - bb)) by (rewrite <- Z.pow_add_r by lia; f_equal; lia).
    rewrite S1, S2, !Z.mul_assoc in V3. apply Z.mul_cancel_r in V3.
    - destruct sg; lia.
    - assert (0 < 10 ^ (mn - bb)) by (apply Z.pow_pos_nonneg; lia). lia. }
  split; [exact C1|]. split; [exact T2|]. split; [exact C2|].
  (* nearest, ties to even: at the scale h of the integer dividend n, then at every scale *)
  set (h := expo a - Z.of_N k).
  assert (Hh : h <= expo a /\ h <= q + expo b) by (unfold h, E in *; lia).
  assert (Sh : div_nearest_even_at a b c q h).
  { assert (HD : (2 <= Z.to_N (q - E))%N) by lia.
    pose proof (div_sticky n (coef b) (Z.to_N (q - E)) Hb HD) as SS. cbv zeta in SS. fold qq rr t c in SS.
    assert (EP : Z.of_N (10 ^ (Z.to_N (q - E) - 1)) = 10 ^ (q + expo b - h)).
    { rewrite N2Z.inj_pow, N2Z.inj_sub, Z2N.id by lia. change (Z.of_N 10) with 10. f_equal. unfold h, E. change (Z.of_N 1) with 1. lia. }
    assert (EX : Z.of_N (coef a) * 10 ^ (expo a - h) = Z.of_N n).
    { unfold n, h. rewrite N2Z.inj_mul, N2Z.inj_pow. change (Z.of_N 10) with 10. f_equal. f_equal. lia. }
    rewrite EP in SS. destruct SS as (S1 & S2).
    unfold div_nearest_even_at. cbv zeta. rewrite EX.
    set (P := 10 ^ (q + expo b - h)) in *.
    assert (EY : Z.of_N c * (Z.of_N (coef b) * P) - Z.of_N n = Z.of_N c * P * Z.of_N (coef b) - Z.of_N n) by ring.
    rewrite EY, (Z.mul_comm (Z.of_N (coef b)) P).
    split; [exact S1|]. intros Hx. rewrite <- even_N_Z. apply S2. exact Hx. }
  intros B HBa HBb. destruct (Z.le_ge_cases B h) as [L|G].
  - apply (div_nearest_even_rescale a b c q B h L); [lia|lia|exact Sh].
  - apply (div_nearest_even_rescale a b c q h B); [lia|exact HBa|exact HBb|exact Sh].
Qed.

(* a zero dividend: the quotient is an exact zero (exponent clamped into the range); a zero divisor: null *)
Lemma ddiv_zero_dividend : forall a b, coef a = 0%N -> coef b <> 0%N ->
  ddiv a b = Some (mkdec (xorb (neg a) (neg b)) 0 (clamp_exp (expo a - expo b))).
Proof.
  intros a b Ha Hb. unfold ddiv, dis_zero. rewrite Ha. apply N.eqb_neq in Hb. rewrite Hb. reflexivity.
Qed.

(* an exact quotient that fits is returned exactly: when b divides a * 10^j for some j (the quotient has a finite decimal expansion),
   X = c * Y has the solution the theorem singles out; shown on examples below *)

(* 1/3, 2/3, -2/3, two exact ties (35-digit quotients ending in 5: up to even, down to even), an exact quotient,
   overflow -> null, a tie on the subnormal grid going to zero and one going up, gradual underflow of 1E-6143 / 3 *)
Example div_examples :
  ddiv (mkdec false 1 0) (mkdec false 3 0) = Some (mkdec false 3333333333333333333333333333333333 (-34)) /\
  ddiv (mkdec false 2 0) (mkdec false 3 0) = Some (mkdec false 6666666666666666666666666666666667 (-34)) /\
  ddiv (mkdec true 2 0) (mkdec false 3 0) = Some (mkdec true 6666666666666666666666666666666667 (-34)) /\
  ddiv (mkdec false 9999999999999999999999999999999999 0) (mkdec false 2 0) = Some (mkdec false 5000000000000000000000000000000000 0) /\
  ddiv (mkdec false 9999999999999999999999999999999997 0) (mkdec false 2 0) = Some (mkdec false 4999999999999999999999999999999998 0) /\
  f_div (mkdec false 1 0) (mkdec false 8 0) = Some (mkdec false 125 (-3)) /\
  ddiv (mkdec false 1 6111) (mkdec false 1 (-100)) = None /\
  ddiv (mkdec false 1 (-6176)) (mkdec false 2 0) = Some (mkdec false 0 (-6176)) /\
  ddiv (mkdec false 3 (-6176)) (mkdec false 2 0) = Some (mkdec false 2 (-6176)) /\
  ddiv (mkdec false 1 (-6143)) (mkdec false 3 0) = Some (mkdec false 333333333333333333333333333333333 (-6176)) /\
  div_nearest_even_at (mkdec false 2 0) (mkdec false 3 0) 6666666666666666666666666666666667 (-34) (-34) /\
  2 * Z.abs (6666666666666666666666666666666667 * 3 - 2 * 10 ^ 34) < 3 /\
  (* the first tie, at the scale 10^-1: 2 * |c * Y - X| = Y, c even *)
  2 * Z.abs (5000000000000000000000000000000000 * (2 * 10) - 9999999999999999999999999999999999 * 10) = 2 * 10.
Proof.
  repeat (split; [vm_compute; reflexivity|]).
  split; [|split; vm_compute; reflexivity].
  unfold div_nearest_even_at. cbn [coef expo]. cbv zeta.
  split; [vm_compute; discriminate|]. intros H. exfalso. revert H. vm_compute. discriminate.
Qed.
