(* C20 — the locking / isolation model INDEXED BY A SITE INVENTORY.  Definitions only; no proofs in this file.

   Machine: the readers-writer lock table of C20/Conc.v (writer-preferring: a waiting writer blocks new readers), thread
   programs over read AND write acquisitions / releases, an immutable shared store (the deployed model), thread-private
   states, and in addition SHARED MUTABLE CELLS: a step names the cells it reads and writes.  Nothing here is immutable
   "by type": a step over a non-empty cell list reads what other threads wrote.

   Inventory layer: which programs an inventory (list of sites, C20/Sites.v) allows.
     - a lock instruction must be one of the evaluation-phase acquisitions of the inventory (same kind, same receiver);
     - a step may touch only cells that stand for sites the scanner cannot vouch for (a static with interior mutability,
       static mut, thread_local, unsafe Send/Sync, a decimal context that is not a private copy, a Mutex / Atomic field,
       a missing file): cell number = position of the site in the inventory.
   An inventory that meets `sites_ok` therefore allows read acquisitions and steps without cells only; the theorems of
   C20/InvProofs.v are stated `forall inv, sites_ok inv = true -> ...`, the current inventory is an instance. *)
From Coq Require Import List Arith Bool NArith String.
From DV Require Import C20.Conc C20.Sites.
Import ListNotations.

(* ---------------- shared mutable cells ---------------- *)
Definition cells := list nat.
Definition cread (c : nat) (m : cells) : nat := nth c m 0.
Fixpoint cwrite (c : nat) (v : nat) (m : cells) : cells :=
  match c, m with
  | O, [] => [v]
  | O, _ :: r => v :: r
  | S c', [] => 0 :: cwrite c' v []
  | S c', a :: r => a :: cwrite c' v r
  end.
Definition creads (cs : list nat) (m : cells) : list nat := map (fun c => cread c m) cs.
Definition cwrites (cs : list nat) (vs : list nat) (m : cells) : cells :=
  fold_left (fun m' cv => cwrite (fst cv) (snd cv) m') (combine cs vs) m.

Section X.
Context {Sg Pv : Type}.   (* Sg: the deployed model (never written); Pv: private state of one call *)

(* what a step computes: from the deployed model, the values of the cells it names and the private state,
   the new values of those cells and the new private state *)
Definition stepfn := Sg -> list nat -> Pv -> list nat * Pv.

Inductive xinstr :=
| XAcq (w : bool) (l : lockid)
| XRel (w : bool) (l : lockid)
| XStep (cs : list nat) (f : stepfn).

Record xthread := { xprog : list xinstr; xpriv : Pv }.
Record xstate := { xsigma : Sg; xmem : cells; xlocks : ltab; xthreads : list xthread }.

Definition xinit (sg : Sg) (m : cells) (ths : list xthread) : xstate :=
  {| xsigma := sg; xmem := m; xlocks := []; xthreads := ths |}.

Inductive xoutcome := XAdv (s : xstate) | XBlk (s : xstate) | XFin.

Definition xwith (s : xstate) (t : tid) (m : cells) (lt : ltab) (th : xthread) : xstate :=
  {| xsigma := xsigma s; xmem := m; xlocks := lt; xthreads := upd t th (xthreads s) |}.

(* the lock rules are those of Conc.try_step *)
Definition xtry_step (t : tid) (s : xstate) : xoutcome :=
  match nth_error (xthreads s) t with
  | None => XFin
  | Some th =>
    match xprog th with
    | [] => XFin
    | i :: rest =>
      let lt := xlocks s in
      let th' := {| xprog := rest; xpriv := xpriv th |} in
      match i with
      | XAcq false l =>
        let k := lget l lt in
        if is_none (writer k) && is_nil (wwait k)
        then XAdv (xwith s t (xmem s) (lset l {| readers := t :: readers k; writer := writer k; wwait := wwait k |} lt) th')
        else XBlk s
      | XRel false l =>
        let k := lget l lt in
        XAdv (xwith s t (xmem s) (lset l {| readers := remove1 t (readers k); writer := writer k; wwait := wwait k |} lt) th')
      | XAcq true l =>
        let k := lget l lt in
        if is_none (writer k) && is_nil (readers k)
        then XAdv (xwith s t (xmem s) (lset l {| readers := []; writer := Some t; wwait := remove_all t (wwait k) |} lt) th')
        else XBlk {| xsigma := xsigma s; xmem := xmem s;
                     xlocks := lset l {| readers := readers k; writer := writer k;
                                         wwait := if memb t (wwait k) then wwait k else wwait k ++ [t] |} lt;
                     xthreads := xthreads s |}
      | XRel true l =>
        let k := lget l lt in
        match writer k with
        | Some u => if Nat.eqb u t
                    then XAdv (xwith s t (xmem s) (lset l {| readers := readers k; writer := None; wwait := wwait k |} lt) th')
                    else XAdv (xwith s t (xmem s) lt th')
        | None => XAdv (xwith s t (xmem s) lt th')
        end
      | XStep cs f =>
        let r := f (xsigma s) (creads cs (xmem s)) (xpriv th) in
        XAdv (xwith s t (cwrites cs (fst r) (xmem s)) lt {| xprog := rest; xpriv := snd r |})
      end
    end
  end.

Definition xstep (t : tid) (s : xstate) : option xstate :=
  match xtry_step t s with XAdv s' => Some s' | _ => None end.

Definition xsched1 (t : tid) (s : xstate) : xstate :=
  match xtry_step t s with XAdv s' => s' | XBlk s' => s' | XFin => s end.

Fixpoint xrun (sched : list tid) (s : xstate) : xstate :=
  match sched with [] => s | t :: r => xrun r (xsched1 t s) end.

Definition xremaining (t : tid) (s : xstate) : list xinstr :=
  match nth_error (xthreads s) t with Some th => xprog th | None => [] end.
Definition xfinishedb (t : tid) (s : xstate) : bool := is_nil (xremaining t s).
Definition xresult (t : tid) (s : xstate) : option Pv := option_map xpriv (nth_error (xthreads s) t).

(* the same call made alone: a system whose only thread is thread t of ths, run to completion *)
Definition xalone (sg : Sg) (m : cells) (ths : list xthread) (t : tid) : option Pv :=
  match nth_error ths t with
  | Some th => xresult 0 (xrun (repeat 0 (List.length (xprog th))) (xinit sg m [th]))
  | None => None
  end.

Definition xtids (s : xstate) : list tid := seq 0 (List.length (xthreads s)).

Definition xstuck (s : xstate) : Prop :=
  (exists t, xfinishedb t s = false) /\ (forall t, xfinishedb t s = false -> xstep t s = None).
Definition xstuckb (ts : list tid) (s : xstate) : bool :=
  existsb (fun t => negb (xfinishedb t s)) ts &&
  forallb (fun t => xfinishedb t s || is_none (xstep t s)) ts.

Definition xall_free (s : xstate) : Prop := forall l, lget l (xlocks s) = free_lock.
Definition xno_writers (s : xstate) : Prop :=
  forall l, writer (lget l (xlocks s)) = None /\ wwait (lget l (xlocks s)) = [].

(* a fair schedule: every thread gets at least as many turns as its program is long *)
Definition xfair (ths : list xthread) (sched : list tid) : Prop :=
  forall t th, nth_error ths t = Some th -> List.length (xprog th) <= count t sched.

(* ---------------- bracketing ---------------- *)
Definition xkind (i : xinstr) : option (bool * lockid * bool) :=
  match i with XAcq w l => Some (w, l, true) | XRel w l => Some (w, l, false) | XStep _ _ => None end.

(* starting with n guards of kind w on lock l, p never releases a guard it does not hold and ends holding none *)
Fixpoint xbal (w : bool) (l : lockid) (n : nat) (p : list xinstr) : bool :=
  match p with
  | [] => Nat.eqb n 0
  | i :: r =>
    match xkind i with
    | Some (w', k, acq) =>
      if Bool.eqb w' w && Nat.eqb k l
      then (if acq then xbal w l (S n) r else match n with O => false | S m => xbal w l m r end)
      else xbal w l n r
    | None => xbal w l n r
    end
  end.
Definition xlocks_of (p : list xinstr) : list lockid :=
  flat_map (fun i => match xkind i with Some (_, k, _) => [k] | None => [] end) p.
Definition xwell_bracketed (p : list xinstr) : bool :=
  forallb (fun l => xbal false l 0 p && xbal true l 0 p) (xlocks_of p).
Definition xall_well_bracketed (ths : list xthread) : bool := forallb (fun th => xwell_bracketed (xprog th)) ths.

(* ---------------- programs without writers and without cells ---------------- *)
Definition quiet_instr (i : xinstr) : bool :=
  match i with XAcq w _ | XRel w _ => negb w | XStep cs _ => is_nil cs end.
Definition quiet (p : list xinstr) : bool := forallb quiet_instr p.
Definition all_quiet (ths : list xthread) : bool := forallb (fun th => quiet (xprog th)) ths.

(* what one turn does to a thread of a quiet program *)
Definition xtstep (sg : Sg) (th : xthread) : xthread :=
  match xprog th with
  | [] => th
  | XStep _ f :: r => {| xprog := r; xpriv := snd (f sg [] (xpriv th)) |}
  | _ :: r => {| xprog := r; xpriv := xpriv th |}
  end.

(* ---------------- programs from lock operations ---------------- *)
Definition instr_of_op (cs : list nat) (f : stepfn) (o : lockop) : xinstr :=
  match o with LAcq w l => XAcq w l | LRel w l => XRel w l | LStep => XStep cs f end.
Definition prog_of_ops (cs : list nat) (f : stepfn) (ops : list lockop) : list xinstr := map (instr_of_op cs f) ops.

End X.

Arguments xinstr : clear implicits.
Arguments xthread : clear implicits.
Arguments xstate : clear implicits.
Arguments xoutcome : clear implicits.
Arguments stepfn : clear implicits.

(* ---------------- the inventory layer ---------------- *)
Definition is_lock_site (s : site) : bool := match skind s with SLock _ _ => true | _ => false end.

(* the hypotheses of the theorems, as a predicate of an arbitrary inventory *)
Definition sites_ok (inv : list site) : bool := forallb eval_site_ok inv.

(* shared mutable cells of an inventory: one per site that is not a lock acquisition and that the predicate rejects;
   the cell number is the position of the site in the inventory *)
Fixpoint mut_cells_from (i : nat) (inv : list site) : list nat :=
  match inv with
  | [] => []
  | s :: r => if negb (is_lock_site s) && negb (eval_site_ok s) then i :: mut_cells_from (S i) r else mut_cells_from (S i) r
  end.
Definition mut_cells (inv : list site) : list nat := mut_cells_from 0 inv.

Definition site_mem (x : bool * lockid) (l : list (bool * lockid)) : bool :=
  existsb (fun y => Bool.eqb (fst x) (fst y) && Nat.eqb (snd x) (snd y)) l.

(* the instruction is one the inventory knows: an evaluation-phase acquisition of that kind on that receiver (or the
   release of its guard), or a step that touches only the inventory's shared mutable cells *)
Definition instr_from_inv {Sg Pv} (inv : list site) (i : xinstr Sg Pv) : bool :=
  match i with
  | XAcq w l | XRel w l => site_mem (w, l) (eval_lock_sites inv)
  | XStep cs _ => forallb (fun c => memb c (mut_cells inv)) cs
  end.
Definition prog_from_inv {Sg Pv} (inv : list site) (p : list (xinstr Sg Pv)) : bool := forallb (instr_from_inv inv) p.
Definition all_from_inv {Sg Pv} (inv : list site) (ths : list (xthread Sg Pv)) : bool :=
  forallb (fun th => prog_from_inv inv (xprog th)) ths.

Definition op_from_inv (inv : list site) (o : lockop) : bool :=
  match o with LAcq w l | LRel w l => site_mem (w, l) (eval_lock_sites inv) | LStep => true end.
Definition acqs_of (ops : list lockop) : list (bool * lockid) :=
  flat_map (fun o => match o with LAcq w l => [(w, l)] | _ => [] end) ops.

(* ---------------- inventories that violate one hypothesis each (for the necessity witnesses) ---------------- *)
Definition mk_site (k : sitekind) (ev : bool) : site :=
  {| sfile := EmptyString; sline := 0%N; skind := k; seval := ev; sfn := EmptyString |}.
(* a read section of receiver l and a write acquisition of the same receiver, both in the evaluation phase *)
Definition inv_eval_write (l : nat) : list site := [mk_site (SLock false l) true; mk_site (SLock true l) true].
(* one site that is not a lock acquisition *)
Definition inv_one (k : sitekind) : list site := [mk_site k true].

(* a call that takes its number from a shared counter: reads cell 0, stores it, increments the cell *)
Definition ticket : stepfn unit nat := fun _ vs _ => ([S (hd 0 vs)], hd 0 vs).

(* ---------------- bracketing of lock operation lists (the programs of any types have the bracketing of their operations) ---------------- *)
Definition unit_step : stepfn unit unit := fun _ _ p => ([], p).
Definition obal (w : bool) (l : lockid) (n : nat) (ops : list lockop) : bool :=
  @xbal unit unit w l n (prog_of_ops [] unit_step ops).
Definition owell_bracketed (ops : list lockop) : bool := @xwell_bracketed unit unit (prog_of_ops [] unit_step ops).
Definition count_steps (ops : list lockop) : nat :=
  List.length (filter (fun o => match o with LStep => true | _ => false end) ops).
(* the distinct lock receivers of a list of acquisitions *)
Definition distinct_locks (p : list (bool * lockid)) : list lockid := nodup Nat.eq_dec (map snd p).
