(* C18 — the HTTP service (server/src/server.rs) as a state machine over the C17 workspace model:
   each request is decoded by its handler into at most one workspace operation; everything that is
   rejected on the way (extractor, missing parameter, base64, UTF-8, XML, input conversion) answers an
   error and does not touch the workspace.  No proofs in this file. *)
From Coq Require Import List NArith Bool.
From DV Require Import C17.Model.
Import ListNotations.
Open Scope N_scope.

(* the `content` parameter of /definitions/add and /definitions/replace *)
Inductive content := CMissing | CBadBase64 | CBadUtf8 | CBadXml | CModel (m : mdl).

Inductive request :=
| QAdd (c : content)
| QReplace (c : content)
| QRemove (n k : option N)                 (* namespace, name parameters *)
| QClear
| QDeploy
| QEvaluate (k : N) (input_ok : bool)      (* POST /evaluate/{model}/{invocable}; the body is a FEEL context or not *)
| QTck (k : option N) (inv : bool) (input : option bool)   (* model; invocable present; input present / convertible *)
| QRejected                                (* refused by the JSON extractor: syntax, type, content type, size -> 400 *)
| QNoRoute.                                (* unknown path or method *)

Inductive err :=
| EMissing (p : N)     (* 1 content 2 namespace 3 name 4 model 5 invocable 6 input *)
| EBase64 | EUtf8 | EXml | EExists | ENotDeployed | EInput | EBadRequest | ENoRoute.

Inductive reply :=
| RAdded (n k : N)     (* data: namespace and name *)
| RStatus (c : N)      (* data: status; 1 cleared 2 replaced 3 removed 4 deployed *)
| RValue (k d : N)     (* data: the value computed by the evaluator deployed under the name k, built from the document d *)
| RErr (e : err).      (* errors member *)

Definition is_err (r : reply) : bool := match r with RErr _ => true | _ => false end.

Definition with_content (c : content) (s : ws) (f : mdl -> ws * reply) : ws * reply :=
  match c with
  | CMissing => (s, RErr (EMissing 1))
  | CBadBase64 => (s, RErr EBase64)
  | CBadUtf8 => (s, RErr EUtf8)
  | CBadXml => (s, RErr EXml)
  | CModel m => f m
  end.

Section Serve.
(* the workspace function do_replace_definitions calls *)
Variable replace_ws : ws -> mdl -> ws * bool.

Definition serve (s : ws) (q : request) : ws * reply :=
  match q with
  | QAdd c => with_content c s (fun m => let (s', ok) := add s m in if ok then (s', RAdded (ns m) (nm m)) else (s', RErr EExists))
  | QReplace c => with_content c s (fun m => let (s', ok) := replace_ws s m in if ok then (s', RStatus 2) else (s', RErr EExists))
  | QRemove None _ => (s, RErr (EMissing 2))
  | QRemove (Some _) None => (s, RErr (EMissing 3))
  | QRemove (Some n) (Some k) => (remove s n k, RStatus 3)
  | QClear => (init, RStatus 1)
  | QDeploy => (deploy s, RStatus 4)
  | QEvaluate k false => (s, RErr EInput)
  | QEvaluate k true => match lookup k (evs s) with Some d => (s, RValue k d) | None => (s, RErr ENotDeployed) end
  | QTck None _ _ => (s, RErr (EMissing 4))
  | QTck (Some _) false _ => (s, RErr (EMissing 5))
  | QTck (Some _) true None => (s, RErr (EMissing 6))
  | QTck (Some _) true (Some false) => (s, RErr EInput)
  | QTck (Some k) true (Some true) => match lookup k (evs s) with Some d => (s, RValue k d) | None => (s, RErr ENotDeployed) end
  | QRejected => (s, RErr EBadRequest)
  | QNoRoute => (s, RErr ENoRoute)
  end.

Fixpoint serve_all (s : ws) (qs : list request) : ws * list reply :=
  match qs with
  | [] => (s, [])
  | q :: r => let (s1, x) := serve s q in let (s2, xs) := serve_all s1 r in (s2, x :: xs)
  end.
End Serve.

(* Workspace::replace: what the handler calls after the fix: commit *)
Definition replace_fixed (s : ws) (m : mdl) : ws * bool := add (remove s (ns m) (nm m)) m.
(* the handler at the pinned commit called Workspace::add *)
Definition replace_orig (s : ws) (m : mdl) : ws * bool := add s m.

(* ---------------- the request sequence read as a sequence of workspace operations ---------------- *)
Definition op_of (q : request) : option op :=
  match q with
  | QAdd (CModel m) => Some (Add m)
  | QReplace (CModel m) => Some (Replace m)
  | QRemove (Some n) (Some k) => Some (Remove n k)
  | QClear => Some Clear
  | QDeploy => Some Deploy
  | QEvaluate k true => Some (Eval k)
  | QTck (Some k) true (Some true) => Some (Eval k)
  | _ => None
  end.

(* the error a request is refused with before it reaches the workspace *)
Definition refusal (q : request) : err :=
  match q with
  | QAdd CMissing | QReplace CMissing => EMissing 1
  | QAdd CBadBase64 | QReplace CBadBase64 => EBase64
  | QAdd CBadUtf8 | QReplace CBadUtf8 => EUtf8
  | QAdd CBadXml | QReplace CBadXml => EXml
  | QRemove None _ => EMissing 2
  | QRemove (Some _) None => EMissing 3
  | QEvaluate _ false => EInput
  | QTck None _ _ => EMissing 4
  | QTck (Some _) false _ => EMissing 5
  | QTck (Some _) true None => EMissing 6
  | QTck (Some _) true (Some false) => EInput
  | QNoRoute => ENoRoute
  | _ => EBadRequest
  end.

(* how the outcome of the workspace operation is reported *)
Definition report (o : op) (x : out) : reply :=
  match o, x with
  | Add m, OAdd true => RAdded (ns m) (nm m)
  | Replace _, OAdd true => RStatus 2
  | _, OAdd false => RErr EExists
  | Remove _ _, _ => RStatus 3
  | Clear, _ => RStatus 1
  | Deploy, _ => RStatus 4
  | Eval k, OEval (Some d) => RValue k d
  | Eval _, OEval None => RErr ENotDeployed
  | _, _ => RErr EBadRequest
  end.

(* serve, read as "decode the request into at most one workspace operation, run it on the ImplModel, report the outcome":
   the same handler table in three pieces (op_of, refusal, report).  It is a lemma about serve, not its specification;
   the specification is the relation spec_serve of C18/Spec.v over the abstract workspace. *)
Definition serve_by_op (s : ws) (q : request) : ws * reply :=
  match op_of q with
  | Some o => let (s', x) := step remove s o in (s', report o x)
  | None => (s, RErr (refusal q))
  end.

Definition ops_of (qs : list request) : list op :=
  flat_map (fun q => match op_of q with Some o => [o] | None => [] end) qs.

(* the replies a sequence of operation outcomes is reported with *)
Fixpoint reports (qs : list request) (xs : list out) : list reply :=
  match qs with
  | [] => []
  | q :: r =>
    match op_of q with
    | None => RErr (refusal q) :: reports r xs
    | Some o => match xs with x :: xs' => report o x :: reports r xs' | [] => [] end
    end
  end.

(* what the correspondence check prints for one request sequence: every reply with the stored (namespace, name) pairs after it *)
Definition serve_trace (qs : list request) : list (reply * list (N * N)) :=
  (fix go (s : ws) (qs : list request) :=
     match qs with
     | [] => []
     | q :: r => let (s1, x) := serve replace_fixed s q in (x, map (fun d => (ns d, nm d)) (defs s1)) :: go s1 r
     end) init qs.
