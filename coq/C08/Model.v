(* C08 — executable model of the built-in functions of feel-evaluator/src/bifs/core.rs with the arity
   dispatch of positional.rs and the parameter-name dispatch of named.rs, over the value type of
   C09/Values.v (strings are code-point lists, so positions count Unicode characters by construction).
   Equality inside index of / list contains / union / distinct values is evaluate_equals =
   eval_ternary_equality(..).unwrap_or(false), i.e. C09's teq.
   Number arithmetic (sum, mean, median, stddev) is the SHARED decimal128 layer Base/DecRound.v: dadd / dsub / ddiv / dsqrt
   (exact integer result, one rounding to 34 digits half-even, gradual underflow, overflow = None), followed by the
   removal of trailing zeros that feel-number/src/number.rs applies after every operator (`reduced`), exactly as
   C02/Model.v composes f_add / f_sub / f_div / f_sqrt.  There is no private addition or division any more and no
   assumption on the size of a sum: a sum of more than 34 digits is rounded, step by step, left to right, as the
   Rust loops do; a result outside the decimal128 range is None = the FEEL value null.
   `xxx_orig` = the function at the pinned commit where a defect was repaired.  No proofs here. *)
From Coq Require Import List NArith ZArith Bool Arith.
From DV Require Import Base.Dec Base.DecRound.
From DV Require Import C09.Values C09.Model.
Import ListNotations.
Open Scope Z_scope.

(* ---------------- numbers ---------------- *)
Definition U64MAX : Z := 18446744073709551615.
Definition I64MAX : Z := 9223372036854775807.
Definition I64MIN : Z := -9223372036854775808.

(* the integer a number denotes, if it denotes one *)
Definition to_int (c e : Z) : option Z :=
  if 0 <=? e then Some (c * 10 ^ e)
  else if c mod 10 ^ (- e) =? 0 then Some (c / 10 ^ (- e)) else None.
(* pinned commit: the Display text is parsed, and the text of 1.0 is "1.0" *)
Definition to_int_orig (c e : Z) : option Z := if 0 <=? e then Some (c * 10 ^ e) else None.

Section Conv.
Variable toint : Z -> Z -> option Z.
Definition to_usize_gen (c e : Z) : option Z :=
  match toint c e with Some n => if (0 <=? n) && (n <=? U64MAX) then Some n else None | None => None end.
Definition to_isize_gen (c e : Z) : option Z :=
  match toint c e with Some n => if (I64MIN <=? n) && (n <=? I64MAX) then Some n else None | None => None end.
End Conv.

(* truncation towards zero (dec_trunc) *)
Definition ntrunc (c e : Z) : Z * Z := if 0 <=? e then (c, e) else (Z.quot c (10 ^ (- e)), 0).

(* ---- the number layer: a FEEL number (c, e) = c * 10^e as a decimal128 datum of Base/Dec.v and back (the sign of a zero is not kept) ---- *)
Definition to_dec (p : Z * Z) : dec := of_Z (fst p) (snd p).
Definition of_dec (d : dec) : Z * Z := (sval d, expo d).
(* what a FeelNumber operator returns: the decimal128 result with its trailing zeros removed (number.rs: dec_reduce), None = not finite *)
Definition num_result (o : option dec) : option (Z * Z) := option_map of_dec (reduced o).
Definition nadd (a b : Z * Z) : option (Z * Z) := num_result (dadd (to_dec a) (to_dec b)).
Definition nsub (a b : Z * Z) : option (Z * Z) := num_result (dsub (to_dec a) (to_dec b)).
Definition ndiv (a b : Z * Z) : option (Z * Z) := num_result (ddiv (to_dec a) (to_dec b)).
Definition nsqrt (a : Z * Z) : option (Z * Z) := num_result (dsqrt (to_dec a)).

(* FeelNumber::square is decNumberPower(x, 2): the integer path multiplies in a working context of 34 + 1 + 2 = 37 digits
   (same emax / emin, so its subnormal grid is -6143 - 36) and then fits the 37-digit product to the 34 digits of the
   decimal128 context: TWO roundings, both half-even.  round_prec p is Base/DecRound.v round34 with the precision as an
   argument (round_prec 34 = round34: C08/NumProofs.v). *)
Definition round_prec (p : N) (s : bool) (m : N) (e : Z) : option dec :=
  let etiny := EMIN - (Z.of_N p - 1) in
  let etop := EMAX - (Z.of_N p - 1) in
  if (m =? 0)%N then Some (mkdec s 0 (Z.max etiny (Z.min etop e))) else
  let e1 := Z.max etiny (Z.max e (e + Z.of_N (ndigits m) - Z.of_N p)) in
  let c1 := round_half_even m (Z.to_N (e1 - e)) in
  let (c2, e2) := if (c1 =? 10 ^ p)%N then ((10 ^ (p - 1))%N, e1 + 1) else (c1, e1) in
  if EMAX <? e2 + Z.of_N (ndigits c2) - 1 then None
  else if etop <? e2 then Some (mkdec s (c2 * 10 ^ Z.to_N (e2 - etop))%N etop)
  else Some (mkdec s c2 e2).
Definition dsquare (a : dec) : option dec :=
  obind (round_prec 37 false (coef a * coef a)%N (expo a + expo a)) (fun y => round34 false (coef y) (expo y)).
Definition nsquare (a : Z * Z) : option (Z * Z) := num_result (dsquare (to_dec a)).

(* a running result: None once a step left the number range (the Rust value is an Infinity from there on) *)
Definition nadd_opt (acc : option (Z * Z)) (x : Z * Z) : option (Z * Z) := obind acc (fun s => nadd s x).

(* ---------------- strings ---------------- *)
Fixpoint prefixb (p s : list N) : bool :=
  match p, s with
  | [], _ => true
  | x :: p', y :: s' => N.eqb x y && prefixb p' s'
  | _ :: _, [] => false
  end.
(* str::find: position (in characters) of the first occurrence *)
Fixpoint find (m s : list N) : option nat :=
  if prefixb m s then Some O else
  match s with [] => None | _ :: s' => option_map S (find m s') end.
Definition containsb (s m : list N) : bool := match find m s with Some _ => true | None => false end.
Definition suffixb (p s : list N) : bool := prefixb (rev p) (rev s).

Definition zlen {A} (l : list A) : Z := Z.of_nat (length l).

(* ---------------- the functions of core.rs ---------------- *)
Section Core.
Variable toint : Z -> Z -> option Z.
Variable max_skips_null : bool.     (* pinned commit: max ignores null items, min does not *)
Variable all_stops_early : bool.    (* pinned commit: all() returns null at the first non-boolean item *)
Variable sublist_guard : bool.      (* repaired: sublist(l, -p, n) with p > length is null; pinned commit: usize underflow *)
Variable overflow_infinite : bool.  (* pinned commit: sum / mean / median return Infinity (not a FEEL value, None below) where a sum leaves the number range; repaired: null *)

Definition to_usize := to_usize_gen toint.
Definition to_isize := to_isize_gen toint.

Definition veq (a b : value) : bool := match teq a b with Some true => true | _ => false end.

Definition b_substring (s start len : value) : value :=
  match s with VStr cs =>
    match start with VNum c e =>
      match to_isize c e with None => VNull | Some st =>
        let n := zlen cs in
        match len with
        | VNum lc le =>
            if is_lt (ncmp lc le 1 0) then VNull else
            let '(tc, te) := ntrunc lc le in
            match to_usize tc te with None => VNull | Some cnt =>
              if 0 <? st then
                let index := st - 1 in
                if (index <? n) && (index + cnt <=? n) then VStr (firstn (Z.to_nat cnt) (skipn (Z.to_nat index) cs)) else VNull
              else if st <? 0 then
                let index := n + st in
                if (0 <=? index) && (index + cnt <=? n) then VStr (firstn (Z.to_nat cnt) (skipn (Z.to_nat index) cs)) else VNull
              else VNull
            end
        | VNull =>
            if 0 <? st then
              let index := st - 1 in if index <? n then VStr (skipn (Z.to_nat index) cs) else VNull
            else if st <? 0 then
              let index := n + st in if 0 <=? index then VStr (skipn (Z.to_nat index) cs) else VNull
            else VNull
        | _ => VNull
        end
      end
    | _ => VNull end
  | _ => VNull end.

Definition b_string_length (s : value) : value := match s with VStr cs => VNum (zlen cs) 0 | _ => VNull end.
Definition str2 (f : list N -> list N -> value) (a b : value) : value :=
  match a with VStr x => match b with VStr y => f x y | _ => VNull end | _ => VNull end.
Definition b_contains := str2 (fun s m => VBool (containsb s m)).
Definition b_starts_with := str2 (fun s m => VBool (prefixb m s)).
Definition b_ends_with := str2 (fun s m => VBool (suffixb m s)).
Definition b_substring_before := str2 (fun s m => match find m s with Some i => VStr (firstn i s) | None => VStr [] end).
Definition b_substring_after := str2 (fun s m => match find m s with Some i => VStr (skipn (i + length m) s) | None => VStr [] end).

Definition b_count (l : value) : value := match l with VList xs => VNum (zlen xs) 0 | _ => VNull end.
Definition b_not (v : value) : value := match v with VBool b => VBool (negb b) | _ => VNull end.

(* all(values) *)
Fixpoint all_orig_loop (vs : list value) : value :=
  match vs with
  | [] => VBool true
  | VBool false :: _ => VBool false
  | VBool true :: r => all_orig_loop r
  | _ :: _ => VNull
  end.
Definition is_bool (v : value) : bool := match v with VBool _ => true | _ => false end.
Definition is_false (v : value) : bool := match v with VBool false => true | _ => false end.
Definition b_all (vs : list value) : value :=
  if all_stops_early then all_orig_loop vs
  else if existsb is_false vs then VBool false else if forallb is_bool vs then VBool true else VNull.

(* any(values): the repository's suite pins null as soon as one item is not a boolean *)
Definition b_any (vs : list value) : value :=
  match vs with
  | [] => VBool false
  | _ => if forallb is_bool vs then VBool (existsb is_true vs) else VNull
  end.

Definition b_append (l : value) (vs : list value) : value := match l with VList xs => VList (xs ++ vs) | _ => VNull end.

Fixpoint concat_lists (vs : list value) : option (list value) :=
  match vs with
  | [] => Some []
  | VList xs :: r => match concat_lists r with Some ys => Some (xs ++ ys) | None => None end
  | _ :: _ => None
  end.
Definition b_concatenate (vs : list value) : value := match concat_lists vs with Some xs => VList xs | None => VNull end.

(* push item unless an equal value is already in the result *)
Definition add_distinct (result : list value) (item : value) : list value :=
  if forallb (fun v => negb (veq v item)) result then result ++ [item] else result.
Definition b_distinct_values (l : value) : value :=
  match l with VList xs => VList (fold_left add_distinct xs []) | _ => VNull end.
Definition b_union (vs : list value) : value :=
  match concat_lists vs with Some xs => VList (fold_left add_distinct xs []) | None => VNull end.

Fixpoint flatten_value (v : value) : list value :=
  match v with
  | VList xs => (fix go (l : list value) : list value :=
                   match l with
                   | [] => []
                   | x :: r => match x with VList _ => flatten_value x ++ go r | _ => x :: go r end
                   end) xs
  | _ => []
  end.
Definition b_flatten (l : value) : value := match l with VList _ => VList (flatten_value l) | _ => VNull end.

Definition b_reverse (l : value) : value := match l with VList xs => VList (rev xs) | _ => VNull end.

Fixpoint index_of_from (i : Z) (xs : list value) (x : value) : list value :=
  match xs with
  | [] => []
  | y :: r => if veq y x then VNum i 0 :: index_of_from (i + 1) r x else index_of_from (i + 1) r x
  end.
Definition b_index_of (l x : value) : value := match l with VList xs => VList (index_of_from 1 xs x) | _ => VNull end.
Definition b_list_contains (l x : value) : value := match l with VList xs => VBool (existsb (fun y => veq y x) xs) | _ => VNull end.

Definition insert_at {A} (i : nat) (x : A) (l : list A) : list A := firstn i l ++ x :: skipn i l.
Definition remove_at {A} (i : nat) (l : list A) : list A := firstn i l ++ skipn (S i) l.

Definition b_insert_before (l pos x : value) : value :=
  match l with VList xs =>
    match pos with VNum c e =>
      let n := zlen xs in
      if 0 <? c then
        match to_usize c e with
        | Some i => if i <=? n then VList (insert_at (Z.to_nat (i - 1)) x xs) else VNull
        | None => VNull end
      else if c <? 0 then
        match to_usize (- c) e with
        | Some i => if i <=? n then VList (insert_at (Z.to_nat (n - i)) x xs) else VNull
        | None => VNull end
      else VNull
    | _ => VNull end
  | _ => VNull end.

Definition b_remove (l pos : value) : value :=
  match l with VList xs =>
    match pos with VNum c e =>
      let n := zlen xs in
      if 0 <? c then
        match to_usize c e with
        | Some p => if p - 1 <? n then VList (remove_at (Z.to_nat (p - 1)) xs) else VNull
        | None => VNull end
      else if c <? 0 then
        match to_usize (- c) e with
        | Some p => if p <=? n then VList (remove_at (Z.to_nat (n - p)) xs) else VNull
        | None => VNull end
      else VNull
    | _ => VNull end
  | _ => VNull end.

Definition b_sublist2 (l pos : value) : value :=
  match l with VList xs =>
    match pos with VNum c e =>
      let n := zlen xs in
      if 0 <? c then
        match to_usize c e with
        | Some p => if p - 1 <? n then VList (skipn (Z.to_nat (p - 1)) xs) else VNull
        | None => VNull end
      else if c <? 0 then
        match to_usize (- c) e with
        | Some p => if p <=? n then VList (skipn (Z.to_nat (n - p)) xs) else VNull
        | None => VNull end
      else VNull
    | _ => VNull end
  | _ => VNull end.

(* None = the arithmetic traps (usize subtraction below zero, debug build) *)
Definition b_sublist3 (l pos len : value) : option value :=
  match l with VList xs =>
    match len with VNum lc le =>
      match to_usize lc le with None => Some VNull | Some cnt =>
        match pos with VNum c e =>
          let n := zlen xs in
          if 0 <? c then
            match to_usize c e with
            | Some p => let first := p - 1 in
                        if (first <? n) && (first + cnt <=? n) then Some (VList (firstn (Z.to_nat cnt) (skipn (Z.to_nat first) xs))) else Some VNull
            | None => Some VNull end
          else if c <? 0 then
            match to_usize (- c) e with
            | Some p => if n <? p then (if sublist_guard then Some VNull else None) else
                        let first := n - p in
                        if (first <? n) && (first + cnt <=? n) then Some (VList (firstn (Z.to_nat cnt) (skipn (Z.to_nat first) xs))) else Some VNull
            | None => Some VNull end
          else Some VNull
        | _ => Some VNull end
      end
    | _ => Some VNull end
  | _ => Some VNull end.

(* ---- aggregates ---- *)
Fixpoint max_num (m : Z * Z) (vs : list value) : value :=
  match vs with
  | [] => VNum (fst m) (snd m)
  | VNum c e :: r => max_num (if is_gt (ncmp c e (fst m) (snd m)) then (c, e) else m) r
  | VNull :: r => if max_skips_null then max_num m r else VNull
  | _ :: _ => VNull
  end.
Fixpoint max_str (m : list N) (vs : list value) : value :=
  match vs with
  | [] => VStr m
  | VStr s :: r => max_str (if is_gt (lcmp s m) then s else m) r
  | VNull :: r => if max_skips_null then max_str m r else VNull
  | _ :: _ => VNull
  end.
Definition b_max (vs : list value) : value :=
  match vs with
  | VNum c e :: r => max_num (c, e) r
  | VStr s :: r => max_str s r
  | _ => VNull
  end.
Fixpoint min_num (m : Z * Z) (vs : list value) : value :=
  match vs with
  | [] => VNum (fst m) (snd m)
  | VNum c e :: r => min_num (if is_lt (ncmp c e (fst m) (snd m)) then (c, e) else m) r
  | _ :: _ => VNull
  end.
Fixpoint min_str (m : list N) (vs : list value) : value :=
  match vs with
  | [] => VStr m
  | VStr s :: r => min_str (if is_lt (lcmp s m) then s else m) r
  | _ :: _ => VNull
  end.
Definition b_min (vs : list value) : value :=
  match vs with
  | VNum c e :: r => min_num (c, e) r
  | VStr s :: r => min_str s r
  | _ => VNull
  end.

Fixpoint numbers_of (vs : list value) : option (list (Z * Z)) :=
  match vs with
  | [] => Some []
  | VNum c e :: r => match numbers_of r with Some ns => Some ((c, e) :: ns) | None => None end
  | _ :: _ => None
  end.
Definition vnum (p : Z * Z) : value := VNum (fst p) (snd p).
Definition vopt (o : option (Z * Z)) : value := match o with Some p => vnum p | None => VNull end.
(* the running sum of a loop `sum += x` that starts with `start` *)
Definition nsum_from (start : Z * Z) (ns : list (Z * Z)) : option (Z * Z) := fold_left nadd_opt ns (Some start).

(* sum: starts with the first item (core.rs: `let mut sum = n; for value in values.iter().skip(1) { sum += v }`) *)
Definition b_sum (vs : list value) : value :=
  match vs with [] => VNull | _ => match numbers_of vs with Some (n :: ns) => vopt (nsum_from n ns) | _ => VNull end end.
(* mean: starts with zero, adds every item, divides by the count (`sum / values.len().into()`) *)
Definition b_mean (vs : list value) : value :=
  match vs with [] => VNull | _ =>
    match numbers_of vs with Some ns => vopt (obind (nsum_from (0, 0) ns) (fun s => ndiv s (zlen ns, 0))) | None => VNull end end.

(* stable insertion sort by value *)
Definition nle (a b : Z * Z) : bool := is_le (ncmp (fst a) (snd a) (fst b) (snd b)).
Fixpoint ninsert (x : Z * Z) (l : list (Z * Z)) : list (Z * Z) :=
  match l with [] => [x] | y :: r => if is_lt (ncmp (fst x) (snd x) (fst y) (snd y)) then x :: l else y :: ninsert x r end.
Definition nsort (l : list (Z * Z)) : list (Z * Z) := fold_left (fun acc x => ninsert x acc) l [].

(* median: the middle item, or `(list[index - 1] + list[index]) / FeelNumber::two()` *)
Definition b_median (vs : list value) : value :=
  match vs with [] => VNull | _ =>
    match numbers_of vs with
    | Some ns =>
        let s := nsort ns in
        let k := (length s / 2)%nat in
        if Nat.even (length s)
        then vopt (obind (nadd (nth (k - 1) s (0, 0)) (nth k s (0, 0))) (fun t => ndiv t (2, 0)))
        else vnum (nth k s (0, 0))
    | None => VNull end
  end.

(* The pinned commit returns the non-finite FeelNumber (Infinity) where a sum leaves the number range: that is not a FEEL value.
   It happens exactly when every item is a number and the function of this model is null. *)
Definition is_null (v : value) : bool := match v with VNull => true | _ => false end.
Definition all_numbers (vs : list value) : bool :=
  match vs with [] => false | _ => match numbers_of vs with Some _ => true | None => false end end.
Definition out_of_range (f : list value -> value) (vs : list value) : bool := all_numbers vs && is_null (f vs).

(* runs of equal values of a sorted list: (count, first representative) *)
Fixpoint runs (l : list (Z * Z)) (acc : list (nat * (Z * Z))) : list (nat * (Z * Z)) :=
  match l with
  | [] => rev acc
  | x :: r => match acc with
              | (n, v) :: acc' => if is_eq (ncmp (fst x) (snd x) (fst v) (snd v)) then runs r ((S n, v) :: acc') else runs r ((1%nat, x) :: acc)
              | [] => runs r [(1%nat, x)]
              end
  end.
Definition b_mode (vs : list value) : value :=
  match vs with [] => VList [] | _ =>
    match numbers_of vs with
    | Some ns =>
        let rs := runs (nsort ns) [] in
        let mx := fold_left (fun m r => Nat.max m (fst r)) rs O in
        VList (map (fun r => vnum (snd r)) (filter (fun r => Nat.eqb (fst r) mx) rs))
    | None => VNull end
  end.

(* ---- contexts ---- *)
Definition KEY : list N := [107; 101; 121]%N.                 (* "key" *)
Definition VALUE : list N := [118; 97; 108; 117; 101]%N.       (* "value" *)
Definition b_get_entries (m : value) : value :=
  match m with VCtx es => VList (map (fun e => VCtx [(KEY, VStr (fst e)); (VALUE, snd e)]) es) | _ => VNull end.
Definition b_get_value (m k : value) : value :=
  match m with VCtx es => match k with VStr s => match lookup s es with Some v => v | None => VNull end | _ => VNull end | _ => VNull end.

(* ---------------- dispatch ---------------- *)
Inductive bif :=
| All | Any | Append | Concatenate | Contains | Count | DistinctValues | EndsWith | Flatten | GetEntries | GetValue
| IndexOf | InsertBefore | ListContains | Max | Mean | Median | Min | Mode | Not | Remove | Reverse | StartsWith
| StringLength | Sublist | Substring | SubstringAfter | SubstringBefore | Sum | Union.

(* one list argument is spread: f([a, b]) = f(a, b) *)
Definition spread (f : list value -> value) (args : list value) : value :=
  match args with
  | [] => VNull
  | [VList xs] => f xs
  | _ => f args
  end.

Definition spread_b (f : list value -> bool) (args : list value) : bool :=
  match args with
  | [] => false
  | [VList xs] => f xs
  | _ => f args
  end.
Definition finite_guard (f : list value -> value) (args : list value) : option value :=
  if overflow_infinite && spread_b (out_of_range f) args then None else Some (spread f args).

(* positional.rs; None = trap, or a result that is not a FEEL value *)
Definition positional (b : bif) (args : list value) : option value :=
  match b, args with
  | All, _ => Some (spread b_all args)
  | Any, _ => Some (spread b_any args)
  | Max, _ => Some (spread b_max args)
  | Min, _ => Some (spread b_min args)
  | Sum, _ => finite_guard b_sum args
  | Mean, _ => finite_guard b_mean args
  | Median, _ => finite_guard b_median args
  | Mode, _ => Some (spread b_mode args)
  | Append, l :: (_ :: _) as vs => Some (b_append l vs)
  | Concatenate, _ :: _ => Some (b_concatenate args)
  | Union, _ :: _ => Some (b_union args)
  | Contains, [a; b] => Some (b_contains a b)
  | StartsWith, [a; b] => Some (b_starts_with a b)
  | EndsWith, [a; b] => Some (b_ends_with a b)
  | SubstringBefore, [a; b] => Some (b_substring_before a b)
  | SubstringAfter, [a; b] => Some (b_substring_after a b)
  | Count, [a] => Some (b_count a)
  | DistinctValues, [a] => Some (b_distinct_values a)
  | Flatten, [a] => Some (b_flatten a)
  | GetEntries, [a] => Some (b_get_entries a)
  | GetValue, [a; b] => Some (b_get_value a b)
  | IndexOf, [a; b] => Some (b_index_of a b)
  | ListContains, [a; b] => Some (b_list_contains a b)
  | InsertBefore, [a; b; c] => Some (b_insert_before a b c)
  | Not, [a] => Some (b_not a)
  | Remove, [a; b] => Some (b_remove a b)
  | Reverse, [a] => Some (b_reverse a)
  | StringLength, [a] => Some (b_string_length a)
  | Sublist, [a; b] => Some (b_sublist2 a b)
  | Sublist, [a; b; c] => b_sublist3 a b c
  | Substring, [a; b] => Some (b_substring a b VNull)
  | Substring, [a; b; c] => Some (b_substring a b c)
  | _, _ => Some VNull
  end.

(* parameter names of named.rs *)
Inductive pname :=
| PList | PMatch | PPosition | PNewItem | PStartPosition | PLength | PString | PM | PKey | PNegand | POther.
Definition pname_eqb (a b : pname) : bool :=
  match a, b with
  | PList, PList | PMatch, PMatch | PPosition, PPosition | PNewItem, PNewItem | PStartPosition, PStartPosition
  | PLength, PLength | PString, PString | PM, PM | PKey, PKey | PNegand, PNegand | POther, POther => true
  | _, _ => false end.
Fixpoint get_param (n : pname) (ps : list (pname * value)) : option value :=
  match ps with [] => None | (k, v) :: r => if pname_eqb n k then Some v else get_param n r end.

Definition named1 (p : pname) (f : value -> value) (ps : list (pname * value)) : value :=
  match get_param p ps with Some a => f a | None => VNull end.
Definition named2 (p q : pname) (f : value -> value -> value) (ps : list (pname * value)) : value :=
  match get_param p ps with Some a => match get_param q ps with Some b => f a b | None => VNull end | None => VNull end.
Definition named_list (f : list value -> value) (ps : list (pname * value)) : value :=
  match get_param PList ps with Some (VList xs) => f xs | _ => VNull end.

Definition named_guard (f : list value -> value) (ps : list (pname * value)) : option value :=
  if overflow_infinite && match get_param PList ps with Some (VList xs) => out_of_range f xs | _ => false end
  then None else Some (named_list f ps).

(* named.rs; `mean_is_median`: the pinned commit calls core::median from the named mean *)
Variable mean_is_median : bool.
Definition named (b : bif) (ps : list (pname * value)) : option value :=
  match b with
  | All => Some (named_list b_all ps)
  | Any => Some (named_list b_any ps)
  | Max => Some (named_list b_max ps)
  | Min => Some (named_list b_min ps)
  | Sum => named_guard b_sum ps
  | Mean => named_guard (if mean_is_median then b_median else b_mean) ps
  | Median => named_guard b_median ps
  | Mode => Some (named_list b_mode ps)
  | Append | Concatenate | Union => Some VNull
  | Contains => Some (named2 PString PMatch b_contains ps)
  | StartsWith => Some (named2 PString PMatch b_starts_with ps)
  | EndsWith => Some (named2 PString PMatch b_ends_with ps)
  | SubstringBefore => Some (named2 PString PMatch b_substring_before ps)
  | SubstringAfter => Some (named2 PString PMatch b_substring_after ps)
  | Count => Some (named1 PList b_count ps)
  | DistinctValues => Some (named1 PList b_distinct_values ps)
  | Flatten => Some (named1 PList b_flatten ps)
  | GetEntries => Some (named1 PM b_get_entries ps)
  | GetValue => Some (named2 PM PKey b_get_value ps)
  | IndexOf => Some (named2 PList PMatch b_index_of ps)
  | ListContains => Some (named2 PList PMatch b_list_contains ps)
  | InsertBefore =>
      Some (match get_param PList ps with Some l =>
              match get_param PPosition ps with Some p =>
                match get_param PNewItem ps with Some x => b_insert_before l p x | None => VNull end
              | None => VNull end
            | None => VNull end)
  | Not => Some (named1 PNegand b_not ps)
  | Remove => Some (named2 PList PPosition b_remove ps)
  | Reverse => Some (named1 PList b_reverse ps)
  | StringLength => Some (named1 PString b_string_length ps)
  | Sublist =>
      match get_param PList ps with Some l =>
        match get_param PStartPosition ps with Some p =>
          match get_param PLength ps with Some n => b_sublist3 l p n | None => Some (b_sublist2 l p) end
        | None => Some VNull end
      | None => Some VNull end
  | Substring =>
      Some (match get_param PString ps with Some s =>
              match get_param PStartPosition ps with Some p =>
                match get_param PLength ps with Some n => b_substring s p n | None => b_substring s p VNull end
              | None => VNull end
            | None => VNull end)
  end.
End Core.

(* the declared parameter names, in positional order (DMN 1.3 table 10.3.4) *)
Definition param_names (b : bif) (arity : nat) : option (list pname) :=
  match b, arity with
  | (All | Any | Max | Min | Sum | Mean | Median | Mode | Count | DistinctValues | Flatten | Reverse), 1%nat => Some [PList]
  | (Contains | StartsWith | EndsWith | SubstringBefore | SubstringAfter), 2%nat => Some [PString; PMatch]
  | GetEntries, 1%nat => Some [PM]
  | GetValue, 2%nat => Some [PM; PKey]
  | (IndexOf | ListContains), 2%nat => Some [PList; PMatch]
  | InsertBefore, 3%nat => Some [PList; PPosition; PNewItem]
  | Not, 1%nat => Some [PNegand]
  | Remove, 2%nat => Some [PList; PPosition]
  | StringLength, 1%nat => Some [PString]
  | Sublist, 2%nat => Some [PList; PStartPosition]
  | Sublist, 3%nat => Some [PList; PStartPosition; PLength]
  | Substring, 2%nat => Some [PString; PStartPosition]
  | Substring, 3%nat => Some [PString; PStartPosition; PLength]
  | _, _ => None
  end.

(* current code *)
Definition pos := positional to_int false false true false.
Definition nam := named to_int false false true false false.
(* pinned commit *)
Definition pos_orig := positional to_int_orig true true false true.
Definition nam_orig := named to_int_orig true true false true true.
