(* C09 — property theorems only.  Proofs are in C09/Proofs.v, C09/Utf8.v, C09/LinkC01.v.
   v_eq v_ne v_lt v_le v_gt v_ge v_and v_or v_between v_in : the evaluators of builders.rs (C09/Model.v);
   wfv : contexts have strictly ascending keys at every depth (a BTreeMap in the code);
   ordered_pair a b : a and b are both numbers, both strings or both dates. *)
From Coq Require Import List NArith ZArith Bool.
From DV Require Import C09.Values C09.Model C09.Proofs C09.Utf8 C09.LinkC01.
Import ListNotations.
Open Scope Z_scope.

(* 'and' / 'or' are the three-valued tables, every non-boolean operand counting as null *)
Theorem C09_and_kleene : forall a b, v_and a b = ob (kand (bclass a) (bclass b)).
Proof. exact and_kleene. Qed.
Theorem C09_or_kleene : forall a b, v_or a b = ob (kor (bclass a) (bclass b)).
Proof. exact or_kleene. Qed.
(* a = b and b = a give the same result, for all values of any nesting depth *)
Theorem C09_eq_symmetric : forall a b, wfv a = true -> wfv b = true -> v_eq a b = v_eq b a.
Proof. exact eq_symmetric. Qed.
Theorem C09_teq_symmetric : forall a b, wfv a = true -> wfv b = true -> teq a b = teq b a.
Proof. exact teq_sym. Qed.
(* a != b is the negation of a = b (null stays null) *)
Theorem C09_ne_is_negation : forall a b, v_ne a b = vnot (v_eq a b).
Proof. exact ne_negation. Qed.
(* mirror images, for all pairs including values of different kinds *)
Theorem C09_lt_gt_mirror : forall a b, v_lt a b = v_gt b a.
Proof. exact lt_gt_mirror. Qed.
Theorem C09_le_ge_mirror : forall a b, v_le a b = v_ge b a.
Proof. exact le_ge_mirror. Qed.
(* one ordered kind *)
Theorem C09_trichotomy : forall a b, ordered_pair a b -> exactly_one (v_lt a b) (v_eq a b) (v_gt a b).
Proof. exact trichotomy. Qed.
Theorem C09_le_iff_lt_or_eq : forall a b, ordered_pair a b -> v_le a b = v_or (v_lt a b) (v_eq a b).
Proof. exact le_iff_lt_or_eq. Qed.
Theorem C09_ge_iff_gt_or_eq : forall a b, ordered_pair a b -> v_ge a b = v_or (v_gt a b) (v_eq a b).
Proof. exact ge_iff_gt_or_eq. Qed.
Theorem C09_between_is_in_closed_range : forall x a b, v_between x a b = v_in x (VRange a true b true).
Proof. exact between_iff_in_range. Qed.
Theorem C09_between_is_conjunction : forall x a b, ordered_triple x a b -> v_between x a b = v_and (v_le a x) (v_le x b).
Proof. exact between_iff_conj. Qed.
(* an open interval end corresponds to the strict comparison *)
Theorem C09_in_range_is_conjunction : forall x a b lc rc, ordered_triple x a b ->
  v_in x (VRange a lc b rc) = v_and ((if lc then v_le else v_lt) a x) ((if rc then v_le else v_lt) x b).
Proof. exact in_range_iff_conj. Qed.
(* the string order is the lexicographic order of code points: a strict total order *)
Theorem C09_string_order : forall a b c,
  lcmp a a = Eq /\ (lcmp a b = Eq -> a = b) /\ lcmp b a = CompOpp (lcmp a b) /\ (lcmp a b = Lt -> lcmp b c = Lt -> lcmp a c = Lt).
Proof. exact string_order. Qed.
(* Rust compares the UTF-8 bytes of two strings (`String::cmp`): that is the same order.
   utf8 c : the 1..4 bytes of one scalar value; encode : the bytes of a string; cmp_list : lexicographic order of
   lists of N (the byte-slice order); scalar c : c is 0..0x10FFFF and not a surrogate (a Rust `char`);
   lcmp : the string comparison of the model.  For all strings of any length. *)
Theorem C09_utf8_order_is_code_point_order : forall a b, Forall scalar a -> Forall scalar b ->
  cmp_list (encode a) (encode b) = cmp_list a b /\ cmp_list a b = lcmp a b.
Proof. exact (fun a b Ha Hb => conj (utf8_order_is_code_point_order a b Ha Hb) (eq_sym (lcmp_is_cmp_list a b))). Qed.
(* the two lemmas behind it: one code point decides whatever follows (monotone + no encoding is a prefix of another) *)
Theorem C09_utf8_first_difference_decides : forall x y r s, (x < 0x110000)%N -> (y < 0x110000)%N ->
  cmp_list (utf8 x ++ r) (utf8 y ++ s) = match N.compare x y with Eq => cmp_list r s | c => c end.
Proof. exact utf8_cmp. Qed.
Theorem C09_utf8_prefix_free : forall x y r s, (x < 0x110000)%N -> (y < 0x110000)%N -> utf8 x ++ r = utf8 y ++ s -> x = y /\ r = s.
Proof. exact utf8_prefix_free. Qed.
(* utf8 is the well-known encoding: bytes, leading byte classes, continuation bytes 0x80..0xBF, sample values *)
Theorem C09_utf8_shape : forall c, (c < 0x110000)%N -> exists b t, utf8 c = b :: t /\
  ((b < 0x80)%N \/ (0xC2 <= b)%N) /\ (b < 0xF5)%N /\ Forall (fun x => (0x80 <= x)%N /\ (x < 0xC0)%N) t /\
  length t = (if (b <? 0x80)%N then 0%nat else if (b <? 0xE0)%N then 1%nat else if (b <? 0xF0)%N then 2%nat else 3%nat).
Proof. exact utf8_lead. Qed.
Example C09_utf8_samples :
  map utf8 [0; 0x7F; 0x80; 0xE9; 0x7FF; 0x800; 0x20AC; 0xD7FF; 0xE000; 0xFFFF; 0x10000; 0x1F600; 0x10FFFF]%N =
  [[0]; [0x7F]; [0xC2; 0x80]; [0xC3; 0xA9]; [0xDF; 0xBF]; [0xE0; 0xA0; 0x80]; [0xE2; 0x82; 0xAC]; [0xED; 0x9F; 0xBF];
   [0xEE; 0x80; 0x80]; [0xEF; 0xBF; 0xBF]; [0xF0; 0x90; 0x80; 0x80]; [0xF0; 0x9F; 0x98; 0x80]; [0xF4; 0x8F; 0xBF; 0xBF]]%N.
Proof. exact utf8_samples. Qed.
Example C09_utf8_nonvacuous :
  Forall scalar [0xFFFF]%N /\ Forall scalar [0x10000; 0x41]%N /\
  cmp_list (encode [0xFFFF]%N) (encode [0x10000; 0x41]%N) = Lt /\ lcmp [0xFFFF]%N [0x10000; 0x41]%N = Lt /\
  cmp_list (encode [0xE9]%N) (encode [0x7A; 0x7A]%N) = Gt.
Proof. exact utf8_order_nonvacuous. Qed.
(* numbers are compared by value: the scale (trailing zeros) does not matter *)
Theorem C09_number_scale : forall c e c2 e2 k, 0 <= k ->
  ncmp (c * 10 ^ k) (e - k) (c2 * 10 ^ k) (e2 - k) = ncmp c e c2 e2 /\ ncmp (c * 10) (e - 1) c e = Eq.
Proof. exact number_scale. Qed.

(* ---- the evaluator model of C01 (coq/C01/Syntax.v, written independently from the same Rust functions) IS this model ----
   S = C01.Syntax: S.veq (eval_ternary_equality), S.binop_eval (build_eq .. build_or), S.cmp_lt / S.cmp_le, S.and3 / S.or3,
   S.between_eval (build_between), S.in_range (eval_in_range), S.in_eval (build_in with eval_in_list, eval_in_list_in_list).
   emb : S.value -> option value, defined on every C01 value without VUnary / VPoison at any depth (`shared`): null, booleans,
   numbers (a decimal (neg, coef, expo) becomes the pair (signed coefficient, exponent); Dec.dcmp unfolds to ncmp), strings,
   lists, contexts (key number k becomes the name [k]), ranges, functions (opaque).  For ALL such values, any nesting depth. *)
Theorem C09_equality_is_evaluator_equality : forall a b a' b', emb a = Some a' -> emb b = Some b' ->
  S.veq a b = teq a' b' /\ emb (S.binop_eval S.Eq a b) = Some (v_eq a' b') /\ emb (S.binop_eval S.Ne a b) = Some (v_ne a' b').
Proof. exact equality_is_evaluator_equality. Qed.
Theorem C09_orderings_are_evaluator_orderings : forall a b a' b', emb a = Some a' -> emb b = Some b' ->
  emb (S.binop_eval S.Lt a b) = Some (v_lt a' b') /\ emb (S.binop_eval S.Le a b) = Some (v_le a' b') /\
  emb (S.binop_eval S.Gt a b) = Some (v_gt a' b') /\ emb (S.binop_eval S.Ge a b) = Some (v_ge a' b') /\
  emb (S.binop_eval S.And a b) = Some (v_and a' b') /\ emb (S.binop_eval S.Or a b) = Some (v_or a' b').
Proof. exact orderings_are_evaluator_orderings. Qed.
(* the same for the functions behind the operators; > and >= are C01's < and <= with the operands swapped *)
Theorem C09_comparisons_are_evaluator_comparisons : forall a b a' b', emb a = Some a' -> emb b = Some b' ->
  emb (S.cmp_lt a b) = Some (v_lt a' b') /\ emb (S.cmp_le a b) = Some (v_le a' b') /\
  emb (S.cmp_lt b a) = Some (v_gt a' b') /\ emb (S.cmp_le b a) = Some (v_ge a' b') /\
  emb (S.and3 a b) = Some (v_and a' b') /\ emb (S.or3 a b) = Some (v_or a' b').
Proof. exact comparisons_are_evaluator_comparisons. Qed.
Theorem C09_between_in_range_are_evaluator_between_in_range : forall x lo hi x' lo' hi' (lc hc : bool),
  emb x = Some x' -> emb lo = Some lo' -> emb hi = Some hi' ->
  emb (S.between_eval x lo hi) = Some (v_between x' lo' hi') /\
  emb (S.in_range x lo lc hi hc) = Some (in_range x' (VRange lo' lc hi' hc)) /\
  emb (S.in_eval x (S.VRange lo lc hi hc)) = Some (v_in x' (VRange lo' lc hi' hc)).
Proof. exact between_in_are_evaluator_between_in. Qed.
(* the whole `in` operator: scalars, ranges, lists (nested lists, ranges and scalars as items), list in list *)
Theorem C09_in_is_evaluator_in : forall x r x' r', emb x = Some x' -> emb r = Some r' ->
  emb (S.in_eval x r) = Some (v_in x' r').
Proof. exact in_is_evaluator_in. Qed.
(* C01's fuel is irrelevant: any fuel covering the left operand gives S.veq *)
Theorem C09_evaluator_equality_fuel_irrelevant : forall f a b, (S.vsize a <= f)%nat -> S.teq f a b = S.veq a b.
Proof. exact teq_fuel_irrelevant. Qed.
(* consequently the laws above hold for the evaluator model of C01 (statements about C01's functions only).
   swf : contexts have strictly ascending keys at every depth; s_ordered_pair a b : both numbers or both strings *)
Theorem C09_evaluator_equality_symmetric : forall a b, swf a = true -> swf b = true -> S.veq a b = S.veq b a.
Proof. exact S_veq_sym. Qed.
Theorem C09_evaluator_trichotomy : forall a b, s_ordered_pair a b ->
  s_exactly_one (S.binop_eval S.Lt a b) (S.binop_eval S.Eq a b) (S.binop_eval S.Gt a b).
Proof. exact S_trichotomy. Qed.
Theorem C09_evaluator_le_iff_lt_or_eq : forall a b, s_ordered_pair a b ->
  S.cmp_le a b = S.or3 (S.cmp_lt a b) (S.of_opt (S.veq a b)).
Proof. exact S_le_iff_lt_or_eq. Qed.
Theorem C09_evaluator_between_is_conjunction : forall x a b, s_ordered_triple x a b ->
  S.between_eval x a b = S.and3 (S.cmp_le a x) (S.cmp_le x b).
Proof. exact S_between_is_conjunction. Qed.
Theorem C09_evaluator_between_is_in_closed_range : forall x a b,
  not_poison x = true -> not_poison a = true -> not_poison b = true ->
  S.between_eval x a b = S.in_range x a true b true.
Proof. exact S_between_is_in_closed_range. Qed.
Theorem C09_evaluator_in_range_is_conjunction : forall x a b (lc rc : bool), s_ordered_triple x a b ->
  S.in_range x a lc b rc = S.and3 ((if lc then S.cmp_le else S.cmp_lt) a x) ((if rc then S.cmp_le else S.cmp_lt) x b).
Proof. exact S_in_range_is_conjunction. Qed.
(* a nested C01 value and its image; 1 = 1.0 inside lists; values outside the shared part; an ordered triple of numbers with different scales *)
Example C09_link_nonvacuous :
  let a := S.VCtx [(1%N, S.VList [sn 1 0; S.VNull; S.VRange (sn (-5) 0) true (S.VStr [97%N]) false]); (2%N, S.VCtx [(3%N, S.VStr [233%N])])] in
  let b := S.VCtx [(1%N, S.VList [sn 10 (-1); S.VNull; S.VRange (sn (-5) 0) true (S.VStr [97%N]) false]); (2%N, S.VCtx [(3%N, S.VStr [233%N])])] in
  swf a = true /\ swf b = true /\
  emb a = Some (VCtx [([1%N], VList [VNum 1 0; VNull; VRange (VNum (-5) 0) true (VStr [97%N]) false]); ([2%N], VCtx [([3%N], VStr [233%N])])]) /\
  (exists b', emb b = Some b') /\
  S.veq a b = Some false /\ S.veq (S.VList [sn 1 0; S.VNull]) (S.VList [sn 10 (-1); S.VNull]) = Some true /\
  emb (S.VUnary S.CLt (sn 1 0)) = None /\ emb (S.VList [S.VPoison]) = None /\
  s_ordered_triple (sn 15 (-1)) (sn 1 0) (sn 200 (-2)) /\
  S.between_eval (sn 15 (-1)) (sn 1 0) (sn 200 (-2)) = S.VBool true /\
  S.in_range (sn 200 (-2)) (sn 1 0) true (sn 2 0) false = S.VBool false /\
  S.in_eval (sn 2 0) (S.VList [S.VList [sn 1 0]; S.VRange (sn 1 0) false (sn 20 (-1)) true]) = S.VBool true.
Proof. exact link_nonvacuous. Qed.

(* the defects of the pinned commit, kept as refutations of the original code *)
Theorem C09_eq_orig_null_refuted : teq_orig (VNum 1 0) VNull = Some false /\ teq_orig VNull (VNum 1 0) = None.
Proof. exact teq_orig_null_refuted. Qed.
Theorem C09_eq_orig_context_refuted :
  let a := VCtx [([97%N], VNum 1 0); ([99%N], VStr [115%N])] in
  let b := VCtx [([99%N], VNum 1 0); ([100%N], VNum 1 0)] in
  wfv a = true /\ wfv b = true /\ teq_orig a b = Some false /\ teq_orig b a = None.
Proof. exact teq_orig_ctx_refuted. Qed.
Theorem C09_far_dates_orig_refuted :
  let a := VDate 999999999 1 1 in let b := VDate 999999999 1 2 in
  v_lt_orig a b = VBool false /\ v_eq_orig a b = VBool false /\ v_gt_orig a b = VBool false /\
  v_between_orig a a b = VNull /\ v_and (v_le_orig a a) (v_le_orig a b) = VBool false.
Proof. exact far_dates_orig_refuted. Qed.

Example C09_nonvacuous :
  let a := VCtx [([97%N], VList [VNum 1 0; VNull]); ([98%N], VCtx [([99%N], VStr [233%N])])] in
  let b := VCtx [([97%N], VList [VNum 10 (-1); VNull]); ([98%N], VCtx [([99%N], VStr [233%N])])] in
  wfv a = true /\ wfv b = true /\ teq a b = Some true /\ teq b a = Some true /\
  ordered_triple (VDate 999999999 1 1) (VDate (-999999999) 12 31) (VDate 999999999 1 2) /\
  v_between (VDate 999999999 1 1) (VDate (-999999999) 12 31) (VDate 999999999 1 2) = VBool true.
Proof. exact nonvacuous. Qed.

Print Assumptions C09_and_kleene.
Print Assumptions C09_or_kleene.
Print Assumptions C09_eq_symmetric.
Print Assumptions C09_teq_symmetric.
Print Assumptions C09_ne_is_negation.
Print Assumptions C09_lt_gt_mirror.
Print Assumptions C09_le_ge_mirror.
Print Assumptions C09_trichotomy.
Print Assumptions C09_le_iff_lt_or_eq.
Print Assumptions C09_ge_iff_gt_or_eq.
Print Assumptions C09_between_is_in_closed_range.
Print Assumptions C09_between_is_conjunction.
Print Assumptions C09_in_range_is_conjunction.
Print Assumptions C09_string_order.
Print Assumptions C09_number_scale.
Print Assumptions C09_utf8_order_is_code_point_order.
Print Assumptions C09_utf8_first_difference_decides.
Print Assumptions C09_utf8_prefix_free.
Print Assumptions C09_utf8_shape.
Print Assumptions C09_utf8_samples.
Print Assumptions C09_utf8_nonvacuous.
Print Assumptions C09_eq_orig_null_refuted.
Print Assumptions C09_eq_orig_context_refuted.
Print Assumptions C09_far_dates_orig_refuted.
Print Assumptions C09_nonvacuous.
Print Assumptions C09_equality_is_evaluator_equality.
Print Assumptions C09_orderings_are_evaluator_orderings.
Print Assumptions C09_comparisons_are_evaluator_comparisons.
Print Assumptions C09_between_in_range_are_evaluator_between_in_range.
Print Assumptions C09_in_is_evaluator_in.
Print Assumptions C09_evaluator_equality_fuel_irrelevant.
Print Assumptions C09_evaluator_equality_symmetric.
Print Assumptions C09_evaluator_trichotomy.
Print Assumptions C09_evaluator_le_iff_lt_or_eq.
Print Assumptions C09_evaluator_between_is_conjunction.
Print Assumptions C09_evaluator_between_is_in_closed_range.
Print Assumptions C09_evaluator_in_range_is_conjunction.
Print Assumptions C09_link_nonvacuous.
