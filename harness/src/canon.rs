//! Canonical JSON rendering of FEEL values (trace texts of nulls dropped, numbers as reduced scientific strings).
use dmntk_feel::values::Value;
use serde_json::{json, Value as J};

pub fn canon(v: &Value) -> J {
  match v {
    Value::Null(_) => J::Null,
    Value::Boolean(b) => J::Bool(*b),
    Value::Number(n) => json!({"n": format!("{:?}", n), "p": format!("{}", n)}),
    Value::String(s) => J::String(s.clone()),
    Value::List(items) => J::Array(items.as_vec().iter().map(canon).collect()),
    Value::Context(ctx) => {
      let mut es: Vec<(String, J)> = ctx.get_entries().iter().map(|(k, v)| (k.to_string(), canon(v))).collect();
      es.sort_by(|a, b| a.0.cmp(&b.0));
      json!({"c": es.into_iter().map(|(k, v)| json!([k, v])).collect::<Vec<J>>()})
    }
    Value::Date(d) => json!({"d": d.to_string()}),
    Value::Time(t) => json!({"t": t.to_string()}),
    Value::DateTime(t) => json!({"dt": t.to_string()}),
    Value::DaysAndTimeDuration(t) => json!({"dtd": t.to_string()}),
    Value::YearsAndMonthsDuration(t) => json!({"ymd": t.to_string()}),
    Value::Range(a, ca, b, cb) => json!({"r": [canon(a), ca, canon(b), cb]}),
    Value::FunctionDefinition(ps, _, _) => json!({"f": ps.len()}),
    Value::BuiltInFunction(_) => json!({"f": "bif"}),
    Value::FeelType(t) => json!({"ty": t.to_string()}),
    other => json!({"x": format!("{}", other)}),
  }
}

pub fn panic_text(e: Box<dyn std::any::Any + Send>) -> String {
  if let Some(s) = e.downcast_ref::<&str>() {
    s.to_string()
  } else if let Some(s) = e.downcast_ref::<String>() {
    s.clone()
  } else {
    "panic".to_string()
  }
}
