"""C07 — numbers print as plain decimal text that denotes exactly their value.
Proof: coq/Props/C07.v (every sign, coefficient and exponent).  Correspondence: FeelNumber Display / jsonify / Debug /
from_str, FEEL literals and string(), xsd input conversion of the working tree vs coq/C07/Model.v; the laws of the
property (plain shape, JSON shape, exact value, read-back) are evaluated on the implementation's own output."""
import json
import re
from decimal import Decimal

from vlib import core

HEADER = ('From Coq Require Import ZArith NArith List Ascii String.\nFrom DV Require Import Base.Dec C07.Model.\n'
          'Import ListNotations.\nOpen Scope string_scope.\n')

HEADER_RB = ('From Coq Require Import ZArith NArith List Ascii String.\nFrom DV Require Import Base.Dec C07.Model C07.Reader.\n'
             'Import ListNotations.\nOpen Scope string_scope.\n')

PLAIN = re.compile(r'-?[0-9]+(\.[0-9]+)?\Z')
JSONNUM = re.compile(r'-?(0|[1-9][0-9]*)(\.[0-9]+)?([eE][+-]?[0-9]+)?\Z')


MODEL_TERM = '(show_rle (Some (to_sci %s)), show_rle (print %s))'


def unrle(t):
    """Some [(text, zeros); ...] -> text; None -> None"""
    if not getattr(t, 'args', None):
        return None
    return ''.join(x + '0' * z for x, z in t.args[0])


def dec_text(sign, coef, exp):
    return '%s%dE%+d' % ('-' if sign else '', coef, exp)


def dec_coq(sign, coef, exp):
    return '(mkdec %s %d%%N (%d)%%Z)' % ('true' if sign else 'false', coef, exp)


def exact(sign, coef, exp):
    return Decimal((1 if sign else 0, tuple(int(c) for c in str(coef)), exp))


def same_value(text, d):
    """exact comparison (Decimal comparisons do not round)"""
    try:
        return Decimal(text) == d
    except Exception:
        return False


def coefficients(ctx, n_random):
    r = ctx.rng
    cs = [0, 1, 7, 10, 15, 100, 1230, 9999999, 10 ** 16, 10 ** 17 - 1, 12345678901234567, 10 ** 32, 10 ** 33 - 1, 10 ** 33, 10 ** 34 - 1,
          1234567890123456789012345678901234, 1234567890123456789012345678900000, 5 * 10 ** 33]
    for _ in range(n_random):
        L = r.randint(1, 34)
        c = r.randint(10 ** (L - 1), 10 ** L - 1)
        if r.random() < 0.4:
            z = r.randint(1, L)
            c = c // 10 ** z * 10 ** z or 10 ** (L - 1)
        cs.append(c)
    return cs


def exponents(ctx):
    r = ctx.rng
    if ctx.quick:
        es = list(range(-6176, -6168)) + list(range(-48, 42)) + list(range(6104, 6112)) + [r.randint(-6176, 6111) for _ in range(40)]
    else:
        es = list(range(-6176, 6112))
    return es


def law_failure(p, j, rb, d):
    """The property's laws on the implementation's own output.  Returns (key, text) or None."""
    if not PLAIN.match(p):
        return 'plain', 'Display text %r is not of the form -?digits(.digits)?' % p[:80]
    if not same_value(p, d):
        return 'value', 'Display text %r does not denote the value %s' % (p[:80], d)
    if j != p and not (JSONNUM.match(j) and same_value(j, d)):
        return 'json', 'jsonify text %r is not a JSON number of the same value' % j[:80]
    if not JSONNUM.match(j):
        return 'json', 'jsonify text %r is not a valid JSON number' % j[:80]
    if rb is not True:
        return 'readback', 'reading the Display text %r back with from_str does not give an equal number' % p[:80]
    return None


def reread(sign, coef, exp):
    """coq/C07/Reader.v `reread`: the datum that reading the printed text of (sign, coef, exp) gives (C07_read_back_datum)."""
    if exp > 0:
        if coef == 0:
            return (sign, 0, 0)
        k = max(0, len(str(coef)) + exp - 34)
        return (sign, coef * 10 ** (exp - k), k)
    return (sign, coef, exp)


def datum(text):
    """the exact (sign, coefficient, exponent) a scientific / plain numeral writes; None for Infinity / NaN"""
    try:
        t = Decimal(text).as_tuple()
    except Exception:
        return None
    if not isinstance(t.exponent, int):
        return None
    return (bool(t.sign), int(''.join(map(str, t.digits))), t.exponent)


def read_back_section(ctx, cases, printed, hist):
    """from_str on the printed text: the datum decQuadFromString builds (its raw decQuadToString text) against reread (all grid
    cases), against the Coq model read_back (texts of moderate length) and, for numerals that do need rounding, against from_plain."""
    r = ctx.rng
    # (a) every grid case: the datum read back is reread d
    live = [(k, p) for k, p in zip(cases, printed) if p is not None]
    got = ctx.run_impl('num', [{'op': 'sci', 'a': p} for _, p in live])
    for (k, p), g in zip(live, got):
        ctx.corr_checked += 1
        case = {'operand': dec_text(*k), 'sign': k[0], 'coefficient': str(k[1]), 'exponent': k[2], 'printed': p[:80]}
        if datum(g.get('r')) != reread(*k):
            if datum(g.get('r')) is None or Decimal(g['r']) != exact(*k) or Decimal(g['r']).is_signed() != k[0]:
                ctx.violation('reading the Display text back gives %s, not a number equal to %s' % (str(g.get('r'))[:60], dec_text(*k)), case, impl=g)
            else:
                ctx.corr_broken('datum read back vs reread', case, g.get('r'), list(map(str, reread(*k))))
    hist['readback'] = len(live)
    # (b) the Coq model of the reader on the same texts (long numerals are slow in Coq: a few of them only)
    short = [(k, p) for k, p in live if len(p) <= 90]
    r.shuffle(short)
    pick = short[:ctx.pick(1200, 12000)]
    pick += [((s, c, e), None) for s, c, e in [(False, 1, 40), (True, 12, 33), (False, 10 ** 34 - 1, 300), (True, 5, 1999)] + ([(False, 7, 6111)] if not ctx.quick else [])]
    want = ctx.run_impl('num', [{'op': 'from_string', 'a': dec_text(*k)} for k, p in pick if p is None])
    it = iter(want)
    pick = [(k, p if p is not None else next(it)['r']['p']) for k, p in pick]
    g2 = ctx.run_impl('num', [{'op': 'sci', 'a': p} for _, p in pick])
    m2 = ctx.run_model(HEADER_RB, ['read_back_sci %s' % dec_coq(*k) for k, _ in pick], shard_size=max(20, len(pick) // 16 + 1), tag='rb')
    for (k, p), g, m in zip(pick, g2, m2):
        ctx.corr_checked += 1
        mt = m.args[0] if getattr(m, 'args', None) else None
        if g.get('r') != mt:
            ctx.corr_broken('from_str(Display) vs read_back', {'operand': dec_text(*k)}, g.get('r'), mt)
    # (c) plain numerals that need rounding (35..60 digits, non-zero tail; ties; all nines) and small ones: the reader model itself
    texts = ['1' + '0' * 33 + '5', '1' + '0' * 33 + '15', '2' + '0' * 33 + '5', '9' * 35, '9' * 34 + '.5', '0.' + '0' * 10 + '9' * 35, '-' + '1' * 34 + '.5000', '-0', '0.000', '-0.0',
             '12345678901234567890123456789012345', '0.' + '0' * 6170 + '123456789', '0.' + '0' * 6176 + '5', '0.' + '0' * 6176 + '51']
    for _ in range(ctx.pick(250, 4000)):
        L = r.randint(1, 60)
        digs = ''.join(r.choice('0123456789') for _ in range(L))
        if r.random() < 0.3 and L > 34:
            digs = digs[:34] + r.choice(['5', '50', '500', '49', '51', '05']) + digs[36:][:r.randint(0, 6)]
        cut = r.randint(0, len(digs))
        ip, fp = digs[:cut] or '0', digs[cut:]
        if r.random() < 0.2:
            fp = '0' * r.randint(1, 40) + fp
        texts.append(('-' if r.random() < 0.5 else '') + ip + ('.' + fp if fp else ''))
    g3 = ctx.run_impl('num', [{'op': 'sci', 'a': t} for t in texts])
    m3 = ctx.run_model(HEADER_RB, ['from_plain_sci "%s"' % t for t in texts], shard_size=max(20, len(texts) // 16 + 1), tag='fp')
    for t, g, m in zip(texts, g3, m3):
        ctx.corr_checked += 1
        ctx.evaluations += 1
        mt = m.args[0] if getattr(m, 'args', None) else None
        it_ = g.get('r')
        if it_ in ('Infinity', '-Infinity'):
            it_ = None
        if it_ != mt:
            ctx.corr_broken('decQuadFromString vs from_plain', {'numeral': t[:100]}, g.get('r'), mt)
    hist['reader_numerals'] = len(texts)
    # (d) a numeral beyond the format is refused by from_str (Err), not turned into a non-finite number
    big = ctx.run_impl('num', [{'op': 'parse', 'a': '1' + '0' * 6145}, {'op': 'sci', 'a': '1' + '0' * 6145}, {'op': 'parse', 'a': '9' * 34 + '5' + '0' * 6110}])
    if big[0].get('err') != 'parse' or big[1].get('r') != 'Infinity' or big[2].get('err') != 'parse':
        ctx.violation('a plain numeral beyond the decimal128 range is not refused by from_str: %s' % json.dumps(big)[:200], {'op': 'parse', 'a': '1e6145 written out'}, impl=big)


def literal_cases(ctx):
    """FEEL numeric literals of up to 34 significant digits, with their exact value."""
    r = ctx.rng
    out = []
    fixed = [('0', ''), ('0', '0'), ('00012', '5000'), ('1', ''), ('', '5'), ('0', '00000015'), ('123456789012345678901234567890', '1234'),
             ('0', '0' * 40 + '1234567890123456789012345678901234'), ('9' * 34, ''), ('1' + '0' * 60, ''), ('0', '0' * 6142 + '1' * 34)]
    for _ in range(ctx.pick(300, 5000)):
        L = r.randint(1, 34)
        k = r.randint(0, L)
        digs = ''.join(r.choice('0123456789') for _ in range(L))
        ip, fp = digs[:k], digs[k:]
        if r.random() < 0.3:
            fp = '0' * r.randint(1, 30) + fp
            ip = ip.lstrip('0')
        if r.random() < 0.2:
            ip = ip + '0' * r.randint(1, 40) if ip.strip('0') else ip
            fp = fp.rstrip('0') if r.random() < 0.5 else ''
            if len((ip + fp).lstrip('0').rstrip('0')) > 34:
                continue
        fixed.append((ip, fp))
    for ip, fp in fixed:
        if ip == '' and fp == '':
            continue
        text = (ip + '.' + fp) if fp else ip
        if ip == '':
            text = '.' + fp
        sig = (ip + fp).lstrip('0')
        if len(sig.rstrip('0')) > 34 and len(sig) > 34:
            continue
        out.append(text)
    return out


def run(ctx):
    ctx.proof_gate()
    from props.c02 import refresh_c_kernel
    refresh_c_kernel()
    ctx.build_harness()
    r = ctx.rng
    # ---------------------------------------------------------------- 1. every (sign, coefficient, exponent) class through from_string
    cs = coefficients(ctx, ctx.pick(10, 12))
    es = exponents(ctx)
    cases = []
    for e in es:
        for c in (cs if -60 <= e <= 60 else r.sample(cs[:12], 3) + r.sample(cs[12:], ctx.pick(5, 3))):
            for s in ((False, True) if c % 3 != 1 or ctx.quick else (r.random() < 0.5,)):
                cases.append((s, c, e))
    corpus = [(True, 15, -8), (True, 1, -7), (False, 0, 3), (True, 0, 3), (True, 0, -2), (False, 1, 6111), (True, 10 ** 34 - 1, 6111), (True, 10 ** 34 - 1, -6176)]
    cases = corpus + cases
    reqs = []
    for s, c, e in cases:
        t = dec_text(s, c, e)
        reqs.append({'op': 'from_string', 'a': t})
        reqs.append({'op': 'sci', 'a': t})
    impl = ctx.run_impl('num', reqs)
    model = ctx.run_model(HEADER, [MODEL_TERM % (dec_coq(*k), dec_coq(*k)) for k in cases], shard_size=max(50, len(cases) // 16 + 1))
    hist = {}
    printed = [(impl[2 * i].get('r') or {}).get('p') if isinstance(impl[2 * i].get('r'), dict) else None for i in range(len(cases))]
    for i, k in enumerate(cases):
        s, c, e = k
        got, sci = impl[2 * i], impl[2 * i + 1]
        m_sci, m_print = model[i]
        m_sci, m_print = unrle(m_sci), unrle(m_print)
        ctx.evaluations += 1
        nd = len(str(c))
        branch = ('E+' if e > 0 else ('E-' if nd + e < -5 else ('int' if e == 0 else ('split' if nd + e > 0 else '0.'))))
        key = (s, nd if nd in (1, 2, 33, 34) else 17, c % 10 == 0, c == 0, branch)
        ctx.nontrivial.add(key)
        hist[branch] = hist.get(branch, 0) + 1
        case = {'operand': dec_text(s, c, e), 'sign': s, 'coefficient': str(c), 'exponent': e}
        if 'r' not in got or not isinstance(got['r'], dict):
            ctx.violation('FeelNumber::from_string/to_string crashed or returned no number: %s' % json.dumps(got)[:200], case, impl=got)
            continue
        g = got['r']
        d = exact(s, c, e)
        lf = law_failure(g['p'], g['j'], g['rb'], d)
        ctx.corr_checked += 1
        if lf:
            kind, text = lf
            ctx.violation(text, case, impl=g, model=m_print)
            continue
        if not same_value(g['n'], d):
            ctx.violation('Debug text %r does not denote the value %s' % (g['n'], d), case, impl=g)
            continue
        if sci.get('r') != m_sci:
            ctx.corr_broken('decQuadToString vs to_sci', case, sci.get('r'), m_sci)
        elif g['p'] != m_print or g['j'] != m_print:
            ctx.corr_broken('Display/jsonify vs print', case, [g['p'][:100], g['j'][:100]], (m_print or 'None')[:100])
        elif len(ctx.samples) < 4 and branch in ('E-', 'E+') and s and len(g['p']) < 60:
            ctx.sample({'operand': case['operand'], 'scientific': m_sci, 'printed': g['p']})
    # ---------------------------------------------------------------- 1b. the reader: from_str on the printed text
    read_back_section(ctx, cases, printed, hist)
    # ---------------------------------------------------------------- 2. results of arithmetic print as plain text of their value
    ops = ['add', 'sub', 'mul', 'div', 'neg', 'abs', 'round', 'floor', 'ceiling', 'sqrt', 'rem']
    areqs = []
    for _ in range(ctx.pick(1500, 40000)):
        op = r.choice(ops)
        s1, c1, e1 = r.choice(cases)
        s2, c2, e2 = r.choice(cases)
        if r.random() < 0.7:
            e1 = r.randint(-40, 40)
            e2 = r.randint(-40, 40)
        b = dec_text(s2, c2, e2) if op != 'round' else str(r.randint(-40, 40))
        areqs.append({'op': op, 'a': dec_text(s1, c1, e1), 'b': b})
    aimpl = ctx.run_impl('num', areqs)
    for q, got in zip(areqs, aimpl):
        ctx.evaluations += 1
        g = got.get('r')
        if g is None and 'r' in got:
            continue   # None from sqrt of a negative number
        if not isinstance(g, dict):
            ctx.violation('arithmetic crashed: %s' % json.dumps(got)[:200], q, impl=got)
            continue
        if g['n'] in ('Infinity', '-Infinity', 'NaN', '-NaN', 'sNaN'):
            continue   # non-finite results are the subject of C02, not of printing
        d = Decimal(g['n'])
        lf = law_failure(g['p'], g['j'], g['rb'], d)
        ctx.corr_checked += 1
        hist['arith'] = hist.get('arith', 0) + 1
        if lf:
            ctx.violation('result of %s: %s' % (q['op'], lf[1]), q, impl=g)
    # ---------------------------------------------------------------- 3. literals in FEEL text, string(), typed input data
    lits = literal_cases(ctx)
    freqs = []
    for t in lits:
        freqs.append({'e': t})
        freqs.append({'e': 'string(-%s)' % t})
    fimpl = ctx.run_impl('feel', freqs)
    xreqs = [{'op': r.choice(['xsd_decimal', 'xsd_integer', 'xsd_double', 'parse']), 'a': ('-' if i % 2 else '') + t} for i, t in enumerate(lits)]
    ximpl = ctx.run_impl('num', xreqs)
    for i, t in enumerate(lits):
        ctx.evaluations += 1
        d = Decimal('0' + t)
        representable = d == 0 or (d.adjusted() <= 6144 and d.as_tuple().exponent >= -6176)
        if not representable:
            continue
        lit, st = fimpl[2 * i], fimpl[2 * i + 1]
        case = {'literal': t}
        v = lit.get('v')
        ctx.corr_checked += 1
        hist['literal'] = hist.get('literal', 0) + 1
        if not isinstance(v, dict) or 'n' not in v:
            ctx.violation('FEEL literal %s does not evaluate to a number: %s' % (t[:60], json.dumps(lit)[:100]), case, impl=lit)
            continue
        if not same_value(v['n'], d) or not same_value(v['p'], d) or not PLAIN.match(v['p']):
            ctx.violation('FEEL literal %s evaluates to %s / prints %s' % (t[:60], v['n'], v['p'][:60]), case, impl=v)
            continue
        sv = st.get('v')
        if not isinstance(sv, str) or not PLAIN.match(sv) or not same_value(sv, d.copy_negate()):
            ctx.violation('string(-%s) = %r is not the plain text of the value' % (t[:60], sv if not isinstance(sv, str) else sv[:80]), {'expression': 'string(-%s)' % t}, impl=st)
            continue
        x = ximpl[i]
        xd = d.copy_negate() if i % 2 else d
        g = x.get('r')
        if not isinstance(g, dict):
            ctx.violation('%s("%s") is not accepted: %s' % (xreqs[i]['op'], xreqs[i]['a'][:60], json.dumps(x)[:100]), xreqs[i], impl=x)
            continue
        if not same_value(g['n'], xd) or law_failure(g['p'], g['j'], g['rb'], xd):
            ctx.violation('%s("%s") gives %s, printed %s' % (xreqs[i]['op'], xreqs[i]['a'][:60], g['n'], g['p'][:60]), xreqs[i], impl=g)
    return ctx.finish(
        rule='finite decimal128 data (sign x coefficient shapes of 1..34 digits with and without trailing zeros, zero x exponents: %s) built with '
             'FeelNumber::from_string; Display, jsonify, Debug, decQuadToString text and from_str read-back compared with the model and checked '
             'against the exact value; plus results of random arithmetic, FEEL literals of up to 34 significant digits (also under string(-x)) and '
             'xsd input conversion.  Read-back: the raw datum decQuadFromString builds from every printed text is compared with `reread` (C07_read_back_datum), '
             'with the Coq reader model read_back on texts up to 90 characters plus long ones (41..2000 digits), and from_plain with the code on plain numerals of 1..60 digits '
             'that need rounding (ties, all nines, subnormal); a numeral beyond the range is refused.  non-trivial = distinct (sign, length class, trailing zero, zero, notation branch)' % (
                 'boundary bands and random' if ctx.quick else 'every exponent -6176..6111'),
        extra_cov={'exhaustive': False, 'branch_histogram': hist, 'grid_cases': len(cases)},
        assumptions=['decQuadFromString builds exactly the datum written in the operand text (checked through the independent Debug text and read-back)',
                     'exactness is judged with CPython decimal comparisons (exact, context-free)'],
        trusted=['decNumber C library (decQuadToString / decQuadFromString): modelled by to_sci and from_plain (= denotes, then round34), sampled']
    )


def replay(ctx, path):
    obj = json.load(open(path))
    case = obj['case']
    ctx.build_harness()
    if 'operand' in case:
        got = ctx.run_impl('num', [{'op': 'from_string', 'a': case['operand']}, {'op': 'sci', 'a': case['operand']}])
        k = (case['sign'], int(case['coefficient']), case['exponent'])
        m = ctx.run_model(HEADER, [MODEL_TERM % (dec_coq(*k), dec_coq(*k))])[0]
        m = (unrle(m[0]), unrle(m[1]))
        print('operand        :', case['operand'])
        print('implementation :', json.dumps(got)[:400])
        print('model          :', str(m)[:400])
        g = got[0].get('r')
        fail = (not isinstance(g, dict)) or law_failure(g['p'], g['j'], g['rb'], exact(*k)) or g['p'] != m[1]
    elif 'op' in case:
        got = ctx.run_impl('num', [case])[0]
        print('request        :', json.dumps(case))
        print('implementation :', json.dumps(got)[:400])
        g = got.get('r')
        fail = not isinstance(g, dict) or (g['n'] not in ('Infinity', '-Infinity', 'NaN') and law_failure(g['p'], g['j'], g['rb'], Decimal(g['n'])))
    else:
        e = case.get('expression') or case['literal']
        got = ctx.run_impl('feel', [{'e': e}])[0]
        print('expression     :', e[:200])
        print('implementation :', json.dumps(got)[:400])
        v = got.get('v')
        if 'literal' in case:
            d = Decimal('0' + case['literal'])
            fail = not isinstance(v, dict) or not same_value(v.get('n'), d) or not same_value(v.get('p'), d)
        else:
            fail = not isinstance(v, str) or not PLAIN.match(v)
    print('REPRODUCED' if fail else 'not reproduced')
    return 1 if fail else 0


MANIFEST = dict(
    technique='Coq proof (case analysis over the notation branches, for every sign, coefficient and exponent) with model/code correspondence',
    text='Theorems (coq/Props/C07.v, closed under the global context) hold for every sign, every coefficient and every exponent: the printed text is '
         'produced without trap, is a JSON number without exponent, and denotes exactly the value; literal exactness; READ-BACK (C07_read_back): for every decimal128 datum the printed text, read by the model '
         'of from_str (all digits as coefficient, one rounding to 34 digits), gives a datum of the same sign and exactly the same value — unchanged when the exponent is not positive, '
         'and for longer texts (positive exponent, up to 6145 digits) only appended zeros are dropped (C07_read_back_short / _long / _datum); the behaviour of the original '
         'function is refuted on two classes. The model (decQuadToString as to-scientific-string + a transliteration of scientific_to_plain) is tied '
         'to the code by comparing Display, jsonify, the raw scientific text and the datum read back from the printed text on a grid of signs, coefficient shapes and exponents, and the laws '
         'are evaluated on the implementation output for grid values, arithmetic results, FEEL literals and xsd input.',
    note='Trusted: Coq kernel + vm_compute, hand-written model (correspondence-checked), decNumber string conversion (sampled, not verified), CPython decimal for exact comparison, harness.')
