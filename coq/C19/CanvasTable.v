(* C19 — text -> table for every regular rules-as-rows drawing: composition of the characters -> plane theorem
   (coq/C19/CanvasAssembly.v) with the plane-level round trip (coq/C19/Proofs.v).  (owner: prover-C19)
   The plane built by the canvas names its regions by their numbers, the plane `layout_rows` of the plane-level theorem by tags:
   with one header line the recogniser never compares region names, so both planes are compared after ERASING the names. *)
From Coq Require Import List NArith Bool Arith Lia.
From DV Require Import C19.Model C19.Canvas C19.CanvasDraw C19.Proofs.
From DV Require C19.CanvasProofs C19.CanvasAssembly.
Import ListNotations.

(* ================================================================== erasure of the region names *)
Definition erase (c : cell) : cell := match c with Region _ t => Region (0%N, 0%N) t | _ => c end.
Definition E (p : plane) : plane := map (map erase) p.

Lemma texts_erase r : texts (map erase r) = texts r.
Proof. induction r as [|c r IH]; [reflexivity|]. destruct c; cbn [map erase texts]; try reflexivity. now rewrite IH. Qed.
Lemma all_texts_erase p : all_texts (E p) = all_texts p.
Proof. induction p as [|r p IH]; [reflexivity|]. cbn [E map all_texts]. fold (E p). now rewrite texts_erase, IH. Qed.
Lemma find_cell_erase f r : (forall c, f (erase c) = f c) -> find_cell f (map erase r) = find_cell f r.
Proof. intro Hf. induction r as [|c r IH]; [reflexivity|]. cbn [map find_cell]. now rewrite Hf, IH. Qed.
Lemma find_plane_erase f p : (forall c, f (erase c) = f c) -> find_plane f (E p) = find_plane f p.
Proof. intro Hf. induction p as [|r p IH]; [reflexivity|]. cbn [E map find_plane]. fold (E p). now rewrite find_cell_erase, IH. Qed.
Lemma cols_erase l r row : cols l r (map erase row) = map erase (cols l r row).
Proof. unfold cols. now rewrite skipn_map, firstn_map. Qed.
Lemma rows_erase t b p : rows t b (E p) = E (rows t b p).
Proof. unfold rows, E. now rewrite skipn_map, firstn_map. Qed.
Lemma row_at_erase p y : row_at (E p) y = map erase (row_at p y).
Proof. unfold row_at, E. change (@nil cell) with (map erase []) at 1. apply map_nth. Qed.
Lemma width_erase p : width (E p) = width p.
Proof. destruct p as [|r p]; [reflexivity|]. cbn [E map width]. apply map_length. Qed.
Lemma length_erase p : length (E p) = length p.
Proof. apply map_length. Qed.
Lemma map_cols_erase l r p : map (cols l r) (E p) = E (map (cols l r) p).
Proof. unfold E. rewrite !map_map. apply map_ext. intro row. apply cols_erase. Qed.
Lemma last_erase p : last (E p) [] = map erase (last p []).
Proof. induction p as [|r p IH]; [reflexivity|]. destruct p as [|r' p]; [reflexivity|]. exact IH. Qed.
Lemma after_erase f cs : (forall c, f (erase c) = f c) -> after f (map erase cs) = map erase (after f cs).
Proof. intro Hf. induction cs as [|c cs IH]; [reflexivity|]. cbn [map after]. rewrite Hf. now destruct (f c). Qed.

Lemma is_main_erase c : is_main (erase c) = is_main c. Proof. now destruct c. Qed.
Lemma is_hcross_erase c : is_hcross (erase c) = is_hcross c. Proof. now destruct c. Qed.
Lemma is_vcross_erase c : is_vcross (erase c) = is_vcross c. Proof. now destruct c. Qed.
Lemma is_hout_erase c : is_hout (erase c) = is_hout c. Proof. now destruct c. Qed.
Lemma is_vout_erase c : is_vout (erase c) = is_vout c. Proof. now destruct c. Qed.

Section ErasePlane.
Variable parse_hp : N -> option N.
Variable parse_num : N -> option nat.

Lemma numbers_erase cs : forall n, numbers parse_num n (map erase cs) = numbers parse_num n cs.
Proof.
  induction cs as [|c cs IH]; intro n; [reflexivity|]. destruct c; cbn [map erase numbers]; try reflexivity.
  destruct (parse_num text) as [k|]; [|reflexivity]. destruct (k =? n); [apply IH|reflexivity].
Qed.

Lemma hp_placement_erase p : hp_placement parse_hp (E p) = hp_placement parse_hp p.
Proof.
  destruct p as [|[|c1 r] p]; try reflexivity.
  change (E ((c1 :: r) :: p)) with ((erase c1 :: map erase r) :: E p). cbn [hp_placement].
  assert (forall c, cell_hp parse_hp (erase c) = cell_hp parse_hp c) as Hc by (now intros []).
  rewrite Hc. destruct (cell_hp parse_hp c1); [reflexivity|].
  change ((erase c1 :: map erase r) :: E p) with (E ((c1 :: r) :: p)). rewrite last_erase.
  destruct (last ((c1 :: r) :: p) []) as [|c2 r2]; [reflexivity|]. cbn [map]. now rewrite Hc.
Qed.

Lemma rn_placement_erase p : rn_placement parse_num (E p) = rn_placement parse_num p.
Proof.
  unfold rn_placement, E. rewrite heads_map, (after_erase _ _ is_hout_erase), numbers_erase.
  fold (E p). rewrite last_erase, (after_erase _ _ is_vout_erase), numbers_erase. reflexivity.
Qed.

Lemma present_erase f p : (forall c, f (erase c) = f c) -> present f (E p) = present f p.
Proof. intro Hf. unfold present. now rewrite find_plane_erase. Qed.

Lemma orientation_erase p : orientation parse_hp parse_num (E p) = orientation parse_hp parse_num p.
Proof.
  unfold orientation. rewrite hp_placement_erase, rn_placement_erase.
  now rewrite (present_erase _ _ is_hcross_erase), (present_erase _ _ is_vcross_erase).
Qed.
End ErasePlane.

Lemma out_clause_one ow orow orow' : texts (orow 0) = texts (orow' 0) -> out_clause false 1 ow orow = out_clause false 1 ow orow'.
Proof. intro Ht. destruct ow as [|[|ow]]; cbn [out_clause]; rewrite ?Ht; reflexivity. Qed.

(* with ONE header line no region name is looked at *)
Lemma recognize_horizontal_erase p px : find_plane is_main p = Some (px, 1) -> recognize_horizontal (E p) = recognize_horizontal p.
Proof.
  intro Hm. unfold recognize_horizontal. rewrite (find_plane_erase _ _ is_main_erase), Hm.
  cbn [input_values_present]. rewrite (find_plane_erase _ _ is_hcross_erase).
  rewrite !row_at_erase, !cols_erase, !texts_erase, !length_erase, !rows_erase, !map_cols_erase, !all_texts_erase, width_erase.
  rewrite (out_clause_one _ (fun y => cols (S px) match find_plane is_hcross p with Some (qx, _) => qx | None => width p end (row_at (E p) y))
                            (fun y => cols (S px) match find_plane is_hcross p with Some (qx, _) => qx | None => width p end (row_at p y)))
    by (now rewrite row_at_erase, cols_erase, texts_erase).
  assert (ann_clause (E p) (find_plane is_hcross p) = ann_clause p (find_plane is_hcross p)) as ->; [|reflexivity].
  unfold ann_clause. destruct (find_plane is_hcross p) as [[qx qy]|]; [|reflexivity].
  now rewrite row_at_erase, width_erase, cols_erase, texts_erase, length_erase, rows_erase, map_cols_erase, all_texts_erase.
Qed.

Lemma tails_erase p : tails (E p) = E (tails p).
Proof. apply tails_map. Qed.

(* two planes that differ only in the region names are recognised alike when one of them is a rules-as-rows plane with one header line *)
Theorem recognize_plane_erased parse_hp parse_num p q hp n px :
  E p = E q -> orientation parse_hp parse_num p = Some (AsRow, hp, n) -> find_plane is_main (tails p) = Some (px, 1) ->
  recognize_plane parse_hp parse_num q = recognize_plane parse_hp parse_num p.
Proof.
  intros He Ho Hm. unfold recognize_plane.
  rewrite <- (orientation_erase parse_hp parse_num q), <- He, orientation_erase, Ho.
  assert (E (tails q) = E (tails p)) as Et by (now rewrite <- !tails_erase, He).
  assert (find_plane is_main (tails q) = Some (px, 1)) as Hq
    by (now rewrite <- (find_plane_erase _ _ is_main_erase), Et, (find_plane_erase _ _ is_main_erase)).
  now rewrite <- (recognize_horizontal_erase _ px Hq), Et, (recognize_horizontal_erase _ px Hm).
Qed.

(* ================================================================== the plane-level round trip, rule numbers read back IN RANGE only *)
Section WholeInRange.
Variable parse_hp : N -> option N.
Variable parse_num : N -> option nat.
Variables (hp_text hp : N) (num_text : nat -> N).
Hypothesis Hhp : parse_hp hp_text = Some hp.
Variable t : table.
Hypothesis Hwf : wf t = true.
Hypothesis Hrules : t_rules t <> [].
Hypothesis Hnum : forall k, 1 <= k <= length (t_rules t) -> parse_num (num_text k) = Some k.

Lemma numbers_in_range n : forall s, s + n <= length (t_rules t) ->
  numbers parse_num (S s) (map (fun i => Region (10%N, N.of_nat i) (num_text (S i))) (seq s n)) = Some (Some (s + n)).
Proof.
  induction n as [|n IH]; intros s Hs; cbn [seq map numbers]; [f_equal; f_equal; lia|].
  rewrite Hnum by lia. rewrite Nat.eqb_refl, IH by lia. f_equal. f_equal. lia.
Qed.

Lemma rn_in_range : rn_placement parse_num (layout_rows hp_text num_text t) = Some (LeftBelow (length (t_rules t))).
Proof.
  unfold rn_placement. rewrite heads_P, after_repeat by reflexivity. unfold numbers_cells. rewrite (numbers_in_range _ 0) by lia. cbn [Nat.add].
  destruct (t_rules t) as [|r rs]; [congruence|]. reflexivity.
Qed.

Lemma orientation_in_range : orientation parse_hp parse_num (layout_rows hp_text num_text t) = Some (AsRow, hp, length (t_rules t)).
Proof.
  unfold orientation. rewrite (hp_P parse_hp hp_text hp num_text Hhp), rn_in_range, no_vcross_P.
  destruct (present is_hcross (layout_rows hp_text num_text t)); reflexivity.
Qed.

Theorem roundtrip_rows_in_range :
  recognize_plane parse_hp parse_num (layout_rows hp_text num_text t) = Some (AsRow, hp, length (t_rules t), fields_of t).
Proof. unfold recognize_plane. rewrite orientation_in_range, tails_P, (roundtrip_h t Hwf). reflexivity. Qed.
End WholeInRange.

(* ================================================================== lists: segments of a row, rows by index *)
Lemma map_nth_segment {A B} (f : A -> B) pre l post dflt :
  map (fun j => f (nth j (pre ++ l ++ post) dflt)) (seq (length pre) (length l)) = map f l.
Proof.
  rewrite <- (map_length f l). apply (CanvasProofs.map_seq_eq _ (f dflt)). intros o Ho. rewrite map_length in Ho.
  rewrite app_nth2_plus, app_nth1 by assumption. symmetry. apply map_nth.
Qed.

Lemma map_const_segment {B} (f : nat -> B) c n : forall a, (forall j, a <= j < a + n -> f j = c) -> map f (seq a n) = repeat c n.
Proof.
  induction n as [|n IH]; intros a Hf; [reflexivity|]. cbn [seq map repeat]. rewrite Hf by lia. f_equal. apply IH. intros j Hj. apply Hf. lia.
Qed.
Lemma map_const_list {A B} (c : B) (l : list A) : map (fun _ => c) l = repeat c (length l).
Proof. induction l as [|a l IH]; [reflexivity|]. cbn [map length repeat]. now rewrite IH. Qed.

Lemma zip_indexed {A} (f : nat -> cell) (g : N * A -> list cell) (hh : nat -> list cell) (L : list A) : forall s,
  (forall k x, nth_error L k = Some x -> map erase (f (s + k) :: g (N.of_nat (s + k), x)) = hh (s + k)) ->
  E (zipcons (map f (seq s (length L))) (map g (combine (map N.of_nat (seq s (length L))) L))) = map hh (seq s (length L)).
Proof.
  induction L as [|x L IH]; intros s Hk; [reflexivity|].
  cbn [length seq map combine zipcons E]. f_equal.
  - specialize (Hk 0 x eq_refl). now rewrite Nat.add_0_r in Hk.
  - apply IH. intros k y Hy. specialize (Hk (S k) y Hy). now replace (S s + k) with (s + S k) by lia.
Qed.

(* ================================================================== one line of cells of the canvas plane, names erased *)
Section Rows.
Variable code : list N -> N.
Definition R (e : list N) : cell := Region (0%N, 0%N) (code e).
Definition EA (r : list ccell) : list cell := map erase (map (abs_cell code) r).

(* the line of a table with an annotation block exactly when the table has annotation names (A) *)
Definition crow (A a b c : list (list N)) : list cell :=
  map R a ++ VOut :: map R b ++ match A with [] => [] | _ => VAnn :: map R c end.

Lemma lead_none d j : j <> rd_v1 d -> (forall k, rd_v2 d = Some k -> j <> k) -> lead d j = [].
Proof.
  intros H1 H2. unfold lead. replace (j =? rd_v1 d) with false by (symmetry; now apply Nat.eqb_neq).
  destruct (rd_v2 d) as [k|]; [|reflexivity]. specialize (H2 k eq_refl). now replace (j =? k) with false by (symmetry; now apply Nat.eqb_neq).
Qed.
Lemma lead_main d j : j = rd_v1 d -> (forall k, rd_v2 d = Some k -> j <> k) -> lead d j = [CVOut].
Proof.
  intros H1 H2. unfold lead. rewrite H1, Nat.eqb_refl. rewrite <- H1.
  destruct (rd_v2 d) as [k|]; [|reflexivity]. specialize (H2 k eq_refl). now replace (j =? k) with false by (symmetry; now apply Nat.eqb_neq).
Qed.
Lemma lead_ann d j : rd_v2 d = Some j -> j <> rd_v1 d -> lead d j = [CVAnn].
Proof. intros H1 H2. unfold lead. rewrite H1, Nat.eqb_refl. now replace (j =? rd_v1 d) with false by (symmetry; now apply Nat.eqb_neq). Qed.

Definition cellR (d : rdraw) (i j : nat) : cell := R (cell_text d i j).

Definition cells_of (d : rdraw) (i : nat) (num : nat -> nat) (j : nat) : list ccell :=
  lead d j ++ [CRegion (num j) (cell_rect d i j) (cell_text d i j)].

Lemma segment_plain d i num n : forall a, (forall j, a <= j < a + n -> lead d j = []) ->
  EA (flat_map (cells_of d i num) (seq a n)) = map (cellR d i) (seq a n).
Proof.
  induction n as [|n IH]; intros a Hl; [reflexivity|]. cbn [seq flat_map map]. unfold cells_of at 1. rewrite Hl by lia. cbn [app].
  unfold EA in *. cbn [map abs_cell erase]. f_equal. apply IH. intros j Hj. apply Hl. lia.
Qed.

Lemma segment_led d i num n a c : lead d a = [c] -> (forall j, a < j < a + S n -> lead d j = []) ->
  EA (flat_map (cells_of d i num) (seq a (S n))) = erase (abs_cell code c) :: map (cellR d i) (seq a (S n)).
Proof.
  intros Ha Hl. cbn [seq flat_map]. unfold cells_of at 1. rewrite Ha. unfold EA. cbn [app map]. f_equal. cbn [abs_cell erase]. f_equal.
  apply (segment_plain d i num n (S a)). intros j Hj. apply Hl. lia.
Qed.

Lemma EA_app r1 r2 : EA (r1 ++ r2) = EA r1 ++ EA r2.
Proof. unfold EA. now rewrite !map_app. Qed.

Lemma canvas_row d i A a b c :
  nth i (rd_rows d) [] = a ++ b ++ c -> ncols d = length a + length b + length c ->
  rd_v1 d = length a -> 1 <= length b -> length c = length A ->
  rd_v2 d = match A with [] => None | _ => Some (length a + length b) end ->
  EA (plane_row d i) = crow A a b c.
Proof.
  intros Hrow Hnc Hv1 Hb Hc Hv2.
  change (plane_row d i) with (flat_map (cells_of d i (fun j => i * ncols d + j)) (seq 0 (ncols d))).
  generalize (fun j : nat => i * ncols d + j). intro num.
  unfold crow. rewrite Hnc, !seq_app, !flat_map_app, <- app_assoc, !EA_app. cbn [Nat.add].
  assert (forall pre l post, a ++ b ++ c = pre ++ l ++ post -> map (cellR d i) (seq (length pre) (length l)) = map R l) as Seg.
  { intros pre l post Eq. unfold cellR, cell_text. rewrite Hrow, Eq. apply (map_nth_segment R). }
  assert (EA (flat_map (cells_of d i num) (seq 0 (length a))) = map R a) as ->.
  { rewrite segment_plain.
    + apply (Seg [] a (b ++ c)). reflexivity.
    + intros j Hj. apply lead_none; [lia|]. intros k Hk. rewrite Hv2 in Hk. destruct A; [discriminate|]. injection Hk as <-. lia. }
  assert (EA (flat_map (cells_of d i num) (seq (length a) (length b))) = VOut :: map R b) as ->.
  { destruct (length b) as [|lb] eqn:Elb; [lia|].
    rewrite (segment_led d i num lb (length a) CVOut).
    + cbn [abs_cell erase]. f_equal. rewrite <- Elb. apply (Seg a b c). reflexivity.
    + apply lead_main; [now symmetry|]. intros k Hk. rewrite Hv2 in Hk. destruct A; [discriminate|]. injection Hk as <-. lia.
    + intros j Hj. apply lead_none; [lia|]. intros k Hk. rewrite Hv2 in Hk. destruct A; [discriminate|]. injection Hk as <-. lia. }
  assert (EA (flat_map (cells_of d i num) (seq (length a + length b) (length c))) = match A with [] => [] | _ => VAnn :: map R c end) as ->; [|reflexivity].
  destruct A as [|a0 A].
  - cbn [length] in Hc. rewrite Hc. reflexivity.
  - destruct (length c) as [|lc] eqn:Elc; [cbn [length] in Hc; lia|].
    rewrite (segment_led d i num lc (length a + length b) CVAnn).
    + cbn [abs_cell erase]. f_equal. rewrite <- Elc, <- app_length. apply (Seg (a ++ b) c []). now rewrite <- app_assoc, app_nil_r.
    + apply lead_ann; [assumption|lia].
    + intros j Hj. apply lead_none; [lia|]. intros k Hk. rewrite Hv2 in Hk. injection Hk as <-. lia.
Qed.

Definition ccross (A : list (list N)) (la lb lc : nat) : list cell :=
  repeat HOut la ++ Main :: repeat HOut lb ++ match A with [] => [] | _ => HCross :: repeat HOut lc end.

Lemma canvas_cross d A la lb lc :
  ncols d = la + lb + lc -> rd_v1 d = la -> 1 <= lb -> lc = length A ->
  rd_v2 d = match A with [] => None | _ => Some (la + lb) end ->
  EA (cross_line d) = ccross A la lb lc.
Proof.
  intros Hnc Hv1 Hb Hc Hv2. unfold EA, cross_line, ccross. rewrite !map_map.
  assert (plane_width d = la + (1 + (lb + match A with [] => 0 | _ => 1 + lc end))) as ->.
  { unfold plane_width. rewrite Hv2, Hnc. destruct A; cbn [length] in *; lia. }
  set (f := fun x : nat => erase (abs_cell code (if x =? rd_v1 d then CMain
              else match rd_v2 d with Some k => if x =? S k then CHCross else CHOut | None => CHOut end))).
  assert (forall j, j <> la -> j <> S (la + lb) -> f j = HOut) as Fo.
  { intros j J1 J2. unfold f. replace (j =? rd_v1 d) with false by (symmetry; apply Nat.eqb_neq; lia).
    rewrite Hv2. destruct A; [reflexivity|]. now replace (j =? S (la + lb)) with false by (symmetry; apply Nat.eqb_neq; lia). }
  assert (f la = Main) as Fm by (unfold f; now rewrite Hv1, Nat.eqb_refl).
  rewrite seq_app, map_app. cbn [Nat.add]. rewrite (map_const_segment f HOut la 0) by (intros; apply Fo; lia). f_equal.
  cbn [seq map]. rewrite Fm. f_equal.
  rewrite seq_app, map_app. rewrite (map_const_segment f HOut lb (S la)) by (intros; apply Fo; lia). f_equal.
  destruct A as [|a0 A]; [reflexivity|]. cbn [seq map]. f_equal.
  - unfold f. replace (S la + lb =? rd_v1 d) with false by (symmetry; apply Nat.eqb_neq; lia).
    rewrite Hv2. now replace (S la + lb =? S (la + lb)) with true by (symmetry; apply Nat.eqb_eq; lia).
  - apply map_const_segment. intros j Hj. apply Fo; lia.
Qed.
End Rows.

(* ================================================================== a drawn table: rules as rows, one header line *)
Definition rule_lengths_ok (s : stable) : bool :=
  forallb (fun r => let '(n, i, o, a) := r in
                    (length i =? length (s_ins s)) && (length o =? length (s_outs s)) && (length a =? length (s_anns s))) (s_rules s).
(* the drawing is a well-formed regular drawing (at least one rule, every text plain and as wide as its column), there is an input and
   an output, and every rule has one entry per column *)
Definition wf_stable (s : stable) : bool :=
  wf_rdraw (table_drawing s) && (1 <=? length (s_ins s)) && (1 <=? length (s_outs s)) && rule_lengths_ok s.

Definition num_of (r : list N * list (list N) * list (list N) * list (list N)) : list N := let '(n, _, _, _) := r in n.

Lemma nth_error_map_nth {A B} (f : A -> B) l k x dflt : nth_error l k = Some x -> nth k (map f l) dflt = f x.
Proof. intro Hk. apply nth_error_nth. now rewrite nth_error_map, Hk. Qed.

Section TextToTable.
Variable code : list N -> N.
Variable s : stable.
Hypothesis Hs : wf_stable s = true.

Local Notation d := (table_drawing s).
Local Notation t := (abs_table code s).
Local Notation ni := (length (s_ins s)).
Local Notation no := (length (s_outs s)).
Local Notation na := (length (s_anns s)).
Local Notation nr := (length (s_rules s)).
Local Notation hp_text := (code (s_hp s)).
Local Notation num_text := (fun k : nat => code (nth (k - 1) (map num_of (s_rules s)) [])).

Lemma stable_facts :
  wf_rdraw d = true /\ 1 <= ni /\ 1 <= no /\ 1 <= nr /\
  forall n i o a, In (n, i, o, a) (s_rules s) -> length i = ni /\ length o = no /\ length a = na.
Proof.
  unfold wf_stable in Hs. rewrite !andb_true_iff in Hs. destruct Hs as (((A & B) & C) & D).
  apply Nat.leb_le in B, C. repeat split; try assumption.
  - pose proof (CanvasProofs.m_ge d A) as Pm. unfold nrows, table_drawing in Pm. cbn [rd_rows length] in Pm. rewrite map_length in Pm. lia.
  - unfold rule_lengths_ok in D. rewrite forallb_forall in D. specialize (D _ H). cbn in D. rewrite !andb_true_iff in D.
    destruct D as ((D1 & D2) & D3). now apply Nat.eqb_eq in D1.
  - unfold rule_lengths_ok in D. rewrite forallb_forall in D. specialize (D _ H). cbn in D. rewrite !andb_true_iff in D.
    destruct D as ((D1 & D2) & D3). now apply Nat.eqb_eq in D2.
  - unfold rule_lengths_ok in D. rewrite forallb_forall in D. specialize (D _ H). cbn in D. rewrite !andb_true_iff in D.
    destruct D as ((D1 & D2) & D3). now apply Nat.eqb_eq in D3.
Qed.

Lemma d_ncols : ncols d = S ni + no + na.
Proof. unfold ncols, table_drawing. cbn [rd_ws]. rewrite map_length. cbn [length]. rewrite !app_length. lia. Qed.
Lemma d_v1 : rd_v1 d = S ni.
Proof. reflexivity. Qed.
Lemma d_v2 : rd_v2 d = match s_anns s with [] => None | _ => Some (S ni + no) end.
Proof. unfold table_drawing. cbn [rd_v2]. now destruct (s_anns s). Qed.
Lemma d_nrows : nrows d = S nr.
Proof. unfold nrows, table_drawing. cbn [rd_rows length]. now rewrite map_length. Qed.

Lemma t_wf : wf t = true.
Proof.
  destruct stable_facts as (_ & Hi & Ho & _ & Hl). unfold wf, abs_table. cbn [t_inputs t_outputs t_annotations t_rules]. rewrite !map_length.
  rewrite !andb_true_iff. repeat split; try (apply Nat.ltb_lt; lia).
  apply forallb_forall. intros r Hr. apply in_map_iff in Hr. destruct Hr as ((((n & i) & o) & a) & <- & Hin).
  cbn [r_in r_out r_ann]. rewrite !map_length. destruct (Hl n i o a Hin) as (L1 & L2 & L3). now rewrite L1, L2, L3, !Nat.eqb_refl.
Qed.
Lemma t_rules_ne : t_rules t <> [].
Proof. destruct stable_facts as (_ & _ & _ & Hr & _). cbn [abs_table t_rules]. destruct (s_rules s); [cbn in Hr; lia|discriminate]. Qed.
Lemma t_rules_length : length (t_rules t) = nr.
Proof. cbn [abs_table t_rules]. apply map_length. Qed.

Lemma t_label_row : label_row t = false.
Proof. unfold label_row, multi. cbn [abs_table t_outputs t_label]. rewrite map_length. destruct (s_outs s) as [|l [|l' r]]; reflexivity. Qed.
Lemma t_hdr : hdr t = 1.
Proof. unfold hdr. rewrite t_label_row. reflexivity. Qed.
Lemma t_top_rows : top_rows t = 1.
Proof. unfold top_rows. rewrite t_hdr. reflexivity. Qed.

Lemma sep_ann_erased (c : cell) (l : list cell) (l' : list cell) : erase c = c -> map erase l = l' ->
  map erase (sep_ann t c l) = match s_anns s with [] => [] | _ => c :: l' end.
Proof.
  intros Hc Hl. unfold sep_ann. cbn [abs_table t_annotations]. destruct (s_anns s) as [|a0 A]; [reflexivity|].
  cbn [map erase]. now rewrite Hc, Hl.
Qed.

(* the header line *)
Lemma header_erased : erase (marker hp_text) :: map erase (header_row t 0) = crow code (s_anns s) (s_hp s :: s_ins s) (s_outs s) (s_anns s).
Proof.
  destruct stable_facts as (_ & Hi & Ho & _ & _).
  assert (map erase (h_ins t 0) = map (R code) (s_ins s)) as E1.
  { unfold h_ins. rewrite t_top_rows. cbn [Nat.ltb Nat.leb]. rewrite map_map. cbn [erase].
    rewrite (map_indexed (fun x : N * N => Region (0%N, 0%N) (fst x))). cbn [abs_table t_inputs]. now rewrite map_map. }
  assert (map erase (h_outs t 0) = map (R code) (s_outs s)) as E2.
  { unfold h_outs. rewrite t_label_row, t_top_rows. cbn [andb Nat.ltb Nat.leb]. destruct (multi t) eqn:Em.
    - rewrite map_map. cbn [erase]. rewrite (map_indexed (fun x : N * N => Region (0%N, 0%N) (fst x))). cbn [abs_table t_outputs]. now rewrite map_map.
    - unfold multi in Em. cbn [abs_table t_outputs] in Em. rewrite map_length in Em. apply Nat.ltb_ge in Em.
      unfold lbl_text, indexed. cbn [abs_table t_outputs t_label].
      destruct (s_outs s) as [|l [|l' r]]; cbn [length] in *; try lia. reflexivity. }
  assert (map erase (h_anns t) = map (R code) (s_anns s)) as E3.
  { unfold h_anns. rewrite map_map. cbn [erase]. rewrite (map_indexed (fun x : N => Region (0%N, 0%N) x)). cbn [abs_table t_annotations]. now rewrite map_map. }
  unfold crow, header_row. cbn [marker erase map app]. rewrite map_app. cbn [map erase]. rewrite map_app.
  rewrite E1, E2, (sep_ann_erased VAnn _ _ eq_refl E3). reflexivity.
Qed.

(* the line of the crossings *)
Lemma cross_erased : HOut :: map erase (cross_row t) = ccross (s_anns s) (S ni) no na.
Proof.
  assert (forall {A} (l : list A), map erase (map (fun _ => HOut) l) = repeat HOut (length l)) as Hc.
  { intros A l. rewrite map_map. cbn [erase]. apply map_const_list. }
  unfold ccross, cross_row. rewrite map_app. cbn [map erase]. rewrite map_app.
  rewrite !Hc, (sep_ann_erased HCross _ _ eq_refl (Hc _ _)).
  cbn [abs_table t_inputs t_outputs t_annotations]. rewrite !map_length. reflexivity.
Qed.

(* the line of a rule *)
Lemma rule_erased k n i o a : nth_error (s_rules s) k = Some (n, i, o, a) ->
  map erase (Region (10%N, N.of_nat k) (num_text (S k)) ::
             rule_row t (N.of_nat k, {| r_in := map code i; r_out := map code o; r_ann := map code a |}))
  = crow code (s_anns s) (n :: i) o a.
Proof.
  intro Hk.
  assert (forall tag (l : list (list N)), map erase (map (fun x => Region tag x) (map code l)) = map (R code) l) as Hm.
  { intros tag l. rewrite !map_map. reflexivity. }
  unfold crow, rule_row. cbn [map erase fst snd r_in r_out r_ann app]. rewrite map_app. cbn [map erase]. rewrite map_app.
  rewrite !Hm, (sep_ann_erased VAnn _ _ eq_refl (Hm _ _)).
  replace (S k - 1) with k by lia. rewrite (nth_error_map_nth num_of _ k _ [] Hk). reflexivity.
Qed.

Lemma canvas_rule_row k n i o a : nth_error (s_rules s) k = Some (n, i, o, a) ->
  EA code (plane_row d (S k)) = crow code (s_anns s) (n :: i) o a.
Proof.
  intro Hk. destruct stable_facts as (_ & Hi & Ho & _ & Hl). destruct (Hl n i o a (nth_error_In _ _ Hk)) as (L1 & L2 & L3).
  apply canvas_row.
  - unfold table_drawing. cbn [rd_rows nth].
    now rewrite (nth_error_map_nth (fun r : list N * list (list N) * list (list N) * list (list N) => let '(n0, i0, o0, a0) := r in n0 :: i0 ++ o0 ++ a0) _ k _ [] Hk).
  - rewrite d_ncols. cbn [length]. lia.
  - rewrite d_v1. cbn [length]. lia.
  - lia.
  - assumption.
  - rewrite d_v2. cbn [length]. rewrite L1, L2. reflexivity.
Qed.

Theorem planes_agree :
  E (layout_rows hp_text num_text t) = E (map (map (abs_cell code)) (expected_plane d)).
Proof.
  destruct stable_facts as (Hd & Hi & Ho & Hr & Hl).
  unfold layout_rows, layout_h. rewrite t_hdr. cbn [repeat seq map app zipcons].
  unfold expected_plane. rewrite d_nrows. cbn [seq map].
  unfold E at 1 2. cbn [map]. fold (E (zipcons (numbers_cells num_text t) (map (rule_row t) (indexed (t_rules t))))).
  change (erase HOut) with HOut.
  f_equal; [|f_equal].
  - rewrite header_erased. symmetry. apply (canvas_row code d 0 (s_anns s) (s_hp s :: s_ins s) (s_outs s) (s_anns s)).
    + reflexivity.
    + rewrite d_ncols. cbn [length]. lia.
    + reflexivity.
    + lia.
    + reflexivity.
    + rewrite d_v2. reflexivity.
  - rewrite cross_erased. symmetry. apply (canvas_cross code d (s_anns s) (S ni) no na).
    + apply d_ncols.
    + reflexivity.
    + lia.
    + reflexivity.
    + apply d_v2.
  - unfold numbers_cells, indexed.
    rewrite (zip_indexed _ _ (fun k => EA code (plane_row d (S k))) (t_rules t) 0).
    + rewrite t_rules_length, <- seq_shift, !map_map. reflexivity.
    + intros k x Hx. cbn [Nat.add]. cbn [abs_table t_rules] in Hx. rewrite nth_error_map in Hx.
      destruct (nth_error (s_rules s) k) as [(((n & i) & o) & a)|] eqn:Hk; [|discriminate]. cbn [option_map] in Hx. injection Hx as <-.
      rewrite (canvas_rule_row k n i o a Hk). apply (rule_erased k n i o a Hk).
Qed.

Theorem text_to_table parse_hp parse_num hp :
  parse_hp hp_text = Some hp ->
  (forall k n i o a, nth_error (s_rules s) k = Some (n, i, o, a) -> parse_num (code n) = Some (S k)) ->
  exists p, canvas_to_plane code (draw d) = Some p /\
            recognize_plane parse_hp parse_num p = Some (AsRow, hp, nr, fields_of t).
Proof.
  intros Hhp Hnum. destruct stable_facts as (Hd & _).
  exists (map (map (abs_cell code)) (expected_plane d)). split; [apply (CanvasAssembly.draw_roundtrip_regular code d Hd)|].
  assert (forall k, 1 <= k <= length (t_rules t) -> parse_num (num_text k) = Some k) as Hn.
  { intros k Hk. rewrite t_rules_length in Hk. destruct k as [|k]; [lia|]. replace (S k - 1) with k by lia.
    destruct (nth_error (s_rules s) k) as [(((n & i) & o) & a)|] eqn:Ek.
    - rewrite (nth_error_map_nth num_of _ k _ [] Ek). apply (Hnum k n i o a Ek).
    - apply nth_error_None in Ek. lia. }
  rewrite (recognize_plane_erased parse_hp parse_num (layout_rows hp_text num_text t) _ hp (length (t_rules t)) (length (t_inputs t))).
  - rewrite (roundtrip_rows_in_range parse_hp parse_num hp_text hp num_text Hhp t t_wf t_rules_ne Hn). now rewrite t_rules_length.
  - apply planes_agree.
  - apply (orientation_in_range parse_hp parse_num hp_text hp num_text Hhp t t_rules_ne Hn).
  - rewrite tails_P, main_position, t_hdr. reflexivity.
Qed.
End TextToTable.
