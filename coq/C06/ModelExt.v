(* C06 — Spec layer for the EXTENDED expression language: the operator fragment of C06.Model plus
   if / then / else, for .. in .. [, ..] return, some / every .. satisfies, function (params) body, lists, contexts,
   ranges (nine bracket combinations, endpoints atoms), invocations with positional and named argument lists.
   Owner: prover-C06 (extension of builder-parse's C06.Model; the operator table lv / lc / rc / binop is reused).

   Trees, tokens, the minimal and the full renderer, a precedence-climbing parser.  No proofs here.

   The open constructs (if, for, some, every, function) are operand forms whose last expression extends as far to the
   right as possible (feel.y: the rules have the precedence of ELSE / RETURN / SATISFIES / EXTERNAL, below every operator):
   they may stand unparenthesised wherever an operand may stand, PROVIDED nothing follows that would continue an
   expression.  The renderer therefore carries, next to the level m a position admits, the flag f: "the token after this
   position continues an expression" (an operator, between, instance of, `.`, `[`, `(`). *)
From Coq Require Import List NArith Bool Arith.
From DV Require Import C06.Model.
Import ListNotations.

(* ------------------------------------------------------------------ trees and tokens *)

Inductive ropen := RoP | RoB | RoR.        (* a range opens with ( or [ or ] *)
Inductive rclose := RcP | RcB | RcL.       (* and closes with ) or ] or [ *)
Inductive quant := QSome | QEvery.

Inductive etree :=
| EAtom (a : N)                                   (* literal or bound single-word name *)
| EBin (o : binop) (l r : etree)
| ENeg (x : etree)
| EBtw (x lo hi : etree)
| EInst (x : etree) (ty : N)
| EPath (x : etree) (n : N)
| EFilt (x i : etree)
| ECall (g : etree) (args : list etree)           (* positional arguments, any number *)
| ECallN (g : etree) (a : N * etree) (args : list (N * etree))      (* named arguments, at least one *)
| EIf (c t e : etree)
| EFor (d : N * etree * option etree) (ds : list (N * etree * option etree)) (body : etree)
                                                  (* iteration contexts: variable, domain, upper end of `a .. b` *)
| EQuant (q : quant) (d : N * etree) (ds : list (N * etree)) (body : etree)
| EFun (ps : list (N * option N)) (body : etree)  (* formal parameters: name, optional built-in type *)
| EList (items : list etree)
| ECtx (entries : list (N * etree))               (* name keys *)
| ERange (o : ropen) (a b : N) (c : rclose).      (* endpoints: atoms (a name or a literal) *)

Inductive etok :=
| XAtom (a : N)
| XOp (o : binop)
| XLp | XRp | XLb | XRb | XLc | XRc
| XBetween | XBand
| XInst (ty : N)
| XDot (n : N)
| XComma | XEll
| XKey (n : N)                  (* name `:`  — context key, parameter name of a named argument *)
| XBind (n : N)                 (* name `in` — variable of an iteration / quantified context *)
| XPar (n : N) (ty : option N)  (* formal parameter: name, or name `:` type *)
| XIf | XThen | XElse | XFor | XReturn | XSome | XEvery | XSatisfies | XFun.

Definition low (t : etree) : bool :=
  match t with EIf _ _ _ | EFor _ _ _ | EQuant _ _ _ _ | EFun _ _ => true | _ => false end.

Definition elvl (t : etree) : nat :=
  match t with
  | EBin o _ _ => lv o
  | ENeg _ => lv_neg
  | EBtw _ _ _ => lv_between
  | EInst _ _ => lv_inst
  | EPath _ _ | EFilt _ _ | ECall _ _ | ECallN _ _ _ => lv_post
  | EIf _ _ _ | EFor _ _ _ | EQuant _ _ _ _ | EFun _ _ => 1
  | EAtom _ | EList _ | ECtx _ | ERange _ _ _ _ => 16
  end.

(* t needs parentheses in a position that admits level m and is followed (f) / not followed by a continuing token *)
Definition paren (m : nat) (f : bool) (t : etree) : bool := if low t then f else elvl t <? m.

Definition ropen_tok (o : ropen) : etok := match o with RoP => XLp | RoB => XLb | RoR => XRb end.
Definition rclose_tok (c : rclose) : etok := match c with RcP => XRp | RcB => XRb | RcL => XLb end.
Definition rclose_of (t : etok) : option rclose := match t with XRp => Some RcP | XRb => Some RcB | XLb => Some RcL | _ => None end.
Definition quant_tok (q : quant) : etok := match q with QSome => XSome | QEvery => XEvery end.

(* ------------------------------------------------------------------ renderers *)

(* comma-separated *)
Definition sepc (l : list (list etok)) : list etok :=
  match l with
  | [] => []
  | x :: r => x ++ flat_map (fun y => XComma :: y) r
  end.

Definition par_tok (p : N * option N) : list etok := [XPar (fst p) (snd p)].

Fixpoint rat (m : nat) (f : bool) (t : etree) {struct t} : list etok :=
  let p := paren m f t in
  let f' := if p then false else f in
  let kv := fun (q : N * etree) => match q with (k, e) => XKey k :: rat 0 false e end in
  let fd := fun (q : N * etree * option etree) =>
              match q with
              | (v, e, Some e2) => XBind v :: rat 0 false e ++ XEll :: rat 0 false e2
              | (v, e, None) => XBind v :: rat 0 false e
              end in
  let qd := fun (q : N * etree) => match q with (v, e) => XBind v :: rat 0 false e end in
  let body :=
    match t with
    | EAtom a => [XAtom a]
    | EBin o l r => rat (lc o) true l ++ XOp o :: rat (rc o) f' r
    | ENeg x => XOp Sub :: rat r_neg f' x
    | EBtw x lo hi => rat lv_between true x ++ XBetween :: rat 0 false lo ++ XBand :: rat rc_between f' hi
    | EInst x ty => rat c_post true x ++ [XInst ty]
    | EPath x n => rat c_post true x ++ [XDot n]
    | EFilt x i => rat c_post true x ++ XLb :: rat 0 false i ++ [XRb]
    | ECall g args => rat c_post true g ++ XLp :: sepc (map (rat 0 false) args) ++ [XRp]
    | ECallN g a args => rat c_post true g ++ XLp :: sepc (kv a :: map kv args) ++ [XRp]
    | EIf c a b => XIf :: rat 0 false c ++ XThen :: rat 0 false a ++ XElse :: rat 0 false b
    | EFor d ds b => XFor :: sepc (fd d :: map fd ds) ++ XReturn :: rat 0 false b
    | EQuant q d ds b => quant_tok q :: sepc (qd d :: map qd ds) ++ XSatisfies :: rat 0 false b
    | EFun ps b => XFun :: XLp :: sepc (map par_tok ps) ++ XRp :: rat 0 false b
    | EList l => XLb :: sepc (map (rat 0 false) l) ++ [XRb]
    | ECtx l => XLc :: sepc (map kv l) ++ [XRc]
    | ERange o a b c => [ropen_tok o; XAtom a; XEll; XAtom b; rclose_tok c]
    end in
  if p then XLp :: body ++ [XRp] else body.

Definition erender_min (t : etree) : list etok := rat 0 false t.

(* every operand in parentheses; atoms, lists, contexts and ranges are kept bare *)
Definition bare (t : etree) : bool :=
  match t with EAtom _ | EList _ | ECtx _ | ERange _ _ _ _ => true | _ => false end.

Fixpoint rfull (t : etree) {struct t} : list etok :=
  let p := fun (x : etree) => if bare x then rfull x else XLp :: rfull x ++ [XRp] in
  let kv := fun (q : N * etree) => match q with (k, e) => XKey k :: p e end in
  let fd := fun (q : N * etree * option etree) =>
              match q with
              | (v, e, Some e2) => XBind v :: p e ++ XEll :: p e2
              | (v, e, None) => XBind v :: p e
              end in
  let qd := fun (q : N * etree) => match q with (v, e) => XBind v :: p e end in
  match t with
  | EAtom a => [XAtom a]
  | EBin o l r => p l ++ XOp o :: p r
  | ENeg x => XOp Sub :: p x
  | EBtw x lo hi => p x ++ XBetween :: p lo ++ XBand :: p hi
  | EInst x ty => p x ++ [XInst ty]
  | EPath x n => p x ++ [XDot n]
  | EFilt x i => p x ++ XLb :: p i ++ [XRb]
  | ECall g args => p g ++ XLp :: sepc (map p args) ++ [XRp]
  | ECallN g a args => p g ++ XLp :: sepc (kv a :: map kv args) ++ [XRp]
  | EIf c a b => XIf :: p c ++ XThen :: p a ++ XElse :: p b
  | EFor d ds b => XFor :: sepc (fd d :: map fd ds) ++ XReturn :: p b
  | EQuant q d ds b => quant_tok q :: sepc (qd d :: map qd ds) ++ XSatisfies :: p b
  | EFun ps b => XFun :: XLp :: sepc (map par_tok ps) ++ XRp :: p b
  | EList l => XLb :: sepc (map p l) ++ [XRb]
  | ECtx l => XLc :: sepc (map kv l) ++ [XRc]
  | ERange o a b c => [ropen_tok o; XAtom a; XEll; XAtom b; rclose_tok c]
  end.

Definition erender_full (t : etree) : list etok := rfull t.

(* removal of the k-th opening parenthesis (counted over XLp tokens: grouping, invocation, function and range parentheses alike)
   together with the closing parenthesis that matches it by depth *)
Fixpoint edrop_close (depth : nat) (ts : list etok) : list etok :=
  match ts with
  | [] => []
  | XLp :: r => XLp :: edrop_close (S depth) r
  | XRp :: r => match depth with O => r | S d => XRp :: edrop_close d r end
  | x :: r => x :: edrop_close depth r
  end.

Fixpoint edrop_paren (k : nat) (ts : list etok) : list etok :=
  match ts with
  | [] => []
  | XLp :: r => match k with O => edrop_close 0 r | S k' => XLp :: edrop_paren k' r end
  | x :: r => x :: edrop_paren k r
  end.

Definition ecount_lp (ts : list etok) : nat := length (filter (fun x => match x with XLp => true | _ => false end) ts).

(* ------------------------------------------------------------------ precedence-climbing parser *)

Definition epres := option (etree * list etok).

(* one item, then `,` and more items: the first item, the others, what is left (beginning with the token that ended the sequence) *)
Section Seq.
  Context {A : Type}.
  Variable item : list etok -> option (A * list etok).
  Fixpoint sepseq (g : nat) (ts : list etok) : option (A * list A * list etok) :=
    match g with
    | O => None
    | S g' =>
      match item ts with
      | Some (x, XComma :: r) =>
        match sepseq g' r with
        | Some (y, ys, r') => Some (x, y :: ys, r')
        | None => None
        end
      | Some (x, r) => Some (x, [], r)
      | None => None
      end
    end.
End Seq.

Definition it_expr (pe : nat -> list etok -> epres) (ts : list etok) : option (etree * list etok) := pe 0 ts.

Definition it_kv (pe : nat -> list etok -> epres) (ts : list etok) : option (N * etree * list etok) :=
  match ts with
  | XKey k :: r => match pe 0 r with Some (e, r') => Some ((k, e), r') | None => None end
  | _ => None
  end.

Definition it_fdom (pe : nat -> list etok -> epres) (ts : list etok) : option (N * etree * option etree * list etok) :=
  match ts with
  | XBind v :: r =>
    match pe 0 r with
    | Some (a, XEll :: r1) => match pe 0 r1 with Some (b, r2) => Some ((v, a, Some b), r2) | None => None end
    | Some (a, r1) => Some ((v, a, None), r1)
    | None => None
    end
  | _ => None
  end.

Definition it_qdom (pe : nat -> list etok -> epres) (ts : list etok) : option (N * etree * list etok) :=
  match ts with
  | XBind v :: r => match pe 0 r with Some (a, r1) => Some ((v, a), r1) | None => None end
  | _ => None
  end.

Definition it_par (ts : list etok) : option (N * option N * list etok) :=
  match ts with
  | XPar n ty :: r => Some ((n, ty), r)
  | _ => None
  end.

(* `a .. b` and a closing bracket: the inside of a range after its opening bracket *)
Definition range_head (ts : list etok) : option (N * N * rclose * list etok) :=
  match ts with
  | XAtom a :: XEll :: XAtom b :: c :: r => match rclose_of c with Some rc => Some (a, b, rc, r) | None => None end
  | _ => None
  end.

Definition range_start (ts : list etok) : bool :=
  match ts with XAtom _ :: XEll :: _ => true | _ => false end.

(* the operator loop: l is the operand read so far, m the minimal level this loop may consume,
   na the level of the previous operator of this loop when it was non-associative (else 0) *)
Fixpoint eloop (pe : nat -> list etok -> epres) (g : nat) (m na : nat) (l : etree) (ts : list etok) : epres :=
  match g with
  | O => None
  | S g' =>
    match ts with
    | XOp o :: r =>
      if m <=? lv o then
        if is_non o && (lv o =? na) then None
        else match pe (rc o) r with
             | Some (x, r') => eloop pe g' m (if is_non o then lv o else 0) (EBin o l x) r'
             | None => None
             end
      else Some (l, ts)
    | XBetween :: r =>
      if m <=? lv_between then
        match pe 0 r with
        | Some (lo, XBand :: r1) =>
          match pe rc_between r1 with
          | Some (hi, r2) => eloop pe g' m 0 (EBtw l lo hi) r2
          | None => None
          end
        | _ => None
        end
      else Some (l, ts)
    | XInst ty :: r => if m <=? lv_inst then eloop pe g' m 0 (EInst l ty) r else Some (l, ts)
    | XDot n :: r => if m <=? lv_post then eloop pe g' m 0 (EPath l n) r else Some (l, ts)
    | XLb :: r =>
      if m <=? lv_post then
        match pe 0 r with
        | Some (i, XRb :: r') => eloop pe g' m 0 (EFilt l i) r'
        | _ => None
        end
      else Some (l, ts)
    | XLp :: r =>
      if m <=? lv_post then
        match r with
        | XRp :: r' => eloop pe g' m 0 (ECall l []) r'
        | XKey _ :: _ =>
          match sepseq (it_kv pe) g' r with
          | Some (a, args, XRp :: r') => eloop pe g' m 0 (ECallN l a args) r'
          | _ => None
          end
        | _ =>
          match sepseq (it_expr pe) g' r with
          | Some (a, args, XRp :: r') => eloop pe g' m 0 (ECall l (a :: args)) r'
          | _ => None
          end
        end
      else Some (l, ts)
    | _ => Some (l, ts)
    end
  end.

(* after the keyword of a binder: the contexts, the separating keyword, the body *)
Definition binder_tail {A : Type} (pe : nat -> list etok -> epres) (g : nat) (item : list etok -> option (A * list etok))
    (is_sep : etok -> bool) (mk : A -> list A -> etree -> etree) (r : list etok) : epres :=
  match sepseq item g r with
  | Some (d, ds, s :: r1) =>
    if is_sep s then match pe 0 r1 with Some (b, r2) => Some (mk d ds b, r2) | None => None end else None
  | _ => None
  end.

Definition is_return (t : etok) : bool := match t with XReturn => true | _ => false end.
Definition is_satisfies (t : etok) : bool := match t with XSatisfies => true | _ => false end.

Definition eprefix (pe : nat -> list etok -> epres) (g : nat) (ts : list etok) : epres :=
  match ts with
  | XAtom a :: r => Some (EAtom a, r)
  | XOp Sub :: r => match pe c_neg r with Some (t, r') => Some (ENeg t, r') | None => None end
  | XLp :: r =>
    match range_head r with
    | Some (a, b, c, r') => Some (ERange RoP a b c, r')
    | None => match pe 0 r with Some (t, XRp :: r') => Some (t, r') | _ => None end
    end
  | XLb :: r =>
    match range_head r with
    | Some (a, b, c, r') => Some (ERange RoB a b c, r')
    | None =>
      let items := match sepseq (it_expr pe) g r with
                   | Some (x, xs, XRb :: r') => Some (EList (x :: xs), r')
                   | _ => None
                   end in
      match r with
      | XRb :: r' => if range_start r' then items else Some (EList [], r')       (* `[ ]a..b] ]` is a list of one range *)
      | _ => items
      end
    end
  | XRb :: r =>
    match range_head r with
    | Some (a, b, c, r') => Some (ERange RoR a b c, r')
    | None => None
    end
  | XLc :: r =>
    match r with
    | XRc :: r' => Some (ECtx [], r')
    | _ => match sepseq (it_kv pe) g r with
           | Some (x, xs, XRc :: r') => Some (ECtx (x :: xs), r')
           | _ => None
           end
    end
  | XIf :: r =>
    match pe 0 r with
    | Some (c, XThen :: r1) =>
      match pe 0 r1 with
      | Some (a, XElse :: r2) =>
        match pe 0 r2 with
        | Some (b, r3) => Some (EIf c a b, r3)
        | None => None
        end
      | _ => None
      end
    | _ => None
    end
  | XFor :: r => binder_tail pe g (it_fdom pe) is_return EFor r
  | XSome :: r => binder_tail pe g (it_qdom pe) is_satisfies (EQuant QSome) r
  | XEvery :: r => binder_tail pe g (it_qdom pe) is_satisfies (EQuant QEvery) r
  | XFun :: XLp :: r =>
    match r with
    | XRp :: r1 => match pe 0 r1 with Some (b, r2) => Some (EFun [] b, r2) | None => None end
    | _ => match sepseq it_par g r with
           | Some (p, ps, XRp :: r1) => match pe 0 r1 with Some (b, r2) => Some (EFun (p :: ps) b, r2) | None => None end
           | _ => None
           end
    end
  | _ => None
  end.

Fixpoint eparse_expr (f : nat) (m : nat) (ts : list etok) {struct f} : epres :=
  match f with
  | O => None
  | S f' =>
    match eprefix (eparse_expr f') f' ts with
    | Some (l, r) => eloop (eparse_expr f') f' m 0 l r
    | None => None
    end
  end.

Definition eparse_fuel (f : nat) (ts : list etok) : option etree :=
  match eparse_expr f 0 ts with
  | Some (t, []) => Some t
  | _ => None
  end.

(* every level of recursion, every turn of the loop and every item of a sequence consumes a token: length + 1 is enough fuel
   (proved: C06.ExtFuel) *)
Definition eparse_tokens (ts : list etok) : option etree := eparse_fuel (S (length ts)) ts.

(* ------------------------------------------------------------------ the operator fragment inside the extended language *)

Fixpoint embed (t : tree) : etree :=
  match t with
  | Atom a => EAtom a
  | Bin o l r => EBin o (embed l) (embed r)
  | Neg x => ENeg (embed x)
  | Btw x lo hi => EBtw (embed x) (embed lo) (embed hi)
  | Inst x ty => EInst (embed x) ty
  | Path x n => EPath (embed x) n
  | Filt x i => EFilt (embed x) (embed i)
  | Call g a => ECall (embed g) [embed a]
  end.

Definition embed_tok (t : token) : etok :=
  match t with
  | TAtom a => XAtom a
  | TOp o => XOp o
  | TLp => XLp | TRp => XRp | TLb => XLb | TRb => XRb
  | TBetween => XBetween | TBand => XBand
  | TInst ty => XInst ty
  | TDot n => XDot n
  end.
