(* C20 — proofs about C20/Inv.v: the machine with write acquisitions and shared mutable cells, and the theorems
   `forall inv, sites_ok inv = true -> ...` with a necessity witness for every hypothesis. *)
From Coq Require Import List Arith Bool Lia.
From DV Require Import C20.Conc C20.Proofs C20.Sites C20.Inv.
Import ListNotations.

Section XP.
Context {Sg Pv : Type}.
Notation xthread := (xthread Sg Pv).
Notation xstate := (xstate Sg Pv).
Notation xinstr := (xinstr Sg Pv).

(* ---------------- one quiet thread on its own ---------------- *)
Lemma xprog_xtstep (sg : Sg) (th : xthread) : xprog (xtstep sg th) = tl (xprog th).
Proof. unfold xtstep. destruct (xprog th) as [|i r] eqn:E; [rewrite E; reflexivity|]. destruct i; reflexivity. Qed.

Lemma xtstep_fin (sg : Sg) (th : xthread) : xprog th = [] -> xtstep sg th = th.
Proof. intros H. unfold xtstep. rewrite H. reflexivity. Qed.

Lemma iter_xtstep_fin (sg : Sg) (th : xthread) n : xprog th = [] -> Nat.iter n (xtstep sg) th = th.
Proof. intros H. induction n as [|n IH]; [reflexivity|]. rewrite iter_S, IH. apply xtstep_fin, H. Qed.

Lemma length_iter_xtstep (sg : Sg) n : forall th : xthread,
  length (xprog (Nat.iter n (xtstep sg) th)) = length (xprog th) - n.
Proof.
  induction n as [|n IH]; intros th; [cbn; lia|].
  rewrite iter_S, xprog_xtstep. pose proof (IH th) as H.
  destruct (xprog (Nat.iter n (xtstep sg) th)); cbn [tl length] in *; lia.
Qed.

Lemma iter_xtstep_ge (sg : Sg) (th : xthread) n : length (xprog th) <= n ->
  Nat.iter n (xtstep sg) th = Nat.iter (length (xprog th)) (xtstep sg) th.
Proof.
  intros H. replace n with ((n - length (xprog th)) + length (xprog th)) by lia.
  rewrite iter_plus. apply iter_xtstep_fin.
  apply length_zero_iff_nil. rewrite length_iter_xtstep. lia.
Qed.

Lemma quiet_xtstep (sg : Sg) (th : xthread) : quiet (xprog th) = true -> quiet (xprog (xtstep sg th)) = true.
Proof.
  rewrite xprog_xtstep. unfold quiet. destruct (xprog th) as [|i r]; cbn [tl forallb]; [auto|].
  intros H. apply andb_true_iff in H. tauto.
Qed.

(* ---------------- the invariant: nobody writes, nobody touches a cell ---------------- *)
Definition XInv (s : xstate) : Prop := xno_writers s /\ all_quiet (xthreads s) = true.

Lemma all_quiet_nth (ths : list xthread) t th :
  all_quiet ths = true -> nth_error ths t = Some th -> quiet (xprog th) = true.
Proof.
  intros H Hn. unfold all_quiet in H. rewrite forallb_forall in H. apply H.
  eapply nth_error_In. exact Hn.
Qed.

Lemma XInv_init (sg : Sg) m (ths : list xthread) : all_quiet ths = true -> XInv (xinit sg m ths).
Proof. intros H. split; [|exact H]. intros l. cbn. split; reflexivity. Qed.

Lemma xtry_step_quiet t (s : xstate) th i rest :
  XInv s -> nth_error (xthreads s) t = Some th -> xprog th = i :: rest ->
  exists lt', xtry_step t s = XAdv (xwith s t (xmem s) lt' (xtstep (xsigma s) th)) /\
              (forall l, writer (lget l lt') = None /\ wwait (lget l lt') = []).
Proof.
  intros [Hw Hq] Hn Hp.
  pose proof (all_quiet_nth _ _ _ Hq Hn) as Hr. rewrite Hp in Hr. unfold quiet in Hr. cbn [forallb] in Hr.
  apply andb_true_iff in Hr. destruct Hr as [Hi Hr].
  unfold xtry_step. rewrite Hn, Hp. unfold xtstep. rewrite Hp. cbv zeta.
  destruct i as [w l|w l|cs f]; cbn [quiet_instr] in Hi.
  - destruct w; [discriminate Hi|]. destruct (Hw l) as [H1 H2]. rewrite H1, H2. cbn [is_none is_nil andb].
    eexists. split; [reflexivity|].
    intros l0. rewrite lget_lset. destruct (l =? l0); cbn [writer wwait]; [split; reflexivity | apply Hw].
  - destruct w; [discriminate Hi|]. destruct (Hw l) as [H1 H2]. rewrite H1, H2.
    eexists. split; [reflexivity|].
    intros l0. rewrite lget_lset. destruct (l =? l0); cbn [writer wwait]; [split; reflexivity | apply Hw].
  - destruct cs as [|c cs]; [|discriminate Hi]. cbn [creads map cwrites combine fold_left].
    eexists. split; [reflexivity|]. exact Hw.
Qed.

Lemma xsched1_cases t (s : xstate) : XInv s ->
  (xfinishedb t s = true /\ xtry_step t s = XFin) \/
  (exists th lt', nth_error (xthreads s) t = Some th /\ xfinishedb t s = false /\
                  xtry_step t s = XAdv (xwith s t (xmem s) lt' (xtstep (xsigma s) th)) /\
                  (forall l, writer (lget l lt') = None /\ wwait (lget l lt') = [])).
Proof.
  intros HI. unfold xfinishedb, xremaining.
  destruct (nth_error (xthreads s) t) as [th|] eqn:Hn.
  - destruct (xprog th) as [|i rest] eqn:Hp.
    + left. split; [reflexivity|]. unfold xtry_step. rewrite Hn, Hp. reflexivity.
    + right. destruct (xtry_step_quiet t s th i rest HI Hn Hp) as [lt' [H1 H2]].
      exists th, lt'. repeat split; try assumption; apply H2.
  - left. split; [reflexivity|]. unfold xtry_step. rewrite Hn. reflexivity.
Qed.

Lemma xsched1_XInv t (s : xstate) : XInv s -> XInv (xsched1 t s).
Proof.
  intros HI. destruct (xsched1_cases t s HI) as [[_ Hf] | (th & lt' & Hn & _ & Hs & Hl)]; unfold xsched1.
  - rewrite Hf. exact HI.
  - rewrite Hs. split; [exact Hl|]. cbn [xwith xthreads]. destruct HI as [_ Hq].
    apply forallb_upd; [exact Hq|]. apply quiet_xtstep. eapply all_quiet_nth; eassumption.
Qed.

Lemma xsched1_sigma t (s : xstate) : XInv s -> xsigma (xsched1 t s) = xsigma s.
Proof.
  intros HI. destruct (xsched1_cases t s HI) as [[_ Hf] | (th & lt' & _ & _ & Hs & _)]; unfold xsched1.
  - rewrite Hf. reflexivity.
  - rewrite Hs. reflexivity.
Qed.

Lemma xsched1_mem t (s : xstate) : XInv s -> xmem (xsched1 t s) = xmem s.
Proof.
  intros HI. destruct (xsched1_cases t s HI) as [[_ Hf] | (th & lt' & _ & _ & Hs & _)]; unfold xsched1.
  - rewrite Hf. reflexivity.
  - rewrite Hs. reflexivity.
Qed.

Lemma xsched1_nth t u (s : xstate) : XInv s ->
  nth_error (xthreads (xsched1 t s)) u =
  if t =? u then option_map (xtstep (xsigma s)) (nth_error (xthreads s) t) else nth_error (xthreads s) u.
Proof.
  intros HI. destruct (xsched1_cases t s HI) as [[Hfin Hf] | (th & lt' & Hn & _ & Hs & _)]; unfold xsched1.
  - rewrite Hf. destruct (t =? u) eqn:E; [|reflexivity]. apply Nat.eqb_eq in E. subst u.
    unfold xfinishedb, xremaining in Hfin. destruct (nth_error (xthreads s) t) as [th|]; [|reflexivity].
    cbn [option_map]. rewrite xtstep_fin; [reflexivity|]. destruct (xprog th); [reflexivity | discriminate Hfin].
  - rewrite Hs. cbn [xwith xthreads]. rewrite nth_error_upd, Hn. reflexivity.
Qed.

Lemma xrun_XInv sched : forall s : xstate, XInv s -> XInv (xrun sched s).
Proof. induction sched as [|t r IH]; intros s HI; cbn [xrun]; [exact HI|]. apply IH, xsched1_XInv, HI. Qed.

Lemma xrun_sigma sched : forall s : xstate, XInv s -> xsigma (xrun sched s) = xsigma s.
Proof.
  induction sched as [|t r IH]; intros s HI; cbn [xrun]; [reflexivity|].
  rewrite IH by (apply xsched1_XInv, HI). apply xsched1_sigma, HI.
Qed.

Lemma xrun_mem sched : forall s : xstate, XInv s -> xmem (xrun sched s) = xmem s.
Proof.
  induction sched as [|t r IH]; intros s HI; cbn [xrun]; [reflexivity|].
  rewrite IH by (apply xsched1_XInv, HI). apply xsched1_mem, HI.
Qed.

Lemma xthread_after sched t : forall s : xstate, XInv s ->
  nth_error (xthreads (xrun sched s)) t =
  option_map (Nat.iter (count t sched) (xtstep (xsigma s))) (nth_error (xthreads s) t).
Proof.
  induction sched as [|u r IH]; intros s HI; cbn [xrun count].
  - destruct (nth_error (xthreads s) t); reflexivity.
  - rewrite IH by (apply xsched1_XInv, HI). rewrite xsched1_sigma by exact HI. rewrite xsched1_nth by exact HI.
    destruct (u =? t) eqn:E; [|reflexivity]. apply Nat.eqb_eq in E. subst u.
    destruct (nth_error (xthreads s) t) as [th|]; [|reflexivity].
    cbn [option_map]. rewrite iter_swap. reflexivity.
Qed.

(* ---------------- no thread ever blocks; no deadlock ---------------- *)
Lemma xno_block_XInv t (s : xstate) : XInv s -> xfinishedb t s = false ->
  exists s', xstep t s = Some s' /\ xremaining t s' = tl (xremaining t s).
Proof.
  intros HI Hnf. destruct (xsched1_cases t s HI) as [[Hfin _] | (th & lt' & Hn & _ & Hs & _)].
  - rewrite Hfin in Hnf. discriminate Hnf.
  - unfold xstep. rewrite Hs. eexists. split; [reflexivity|].
    unfold xremaining. cbn [xwith xthreads]. rewrite nth_error_upd, Nat.eqb_refl, Hn.
    apply xprog_xtstep.
Qed.

Lemma xno_deadlock_XInv (s : xstate) : XInv s -> ~ xstuck s.
Proof.
  intros HI [[t Hnf] Hall].
  destruct (xno_block_XInv t s HI Hnf) as [s' [Hs _]].
  rewrite (Hall t Hnf) in Hs. discriminate Hs.
Qed.

(* ---------------- fair schedules finish ---------------- *)
Lemma xremaining_after sched t (s : xstate) : XInv s ->
  length (xremaining t (xrun sched s)) = length (xremaining t s) - count t sched.
Proof.
  intros HI. unfold xremaining. rewrite xthread_after by exact HI.
  destruct (nth_error (xthreads s) t) as [th|]; cbn [option_map length]; [|reflexivity].
  apply length_iter_xtstep.
Qed.

Lemma xfinishedb_length t (s : xstate) : xfinishedb t s = true <-> length (xremaining t s) = 0.
Proof. unfold xfinishedb. destruct (xremaining t s); cbn; split; intros H; try reflexivity; discriminate H. Qed.

Lemma xall_finish_XInv (s : xstate) sched : XInv s -> xfair (xthreads s) sched ->
  forall t, xfinishedb t (xrun sched s) = true.
Proof.
  intros HI Hfair t. apply xfinishedb_length. rewrite xremaining_after by exact HI.
  unfold xremaining. destruct (nth_error (xthreads s) t) as [th|] eqn:Hn; [|reflexivity].
  specialize (Hfair t th Hn). lia.
Qed.

(* ---------------- the result of a call is the result of that call made alone ---------------- *)
Lemma xresult_finished (s : xstate) sched t : XInv s ->
  xfinishedb t (xrun sched s) = true ->
  nth_error (xthreads (xrun sched s)) t =
  option_map (fun th => Nat.iter (length (xprog th)) (xtstep (xsigma s)) th) (nth_error (xthreads s) t).
Proof.
  intros HI Hfin. apply xfinishedb_length in Hfin. rewrite xremaining_after in Hfin by exact HI.
  rewrite xthread_after by exact HI. unfold xremaining in Hfin.
  destruct (nth_error (xthreads s) t) as [th|]; [|reflexivity]. cbn [option_map].
  rewrite iter_xtstep_ge by lia. reflexivity.
Qed.

Lemma xalone_spec (sg : Sg) m (ths : list xthread) t th : all_quiet ths = true -> nth_error ths t = Some th ->
  xalone sg m ths t = Some (xpriv (Nat.iter (length (xprog th)) (xtstep sg) th)).
Proof.
  intros Hq Hn. unfold xalone. rewrite Hn.
  assert (HI : XInv (xinit sg m [th])).
  { apply XInv_init. unfold all_quiet. cbn [forallb]. rewrite (all_quiet_nth _ _ _ Hq Hn). reflexivity. }
  unfold xresult. rewrite xthread_after by exact HI. cbn [xinit xthreads nth_error option_map xsigma].
  rewrite count_repeat. reflexivity.
Qed.

Lemma xisolation_XInv (sg : Sg) m (ths : list xthread) sched t : all_quiet ths = true ->
  xfinishedb t (xrun sched (xinit sg m ths)) = true ->
  xresult t (xrun sched (xinit sg m ths)) = xalone sg m ths t.
Proof.
  intros Hq Hfin. pose proof (XInv_init sg m ths Hq) as HI. unfold xresult.
  rewrite (xresult_finished _ _ _ HI Hfin). cbn [xinit xthreads xsigma].
  destruct (nth_error ths t) as [th|] eqn:Hn.
  - rewrite (xalone_spec sg m ths t th Hq Hn). reflexivity.
  - unfold xalone. rewrite Hn. reflexivity.
Qed.

(* ---------------- no lock is left held ---------------- *)
Lemma xbal_notin w l (p : list xinstr) : forall n, ~ In l (xlocks_of p) -> xbal w l n p = (n =? 0).
Proof.
  induction p as [|i r IH]; intros n Hni; [reflexivity|].
  cbn [xbal]. cbn [xlocks_of flat_map] in Hni. fold (xlocks_of r) in Hni.
  destruct (xkind i) as [[[w' k] acq]|]; [|apply IH, Hni].
  assert (Hk : k =? l = false).
  { apply Nat.eqb_neq. intro Hk. apply Hni. apply in_or_app. left. left. exact Hk. }
  rewrite Hk, andb_false_r. apply IH. intro Hin. apply Hni. apply in_or_app. right. exact Hin.
Qed.

Lemma xwell_bracketed_bal (p : list xinstr) w l : xwell_bracketed p = true -> xbal w l 0 p = true.
Proof.
  intros H. destruct (in_dec Nat.eq_dec l (xlocks_of p)) as [Hin|Hni].
  - unfold xwell_bracketed in H. rewrite forallb_forall in H. specialize (H l Hin).
    apply andb_true_iff in H. destruct w; tauto.
  - rewrite xbal_notin by exact Hni. reflexivity.
Qed.

Lemma xbal_well_bracketed (p : list xinstr) : (forall w l, xbal w l 0 p = true) -> xwell_bracketed p = true.
Proof. intros H. unfold xwell_bracketed. apply forallb_forall. intros l _. rewrite !H. reflexivity. Qed.

Definition XBal (s : xstate) : Prop :=
  forall l t, xbal false l (count t (readers (lget l (xlocks s)))) (xremaining t s) = true.

Lemma XBal_init (sg : Sg) m (ths : list xthread) : xall_well_bracketed ths = true -> XBal (xinit sg m ths).
Proof.
  intros H l t. cbn [xinit xlocks lget free_lock readers count]. unfold xremaining. cbn [xinit xthreads].
  destruct (nth_error ths t) as [th|] eqn:Hn; [|reflexivity].
  apply xwell_bracketed_bal. unfold xall_well_bracketed in H. rewrite forallb_forall in H.
  apply H. eapply nth_error_In. exact Hn.
Qed.

Lemma XBal_with (s : xstate) t m' lt' (th th' : xthread) :
  nth_error (xthreads s) t = Some th ->
  (forall l u, t =? u = false ->
     count u (readers (lget l lt')) = count u (readers (lget l (xlocks s)))) ->
  (forall l, xbal false l (count t (readers (lget l (xlocks s)))) (xprog th) = true ->
             xbal false l (count t (readers (lget l lt'))) (xprog th') = true) ->
  XBal s -> XBal (xwith s t m' lt' th').
Proof.
  intros Hn Hother Hself HB l u. specialize (HB l u). unfold xremaining in *.
  cbn [xwith xthreads xlocks]. rewrite nth_error_upd.
  destruct (t =? u) eqn:E.
  - apply Nat.eqb_eq in E. subst u. rewrite Hn in *. apply Hself. exact HB.
  - rewrite Hother by exact E. exact HB.
Qed.

Lemma xsched1_XBal t (s : xstate) : XInv s -> XBal s -> XBal (xsched1 t s).
Proof.
  intros [Hw Hq] HB. unfold xsched1, xtry_step.
  destruct (nth_error (xthreads s) t) as [th|] eqn:Hn; [|exact HB].
  destruct (xprog th) as [|i rest] eqn:Hp; [exact HB|].
  pose proof (all_quiet_nth _ _ _ Hq Hn) as Hr. rewrite Hp in Hr. unfold quiet in Hr. cbn [forallb] in Hr.
  apply andb_true_iff in Hr. destruct Hr as [Hi Hr]. cbv zeta.
  destruct i as [w l|w l|cs f]; cbn [quiet_instr] in Hi.
  - destruct w; [discriminate Hi|]. destruct (Hw l) as [H1 H2]. rewrite H1, H2. cbn [is_none is_nil andb].
    apply (XBal_with s t _ _ th _ Hn); [| |exact HB].
    + intros l0 u Hne. rewrite lget_lset. destruct (l =? l0) eqn:El; [|reflexivity].
      apply Nat.eqb_eq in El. subst l0. cbn [readers count]. rewrite Hne. reflexivity.
    + intros l0. rewrite Hp, lget_lset. cbn [xprog xbal xkind Bool.eqb andb].
      destruct (l =? l0) eqn:El; [|auto].
      apply Nat.eqb_eq in El. subst l0. cbn [readers count]. rewrite Nat.eqb_refl. auto.
  - destruct w; [discriminate Hi|]. apply (XBal_with s t _ _ th _ Hn); [| |exact HB].
    + intros l0 u Hne. rewrite lget_lset. destruct (l =? l0) eqn:El; [|reflexivity].
      apply Nat.eqb_eq in El. subst l0. cbn [readers]. apply count_remove1_other. exact Hne.
    + intros l0. rewrite Hp, lget_lset. cbn [xprog xbal xkind Bool.eqb andb].
      destruct (l =? l0) eqn:El; [|auto].
      apply Nat.eqb_eq in El. subst l0. cbn [readers]. rewrite count_remove1_same.
      destruct (count t (readers (lget l (xlocks s)))); [intro Hf; discriminate Hf | cbn [pred]; auto].
  - apply (XBal_with s t _ _ th _ Hn); [| |exact HB].
    + reflexivity.
    + intros l0. rewrite Hp. cbn [xprog xbal xkind]. auto.
Qed.

Lemma xrun_XBal sched : forall s : xstate, XInv s -> XBal s -> XBal (xrun sched s).
Proof.
  induction sched as [|t r IH]; intros s HI HB; cbn [xrun]; [exact HB|].
  apply IH; [apply xsched1_XInv, HI | apply xsched1_XBal; assumption].
Qed.

Lemma xlocks_free_XInv (sg : Sg) m (ths : list xthread) sched :
  all_quiet ths = true -> xall_well_bracketed ths = true ->
  (forall t, xfinishedb t (xrun sched (xinit sg m ths)) = true) ->
  xall_free (xrun sched (xinit sg m ths)).
Proof.
  intros Hq Hwb Hfin l.
  pose proof (xrun_XInv sched _ (XInv_init sg m ths Hq)) as [Hw _].
  pose proof (xrun_XBal sched _ (XInv_init sg m ths Hq) (XBal_init sg m ths Hwb)) as HB.
  destruct (Hw l) as [H1 H2].
  assert (H3 : readers (lget l (xlocks (xrun sched (xinit sg m ths)))) = []).
  { apply count_all_zero. intros t. specialize (HB l t). specialize (Hfin t).
    unfold xfinishedb in Hfin. destruct (xremaining t (xrun sched (xinit sg m ths))); [|discriminate Hfin].
    cbn [xbal] in HB. apply Nat.eqb_eq in HB. exact HB. }
  destruct (lget l (xlocks (xrun sched (xinit sg m ths)))) as [rs w ww]. cbn [readers writer wwait] in *.
  subst. reflexivity.
Qed.

(* ---------------- stuck states, decided ---------------- *)
Lemma xstuckb_spec (ts : list tid) (s : xstate) :
  (forall t, xfinishedb t s = false -> In t ts) -> (xstuckb ts s = true <-> xstuck s).
Proof.
  intros Hcov. unfold xstuckb, xstuck. rewrite andb_true_iff, existsb_exists, forallb_forall. split.
  - intros [[t [Hin Hnf]] Hall]. split.
    + exists t. apply negb_true_iff in Hnf. exact Hnf.
    + intros u Hu. specialize (Hall u (Hcov u Hu)). rewrite Hu in Hall. cbn [orb] in Hall.
      destruct (xstep u s); [discriminate Hall | reflexivity].
  - intros [[t Hnf] Hall]. split.
    + exists t. split; [apply Hcov, Hnf | rewrite Hnf; reflexivity].
    + intros u _. destruct (xfinishedb u s) eqn:E; [reflexivity|]. rewrite (Hall u E). reflexivity.
Qed.

Lemma xunfinished_tid t (s : xstate) : xfinishedb t s = false -> In t (xtids s).
Proof.
  intros H. unfold xtids. apply in_seq. split; [lia|]. cbn [plus]. apply nth_error_Some.
  unfold xfinishedb, xremaining in H. destruct (nth_error (xthreads s) t); [discriminate | discriminate H].
Qed.

Lemma xstuckb_tids (s : xstate) : xstuckb (xtids s) s = true <-> xstuck s.
Proof. apply xstuckb_spec. intros t. apply xunfinished_tid. Qed.

(* a stuck state stays stuck whatever is scheduled *)
Definition xle_wait (s s' : xstate) : Prop :=
  xthreads s' = xthreads s /\
  forall l, readers (lget l (xlocks s')) = readers (lget l (xlocks s)) /\
            writer (lget l (xlocks s')) = writer (lget l (xlocks s)) /\
            (wwait (lget l (xlocks s')) = [] -> wwait (lget l (xlocks s)) = []).

Lemma xstep_None_mono (s s' : xstate) u : xle_wait s s' -> xstep u s = None -> xstep u s' = None.
Proof.
  intros [Hth Hl] H. unfold xstep, xtry_step in *. rewrite Hth.
  destruct (nth_error (xthreads s) u) as [th|]; [|reflexivity].
  destruct (xprog th) as [|i rest]; [reflexivity|]. cbv zeta in *.
  destruct i as [[|] l|[|] l|cs f].
  - destruct (Hl l) as (Hr & Hw & Hww). rewrite Hw, Hr.
    destruct (is_none (writer (lget l (xlocks s))) && is_nil (readers (lget l (xlocks s))));
      [discriminate H | reflexivity].
  - destruct (Hl l) as (Hr & Hw & Hww). rewrite Hw.
    destruct (writer (lget l (xlocks s))); cbn [is_none andb] in *; [reflexivity|].
    destruct (wwait (lget l (xlocks s'))) eqn:E; cbn [is_nil] in *; [|reflexivity].
    rewrite (Hww eq_refl) in H. cbn [is_nil] in H. discriminate H.
  - destruct (writer (lget l (xlocks s))) as [w|]; [destruct (w =? u)|]; discriminate H.
  - discriminate H.
  - discriminate H.
Qed.

Lemma xle_wait_refl (s : xstate) : xle_wait s s.
Proof. split; [reflexivity|]. intros l. auto. Qed.

Lemma xsched1_le_wait t (s : xstate) : xstep t s = None -> xle_wait s (xsched1 t s).
Proof.
  unfold xstep, xsched1, xtry_step.
  destruct (nth_error (xthreads s) t) as [th|]; [|intros _; apply xle_wait_refl].
  destruct (xprog th) as [|i rest]; [intros _; apply xle_wait_refl|]. cbv zeta.
  destruct i as [[|] l|[|] l|cs f].
  - destruct (is_none (writer (lget l (xlocks s))) && is_nil (readers (lget l (xlocks s))));
      [intro H; discriminate H | intros _].
    split; [reflexivity|]. intros l0. cbn [xlocks]. rewrite lget_lset.
    destruct (l =? l0) eqn:El; [|auto]. apply Nat.eqb_eq in El. subst l0. cbn [readers writer wwait].
    repeat split. destruct (memb t (wwait (lget l (xlocks s)))); [auto|].
    intros H. apply app_eq_nil in H. destruct H as [_ H]. discriminate H.
  - destruct (is_none (writer (lget l (xlocks s))) && is_nil (wwait (lget l (xlocks s))));
      [intro H; discriminate H | intros _; apply xle_wait_refl].
  - destruct (writer (lget l (xlocks s))) as [w|]; [destruct (w =? t)|]; intro H; discriminate H.
  - intro H; discriminate H.
  - intro H; discriminate H.
Qed.

Lemma xfinished_step_None t (s : xstate) : xfinishedb t s = true -> xstep t s = None.
Proof.
  unfold xfinishedb, xremaining, xstep, xtry_step. destruct (nth_error (xthreads s) t) as [th|]; [|reflexivity].
  destruct (xprog th); [reflexivity | intro H; discriminate H].
Qed.

Lemma xstuck_sched1 t (s : xstate) : xstuck s -> xstuck (xsched1 t s).
Proof.
  intros [[u Hu] Hall].
  assert (Ht : xstep t s = None).
  { destruct (xfinishedb t s) eqn:E; [apply xfinished_step_None, E | apply Hall, E]. }
  pose proof (xsched1_le_wait t s Ht) as Hle.
  assert (Hfin : forall v, xfinishedb v (xsched1 t s) = xfinishedb v s).
  { intros v. unfold xfinishedb, xremaining. destruct Hle as [Hth _]. rewrite Hth. reflexivity. }
  split.
  - exists u. rewrite Hfin. exact Hu.
  - intros v Hv. rewrite Hfin in Hv. apply (xstep_None_mono s _ v Hle). apply Hall, Hv.
Qed.

Lemma xstuck_forever (sched : list tid) : forall s : xstate, xstuck s -> xstuck (xrun sched s).
Proof. induction sched as [|t r IH]; intros s H; cbn [xrun]; [exact H|]. apply IH, xstuck_sched1, H. Qed.

(* ---------------- what an inventory that meets the hypotheses allows ---------------- *)
Lemma site_mem_In x l : site_mem x l = true -> In x l.
Proof.
  unfold site_mem. rewrite existsb_exists. intros [y [Hin Hy]]. apply andb_true_iff in Hy. destruct Hy as [H1 H2].
  apply eqb_prop in H1. apply Nat.eqb_eq in H2. destruct x, y. cbn [fst snd] in *. subst. exact Hin.
Qed.

Lemma eval_lock_sites_read inv : sites_ok inv = true -> forall w l, In (w, l) (eval_lock_sites inv) -> w = false.
Proof.
  unfold sites_ok. induction inv as [|s r IH]; intros H w l Hin; [destruct Hin|].
  cbn [forallb] in H. apply andb_true_iff in H. destruct H as [Hs Hr].
  change (eval_lock_sites (s :: r)) with
    ((match skind s with SLock w k => if seval s then [(w, k)] else [] | _ => [] end) ++ eval_lock_sites r)%list in Hin.
  apply in_app_or in Hin. destruct Hin as [Hin|Hin]; [|exact (IH Hr w l Hin)].
  unfold eval_site_ok in Hs. destruct (skind s) as [w' k| | | | | | | |]; try destruct Hin.
  destruct (seval s); [|destruct Hin]. destruct Hin as [E|[]]. inversion E. subst w' k.
  rewrite andb_true_r in Hs. destruct w; [discriminate Hs | reflexivity].
Qed.

Lemma mut_cells_from_ok inv : sites_ok inv = true -> forall i, mut_cells_from i inv = [].
Proof.
  unfold sites_ok. induction inv as [|s r IH]; intros H i; [reflexivity|].
  cbn [forallb] in H. apply andb_true_iff in H. destruct H as [Hs Hr].
  cbn [mut_cells_from]. rewrite Hs. cbn [negb]. rewrite andb_false_r. apply IH, Hr.
Qed.

Lemma from_inv_quiet_instr inv (i : xinstr) : sites_ok inv = true -> instr_from_inv inv i = true -> quiet_instr i = true.
Proof.
  intros Hok H. destruct i as [w l|w l|cs f]; cbn [instr_from_inv quiet_instr] in *.
  - apply site_mem_In in H. rewrite (eval_lock_sites_read inv Hok w l H). reflexivity.
  - apply site_mem_In in H. rewrite (eval_lock_sites_read inv Hok w l H). reflexivity.
  - unfold mut_cells in H. rewrite (mut_cells_from_ok inv Hok) in H.
    destruct cs as [|c cs]; [reflexivity|]. cbn [forallb memb existsb andb] in H. discriminate H.
Qed.

Lemma from_inv_quiet inv (ths : list xthread) : sites_ok inv = true -> all_from_inv inv ths = true -> all_quiet ths = true.
Proof.
  intros Hok H. unfold all_from_inv, all_quiet in *. rewrite forallb_forall in *. intros th Hth.
  specialize (H th Hth). unfold prog_from_inv, quiet in *. rewrite forallb_forall in *. intros i Hi.
  apply (from_inv_quiet_instr inv i Hok). apply H, Hi.
Qed.

(* ================= the theorems, for EVERY inventory that meets the hypotheses ================= *)
Section Inventory.
Variable inv : list site.
Hypothesis Hok : sites_ok inv = true.
Variable sg : Sg.
Variable m : cells.
Variable ths : list xthread.
Hypothesis Hfrom : all_from_inv inv ths = true.

Theorem inv_no_block : forall sched t, xfinishedb t (xrun sched (xinit sg m ths)) = false ->
  exists s', xstep t (xrun sched (xinit sg m ths)) = Some s' /\
             xremaining t s' = tl (xremaining t (xrun sched (xinit sg m ths))).
Proof. intros sched t. apply xno_block_XInv, xrun_XInv, XInv_init, (from_inv_quiet inv ths Hok Hfrom). Qed.

Theorem inv_no_deadlock : forall sched, ~ xstuck (xrun sched (xinit sg m ths)).
Proof. intros sched. apply xno_deadlock_XInv, xrun_XInv, XInv_init, (from_inv_quiet inv ths Hok Hfrom). Qed.

Theorem inv_all_finish : forall sched, xfair ths sched -> forall t, xfinishedb t (xrun sched (xinit sg m ths)) = true.
Proof. intros sched Hfair. apply xall_finish_XInv; [apply XInv_init, (from_inv_quiet inv ths Hok Hfrom) | exact Hfair]. Qed.

Theorem inv_result_is_solo_result : forall sched t, xfinishedb t (xrun sched (xinit sg m ths)) = true ->
  xresult t (xrun sched (xinit sg m ths)) = xalone sg m ths t.
Proof. intros sched t. apply xisolation_XInv, (from_inv_quiet inv ths Hok Hfrom). Qed.

Theorem inv_no_lock_left_held : forall sched, xall_well_bracketed ths = true ->
  (forall t, xfinishedb t (xrun sched (xinit sg m ths)) = true) -> xall_free (xrun sched (xinit sg m ths)).
Proof. intros sched Hwb. apply xlocks_free_XInv; [apply (from_inv_quiet inv ths Hok Hfrom) | exact Hwb]. Qed.

(* the shared store and the shared cells are what they were: no call leaves anything behind for another call *)
Theorem inv_shared_state_untouched : forall sched,
  xsigma (xrun sched (xinit sg m ths)) = sg /\ xmem (xrun sched (xinit sg m ths)) = m.
Proof.
  intros sched. pose proof (XInv_init sg m ths (from_inv_quiet inv ths Hok Hfrom)) as HI.
  split; [rewrite xrun_sigma by exact HI | rewrite xrun_mem by exact HI]; reflexivity.
Qed.
End Inventory.

(* no call observes another call's inputs or intermediate results: the other threads (number, programs, private states),
   the contents of the shared cells and the two schedules are arbitrary *)
Theorem inv_non_interference (inv : list site) (sg : Sg) (m1 m2 : cells) (ths1 ths2 : list xthread) sched1 sched2 t1 t2 :
  sites_ok inv = true -> all_from_inv inv ths1 = true -> all_from_inv inv ths2 = true ->
  nth_error ths1 t1 = nth_error ths2 t2 ->
  xfinishedb t1 (xrun sched1 (xinit sg m1 ths1)) = true ->
  xfinishedb t2 (xrun sched2 (xinit sg m2 ths2)) = true ->
  xresult t1 (xrun sched1 (xinit sg m1 ths1)) = xresult t2 (xrun sched2 (xinit sg m2 ths2)).
Proof.
  intros Hok H1 H2 Heq Hf1 Hf2. unfold xresult.
  rewrite (xresult_finished _ _ _ (XInv_init sg m1 ths1 (from_inv_quiet inv ths1 Hok H1)) Hf1).
  rewrite (xresult_finished _ _ _ (XInv_init sg m2 ths2 (from_inv_quiet inv ths2 Hok H2)) Hf2).
  cbn [xinit xthreads xsigma]. rewrite Heq. reflexivity.
Qed.

End XP.

(* ================= every hypothesis is necessary ================= *)

(* 1. "no write acquisition in the evaluation phase".  For EVERY receiver l: the inventory with a read section of l and a write
   acquisition of l in the evaluation phase allows a well-bracketed program (the write acquisition nested in the read section)
   with which a single call is stuck after two turns, and stays stuck under every continuation of the schedule *)
Definition upgrade_x (l : nat) : list (xinstr unit nat) :=
  [XAcq false l; XAcq true l; XStep [] (fun _ _ n => ([], S n)); XRel true l; XRel false l].

Lemma site_mem_refl x l : In x l -> site_mem x l = true.
Proof.
  intros H. unfold site_mem. apply existsb_exists. exists x. split; [exact H|].
  rewrite eqb_reflx, Nat.eqb_refl. reflexivity.
Qed.

Lemma xbal_upgrade w l l0 : xbal w l0 0 (upgrade_x l) = true.
Proof.
  unfold upgrade_x. cbn [xbal xkind].
  destruct w; cbn [Bool.eqb andb]; destruct (l =? l0); reflexivity.
Qed.

Theorem no_eval_write_necessary : forall l,
  sites_ok (inv_eval_write l) = false /\
  forallb (fun s => is_lock_site s) (inv_eval_write l) = true /\
  prog_from_inv (inv_eval_write l) (upgrade_x l) = true /\ xwell_bracketed (upgrade_x l) = true /\
  forall sched, xstuck (xrun ([0; 0] ++ sched) (xinit tt [] [ {| xprog := upgrade_x l; xpriv := 0 |} ])).
Proof.
  intros l. split; [reflexivity|]. split; [reflexivity|]. split; [|split].
  - unfold prog_from_inv, upgrade_x, inv_eval_write. cbn [forallb instr_from_inv eval_lock_sites flat_map mk_site skind seval app].
    rewrite !site_mem_refl by (cbn; auto). reflexivity.
  - apply xbal_well_bracketed. intros w l0. apply xbal_upgrade.
  - intros sched.
    assert (H : xstuck (xrun [0; 0] (xinit tt [] [ {| xprog := upgrade_x l; xpriv := 0 |} ]))).
    { apply xstuckb_tids. unfold upgrade_x, xtids, xstuckb, xfinishedb, xremaining, xstep. cbn [xinit xrun].
      unfold xsched1 at 2. unfold xtry_step. cbn. unfold xsched1, xtry_step. cbn. rewrite Nat.eqb_refl. cbn.
      rewrite ?Nat.eqb_refl. cbn. reflexivity. }
    assert (Happ : forall a b (s : xstate unit nat), xrun (a ++ b) s = xrun b (xrun a s)).
    { induction a as [|x a IH]; intros b s; [reflexivity|]. cbn [app xrun]. apply IH. }
    rewrite Happ. apply xstuck_forever. exact H.
Qed.

(* 1b. the lock is writer-preferring: a write acquisition need not be nested in the caller's own read section.  A call that
   re-enters a read section (as the nested decision evaluation does) and another call that takes the write lock once:
   both are stuck after the schedule [0; 1; 0] *)
Definition nested_reader_x (l : nat) : list (xinstr unit nat) :=
  [XAcq false l; XAcq false l; XStep [] (fun _ _ n => ([], S n)); XRel false l; XRel false l].
Definition a_writer_x (l : nat) : list (xinstr unit nat) :=
  [XAcq true l; XStep [] (fun _ _ n => ([], S n)); XRel true l].

Theorem waiting_writer_blocks_nested_reader :
  prog_from_inv (inv_eval_write 6) (nested_reader_x 6) = true /\ prog_from_inv (inv_eval_write 6) (a_writer_x 6) = true /\
  xwell_bracketed (nested_reader_x 6) = true /\ xwell_bracketed (a_writer_x 6) = true /\
  forall sched, xstuck (xrun ([0; 1; 0] ++ sched)
     (xinit tt [] [ {| xprog := nested_reader_x 6; xpriv := 0 |}; {| xprog := a_writer_x 6; xpriv := 0 |} ])).
Proof.
  split; [vm_compute; reflexivity|]. split; [vm_compute; reflexivity|].
  split; [vm_compute; reflexivity|]. split; [vm_compute; reflexivity|].
  intros sched.
  assert (Happ : forall a b (s : xstate unit nat), xrun (a ++ b) s = xrun b (xrun a s)).
  { induction a as [|x a IH]; intros b s; [reflexivity|]. cbn [app xrun]. apply IH. }
  rewrite Happ. apply xstuck_forever. apply xstuckb_tids. vm_compute. reflexivity.
Qed.

(* 2. "no shared mutable state".  For EVERY site that is not a lock acquisition and that the predicate rejects (a static with
   interior mutability, static mut, thread_local, unsafe Send / Sync, a shared decimal context, a Mutex / Atomic field, a
   missing file), the inventory holding just that site allows two calls without any lock for which the result of call 0
   under the schedule [1; 0] is not the result of that call made alone *)
Definition ticket_call (cs : list nat) : xthread unit nat := {| xprog := [XStep cs ticket]; xpriv := 7 |}.

Theorem no_shared_mutable_necessary : forall k,
  is_lock_site (mk_site k true) = false -> eval_site_ok (mk_site k true) = false ->
  sites_ok (inv_one k) = false /\ mut_cells (inv_one k) = [0] /\
  all_from_inv (inv_one k) [ticket_call [0]; ticket_call [0]] = true /\
  xall_well_bracketed [ticket_call [0]; ticket_call [0]] = true /\
  (forall t, xfinishedb t (xrun [1; 0] (xinit tt [0] [ticket_call [0]; ticket_call [0]])) = true) /\
  xresult 0 (xrun [1; 0] (xinit tt [0] [ticket_call [0]; ticket_call [0]])) = Some 1 /\
  xalone tt [0] [ticket_call [0]; ticket_call [0]] 0 = Some 0.
Proof.
  intros k Hl Hk.
  assert (Hm : mut_cells (inv_one k) = [0]).
  { unfold mut_cells, inv_one. cbn [mut_cells_from]. rewrite Hl, Hk. reflexivity. }
  split; [unfold sites_ok, inv_one; cbn [forallb]; rewrite Hk; reflexivity|].
  split; [exact Hm|].
  split; [unfold all_from_inv, prog_from_inv, ticket_call; cbn [forallb xprog instr_from_inv]; rewrite Hm; reflexivity|].
  split; [reflexivity|].
  split; [intros [|[|t]]; try reflexivity; unfold xfinishedb, xremaining; cbn; destruct t; reflexivity|].
  split; reflexivity.
Qed.

(* every kind of site other than a lock acquisition that the predicate rejects is covered by the statement above *)
Theorem rejected_site_kinds :
  forall k, is_lock_site (mk_site k true) = false -> eval_site_ok (mk_site k true) = false ->
  k = SStatic true \/ k = SStaticMut \/ k = SThreadLocal \/ k = SUnsafeSendSync \/ k = SCtxUse false \/ k = SFfiCtx false \/
  k = SField true \/ k = SMissingFile.
Proof.
  intros k Hl Hk. destruct k as [w l|[|]| | | |[|]|[|]|[|]|]; cbn in Hl, Hk; try discriminate; tauto.
Qed.

(* 3. "every guard is released" (bracketing as extracted): a read-only call that keeps a guard leaves the lock held *)
Theorem bracketing_necessary :
  let inv := [mk_site (SLock false 6) true] in
  let p : list (xinstr unit nat) := [XAcq false 6; XStep [] (fun _ _ n => ([], S n))] in
  sites_ok inv = true /\ prog_from_inv inv p = true /\ xwell_bracketed p = false /\
  (forall t, xfinishedb t (xrun [0; 0] (xinit tt [] [ {| xprog := p; xpriv := 0 |} ])) = true) /\
  lget 6 (xlocks (xrun [0; 0] (xinit tt [] [ {| xprog := p; xpriv := 0 |} ]))) <> free_lock.
Proof.
  cbv zeta. split; [reflexivity|]. split; [reflexivity|]. split; [reflexivity|].
  split; [intros [|t]; try reflexivity; unfold xfinishedb, xremaining; cbn; destruct t; reflexivity|]. vm_compute. discriminate.
Qed.
