(* C06 — theorems about the Spec of coq/C06/Model.v (all trees, all strings; no bound).  Owner: builder-parse. *)
From Coq Require Import List NArith Bool Arith Lia.
From DV Require Import C06.Model.
Import ListNotations.

(* ------------------------------------------------------------------ string literals *)

(* U+1F64F written as the surrogate pair 🙏: the repaired decoder gives the character,
   the original one (last byte masked with 0xFF) produced an invalid UTF-8 sequence and the literal was rejected *)
Definition surrogate_witness : list N := [92; 117; 68; 56; 51; 68; 92; 117; 68; 69; 52; 70]%N.

Lemma unescape_surrogate_witness : unescape surrogate_witness = Some [128591%N].
Proof. vm_compute. reflexivity. Qed.

Lemma unescape_orig_surrogate_witness : unescape_orig surrogate_witness = None.
Proof. vm_compute. reflexivity. Qed.
