(* C13 — the parser's handling of the PARSING scope (feel-parser/src/parser.rs: action_context_begin/_entry/_end,
   action_for_begin / action_iteration_context_variable_name / action_for, action_some_begin / action_every_begin /
   action_quantified_expression_variable_name / action_some / action_every, action_formal_parameters_begin /
   action_formal_parameter_with(out)_type / action_function_body; lexer.rs push_to_scope / pop_from_scope /
   add_name_to_scope).  `pacts e` is the sequence of scope actions the parser performs while it parses the
   text of e successfully; the check compares it with the action trace of the real parser.  No proofs here. *)
From Coq Require Import List ZArith NArith Bool.
From DV Require Import C01.Syntax.
Import ListNotations.

Inductive pact := PPush | PPop | PAdd (n : N).

Fixpoint pacts (fuel : nat) (e : expr) : list pact :=
  match fuel with O => [] | S f =>
  let tacts := fun t => match t with
                        | TVal x | TCmp _ x => pacts f x
                        | TRange lo _ hi _ => pacts f lo ++ pacts f hi end in
  let dacts := fun d => match d with DList x => pacts f x | DRange lo hi => pacts f lo ++ pacts f hi end in
  match e with
  | ENull | EBool _ | ENum _ | EStr _ | EName _ => []
  | EBin _ a b => pacts f a ++ pacts f b
  | ENeg a => pacts f a
  | EIf c t e' => pacts f c ++ pacts f t ++ pacts f e'
  | EBetween x lo hi => pacts f x ++ pacts f lo ++ pacts f hi
  | EIn x ts => pacts f x ++ flat_map tacts ts
  | EInList x l => pacts f x ++ pacts f l
  | EList es => flat_map (pacts f) es
  | ECtx es => PPush :: flat_map (fun ke => pacts f (snd ke) ++ [PAdd (fst ke)]) es ++ [PPop]
  | EPath e' _ => pacts f e'
  | EFilter e' g => pacts f e' ++ pacts f g
  | EFor ds body => PPush :: PAdd n_partial :: flat_map (fun nd => PAdd (fst nd) :: dacts (snd nd)) ds ++ pacts f body ++ [PPop]
  | ESome ds body | EEvery ds body => PPush :: flat_map (fun nd => PAdd (fst nd) :: pacts f (snd nd)) ds ++ pacts f body ++ [PPop]
  | EFun ps body => PPush :: map PAdd (map fst ps) ++ pacts f body ++ [PPop]
  | ECall fe args => pacts f fe ++ flat_map (pacts f) args
  | ECallN fe nargs => pacts f fe ++ flat_map (fun ne => pacts f (snd ne)) nargs
  end end.

(* the parsing scope as the parser sees it: a stack of name sets (head = top) *)
Definition pscope := list (list N).
Definition pstep (S : pscope) (a : pact) : pscope :=
  match a with
  | PPush => [] :: S
  | PPop => tl S
  | PAdd n => match S with c :: r => (n :: c) :: r | [] => [] end
  end.
Definition pexec (acts : list pact) (S : pscope) : pscope := fold_left pstep acts S.
