(* C06 — the committed LALR(1) tables run by a generic driver (ImplModel of feel-parser/src/parser.rs lines 155-316
   and of the semantic actions of the operator fragment), over Gen/LalrTables.v which is regenerated from
   feel-parser/src/lalr.rs on every run.  Owner: builder-parse.  No proofs here. *)
From Coq Require Import List NArith ZArith Bool Arith String FMapPositive.
From DV Require Import Gen.LalrTables C06.Model.
Import ListNotations.
Open Scope Z_scope.

(* a token of the real parser: (TokenType number, payload of a name / numeral / type) *)
Definition ltok : Type := (Z * N)%type.

Inductive cst := Leaf (t : Z) (p : N) | Node (r : Z) (cs : list cst).

(* table look-up: the arrays are turned (by computation, once) into binary tries; out of range gives 0 like `nth` *)
Definition trie_of (l : list Z) : PositiveMap.t Z :=
  fst (fold_left (fun acc x => (PositiveMap.add (snd acc) x (fst acc), Pos.succ (snd acc))) l (PositiveMap.empty Z, 1%positive)).

Definition zn (m : PositiveMap.t Z) (i : Z) : Z :=
  if i <? 0 then 0 else match PositiveMap.find (Z.to_pos (i + 1)) m with Some x => x | None => 0 end.

Definition t_translate := Eval vm_compute in trie_of yy_translate.
Definition t_pact := Eval vm_compute in trie_of yy_pact.
Definition t_def_act := Eval vm_compute in trie_of yy_def_act.
Definition t_p_goto := Eval vm_compute in trie_of yy_p_goto.
Definition t_def_goto := Eval vm_compute in trie_of yy_def_goto.
Definition t_table := Eval vm_compute in trie_of yy_table.
Definition t_check := Eval vm_compute in trie_of yy_check.
Definition t_r1 := Eval vm_compute in trie_of yy_r1.
Definition t_r2 := Eval vm_compute in trie_of yy_r2.

Fixpoint popn {A} (n : nat) (l : list A) : list A * list A :=
  match n, l with
  | O, _ => ([], l)
  | S k, x :: xs => let '(a, b) := popn k xs in (a ++ [x], b)
  | S k, [] => ([], [])
  end.

Inductive res := Accept (ts : list cst) | SyntaxError | OutOfFuel | Stuck.

(* Action::Reduce: pop yy_r2[rule] states, goto on the left-hand side *)
Definition do_reduce (rule : Z) (ss : list Z) (ts : list cst) : option (list Z * list cst) :=
  let len := Z.to_nat (zn t_r2 rule) in
  let '(_, ss') := popn len ss in
  let '(kids, ts') := popn len ts in
  match ss' with
  | [] => None
  | top :: _ =>
    let lhs := zn t_r1 rule - yy_n_tokens in
    let i := zn t_p_goto lhs + top in
    let ns := if (0 <=? i) && (i <=? yy_last) && (zn t_check i =? top) then zn t_table i else zn t_def_goto lhs in
    Some (ns :: ss', Node rule kids :: ts')
  end.

(* the loop of Parser::parse; the lookahead is the head of toks (end of input = token 0) *)
Fixpoint run (fuel : nat) (ss : list Z) (ts : list cst) (toks : list ltok) : res :=
  match fuel with
  | O => OutOfFuel
  | S f =>
    match ss with
    | [] => Stuck
    | st :: _ =>
      if st =? yy_final then Accept ts else
      let dflt :=
        let r := zn t_def_act st in
        if r =? 0 then SyntaxError else
        match do_reduce r ss ts with Some (ss', ts') => run f ss' ts' toks | None => Stuck end in
      let n0 := zn t_pact st in
      if n0 =? yy_pact_n_inf then dflt else
      let '(tok, pay) := match toks with [] => (0, 0%N) | t :: _ => t end in
      let sym := if tok <=? 0 then 0 else zn t_translate tok in
      let n := n0 + sym in
      if (n <? 0) || (yy_last <? n) || negb (zn t_check n =? sym) then dflt else
      let a := zn t_table n in
      if a <=? 0 then
        if a =? yy_table_n_inf then SyntaxError else
        match do_reduce (- a) ss ts with Some (ss', ts') => run f ss' ts' toks | None => Stuck end
      else run f (a :: ss) (Leaf tok pay :: ts) (tl toks)
    end
  end.

Definition lr_parse (toks : list ltok) : res := run (40 * S (List.length toks)) [0] [] toks.

(* ------------------------------------------------------------------ semantic actions of the operator fragment *)

(* the node stack holds trees; a positional parameter list is kept apart like AstNode::PositionalParameters *)
Inductive sval := SV (t : tree) | SParams (ts : list tree).

Definition action_of (rule : Z) : string :=
  match find (fun p => fst p =? rule) rule_actions with Some (_, a) => a | None => EmptyString end.

Definition last_payload (kids : list cst) : option N :=
  match rev kids with Leaf _ p :: _ => Some p | _ => None end.

Definition first_payload (kids : list cst) : option N :=
  match kids with Leaf _ p :: _ => Some p | _ => None end.

Definition bin_action (o : binop) (st : list sval) : option (list sval) :=
  match st with SV r :: SV l :: st' => Some (SV (Bin o l r) :: st') | _ => None end.

Definition binop_of_action (a : string) : option binop :=
  if String.eqb a "disjunction" then Some Or else
  if String.eqb a "conjunction" then Some And else
  if String.eqb a "comparison_eq" then Some Eq else
  if String.eqb a "comparison_nq" then Some Nq else
  if String.eqb a "comparison_lt" then Some Lt else
  if String.eqb a "comparison_le" then Some Le else
  if String.eqb a "comparison_gt" then Some Gt else
  if String.eqb a "comparison_ge" then Some Ge else
  if String.eqb a "comparison_in" then Some InOp else
  if String.eqb a "subtraction" then Some Sub else
  if String.eqb a "addition" then Some Add else
  if String.eqb a "multiplication" then Some Mul else
  if String.eqb a "division" then Some Div else
  if String.eqb a "exponentiation" then Some Exp else None.

Definition apply_action (rule : Z) (kids : list cst) (st : list sval) : option (list sval) :=
  let a := action_of rule in
  match binop_of_action a with
  | Some o => bin_action o st
  | None =>
    if String.eqb a "negation" then match st with SV x :: st' => Some (SV (Neg x) :: st') | _ => None end else
    if String.eqb a "between" then match st with SV h :: SV l :: SV x :: st' => Some (SV (Btw x l h) :: st') | _ => None end else
    if String.eqb a "built_in_type_name" then match last_payload kids with Some p => Some (SV (Atom p) :: st) | None => None end else
    if String.eqb a "instance_of" then match st with SV (Atom ty) :: SV x :: st' => Some (SV (Inst x ty) :: st') | _ => None end else
    if String.eqb a "name" || String.eqb a "literal_numeric" then match last_payload kids with Some p => Some (SV (Atom p) :: st) | None => None end else
    if String.eqb a "path" then match st, last_payload kids with SV x :: st', Some n => Some (SV (Path x n) :: st') | _, _ => None end else
    if String.eqb a "path_names" then
      match first_payload kids, last_payload kids with Some x, Some n => Some (SV (Path (Atom x) n) :: st) | _, _ => None end else
    if String.eqb a "filter" then match st with SV i :: SV x :: st' => Some (SV (Filt x i) :: st') | _ => None end else
    if String.eqb a "positional_parameters_tail" then
      match st with
      | SParams xs :: SV x :: st' => Some (SParams (x :: xs) :: st')
      | SV x :: st' => Some (SParams [x] :: st')
      | _ => None
      end else
    if String.eqb a "function_invocation" then match st with SParams [x] :: SV f :: st' => Some (SV (Call f x) :: st') | _ => None end else
    Some st
  end.

(* post-order walk = the order in which the real parser runs its actions *)
Fixpoint eval_cst (fuel : nat) (c : cst) (st : list sval) : option (list sval) :=
  match fuel with
  | O => None
  | S f =>
    match c with
    | Leaf _ _ => Some st
    | Node r kids =>
      match fold_left (fun acc k => match acc with Some s => eval_cst f k s | None => None end) kids (Some st) with
      | Some s => apply_action r kids s
      | None => None
      end
    end
  end.

Definition lr_tree (toks : list ltok) : option tree :=
  match lr_parse toks with
  | Accept ts =>
    match fold_left (fun acc k => match acc with Some s => eval_cst 200 k s | None => None end) (rev ts) (Some []) with
    | Some [SV t] => Some t
    | _ => None
    end
  | _ => None
  end.

(* ------------------------------------------------------------------ Spec tokens -> tokens of the real parser *)

Definition tok_of_binop (o : binop) : Z :=
  match o with
  | Or => tok_Or | And => tok_And | Eq => tok_Eq | Nq => tok_Nq | Lt => tok_Lt | Le => tok_Le | Gt => tok_Gt | Ge => tok_Ge
  | InOp => tok_In | Sub => tok_Minus | Add => tok_Plus | Mul => tok_Mul | Div => tok_Div | Exp => tok_Exp
  end.

(* odd atoms are names, even atoms numerals *)
Definition encode1 (t : token) : list ltok :=
  match t with
  | TAtom a => [(if N.odd a then tok_Name else tok_Numeric, a)]
  | TOp o => [(tok_of_binop o, 0%N)]
  | TLp => [(tok_LeftParen, 0%N)] | TRp => [(tok_RightParen, 0%N)]
  | TLb => [(tok_LeftBracket, 0%N)] | TRb => [(tok_RightBracket, 0%N)]
  | TBetween => [(tok_Between, 0%N)] | TBand => [(tok_BetweenAnd, 0%N)]
  | TInst ty => [(tok_Instance, 0%N); (tok_Of, 0%N); (tok_BuiltInTypeName, ty)]
  | TDot n => [(tok_Dot, 0%N); (tok_Name, n)]
  end.

Definition encode (ts : list token) : list ltok := (tok_StartExpression, 0%N) :: flat_map encode1 ts.

Definition tables_tree (ts : list token) : option tree := lr_tree (encode ts).

(* the committed tables and the Spec parser agree on a token list (same tree, or both reject) *)
Definition agree (ts : list token) : bool := otree_eqb (tables_tree ts) (parse_tokens ts).

(* ------------------------------------------------------------------ all ordered pairs and triples of operators *)

(* an operator item sits after an operand; infix items are followed by the next operand (plain or negated) *)
Inductive item :=
| IBin (o : binop) (neg : bool)
| IBetween (neg : bool)          (* between <atom> and <next operand> *)
| IInst | IDot | IFilt | ICall.  (* postfix: no operand follows *)

Definition all_binops : list binop := [Or; And; Eq; Nq; Lt; Le; Gt; Ge; InOp; Sub; Add; Mul; Div; Exp].

Definition all_items : list item :=
  flat_map (fun o => [IBin o false; IBin o true]) all_binops ++ [IBetween false; IBetween true; IInst; IDot; IFilt; ICall].

Definition operand (k : N) (neg : bool) : list token := if neg then [TOp Sub; TAtom k] else [TAtom k].

(* operands are numbered 1, 3, 5, ... (names); auxiliary atoms are even (numerals) *)
Definition item_tokens (k : N) (i : item) : list token :=
  match i with
  | IBin o neg => TOp o :: operand k neg
  | IBetween neg => TBetween :: TAtom 100 :: TBand :: operand k neg
  | IInst => [TInst 7]
  | IDot => [TDot 9]
  | IFilt => [TLb; TAtom 102; TRb]
  | ICall => [TLp; TAtom 104; TRp]
  end.

Definition chain (neg0 : bool) (is : list item) : list token :=
  operand 1 neg0 ++ List.concat (map (fun p => item_tokens (2 * N.of_nat (fst p) + 3)%N (snd p)) (combine (seq 0 (List.length is)) is)).

(* nested so that no long list is ever built: 2 * 34^2 = 2312 pairs, 2 * 34^3 = 78608 triples *)
Definition for_pairs {A} (f : bool -> item -> item -> A) : list (list (list A)) :=
  map (fun n => map (fun i => map (fun j => f n i j) all_items) all_items) [false; true].

Definition pairs_agree : bool :=
  forallb (fun n => forallb (fun i => forallb (fun j => agree (chain n [i; j])) all_items) all_items) [false; true].

Definition triples_agree : bool :=
  forallb (fun n => forallb (fun i => forallb (fun j => forallb (fun k => agree (chain n [i; j; k])) all_items) all_items) all_items) [false; true].

Definition pair_disagreements : list (list token) :=
  flat_map (fun n => flat_map (fun i => flat_map (fun j => let ts := chain n [i; j] in if agree ts then [] else [ts]) all_items) all_items) [false; true].

Definition triple_disagreements : list (list token) :=
  flat_map (fun n => flat_map (fun i => flat_map (fun j => flat_map (fun k =>
    let ts := chain n [i; j; k] in if agree ts then [] else [ts]) all_items) all_items) all_items) [false; true].

(* acceptance by the committed tables of an arbitrary token sequence of the whole language (no semantic actions) *)
Definition accepts (toks : list ltok) : bool := match lr_parse toks with Accept _ => true | _ => false end.
